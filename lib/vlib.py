"""Shared machinery of the neptune TLA+ verification framework.

Exit codes of a check (see DESIGN.md 3.6):
  0  specification model-checked and every trace recorded from the real code accepted
     (possibly with KNOWN-FINDING lines)
  1  VIOLATION: a trace recorded from the real code is rejected by the specification
  2  machinery problem (spec error, build failure, harness crash, timeout) - says nothing
     about neptune
"""
import argparse
import hashlib
import json
import os
import re
import shutil
import subprocess
import sys
import time

ROOT = os.path.dirname(os.path.dirname(os.path.abspath(__file__)))
REPO = os.environ.get("VERIF_REPO", "/repo")
GOENV = {
    "GOFLAGS": "-mod=mod", "GOPROXY": "off", "GOSUMDB": "off", "GOTOOLCHAIN": "local",
}
TLA_JAR = "/opt/veriftools/tla/tla2tools.jar:/opt/veriftools/tla/CommunityModules-deps.jar"


class MachineryError(Exception):
    pass


def log(*a):
    print(*a, flush=True)


class Ctx:
    def __init__(self, pid, argv=None):
        ap = argparse.ArgumentParser(prog="check " + pid)
        ap.add_argument("--tier", default=os.environ.get("VERIF_TIER", "quick"),
                        choices=["quick", "thorough"])
        ap.add_argument("--replay", default=None)
        ap.add_argument("--seed", type=int, default=None)
        ap.add_argument("--keep", action="store_true", help="keep build directory")
        args = ap.parse_args(argv)
        self.pid = pid
        self.tier = args.tier
        self.replay = args.replay
        self.keep = args.keep
        seed = args.seed
        if seed is None:
            try:
                seed = int(os.environ.get("VERIF_SEED", "1"))
            except ValueError:
                seed = 1
        self.seed = seed % (2 ** 31 - 1) or 1
        self.t0 = time.time()
        # one scratch directory per run (concurrent runs of the same check must not collide);
        # directories left behind by runs whose process is gone are removed
        broot = os.path.join(ROOT, "build")
        os.makedirs(broot, exist_ok=True)
        for d in os.listdir(broot):
            m = re.match(r"^%s\.(\d+)$" % re.escape(pid), d)
            if (m and not os.path.exists("/proc/%s" % m.group(1))) or d == pid:
                shutil.rmtree(os.path.join(broot, d), ignore_errors=True)
        self.build = os.path.join(broot, "%s.%d" % (pid, os.getpid()))
        shutil.rmtree(self.build, ignore_errors=True)
        os.makedirs(self.build)
        os.makedirs(os.path.join(self.build, "tmp"))
        os.makedirs(os.path.join(ROOT, "replays"), exist_ok=True)
        os.makedirs(os.path.join(ROOT, "evidence"), exist_ok=True)
        # ids that are not among the given properties (X..: specification growth beyond the list) keep
        # their evidence apart, so that evidence/ holds exactly one file per claimed property
        self.evdir = os.path.join(ROOT, "evidence" if pid.startswith("C") else os.path.join("extras", "evidence"))
        if "VERIF_REPO" in os.environ:
            # a trial against some other tree (tools/try_seed.sh): keep its evidence out of evidence/
            self.evdir = os.path.join(broot, "trial-evidence")
        os.makedirs(self.evdir, exist_ok=True)
        self.thorough = self.tier == "thorough"
        self.mc = []          # model-checking runs
        self.cover = {}       # action coverage
        self.violations = []  # (replay path, description)
        self.known_hits = []
        self.traces_validated = 0
        self.events_validated = 0
        self.trace_states = 0
        self.samples = []
        self.extra = {}
        self.assumptions = []
        self.nrun = 0
        self.findings = load_findings(pid)

    # ------------------------------------------------------------------ utilities
    def q(self, quick, thorough):
        return thorough if self.thorough else quick

    def path(self, *a):
        return os.path.join(self.build, *a)

    def env(self, extra=None, java_opts=""):
        e = dict(os.environ)
        e.update(GOENV)
        e["TMPDIR"] = self.path("tmp")
        jo = "-Djava.io.tmpdir=%s %s" % (self.path("tmp"), java_opts)
        e["JAVA_TOOL_OPTIONS"] = jo.strip()
        if extra:
            e.update({k: str(v) for k, v in extra.items()})
        return e

    def run(self, cmd, cwd=None, env=None, timeout=600, ok_codes=(0,), what=None):
        what = what or " ".join(cmd[:3])
        try:
            p = subprocess.run(cmd, cwd=cwd, env=env or self.env(), timeout=timeout,
                               stdout=subprocess.PIPE, stderr=subprocess.STDOUT)
        except subprocess.TimeoutExpired:
            raise MachineryError("timeout after %ss: %s" % (timeout, what))
        out = p.stdout.decode("utf-8", "replace")
        if p.returncode not in ok_codes:
            raise MachineryError("%s exited %d\n%s" % (what, p.returncode, out[-6000:]))
        return p.returncode, out

    # ------------------------------------------------------------------ go harness
    def _snapshot(self):
        """Copy /repo's current working tree (without .git) into the run's scratch directory and
        write a module file whose replace directive points at the copy.  The harness is built from
        that snapshot, so the tree the check judges is fixed at this instant even if /repo is edited
        while the check runs; HEAD and the files differing from HEAD are recorded in the evidence."""
        if getattr(self, "snap", None):
            return self.snap
        snap = self.path("repo")
        for attempt in range(3):
            # 23/24 = partial transfer / files vanished: the tree was being edited while it was copied
            rc, out = self.run(["rsync", "-a", "--delete", "--exclude", ".git", REPO + "/", snap + "/"],
                               timeout=300, what="snapshot of " + REPO, ok_codes=(0, 23, 24))
            if rc == 0:
                break
            log("[build] snapshot of %s: rsync exited %d, copying again" % (REPO, rc))
            time.sleep(1 + attempt)
        else:
            raise MachineryError("snapshot of %s: rsync kept failing (rc=%d)\n%s" % (REPO, rc, out[-1500:]))
        hdir = os.path.join(ROOT, "harness")
        mod = open(os.path.join(hdir, "go.mod")).read()
        mod2 = re.sub(r"(replace\s+github.com/pinealctx/neptune\s*=>\s*)\S+", r"\g<1>" + snap, mod)
        if mod2 == mod and REPO != snap:
            raise MachineryError("harness/go.mod has no replace directive for neptune")
        with open(self.path("harness.mod"), "w") as f:
            f.write(mod2)
        shutil.copyfile(os.path.join(snap, "go.sum"), self.path("harness.sum"))
        try:
            head = subprocess.check_output(["git", "-C", REPO, "rev-parse", "--short", "HEAD"]).decode().strip()
            dirty = [l for l in subprocess.check_output(["git", "-C", REPO, "status", "--porcelain"])
                     .decode().split("\n") if l.strip()]
        except Exception:
            head, dirty = "?", []
        self.extra["built_from"] = {"head": head, "files_differing_from_head": dirty[:40]}
        if dirty:
            log("[build] note: /repo differs from HEAD %s in: %s" % (head, ", ".join(d.strip() for d in dirty[:12])))
        self.snap = snap
        return snap

    def go_build(self, cmd, race=False):
        """Build harness/cmd/<cmd> against a snapshot of /repo's working tree with -tags verif."""
        hdir = os.path.join(ROOT, "harness")
        self._snapshot()
        out = self.path(cmd + ("-race" if race else ""))
        args = ["go", "build", "-tags", "verif", "-modfile", self.path("harness.mod")]
        if race:
            args.append("-race")
        args += ["-o", out, "./cmd/" + cmd]
        env = self.env()
        env.pop("TMPDIR", None)
        t = time.time()
        self.run(args, cwd=hdir, env=env, timeout=900, what="go build " + cmd)
        log("[build] %s in %.1fs" % (cmd, time.time() - t))
        return out

    def harness(self, binary, args, timeout=900, env=None, ok_codes=(0,), traces=()):
        """Run the Go harness.  If the process dies with a Go runtime fatal error / unrecovered panic
        raised inside neptune's code (first non-runtime frame of the crashing goroutine is in
        github.com/pinealctx/neptune), that is observable behaviour of the code under test: a
        `crash` event is appended to the listed trace files (which the harness flushes per event)
        and the trace specs reject it.  Any other failure is a machinery error."""
        t = time.time()
        cmd = [binary] + [str(a) for a in args]
        try:
            p = subprocess.run(cmd, cwd=self.build, env=self.env(env), timeout=timeout,
                               stdout=subprocess.PIPE, stderr=subprocess.STDOUT)
        except subprocess.TimeoutExpired:
            raise MachineryError("timeout after %ss: harness %s" % (timeout, os.path.basename(binary)))
        out = p.stdout.decode("utf-8", "replace")
        log("[exec] %s %s in %.1fs (rc=%d)" % (os.path.basename(binary), " ".join(map(str, args)),
                                              time.time() - t, p.returncode))
        if p.returncode in ok_codes:
            return out
        msg = neptune_crash(out)
        if msg is None or "HARNESS-ERROR" in out or not traces:
            raise MachineryError("harness %s exited %d\n%s" % (os.path.basename(binary), p.returncode,
                                                               out[-6000:]))
        log("[exec] harness process died inside neptune: %s" % msg)
        appended = False
        for tf in traces:
            if os.path.exists(tf) and os.path.getsize(tf) > 0:
                data = open(tf, "rb").read()
                # drop a torn last line
                if not data.endswith(b"\n"):
                    data = data[:data.rfind(b"\n") + 1]
                with open(tf, "wb") as f:
                    f.write(data)
                    if not appended:
                        f.write((json.dumps({"ev": "crash", "msg": msg[:300]}) + "\n").encode())
                        appended = True
        if not appended:
            raise MachineryError("harness crashed inside neptune before any event was recorded: " + msg)
        self.crash = msg
        return out

    # ------------------------------------------------------------------ TLC
    def _specdir(self, family):
        """Copy specs/<family> and lib/tla into the build dir (TLC litters)."""
        d = self.path("spec-" + family)
        if not os.path.isdir(d):
            os.makedirs(d)
            for src in (os.path.join(ROOT, "lib", "tla"), os.path.join(ROOT, "specs", family)):
                for f in os.listdir(src):
                    if f.endswith((".tla", ".cfg")):
                        shutil.copyfile(os.path.join(src, f), os.path.join(d, f))
        return d

    def _tlc(self, family, module, cfg, args, env=None, timeout=900, java_opts="", heap="4g"):
        d = self._specdir(family)
        self.nrun += 1
        meta = self.path("tlc-%d" % self.nrun)
        cmd = ["java", "-XX:+UseParallelGC", "-Xmx" + heap, "-Xss64m", "-cp", TLA_JAR, "tlc2.TLC",
               "-noGenerateSpecTE", "-metadir", meta, "-config", cfg] + args + [module + ".tla"]
        # TLC's own exit codes are 0 (ok), 10-14 (violations), 75/150-153 (spec/config errors).  Anything
        # else (255, 134, 137, ...) is the JVM dying - seen once under heavy machine load - and is
        # retried, because it says nothing about the spec or about neptune.
        for attempt in range(3):
            try:
                p = subprocess.run(cmd, cwd=d, env=self.env(env, java_opts), timeout=timeout,
                                   stdout=subprocess.PIPE, stderr=subprocess.STDOUT)
            except subprocess.TimeoutExpired:
                raise MachineryError("TLC timeout after %ss on %s/%s" % (timeout, module, cfg))
            out = p.stdout.decode("utf-8", "replace")
            if p.returncode in (0, 10, 11, 12, 13, 14, 75, 150, 151, 152, 153) or attempt == 2:
                break
            log("[tlc] %s/%s: JVM exited %d, retrying (%s)" % (module, cfg, p.returncode,
                                                              out.strip().split("\n")[-1][:200] if out.strip() else ""))
            shutil.rmtree(meta, ignore_errors=True)
            time.sleep(3 + 5 * attempt)
        out = "\n".join(ln for ln in out.split("\n")
                        if not ln.startswith(("Parsing file", "Semantic processing", "Linting of")))
        shutil.rmtree(meta, ignore_errors=True)
        return p.returncode, out

    @staticmethod
    def _counts(out):
        m = re.findall(r"(\d+) states generated, (\d+) distinct states found", out)
        if not m:
            return 0, 0
        g, d = m[-1]
        return int(g), int(d)

    def tlc_mc(self, family, module, cfg, workers=8, timeout=1800, expect_violation=None,
               coverage=False, heap="8g", label=None, env=None):
        """Exhaustive model-checking run.  The spec is ours: any error is a machinery error,
        unless expect_violation names an invariant/property that this configuration is
        *meant* to violate (non-vacuity witness)."""
        t = time.time()
        args = ["-workers", str(workers)]
        if coverage:
            args += ["-coverage", "1"]
        rc, out = self._tlc(family, module, cfg, args, timeout=timeout, heap=heap, env=env)
        # TLC 1.8 has a race between workers that lazily normalise one shared constant record
        # ("Field name .. occurs multiple times in record", "Attempted to select nonexistent field",
        # seen about once in ten multi-worker runs of some families).  It says nothing about the spec:
        # run again, the last time with a single worker.
        tries = 0
        while (rc not in (0, 10, 11, 12, 13) and tries < 3 and
               ("occurs multiple times in record" in out or "nonexistent field" in out or
                "unexpected exception" in out)):
            tries += 1
            w = workers if tries < 3 else 1
            log("[tlc-mc] %s/%s: TLC worker race (rc=%d), retry %d with %d workers" % (module, cfg, rc, tries, w))
            a2 = ["-workers", str(w)] + (["-coverage", "1"] if coverage else [])
            rc, out = self._tlc(family, module, cfg, a2, timeout=timeout, heap=heap, env=env)
        gen, dist = self._counts(out)
        dep = re.findall(r"depth of the complete state graph search is (\d+)", out)
        rec = {"module": module, "cfg": cfg, "generated": gen, "distinct": dist,
               "depth": int(dep[-1]) if dep else 0, "wall_s": round(time.time() - t, 1),
               "label": label or cfg}
        if expect_violation:
            ok = (rc in (12, 13, 11)) and (expect_violation in out)
            if not ok:
                raise MachineryError("expected %s to be violated in %s/%s (non-vacuity witness) "
                                     "but TLC said rc=%d\n%s" % (expect_violation, module, cfg, rc,
                                                                  out[-3000:]))
            rec["expected_violation"] = expect_violation
        else:
            if rc != 0 or "No error has been found" not in out:
                raise MachineryError("model checking %s/%s failed rc=%d\n%s" %
                                     (module, cfg, rc, out[-6000:]))
        if coverage:
            rec["never_taken"] = self._coverage(out)
        self.mc.append(rec)
        log("[tlc-mc] %s/%s: %d generated, %d distinct, depth %d, %.1fs%s" %
            (module, cfg, gen, dist, rec["depth"], rec["wall_s"],
             " (violates %s as intended)" % expect_violation if expect_violation else ""))
        return rec

    def apalache_ind(self, family, module, inv="IndInv", init="Init", ind_init="IndInit", next_="Next",
                     cinit=None, timeout=600, expect_violation=False, label=None, extra=None):
        """Unbounded safety of a small integer/set-shaped specification by an inductive invariant,
        discharged symbolically by Apalache: (1) Init => inv (length 0) and (2) ind_init /\ Next => inv'
        (length 1, where ind_init states inv as the initial predicate).  With expect_violation the
        step is *meant* to fail (non-vacuity witness: the invariant is not inductive for a deviation)."""
        d = self._specdir(family)
        t = time.time()
        def run(initp, length, tag, more=()):
            self.nrun += 1
            out_dir = self.path("apa-%d" % self.nrun)
            cmd = ["apalache-mc", "check", "--out-dir=" + out_dir, "--init=" + initp, "--next=" + next_,
                   "--inv=" + inv, "--length=%d" % length]
            if cinit:
                cmd.append("--cinit=" + cinit)
            cmd += list(more)   # options for the step run only (an invariant filter would make the base run vacuous)
            cmd.append(module + ".tla")
            try:
                p = subprocess.run(cmd, cwd=d, env=self.env(None, ""), timeout=timeout,
                                   stdout=subprocess.PIPE, stderr=subprocess.STDOUT)
            except subprocess.TimeoutExpired:
                raise MachineryError("apalache timeout after %ss on %s (%s)" % (timeout, module, tag))
            out = p.stdout.decode("utf-8", "replace")
            shutil.rmtree(out_dir, ignore_errors=True)
            return p.returncode, out
        rc0, out0 = run(init, 0, "base")
        if rc0 != 0 or "NoError" not in out0:
            raise MachineryError("apalache base case %s: Init => %s failed rc=%d\n%s" % (module, inv, rc0, out0[-3000:]))
        rc1, out1 = run(ind_init, 1, "step", extra or ())
        rec = {"module": module, "cfg": "apalache --init=%s --inv=%s --length=1" % (ind_init, inv),
               "generated": 0, "distinct": 0, "depth": 1, "wall_s": round(time.time() - t, 1),
               "label": label or (module + " inductive invariant " + inv), "kind": "inductive_invariant (Apalache, unbounded)"}
        if expect_violation:
            if rc1 == 0 or "NoError" in out1 or "Error" not in out1:
                raise MachineryError("expected %s not to be inductive in %s (non-vacuity witness) but apalache said rc=%d\n%s"
                                     % (inv, module, rc1, out1[-3000:]))
            rec["expected_violation"] = inv
        elif rc1 != 0 or "NoError" not in out1:
            raise MachineryError("apalache inductive step %s: %s /\\ %s => %s' failed rc=%d\n%s"
                                 % (module, ind_init, next_, inv, rc1, out1[-3000:]))
        self.mc.append(rec)
        if expect_violation:
            log("[apalache] %s: %s is NOT inductive under %s (as intended: non-vacuity witness), %.1fs" %
                (module, inv, cinit or next_, rec["wall_s"]))
        else:
            log("[apalache] %s: %s is inductive (Init => Inv, Inv /\\ Next => Inv'), %.1fs" % (module, inv, rec["wall_s"]))
        return rec

    @staticmethod
    def _coverage(out):
        never = []
        for m in re.finditer(r"<(\w+) line (\d+), col \d+ to line \d+, col \d+ of module (\w+)>: (\d+):(\d+)", out):
            if int(m.group(5)) == 0 and int(m.group(4)) == 0:
                never.append("%s@%s:%s" % (m.group(1), m.group(3), m.group(2)))
        return sorted(set(never))

    def tlc_plans(self, family, module, cfg, num, depth, sub="plans", timeout=600, seed_off=0):
        """tlc -simulate; the _Gen module writes one ndjson plan per behaviour into a directory."""
        pdir = self.path(sub)
        os.makedirs(pdir, exist_ok=True)
        t = time.time()
        rc, out = self._tlc(family, module, cfg,
                            ["-workers", "1", "-simulate", "num=%d" % num, "-depth", str(depth),
                             "-seed", str(self.seed + seed_off)],
                            env={"VERIF_PLANDIR": pdir}, timeout=timeout)
        if rc != 0:
            raise MachineryError("plan generation %s/%s failed rc=%d\n%s" % (module, cfg, rc, out[-4000:]))
        plans, seen = [], set()
        for f in sorted(os.listdir(pdir), key=lambda s: (len(s), s)):
            if not f.endswith(".ndjson"):
                continue
            txt = open(os.path.join(pdir, f)).read()
            h = hashlib.sha1(txt.encode()).hexdigest()
            if h in seen:
                os.remove(os.path.join(pdir, f))
                continue
            seen.add(h)
            plans.append(os.path.join(pdir, f))
        log("[tlc-gen] %s/%s: %d distinct plans of depth %d in %.1fs" %
            (module, cfg, len(plans), depth, time.time() - t))
        return pdir, plans

    def tlc_trace(self, family, module, cfg, tracefile, dfs=False, timeout=900, heap="6g", env=None):
        """Validate one ndjson file.  Returns (mark, total, generated, distinct)."""
        jo = "-Dtlc2.tool.queue.IStateQueue=StateDeque" if dfs else ""
        e = {"VERIF_TRACE": tracefile}
        if env:
            e.update(env)
        rc, out = self._tlc(family, module, cfg, ["-workers", "1"], env=e, timeout=timeout,
                            java_opts=jo, heap=heap)
        m = re.findall(r'<<"MARK", (\d+), (\d+)>>', out)
        if not m:
            raise MachineryError("trace validation %s/%s produced no MARK rc=%d\n%s" %
                                 (module, cfg, rc, out[-6000:]))
        mark, total = int(m[-1][0]), int(m[-1][1])
        gen, dist = self._counts(out)
        if mark > total and (rc != 0 or "No error has been found" not in out):
            # whole trace consumed but an invariant failed on the way
            raise MachineryError("trace validation %s/%s: trace consumed but TLC reported an error "
                                 "rc=%d\n%s" % (module, cfg, rc, out[-6000:]))
        if mark <= total and "is violated" in out and "Invariant" in out:
            # an invariant of the spec failed on a state reached by the real trace
            inv = re.findall(r"Invariant (\w+) is violated", out)
            return mark, total, gen, dist, inv[0] if inv else "invariant"
        return mark, total, gen, dist, None

    # ------------------------------------------------------------------ traces
    def load_traces(self, path, sep="reset"):
        """Split an ndjson file into traces; each starts with a `reset` event."""
        traces, cur = [], None
        if not os.path.exists(path) and getattr(self, "crash", None):
            return []                  # the harness died before it got to this file
        with open(path) as f:
            for line in f:
                line = line.strip()
                if not line:
                    continue
                ev = json.loads(line)
                if ev.get("ev") == sep:
                    cur = []
                    traces.append(cur)
                if cur is None:
                    raise MachineryError("trace file %s does not start with a %s event" % (path, sep))
                cur.append(ev)
        return traces

    def validate(self, family, module, cfg, traces, dfs=False, max_rejections=6, timeout=900,
                 label="", chunk=4000, heap="6g", env=None):
        """Validate traces (lists of events, each starting with a reset event) with TLC.
        A rejected trace is cut out and the remaining ones are validated again, so that every
        trace is judged.  Returns the list of rejections [(trace, line index, event)]."""
        rejections = []
        todo = list(traces)
        t0 = time.time()
        nfile = 0
        total_events = sum(len(t) for t in traces)
        # validate in chunks of at most `chunk` events to bound TLC memory / restart cost
        batches, cur, n = [], [], 0
        for tr in todo:
            if cur and n + len(tr) > chunk:
                batches.append(cur)
                cur, n = [], 0
            cur.append(tr)
            n += len(tr)
        if cur:
            batches.append(cur)
        for batch in batches:
            while batch and len(rejections) < max_rejections:
                nfile += 1
                fn = self.path("val-%s-%d.ndjson" % (module, nfile))
                with open(fn, "w") as f:
                    for tr in batch:
                        for ev in tr:
                            f.write(json.dumps(ev, separators=(",", ":")) + "\n")
                mark, total, gen, dist, inv = self.tlc_trace(family, module, cfg, fn, dfs=dfs,
                                                             timeout=timeout, heap=heap, env=env)
                self.trace_states += dist
                if mark > total:
                    self.traces_validated += len(batch)
                    self.events_validated += total
                    os.remove(fn)
                    break
                # locate the trace containing line `mark` (1-based)
                pos, idx = 0, None
                for i, tr in enumerate(batch):
                    if pos < mark <= pos + len(tr):
                        idx = i
                        break
                    pos += len(tr)
                if idx is None:
                    raise MachineryError("cannot locate rejected line %d" % mark)
                tr = batch[idx]
                line = mark - pos - 1
                rejections.append({"trace": tr, "line": line, "event": tr[line],
                                   "invariant": inv, "label": label,
                                   "how": {"family": family, "module": module, "cfg": cfg, "dfs": dfs,
                                           "env": env or {}}})
                self.traces_validated += idx
                self.events_validated += pos
                batch = batch[idx + 1:]
                os.remove(fn)
        log("[tlc-trace] %s%s: %d traces / %d events, %d rejected, %.1fs" %
            (module, " " + label if label else "", len(traces), total_events, len(rejections),
             time.time() - t0))
        if traces and len(self.samples) < 3:
            tr = traces[min(len(traces) - 1, self.seed % len(traces))]
            self.samples.append({"family": family, "label": label, "events": tr[:6]})
        return rejections

    # ------------------------------------------------------------------ verdicts
    def judge(self, rejections, describe=None):
        """Turn rejections into KNOWN-FINDING lines or VIOLATIONs."""
        for rj in rejections:
            ev = rj["event"]
            reset = rj["trace"][0]
            f = match_finding(self.findings, reset, ev, rj)
            if f is not None:
                if f["id"] not in [k["id"] for k in self.known_hits]:
                    self.known_hits.append(f)
                    log("KNOWN-FINDING: property=%s %s" % (self.pid, f["what"]))
                continue
            n = len(self.violations) + 1
            rp = os.path.join(ROOT, "replays", "%s-%d-%d.json" % (self.pid, self.seed, n))
            doc = {"property": self.pid, "seed": self.seed, "tier": self.tier,
                   "rejected_line": rj["line"], "rejected_event": ev,
                   "spec_invariant_violated": rj.get("invariant"),
                   "label": rj.get("label", ""),
                   "validate_with": rj.get("how", {}),
                   "explanation": (describe(rj) if describe else
                                   "the specification cannot explain event #%d of this trace "
                                   "recorded from the real code" % rj["line"]),
                   "trace": rj["trace"]}
            with open(rp, "w") as fh:
                json.dump(doc, fh, indent=1)
            self.violations.append(rp)
            log("REJECTED %s trace line %d: %s" % (rj.get("label", ""), rj["line"],
                                                    json.dumps(ev)[:400]))
            log("VIOLATION property=%s replay=%s" % (self.pid, rp))

    def finish(self, level="model_checking", rule="", explanation=""):
        wall = round(time.time() - self.t0, 1)
        gen = sum(m["generated"] for m in self.mc)
        dist = sum(m["distinct"] for m in self.mc)
        cov = {
            "states": max(dist, 1) if self.mc else 0,
            "transitions": max(gen, 1) if self.mc else 0,
            "traces_validated_against_impl": self.traces_validated,
            "events_validated_against_impl": self.events_validated,
            "trace_validation_states": self.trace_states,
            "samples": self.samples or [{"note": "no trace sampled"}],
            "model_checking_runs": self.mc,
            "rule": rule,
            "explanation": explanation,
            "exhaustive": False,
            "known_findings_hit": [k["id"] for k in self.known_hits],
        }
        cov.update(self.extra)
        ev = {"property_id": self.pid, "tier": self.tier, "seed": self.seed, "level": level,
              "coverage": cov, "assumptions": self.assumptions, "wall_s": wall,
              "violations": len(self.violations)}
        with open(os.path.join(self.evdir, self.pid + ".json"), "w") as f:
            json.dump(ev, f, indent=1)
            f.write("\n")
        if not self.keep:
            shutil.rmtree(self.build, ignore_errors=True)
        log("[done] %s tier=%s seed=%d: %d traces / %d events validated, %d violations, %.1fs" %
            (self.pid, self.tier, self.seed, self.traces_validated, self.events_validated,
             len(self.violations), wall))
        return 1 if self.violations else 0


def neptune_crash(out):
    """If `out` is the dump of a Go process that died in neptune's code, return a one-line reason."""
    m = re.search(r"^(fatal error: .*|panic: .*)$", out, re.M)
    if not m:
        return None
    rest = out[m.end():]
    # "goroutine 7 [running]:" in panics, "goroutine 7 gp=0x.. m=3 mp=0x.. [running]:" in fatal errors
    g = re.search(r"^goroutine \d+ (?:[a-z]+=\S+ )*\[[^\]]*\]:\n", rest, re.M)
    if not g:
        return None
    for line in rest[g.end():].split("\n"):
        if not line.strip():
            break                      # end of the crashing goroutine's stack
        if line.startswith(("\t", " ")):
            continue                   # file:line
        fn = line.strip()
        if fn.startswith("github.com/pinealctx/neptune"):
            return m.group(1) + " in " + fn.split("(")[0]
        if fn.startswith(("main.", "verif/harness")):
            return None                # the harness's own fault
    return None


# ---------------------------------------------------------------------- known findings
def load_findings(pid):
    p = os.path.join(ROOT, "known_findings.json")
    if not os.path.exists(p):
        return []
    doc = json.load(open(p))
    return [f for f in doc.get("findings", []) if f.get("property") == pid and f.get("status") == "open"]


def _submatch(pat, obj):
    if isinstance(pat, dict):
        if not isinstance(obj, dict):
            return False
        return all(k in obj and _submatch(v, obj[k]) for k, v in pat.items())
    return pat == obj


def match_finding(findings, reset, ev, rj):
    for f in findings:
        m = f.get("match", {})
        if "reset" in m and not _submatch(m["reset"], reset):
            continue
        if "event" in m and not _submatch(m["event"], ev):
            continue
        if "label" in m and m["label"] != rj.get("label"):
            continue
        return f
    return None


def main(pid, runner, argv=None):
    try:
        ctx = Ctx(pid, argv)
    except SystemExit:
        raise
    try:
        if ctx.replay:
            rc = do_replay(ctx, runner)
        else:
            rc = runner(ctx)
        sys.exit(rc)
    except MachineryError as e:
        log("MACHINERY-ERROR property=%s: %s" % (pid, e))
        if not ctx.keep:
            shutil.rmtree(ctx.build, ignore_errors=True)
        sys.exit(2)


def do_replay(ctx, runner):
    """Re-validate the trace stored in a replay file with the trace spec that rejected it."""
    doc = json.load(open(ctx.replay))
    log("replay of %s: rejected event #%d: %s" % (ctx.replay, doc["rejected_line"],
                                                   json.dumps(doc["rejected_event"])[:600]))
    log(doc.get("explanation", ""))
    how = doc.get("validate_with") or {}
    if not how:
        return 0
    fn = ctx.path("replay.ndjson")
    with open(fn, "w") as f:
        for ev in doc["trace"]:
            f.write(json.dumps(ev, separators=(",", ":")) + "\n")
    mark, total, gen, dist, inv = ctx.tlc_trace(how["family"], how["module"], how["cfg"], fn,
                                                 dfs=how.get("dfs", False), env=how.get("env") or None)
    if not ctx.keep:
        shutil.rmtree(ctx.build, ignore_errors=True)
    if mark > total:
        log("replay: the stored trace is ACCEPTED by %s now (%d events)" % (how["module"], total))
        return 0
    log("replay: %s rejects the stored trace at event #%d of %d%s" %
        (how["module"], mark - 1, total, " (invariant %s)" % inv if inv else ""))
    log("VIOLATION property=%s replay=%s" % (ctx.pid, ctx.replay))
    return 1
