----------------------------- MODULE Codecs_MC -----------------------------
(* Bounded instance of Codecs: 2-bit bytes and ternary numerals (digits     *)
(* '1','2','3'; '0' stands for every character outside the alphabet), every *)
(* 4-byte number, every pad of a small set, all 24 byte orders, every token *)
(* up to MaxStr characters plus every genuine token and its Ex form; every  *)
(* Snappy block up to MaxBlock bytes over a 10-symbol alphabet of tags,     *)
(* lengths and data; a scaled-down envelope threshold.                      *)
EXTENDS Codecs
CONSTANTS MaxStr, MaxBlock

MCAlpha == <<49, 50, 51>>
MCPads == {<<0, 0, 0, 0>>, <<0, 1, 2, 3>>, <<3, 1, 0, 2>>}
MCNums == [1..4 -> 0..(B - 1)]
SeqsUpTo(S, n) == UNION {[1..k -> S] : k \in 0..n}

ImageSet == {B58Enc(d) : d \in MCNums}
ShortStrs == SeqsUpTo({48, 49, 50, 51}, MaxStr)
MCStrs == ShortStrs \cup ImageSet \cup {Swap12(s) : s \in ImageSet}

(* 0 1 2 3: lengths 0..3 / literal(1) copy1(4) copy2(1) copy4(1); 4 5 6: literal(2) copy1(5)  *)
(* copy2(2); 128: varint continuation; 240: literal with one length byte; 7: plain data       *)
SnAlpha == {0, 1, 2, 3, 4, 5, 6, 7, 128, 240}
(* every block shorter than MaxBlock, and the MaxBlock-byte blocks that announce 3..7 bytes; *)
(* enumerated inside the next-state relation (TLC is slow at building sets of 10^5 tuples)   *)
UnzStep(x) == Step([op |-> "unz", blk |-> x])
BlockSteps ==
  \/ \E k \in 0..(MaxBlock - 1) : \E x \in [1..k -> SnAlpha] : UnzStep(x)
  \/ \E h \in 3..7 : \E t \in [1..(MaxBlock - 1) -> SnAlpha] : UnzStep(<<h>> \o t)
MCNext == Next \/ BlockSteps
MCSpec == Init /\ [][MCNext]_allvars
Runs(S, lo, hi) == {[i \in 1..n |-> c] : n \in lo..hi, c \in S}
MCBytes == SeqsUpTo({0, 1, 7}, 3) \cup Runs({1, 7}, 5, 12)
MCPrefs == {<<>>, <<128>>, <<9, 9>>}
MCBufs == SeqsUpTo({1, 7}, Thresh + 2) \cup Runs({1, 7}, 5, 12)
MCData == {<<>>, <<128>>, <<128, 0>>, <<1, 7>>, <<128, 1, 0, 7>>, <<128, 2, 0, 7>>}

(* numerals are canonical: Dec and Enc are inverse bijections between byte strings and digit strings *)
ASSUME \A d \in SeqsUpTo(0..(B - 1), 4) : B58Dec(B58Enc(d)) = Good(d)
ASSUME \A s \in SeqsUpTo({49, 50, 51}, MaxStr + 1) : B58Dec(s).ok /\ B58Enc(B58Dec(s).v) = s
ASSUME \A s \in SeqsUpTo({48, 49, 50, 51}, 3) : (\E i \in 1..Len(s) : s[i] = 48) => ~B58Dec(s).ok
(* InImage (decided by decoding) is membership in the image of the encoder *)
ASSUME \A s \in MCStrs : InImage(s) <=> s \in ImageSet
ASSUME Cardinality(ImageSet) = Cardinality(MCNums)
(* XOR is an involution and the byte orders are bijections: every form is injective *)
ASSUME \A a, b \in 0..(B - 1) : XorB(XorB(a, b), b) = a /\ XorB(a, a) = 0 /\ XorB(a, 0) = a
ASSUME \A P \in MCPads, v \in 0..23 : Cardinality({EncNum(P, v, n) : n \in MCNums}) = Cardinality(MCNums)
(* the reference encoders denote what they were given; varints *)
ASSUME \A b \in MCBytes : b = <<>> \/ SnDenote(SnLiteralEnc(b)) = [ok |-> TRUE, v |-> b, els |-> SnDenote(SnLiteralEnc(b)).els, lax |-> FALSE]
ASSUME \A n \in {0, 1, 127, 128, 300, 16383, 16384, 2097151, 2097152} :
         LET p == Preamble(Varint(n)) IN p.ok /\ ~p.huge /\ p.val = n /\ p.minimal /\ p.next = Len(Varint(n)) + 1
ASSUME LET p == Preamble(<<128, 128, 128, 128, 1>>) IN p.ok /\ p.huge
ASSUME LET p == Preamble(<<133, 128, 0>>) IN p.ok /\ ~p.huge /\ p.val = 5 /\ ~p.minimal
ASSUME ~Preamble(<<128, 128>>).ok
=============================================================================
