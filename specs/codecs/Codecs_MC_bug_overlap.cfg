SPECIFICATION MCSpec
CONSTANTS
  BITS = 2
  Thresh = 3
  MaxStr = 4
  MaxBlock = 5
  DropLeadingZeros = FALSE
  LenientLen = FALSE
  NaiveOverlap = TRUE
  Alpha <- MCAlpha
  PadSet <- MCPads
  VSet = {0, 1, 2, 3, 4, 5, 6, 7, 8, 9, 10, 11, 12, 13, 14, 15, 16, 17, 18, 19, 20, 21, 22, 23}
  NumSet <- MCNums
  StrSet <- MCStrs
  ByteStrs <- MCBytes
  BlockSet = {}
  PrefSet <- MCPrefs
  BufSet <- MCBufs
  DataSet <- MCData
INVARIANTS TypeOK
PROPERTIES RoundTrip TokenFormat NeverMisdecode SnappyExact Envelope
VIEW View
CHECK_DEADLOCK FALSE
