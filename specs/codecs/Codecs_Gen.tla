----------------------------- MODULE Codecs_Gen -----------------------------
(* Plan generation: `tlc -simulate` walks Codecs at the real sizes (8-bit    *)
(* bytes, the 58 Bitcoin digits) over small, edge-rich argument sets and     *)
(* writes the action records of each behaviour as one ndjson plan.  A plan   *)
(* is a sequence of calls on ONE cypher instance / the package-level codecs; *)
(* the Go harness replays it on the real code (replies are not taken from    *)
(* the plan: the pad of the real key is not known here).                     *)
EXTENDS Codecs, TLCExt, Json, IOUtils
CONSTANT Depth

B58Alpha == <<49, 50, 51, 52, 53, 54, 55, 56, 57, 65, 66, 67, 68, 69, 70, 71, 72, 74, 75, 76, 77,
              78, 80, 81, 82, 83, 84, 85, 86, 87, 88, 89, 90, 97, 98, 99, 100, 101, 102, 103, 104,
              105, 106, 107, 109, 110, 111, 112, 113, 114, 115, 116, 117, 118, 119, 120, 121, 122>>

Rep(c, n) == [i \in 1..n |-> c]
GenPads == {<<0, 0, 0, 0>>}
GenNums == {<<0, 0, 0, 0>>, <<0, 0, 0, 1>>, <<0, 0, 1, 0>>, <<0, 1, 0, 0>>, <<1, 0, 0, 0>>,
            <<0, 0, 0, 57>>, <<0, 0, 0, 58>>, <<0, 1, 134, 241>>, <<127, 255, 255, 255>>,
            <<128, 0, 0, 0>>, <<255, 255, 255, 255>>, <<18, 52, 86, 120>>}
(* "", 1, 1111, 11111, 1112, 2, 7YXq9G (2^32-1), 7YXq9H (2^32), zzzzzz, 0 O I l (not digits), *)
(* " 1112", 1WkY, W1kY, 2UzHM, U2zHM, 1112 with a byte >= 128 *)
GenStrs == {<<>>, <<49>>, <<49, 49, 49, 49>>, <<49, 49, 49, 49, 49>>, <<49, 49, 49, 50>>, <<50>>,
            <<55, 89, 88, 113, 57, 71>>, <<55, 89, 88, 113, 57, 72>>, Rep(122, 6), <<48>>, <<79>>,
            <<73>>, <<108>>, <<32, 49, 49, 49, 50>>, <<49, 87, 107, 89>>, <<87, 49, 107, 89>>,
            <<50, 85, 122, 72, 77>>, <<85, 50, 122, 72, 77>>, <<49, 49, 49, 200>>, <<49, 49, 50>>}
Abc(n) == [i \in 1..n |-> 97 + ((i - 1) % 3)]
GenBytes == {<<>>, <<0>>, <<7>>, Rep(65, 70), Abc(30), Abc(60), Abc(61), Rep(0, 5), <<1, 2, 3, 4>>}
GenBlocks == {<<>>, <<0>>, <<1, 0, 7>>, <<5, 0, 7, 1, 1>>, <<5, 0, 7, 1, 0>>, <<2, 0, 7>>, <<1, 0, 7, 7>>,
              <<128>>, <<133, 128, 0, 16, 1, 2, 3, 4, 5>>, <<3, 240, 2, 1, 2, 3>>,
              <<1, 252, 0, 0, 0, 0, 7>>, <<2, 0, 7, 2, 1, 0>>, <<2, 0, 7, 3, 1, 0, 0, 0>>,
              <<2, 0, 7, 3, 1, 0, 0, 16>>, <<2, 0, 7, 2, 2, 0>>, <<128, 128, 128, 128, 16>>,
              <<6, 4, 7, 8, 5, 2>>, <<6, 4, 7, 8, 9, 1>>}
GenPrefs == {<<>>, <<128>>, <<1, 2, 3>>}
J1 == <<123, 34, 97, 34, 58, 49, 125>>                   \* {"a":1}
GenBufs == {<<>>, J1, Rep(49, 256), Rep(49, 257), Rep(49, 300), <<91>> \o Abc(300) \o <<93>>}
GenData == {<<>>, <<128>>, <<128, 0>>, J1, <<128>> \o SnLiteralEnc(J1), <<129>> \o SnLiteralEnc(J1),
            <<128, 7>> \o Tail(SnLiteralEnc(J1)), <<128>> \o J1, <<32>> \o J1}

ASSUME TLCSet(2, 0)
Emit ==
  \/ TLCGet("level") < Depth
  \/ /\ TLCSet(2, TLCGet(2) + 1)
     /\ ndJsonSerialize(IOEnv.VERIF_PLANDIR \o "/p" \o ToString(TLCGet(2)) \o ".ndjson",
                        [i \in 1..Len(Trace) |-> Trace[i].last])
=============================================================================
