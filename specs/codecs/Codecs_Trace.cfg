SPECIFICATION TraceSpec
CONSTANTS
  BITS = 8
  Thresh = 256
  DropLeadingZeros = FALSE
  LenientLen = FALSE
  NaiveOverlap = FALSE
  Alpha <- B58Alpha
  PadSet = {}
  VSet = {}
  NumSet = {}
  StrSet = {}
  ByteStrs = {}
  BlockSet = {}
  PrefSet = {}
  BufSet = {}
  DataSet = {}
CONSTRAINT Mark
POSTCONDITION Accepted
VIEW TView
CHECK_DEADLOCK FALSE
