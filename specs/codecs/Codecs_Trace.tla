---------------------------- MODULE Codecs_Trace ----------------------------
(* Validates ndjson traces recorded from the real mess.IntCypher,            *)
(* compress.Snappy and jsonx envelope against the contract of Codecs at the  *)
(* real sizes (8-bit bytes, 58 digits, threshold 256).                       *)
(* Events:                                                                   *)
(*   reset {pad, klen}            a fresh IntCypher; pad = first four bytes  *)
(*                                of AES_key(iv) computed with crypto/aes    *)
(*                                directly (also separates traces)           *)
(*   call  {a, out, r}            one call: a = action record (see Codecs),  *)
(*                                out = "ok" | "err" | "panic", r = result   *)
(*                                bytes (numbers: 4 bytes big-endian, tokens *)
(*                                and buffers: byte codes; [] when none)     *)
(*   msnap {plain, out, r}        JSONFastMarshalSnappy(v); plain = the text *)
(*                                of JSONFastMarshal(v)                      *)
(*   usnap {data, out, pre, res, plain, inner}                               *)
(*                                JSONFastUnmarshalSnappy(data, &t): res =   *)
(*                                [ok, val] outcome and canonical rendering  *)
(*                                of t afterwards, pre = rendering before,   *)
(*                                plain = outcome of parsing data itself,    *)
(*                                inner = [has, pay, ok, val]: the payload   *)
(*                                golang/snappy decodes from data[1:] (if    *)
(*                                any) and the outcome of parsing it         *)
(* Calls are pure: every event is judged against the same pad, in any order  *)
(* (history independence); nothing else is state.                            *)
EXTENDS Codecs, Json, IOUtils

TraceLog == ndJsonDeserialize(IOEnv.VERIF_TRACE)

B58Alpha == <<49, 50, 51, 52, 53, 54, 55, 56, 57, 65, 66, 67, 68, 69, 70, 71, 72, 74, 75, 76, 77,
              78, 80, 81, 82, 83, 84, 85, 86, 87, 88, 89, 90, 97, 98, 99, 100, 101, 102, 103, 104,
              105, 106, 107, 109, 110, 111, 112, 113, 114, 115, 116, 117, 118, 119, 120, 121, 122>>

VARIABLES l
tvars == <<allvars, l>>

TraceInit == l = 1 /\ pad = Zero4 /\ last = [op |-> "init"]

TReset(e) == pad' = e.pad /\ last' = [op |-> "reset"]

CallOK(P, a, out, r) ==
  CASE a.op = "enc"  -> out = "ok" /\ EncNumOK(P, a.v, a.n, r)
    [] a.op = "dec"  -> out = "ok" /\ DecNumOK(P, a.v, a.m, r)
    [] a.op = "encs" -> out = "ok" /\ EncStrOK(P, a.v, a.n, a.ex, r)
    [] a.op = "decs" -> out = "ok" /\ Len(r) = 4 /\ DecStrOK(P, a.v, a.s, a.ex, r)
    [] a.op = "zip"  -> ZipOK(a.b, out, r)
    [] a.op = "unz"  -> UnzOK(a.blk, out, r)
    [] a.op = "zipp" -> ZipPOK(a.b, a.p, out, r)
    [] a.op = "wrap" -> WrapOK(a.b, out, r)
    [] OTHER -> FALSE

TCall(e) ==
  /\ (CallOK(pad, e.a, e.out, e.r)) = TRUE
  /\ pad' = pad /\ last' = [op |-> e.a.op]

TMSnap(e) ==
  /\ (WrapOK(e.plain, e.out, e.r)) = TRUE
  /\ pad' = pad /\ last' = [op |-> "msnap"]

TUSnap(e) ==
  /\ (e.out = "ok" /\ USnapOK(e.data, e.res, e.pre, e.plain, e.inner)) = TRUE
  /\ pad' = pad /\ last' = [op |-> "usnap"]

Consume ==
  /\ l <= Len(TraceLog) /\ l' = l + 1
  /\ LET e == TraceLog[l] IN
       CASE e.ev = "reset" -> TReset(e)
         [] e.ev = "call"  -> TCall(e)
         [] e.ev = "msnap" -> TMSnap(e)
         [] e.ev = "usnap" -> TUSnap(e)
         [] OTHER -> FALSE

TraceNext == Consume
TraceSpec == TraceInit /\ [][TraceNext]_tvars

(* high-water mark of l in TLC register 1 (needs -workers 1) *)
ASSUME TLCSet(1, 0)
Mark == TLCSet(1, IF l > TLCGet(1) THEN l ELSE TLCGet(1))
Accepted == PrintT(<<"MARK", TLCGet(1), Len(TraceLog)>>) /\ TLCGet(1) = Len(TraceLog) + 1

TView == <<pad, l>>
=============================================================================
