SPECIFICATION Spec
CONSTANTS
  BITS = 8
  Thresh = 256
  DropLeadingZeros = FALSE
  LenientLen = FALSE
  NaiveOverlap = FALSE
  Alpha <- B58Alpha
  PadSet <- GenPads
  VSet = {0, 1, 2, 3, 4, 5, 6, 7, 8, 9, 10, 11, 12, 13, 14, 15, 16, 17, 18, 19, 20, 21, 22, 23}
  NumSet <- GenNums
  StrSet <- GenStrs
  ByteStrs <- GenBytes
  BlockSet <- GenBlocks
  PrefSet <- GenPrefs
  BufSet <- GenBufs
  DataSet <- GenData
  Depth = 12
INVARIANTS Emit
CHECK_DEADLOCK FALSE
