------------------------------- MODULE Codecs -------------------------------
(***************************************************************************)
(* neptune codecs (specification growth X01):                              *)
(*   mess.IntCypher      32-bit integer obfuscation, 24 byte orders, as a  *)
(*                       number or as a base58 token (plain / "Ex")        *)
(*   compress.Snappy     Compress / DeCompress / CompressWithPrefix        *)
(*   jsonx               TrySnappyCompress, JSONFastMarshalSnappy,         *)
(*                       JSONFastUnmarshalSnappy (marker byte 128)         *)
(*                                                                         *)
(* The CONTRACT is a set of denotations (no algorithm of neptune is        *)
(* transcribed):                                                           *)
(*   EncNum(P,v,n)   the v-th byte order of n XOR P, P = the first four    *)
(*                   key-stream bytes of AES-CTR(key, iv)                  *)
(*   B58Enc / B58Dec positional base-R numerals on byte strings, leading   *)
(*                   zero bytes <-> leading zero digits (canonical)        *)
(*   SnDenote(x)     what a Snappy block stands for (format description:   *)
(*                   varint length, literal / copy elements)               *)
(*   Unwrap(d)       the jsonx envelope: 128 ++ block | plain text         *)
(* and the predicates *OK relate one call of the real code to them.        *)
(* Deliberate freedoms: which block a compressor emits (any block that     *)
(* denotes the input and respects the documented size bound), whether a    *)
(* non-minimal length varint is accepted, the identity of errors, and      *)
(* whether the envelope compresses at all above the threshold.             *)
(*                                                                         *)
(* The DESIGN (EncStrD, DecStrD, SnLiteralEnc, WrapD) is a reference       *)
(* realisation used by the bounded instance and by plan generation; three  *)
(* named deviations (DropLeadingZeros, LenientLen, NaiveOverlap) show that *)
(* the properties can fail.                                                *)
(*                                                                         *)
(* Bytes are 0..B-1 with B = 2^BITS and numerals use the digits Alpha      *)
(* (R = Len(Alpha)); the code has BITS = 8 and the 58 Bitcoin characters,  *)
(* the bounded instance scales both down.  The Snappy format is bit-exact  *)
(* and is not scaled (only its universe of blocks is bounded).             *)
(***************************************************************************)
EXTENDS Integers, Sequences, FiniteSets, TLC

CONSTANTS
  BITS,               \* bits per byte (8 in the code)
  Alpha,              \* digit characters (byte codes), Alpha[1] is digit 0
  DropLeadingZeros,   \* deviation: numerals without the leading-zero digits
  LenientLen,         \* deviation: token decoder accepts fewer than 4 bytes
  NaiveOverlap        \* deviation: overlapping copy done as a block move

VARIABLES
  pad,                \* configuration of one cypher instance: 4 key-stream bytes
  last                \* record of the latest call (output only)

vars == <<pad>>
allvars == <<pad, last>>

RECURSIVE Pow2(_)
Pow2(k) == IF k = 0 THEN 1 ELSE 2 * Pow2(k - 1)
B == Pow2(BITS)
R == Len(Alpha)
Zero4 == <<0, 0, 0, 0>>

\* ------------------------------------------------------------ cypher: numbers
RECURSIVE XorN(_, _, _)
XorN(a, b, k) == IF k = 0 THEN 0 ELSE ((a + b) % 2) + 2 * XorN(a \div 2, b \div 2, k - 1)
XorB(a, b) == XorN(a, b, BITS)
Xor4(n, P) == [i \in 1..4 |-> XorB(n[i], P[i])]

(* the 24 orders of (0,1,2,3), lexicographic, as listed in the source comment *)
PermTab == <<
  <<0,1,2,3>>, <<0,1,3,2>>, <<0,2,1,3>>, <<0,2,3,1>>, <<0,3,1,2>>, <<0,3,2,1>>,
  <<1,0,2,3>>, <<1,0,3,2>>, <<1,2,0,3>>, <<1,2,3,0>>, <<1,3,0,2>>, <<1,3,2,0>>,
  <<2,0,1,3>>, <<2,0,3,1>>, <<2,1,0,3>>, <<2,1,3,0>>, <<2,3,0,1>>, <<2,3,1,0>>,
  <<3,0,1,2>>, <<3,0,2,1>>, <<3,1,0,2>>, <<3,1,2,0>>, <<3,2,0,1>>, <<3,2,1,0>> >>

LexLess(a, b) == \E i \in 1..4 : a[i] < b[i] /\ \A j \in 1..(i - 1) : a[j] = b[j]
ASSUME /\ Len(PermTab) = 24
       /\ \A v \in 1..24 : {PermTab[v][i] : i \in 1..4} = 0..3
       /\ \A v \in 1..23 : LexLess(PermTab[v], PermTab[v + 1])

(* contract: byte i of the result is byte PermTab[v][i] of n XOR P (n, result big-endian) *)
EncNum(P, v, n) == LET d == Xor4(n, P) IN [i \in 1..4 |-> d[PermTab[v + 1][i] + 1]]
EncNumOK(P, v, n, r) == r = EncNum(P, v, n)
DecNumOK(P, v, m, r) == EncNum(P, v, r) = m          \* the unique preimage

(* design: undo the byte order, then XOR *)
DecNumD(P, v, m) ==
  LET u == [j \in 1..4 |-> m[CHOOSE i \in 1..4 : PermTab[v + 1][i] + 1 = j]] IN Xor4(u, P)

\* ------------------------------------------------------------ base-R numerals
AllZero(s) == \A i \in 1..Len(s) : s[i] = 0
RECURSIVE LeadCount(_, _)
LeadCount(s, z) == IF s = <<>> \/ s[1] # z THEN 0 ELSE 1 + LeadCount(Tail(s), z)

(* long division of a big-endian base-B string by R *)
RECURSIVE DivAcc(_, _, _, _)
DivAcc(s, i, rem, q) ==
  IF i > Len(s) THEN [q |-> q, r |-> rem]
  ELSE LET c == rem * B + s[i] IN DivAcc(s, i + 1, c % R, Append(q, c \div R))
RECURSIVE DigitsOf(_)
DigitsOf(s) == IF AllZero(s) THEN <<>>
               ELSE LET d == DivAcc(s, 1, 0, <<>>) IN Append(DigitsOf(d.q), d.r)

NumeralOf(bytes, zeros) ==
  LET dg == DigitsOf(bytes)
      z  == IF zeros THEN LeadCount(bytes, 0) ELSE 0
  IN [i \in 1..z |-> Alpha[1]] \o [i \in 1..Len(dg) |-> Alpha[dg[i] + 1]]
B58Enc(bytes) == NumeralOf(bytes, TRUE)                       \* contract
B58EncD(bytes) == NumeralOf(bytes, ~DropLeadingZeros)         \* design (+ deviation)

IdxOf(c) == IF \E i \in 1..R : Alpha[i] = c THEN (CHOOSE i \in 1..R : Alpha[i] = c) - 1 ELSE 0 - 1

(* acc * R + d on big-endian base-B strings without leading zeros *)
RECURSIVE MulAdd(_, _, _, _)
MulAdd(acc, i, carry, out) ==
  IF i = 0 THEN (IF carry = 0 THEN out ELSE MulAdd(acc, 0, carry \div B, <<carry % B>> \o out))
  ELSE LET c == acc[i] * R + carry IN MulAdd(acc, i - 1, c \div B, <<c % B>> \o out)
RECURSIVE ValOf(_, _, _)
ValOf(idx, i, acc) == IF i > Len(idx) THEN acc
                      ELSE ValOf(idx, i + 1, MulAdd(acc, Len(acc), idx[i], <<>>))

Bad == [ok |-> FALSE, v |-> <<>>]
Good(v) == [ok |-> TRUE, v |-> v]

B58Dec(s) ==
  LET idx == [i \in 1..Len(s) |-> IdxOf(s[i])] IN
  IF \E i \in 1..Len(s) : idx[i] < 0 THEN Bad
  ELSE Good([i \in 1..LeadCount(idx, 0) |-> 0] \o ValOf(idx, 1, <<>>))

(* s is the numeral of some 4-byte string (numerals are canonical: one per byte string) *)
InImage(s) == LET d == B58Dec(s) IN d.ok /\ Len(d.v) = 4 /\ B58Enc(d.v) = s

Swap12(s) == IF Len(s) < 2 THEN s ELSE <<s[2], s[1]>> \o SubSeq(s, 3, Len(s))

\* ------------------------------------------------------------ cypher: tokens
EncStr(P, v, n, ex) == LET t == B58Enc(EncNum(P, v, n)) IN IF ex THEN Swap12(t) ELSE t
EncStrOK(P, v, n, ex, r) == r = EncStr(P, v, n, ex)

(* never mis-decode: a string that is the token of n decodes to n, every other string to 0 *)
DecStrOK(P, v, s, ex, r) ==
  LET t == IF ex THEN Swap12(s) ELSE s IN
  IF InImage(t) THEN EncNum(P, v, r) = B58Dec(t).v ELSE r = Zero4

EncStrD(P, v, n, ex) == LET t == B58EncD(EncNum(P, v, n)) IN IF ex THEN Swap12(t) ELSE t
DecStrD(P, v, s, ex) ==
  LET t == IF ex THEN Swap12(s) ELSE s
      d == B58Dec(t)
  IN IF ~d.ok THEN Zero4
     ELSE IF Len(d.v) = 4 THEN DecNumD(P, v, d.v)
     ELSE IF LenientLen /\ Len(d.v) < 4 THEN DecNumD(P, v, [i \in 1..(4 - Len(d.v)) |-> 0] \o d.v)
     ELSE Zero4

\* ------------------------------------------------------------ Snappy blocks
(* Format description of Snappy: a little-endian base-128 varint with the   *)
(* uncompressed length, then elements: tag%4 = 0 literal (length-1 in the   *)
(* upper six bits, 60..63 = that many-59 length bytes follow), 1 copy with  *)
(* length 4..11 and 11-bit offset, 2 / 3 copy with length 1..64 and 16 /    *)
(* 32-bit offset.  A copy repeats what was produced `offset` bytes ago,     *)
(* byte by byte (it may overlap its own output).  Block bytes are 0..255.   *)
SnHuge == 268435456      \* 2^28: more than any block built here can denote
SnBad == [ok |-> FALSE, v |-> <<>>, els |-> <<>>, lax |-> FALSE]

RECURSIVE LEVal(_, _, _)
LEVal(x, p, k) == IF k = 0 THEN 0 ELSE x[p] + 256 * LEVal(x, p + 1, k - 1)
LE(x, p, k) == IF k = 4 /\ x[p + 3] >= 16 THEN SnHuge ELSE LEVal(x, p, k)

RECURSIVE VarEnd(_, _)
VarEnd(x, i) == IF i > Len(x) THEN 0 ELSE IF x[i] < 128 THEN i ELSE VarEnd(x, i + 1)
RECURSIVE VarVal(_, _, _)
VarVal(x, i, k) == IF i > k \/ i > 4 THEN 0 ELSE (x[i] % 128) + 128 * VarVal(x, i + 1, k)
Preamble(x) ==
  LET k == VarEnd(x, 1) IN
  IF k = 0 THEN [ok |-> FALSE, huge |-> FALSE, val |-> 0, next |-> 0, minimal |-> TRUE]
  ELSE [ok |-> TRUE, huge |-> \E i \in 5..k : x[i] % 128 # 0, val |-> VarVal(x, 1, k),
        next |-> k + 1, minimal |-> (k = 1 \/ x[k] # 0)]

CopyBytes(out, off, len) ==
  LET d == Len(out) IN
  IF NaiveOverlap
  THEN [i \in 1..len |-> IF d - off + i <= d THEN out[d - off + i] ELSE 0]
  ELSE [i \in 1..len |-> out[d - off + 1 + ((i - 1) % off)]]

RECURSIVE SnRun(_, _, _, _, _)
SnRun(x, p, out, dlen, els) ==
  LET n == Len(x) IN
  IF p > n THEN (IF Len(out) = dlen THEN [ok |-> TRUE, v |-> out, els |-> els, lax |-> FALSE] ELSE SnBad)
  ELSE
    LET t == x[p] % 4
        hi == x[p] \div 4
        d == Len(out)
    IN IF t = 0
       THEN LET nb == IF hi < 60 THEN 0 ELSE hi - 59 IN
            IF p + nb > n THEN SnBad
            ELSE LET len == IF nb = 0 THEN hi + 1 ELSE LE(x, p + 1, nb) + 1
                     s == p + nb + 1
                 IN IF len > dlen - d \/ len > n - s + 1 THEN SnBad
                    ELSE SnRun(x, s + len, out \o SubSeq(x, s, s + len - 1), dlen,
                               Append(els, [k |-> "lit", at |-> d, len |-> len, arg |-> s]))
       ELSE LET nb == IF t = 1 THEN 1 ELSE IF t = 2 THEN 2 ELSE 4 IN
            IF p + nb > n THEN SnBad
            ELSE LET len == IF t = 1 THEN 4 + (hi % 8) ELSE hi + 1
                     off == IF t = 1 THEN (hi \div 8) * 256 + x[p + 1] ELSE LE(x, p + 1, nb)
                 IN IF off < 1 \/ off > d \/ len > dlen - d THEN SnBad
                    ELSE SnRun(x, p + nb + 1, out \o CopyBytes(out, off, len), dlen,
                               Append(els, [k |-> "copy", at |-> d, len |-> len, arg |-> off]))

SnDenote(x) ==
  LET pr == Preamble(x) IN
  IF ~pr.ok \/ pr.huge THEN SnBad
  ELSE LET r == SnRun(x, pr.next, <<>>, pr.val, <<>>) IN
       [ok |-> r.ok, v |-> r.v, els |-> r.els, lax |-> (r.ok /\ ~pr.minimal)]

(* neptune's wrapper: the empty input stands for the empty output *)
SnDenoteW(x) == IF x = <<>> THEN [ok |-> TRUE, v |-> <<>>, els |-> <<>>, lax |-> FALSE] ELSE SnDenote(x)

MaxEnc(n) == 32 + n + n \div 6          \* documented bound of a Snappy compressor

(* out: "ok" | "err" | anything else (panic) *)
UnzOK(x, out, r) ==
  LET d == SnDenoteW(x) IN
  IF ~d.ok THEN out = "err"
  ELSE IF d.lax THEN (out = "err" \/ (out = "ok" /\ r = d.v))
  ELSE out = "ok" /\ r = d.v

ZipOK(b, out, r) ==
  /\ out = "ok"
  /\ Len(r) <= MaxEnc(Len(b))
  /\ LET d == SnDenoteW(r) IN d.ok /\ ~d.lax /\ d.v = b

ZipPOK(b, p, out, r) ==
  /\ out = "ok"
  /\ Len(r) >= Len(p) /\ SubSeq(r, 1, Len(p)) = p
  /\ ZipOK(b, "ok", SubSeq(r, Len(p) + 1, Len(r)))

(* declarative re-reading of an accepted block: the elements tile the output, a literal is *)
(* the block's bytes, every byte of a copy equals the byte `offset` positions before it    *)
Tiles(els, out) ==
  /\ \A i \in 1..Len(els) : els[i].at = (IF i = 1 THEN 0 ELSE els[i - 1].at + els[i - 1].len)
  /\ Len(out) = (IF els = <<>> THEN 0 ELSE els[Len(els)].at + els[Len(els)].len)
ElementsOK(x, els, out) ==
  \A i \in 1..Len(els) :
    LET e == els[i] IN
    \A j \in 1..e.len :
      IF e.k = "lit" THEN out[e.at + j] = x[e.arg + j - 1]
      ELSE out[e.at + j] = out[e.at + j - e.arg]

\* ------------------------------------------------------------ jsonx envelope
CONSTANT Thresh          \* texts up to this many bytes are never compressed (256 in the code)
Marker == 128

Unwrap(d) ==
  IF d # <<>> /\ d[1] = Marker THEN SnDenoteW(Tail(d))
  ELSE [ok |-> TRUE, v |-> d, els |-> <<>>, lax |-> FALSE]

(* buf: a text that does not start with the marker byte (no JSON text does) *)
WrapOK(buf, out, r) ==
  /\ out = "ok"
  /\ Len(r) <= Len(buf)
  /\ (Len(buf) <= Thresh => r = buf)
  /\ LET u == Unwrap(r) IN u.ok /\ ~u.lax /\ u.v = buf

(* outcomes of parsing a text: [ok, val]; val = canonical rendering of the decoded value *)
SameOutcome(a, b) == a.ok = b.ok /\ (a.ok => a.val = b.val)
USnapOK(data, res, pre, plain, inner) ==
  IF data = <<>> THEN res.ok /\ res.val = pre                \* nothing to decode, target untouched
  ELSE IF data[1] # Marker THEN SameOutcome(res, plain)
  ELSE LET d == SnDenoteW(Tail(data)) IN
       IF ~d.ok THEN ~res.ok
       ELSE \/ d.lax /\ ~res.ok
            \/ inner.has /\ inner.pay = d.v /\ SameOutcome(res, inner)

\* ------------------------------------------------------------ design (reference realisation)
RECURSIVE Varint(_)
Varint(n) == IF n < 128 THEN <<n>> ELSE <<128 + (n % 128)>> \o Varint(n \div 128)
RECURSIVE Lits(_)
Lits(b) == IF b = <<>> THEN <<>>
           ELSE LET k == IF Len(b) < 60 THEN Len(b) ELSE 60 IN
                <<(k - 1) * 4>> \o SubSeq(b, 1, k) \o Lits(SubSeq(b, k + 1, Len(b)))
SnLiteralEnc(b) == Varint(Len(b)) \o Lits(b)
IsRun(b) == Len(b) >= 5 /\ Len(b) <= 12 /\ \A i \in 1..Len(b) : b[i] = b[1]
(* one literal byte, then a copy with offset 1 that overlaps its own output *)
SnRunEnc(b) == <<Len(b), 0, b[1], 1 + 4 * (Len(b) - 5), 1>>
ZipD(b) == IF b = <<>> THEN <<>> ELSE IF IsRun(b) THEN SnRunEnc(b) ELSE SnLiteralEnc(b)
WrapD(buf) ==
  IF Len(buf) <= Thresh THEN buf
  ELSE LET c == <<Marker>> \o ZipD(buf) IN IF Len(c) > Len(buf) THEN buf ELSE c

\* ------------------------------------------------------------ the state machine
(* Action records (exactly what the harness logs):                           *)
(*   [op "enc", v, n] [op "dec", v, m]           numbers as 4 bytes, big-endian *)
(*   [op "encs", v, n, ex] [op "decs", v, s, ex]  tokens as byte codes          *)
(*   [op "zip", b] [op "unz", blk] [op "zipp", b, p]                              *)
(*   [op "wrap", b] [op "usnap", data]                                          *)
(* Every call is a pure function of the instance configuration: no variable    *)
(* changes, which is the history-independence part of the contract.            *)
ReplyOf(a) ==
  CASE a.op = "enc"   -> [out |-> "ok", r |-> EncNum(pad, a.v, a.n)]
    [] a.op = "dec"   -> [out |-> "ok", r |-> DecNumD(pad, a.v, a.m)]
    [] a.op = "encs"  -> [out |-> "ok", r |-> EncStrD(pad, a.v, a.n, a.ex)]
    [] a.op = "decs"  -> [out |-> "ok", r |-> DecStrD(pad, a.v, a.s, a.ex)]
    [] a.op = "zip"   -> [out |-> "ok", r |-> ZipD(a.b)]
    [] a.op = "zipp"  -> [out |-> "ok", r |-> a.p \o ZipD(a.b)]
    [] a.op = "wrap"  -> [out |-> "ok", r |-> WrapD(a.b)]
    [] a.op = "unz"   -> LET d == SnDenoteW(a.blk) IN
                         [out |-> IF d.ok THEN "ok" ELSE "err", r |-> d.v, els |-> d.els]
    [] a.op = "usnap" -> LET d == Unwrap(a.data) IN
                         [out |-> IF d.ok THEN "ok" ELSE "err", r |-> d.v]
    [] OTHER -> [out |-> "none"]

Do(a) == pad' = pad
Step(a) == Do(a) /\ last' = a @@ ReplyOf(a)

---------------------------------------------------------------------------
(* Bounded instance *)
CONSTANTS PadSet, VSet, NumSet, StrSet, ByteStrs, BlockSet, PrefSet, BufSet, DataSet

Acts ==
  [op : {"enc"}, v : VSet, n : NumSet] \cup [op : {"dec"}, v : VSet, m : NumSet]
  \cup [op : {"encs"}, v : VSet, n : NumSet, ex : BOOLEAN]
  \cup [op : {"decs"}, v : VSet, s : StrSet, ex : BOOLEAN]
  \cup [op : {"zip"}, b : ByteStrs] \cup [op : {"unz"}, blk : BlockSet]
  \cup [op : {"zipp"}, b : ByteStrs, p : PrefSet]
  \cup [op : {"wrap"}, b : BufSet] \cup [op : {"usnap"}, data : DataSet]

Init == pad \in PadSet /\ last = [op |-> "init"]
Next == \E a \in Acts : Step(a)
Spec == Init /\ [][Next]_allvars

(* ------------------------- properties -------------------------------- *)
(* Action properties over the output record last' (hidden by the VIEW).    *)
TypeOK == pad \in [1..4 -> 0..(B - 1)]

(* X01-1 round trip, both ways and for every form *)
RoundTrip ==
  [][LET a == last' IN
     /\ a.op = "enc"  => DecNumD(pad, a.v, a.r) = a.n /\ DecNumOK(pad, a.v, a.r, a.n)
     /\ a.op = "dec"  => DecNumOK(pad, a.v, a.m, a.r)
     /\ a.op = "encs" => DecStrD(pad, a.v, a.r, a.ex) = a.n /\ DecStrOK(pad, a.v, a.r, a.ex, a.n)]_allvars

(* X01-2 the token form is exactly the numeral of the number form *)
TokenFormat ==
  [][LET a == last' IN a.op = "encs" => EncStrOK(pad, a.v, a.n, a.ex, a.r)]_allvars

(* X01-3 never mis-decode *)
NeverMisdecode ==
  [][LET a == last' IN a.op = "decs" => DecStrOK(pad, a.v, a.s, a.ex, a.r)]_allvars

(* X01-4 Snappy: an accepted block is exactly the declarative reading of its elements, *)
(* whatever the compressor emits comes back                                            *)
SnappyExact ==
  [][LET a == last' IN
     /\ a.op = "unz" => /\ UnzOK(a.blk, a.out, a.r)
                        /\ a.out = "ok" /\ a.blk # <<>> =>
                             /\ Len(a.r) = Preamble(a.blk).val
                             /\ Tiles(a.els, a.r) /\ ElementsOK(a.blk, a.els, a.r)
     /\ a.op = "zip"  => ZipOK(a.b, a.out, a.r) /\ UnzOK(a.r, "ok", a.b)
     /\ a.op = "zipp" => ZipPOK(a.b, a.p, a.out, a.r)]_allvars

(* X01-5 the envelope is transparent and never enlarges *)
Envelope ==
  [][LET a == last' IN a.op = "wrap" => WrapOK(a.b, a.out, a.r)]_allvars

View == <<pad>>
=============================================================================
