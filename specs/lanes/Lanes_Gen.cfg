SPECIFICATION GenSpec
CONSTANTS
  Calls = {1, 2, 3, 4, 5, 6, 7}
  Hashes <- ModelHashesGen
  MaxLanes = 7
  Kinds = {"line", "mline", "runq", "pchan"}
  LaneCounts = {1, 2, 3, 7}
  QSizes = {0, 1, 2}
  HashBits = 4
  Fails = {TRUE, FALSE}
  Pres = {TRUE, FALSE}
  FixSlot = TRUE
  FixPcAdd = TRUE
  FixPopAnyway = TRUE
  Depth = 44
INVARIANTS Emit
CHECK_DEADLOCK FALSE
