------------------------------- MODULE Lanes -------------------------------
(***************************************************************************)
(* neptune syncx/pipe serial executors ("actor lanes"):                    *)
(*   line   line.Line            one queue, one consumer                   *)
(*   mline  mline.MultiLine      nl queues, lane = Slot(hash)              *)
(*   runq   async.RunnerQ        one queue, reflective call/delegate/proc  *)
(*   pchan  async.ProcChan       one buffered channel + stop channel       *)
(*                                                                         *)
(* A call c goes through                                                   *)
(*   inv     the caller enters AsyncCall (external)                        *)
(*   enq     the submission takes effect: accepted on a lane / full /      *)
(*           closed                                                        *)
(*   start   the lane's consumer took c from the head of its queue and     *)
(*           entered the callee            | skip: context already ended,  *)
(*                                           the callee is not entered     *)
(*   end     the callee returns (external: the callee is harness code)     *)
(*   ret     the caller gets its reply                                     *)
(* plus run, cancel(c), stopi / close(l) / stopr (Stop closes the lanes    *)
(* one by one, in any order; what is still open when it returns is closed  *)
(* at the return) and exit(l) (the lane goroutine terminates).             *)
(*                                                                         *)
(* What the property leaves open is left open here:                        *)
(*   - the hash -> lane map is any function into 0..nl-1 (variable `slot`; *)
(*     the MC configurations instantiate it with the code's formula on     *)
(*     HashBits-wide two's-complement integers, FixSlot = FALSE being the  *)
(*     pinned formula "negate, then remainder");                           *)
(*   - when a submission is answered "full" (only: not without pressure);  *)
(*   - whether a call whose context has ended is still executed;           *)
(*   - result vs. context error when both are available;                   *)
(*   - pchan: after Stop the backlog may be run or dropped and waiting     *)
(*     callers may be told "closed".                                       *)
(* Named deviations (non-vacuity witnesses):                               *)
(*   FixSlot = FALSE       Slot(minimum integer) is negative               *)
(*   FixPcAdd = FALSE      pchan submission racing the closed stop channel *)
(*                         may be accepted after Stop returned             *)
(*   FixPopAnyway = FALSE  consumer leaves on close with a backlog         *)
(***************************************************************************)
EXTENDS Integers, Sequences, FiniteSets, TLC

CONSTANTS Calls, Hashes, MaxLanes, Kinds, LaneCounts, QSizes, HashBits,
          Fails, Pres,   \* values of the inv flags explored (fail: callee returns an error; pre: context ended before the call)
          FixSlot, FixPcAdd, FixPopAnyway

VARIABLES
  kind, nl, qsize,   \* configuration
  slot,      \* hash -> lane (Unknown: not yet seen, traces only)
  started,   \* Run was called
  up,        \* lane -> consumer goroutine alive
  qclosed,   \* lane -> queue closed (pchan: the stop channel is closed)
  stopst,    \* "no" | "ing" | "done"   (Stop not called / inside Stop / Stop returned)
  queue,     \* lane -> FIFO of accepted calls not yet taken
  cs,        \* call -> "none" | "queued" | "running" | "done" | "skipped" | "dropped"
  cw,        \* caller -> "idle" | "called" | "wait" | "rej" | "back"
  rj,        \* caller -> rejection reason while cw = "rej"
  info,      \* call -> [h, fail, kd] as submitted (kd: kind of what the callee hands back)
  lane,      \* call -> lane it was accepted on (-1 none)
  ctxd,      \* call -> its context has ended
  late,      \* call -> invoked after Stop had returned
  rv,        \* caller -> reply received
  acc,       \* lane -> history of accepted calls
  sto,       \* lane -> history of started calls
  nst,       \* call -> number of times the callee was entered
  last       \* latest action record (output only)

vars    == <<kind, nl, qsize, slot, started, up, qclosed, stopst, queue, cs, cw, rj, info, lane,
             ctxd, late, rv, acc, sto, nst>>
allvars == <<vars, last>>

LaneIds == 0..(MaxLanes - 1)
Used(l) == l < nl
Busy(l) == \E c \in Calls : cs[c] = "running" /\ lane[c] = l

Unknown == 1000     \* slot of a hash class not yet seen (traces only)
\* NOTE: TLC sorts the fields of a record lazily, and a constant-level record is one object shared
\* by all workers: two workers were seen sorting one at the same time ("Field name r occurs multiple
\* times in record" / "nonexistent field op", about 1 run in 6 with -workers 4).  Hence no
\* multi-field record in the actions below is constant-level (`c - c` for 0, `\E b \in {0}`); the
\* check also re-runs a model-checking run that dies of this TLC race.
R(k, v, e, kd) == [e |-> e, k |-> k, kd |-> kd, v |-> v]
NoRet  == R("none", 0, FALSE, 0)
NoInfo == [fail |-> FALSE, h |-> 0, kd |-> 0]

(* ---- the slot formula on HashBits-wide two's-complement integers ------- *)
MinH == -(2 ^ (HashBits - 1))
NegW(x) == IF x = MinH THEN MinH ELSE -x                 \* -x wraps at the minimum
TRem(a, n) == IF a >= 0 THEN a % n ELSE -((-a) % n)       \* Go's truncated remainder
SlotModel(h, n) ==
  IF FixSlot THEN (LET r == TRem(h, n) IN IF r < 0 THEN -r ELSE r)
  ELSE TRem(IF h < 0 THEN NegW(h) ELSE h, n)

\* hash values of the exhaustive configurations (cfg: Hashes <- ModelHashes): the minimum
\* integer, its neighbour, -1, 0 and a positive value
ModelHashes  == {MinH, -1, 2}
ModelHashes2 == {MinH, -1}
ModelHashesGen == {MinH, MinH + 1, -3, -2, -1, 0, 1, 2, 3, -MinH - 1}   \* plan generation
ModelHashes5 == {MinH, MinH + 1, -1, 0, 2}

(* ---- actions ----------------------------------------------------------- *)
Run ==
  /\ ~started
  /\ started' = TRUE
  /\ up' = [l \in LaneIds |-> Used(l)]
  /\ UNCHANGED <<kind, nl, qsize, slot, qclosed, stopst, queue, cs, cw, rj, info, lane, ctxd, late,
                 rv, acc, sto, nst>>

Inv(c, h, fail, pre, kd) ==
  /\ cw[c] = "idle"
  /\ cw' = [cw EXCEPT ![c] = "called"]
  /\ info' = [info EXCEPT ![c] = [fail |-> fail, h |-> h, kd |-> kd]]
  /\ ctxd' = [ctxd EXCEPT ![c] = pre]
  /\ late' = [late EXCEPT ![c] = (stopst = "done")]
  /\ UNCHANGED <<kind, nl, qsize, slot, started, up, qclosed, stopst, queue, cs, rj, lane, rv, acc,
                 sto, nst>>

(* "full" needs pressure: a bounded queue with at least qsize calls queued *)
(* or in execution; an unbuffered proc channel may always say full.        *)
FullOK(l) ==
  \/ qsize > 0 /\ Len(queue[l]) + (IF Busy(l) THEN 1 ELSE 0) >= qsize
  \/ kind = "pchan" /\ qsize = 0

Enq(c, r, l) ==
  /\ cw[c] = "called"
  /\ l \in LaneIds /\ Used(l)
  /\ slot[info[c].h] \in {Unknown, l}
  /\ slot' = IF r = "ok" THEN [slot EXCEPT ![info[c].h] = l] ELSE slot   \* a rejection shows no lane
  /\ CASE r = "ok" ->
            /\ ~qclosed[l] \/ (~FixPcAdd /\ kind = "pchan")
            /\ queue' = [queue EXCEPT ![l] = Append(@, c)]
            /\ acc' = [acc EXCEPT ![l] = Append(@, c)]
            /\ cs' = [cs EXCEPT ![c] = "queued"]
            /\ cw' = [cw EXCEPT ![c] = "wait"]
            /\ lane' = [lane EXCEPT ![c] = l]
            /\ UNCHANGED rj
       [] r = "full" ->
            /\ ~qclosed[l] /\ FullOK(l)
            /\ cw' = [cw EXCEPT ![c] = "rej"] /\ rj' = [rj EXCEPT ![c] = "full"]
            /\ UNCHANGED <<queue, acc, cs, lane>>
       [] r = "closed" ->
            /\ qclosed[l]
            /\ cw' = [cw EXCEPT ![c] = "rej"] /\ rj' = [rj EXCEPT ![c] = "closed"]
            /\ UNCHANGED <<queue, acc, cs, lane>>
       [] OTHER -> FALSE
  /\ UNCHANGED <<kind, nl, qsize, started, up, qclosed, stopst, info, ctxd, late, rv, sto, nst>>

AtHead(c) ==
  /\ cs[c] = "queued"
  /\ up[lane[c]] /\ ~Busy(lane[c])
  /\ queue[lane[c]] # <<>> /\ Head(queue[lane[c]]) = c

Start(c) ==
  /\ AtHead(c)
  /\ queue' = [queue EXCEPT ![lane[c]] = Tail(@)]
  /\ cs' = [cs EXCEPT ![c] = "running"]
  /\ sto' = [sto EXCEPT ![lane[c]] = Append(@, c)]
  /\ nst' = [nst EXCEPT ![c] = @ + 1]
  /\ UNCHANGED <<kind, nl, qsize, slot, started, up, qclosed, stopst, cw, rj, info, lane, ctxd, late,
                 rv, acc>>

Skip(c) ==
  /\ AtHead(c) /\ ctxd[c]
  /\ queue' = [queue EXCEPT ![lane[c]] = Tail(@)]
  /\ cs' = [cs EXCEPT ![c] = "skipped"]
  /\ UNCHANGED <<kind, nl, qsize, slot, started, up, qclosed, stopst, cw, rj, info, lane, ctxd, late,
                 rv, acc, sto, nst>>

End(c) ==
  /\ cs[c] = "running"
  /\ cs' = [cs EXCEPT ![c] = "done"]
  /\ UNCHANGED <<kind, nl, qsize, slot, started, up, qclosed, stopst, queue, cw, rj, info, lane, ctxd,
                 late, rv, acc, sto, nst>>

(* the replies a caller may receive: its own rejection, its own result,    *)
(* its own context's error (only once that context ended), and for pchan   *)
(* "closed" once the stop channel is closed                                *)
(* What the callee of c hands back is c's result whatever its dynamic kind:  *)
(* kinds 0..9 carry the call's identity (struct, pointer, int, string, slice, *)
(* map, func; error value, error pointer, wrapped error), kinds 10..19 do not *)
(* (nil, typed nil pointer, typed nil error), kind 30 / 31 is the executor's  *)
(* own "closed" / "full" error returned by the callee as ITS error, 32.. are  *)
(* other sentinel errors of the packages involved.  An executor must not     *)
(* reinterpret any of them.                                                   *)
OwnRes(c) ==
  LET kd == info[c].kd
      f  == info[c].fail
  IN IF f /\ kd = 30 THEN R("closed", c - c, FALSE, 0)
     ELSE IF f /\ kd = 31 THEN R("full", c - c, FALSE, 0)
     ELSE IF f /\ kd >= 32 THEN R("sent", kd, TRUE, kd)
     ELSE R("res", IF kd >= 10 /\ kd < 20 THEN 0 ELSE c, f, kd)

RetOK(c, r) ==
  \/ cw[c] = "rej" /\ r = R(rj[c], 0, FALSE, 0)
  \/ /\ cw[c] = "wait"
     /\ \/ cs[c] = "done" /\ r = OwnRes(c)
        \/ ctxd[c] /\ r = R("ctx", c, FALSE, 0)
        \/ kind = "pchan" /\ qclosed[0] /\ r = R("closed", c - c, FALSE, 0)

Ret(c, r) ==
  /\ RetOK(c, r)
  /\ rv' = [rv EXCEPT ![c] = r]
  /\ cw' = [cw EXCEPT ![c] = "back"]
  /\ UNCHANGED <<kind, nl, qsize, slot, started, up, qclosed, stopst, queue, cs, rj, info, lane, ctxd,
                 late, acc, sto, nst>>

Cancel(c) ==
  /\ cw[c] # "idle" /\ ~ctxd[c]
  /\ ctxd' = [ctxd EXCEPT ![c] = TRUE]
  /\ UNCHANGED <<kind, nl, qsize, slot, started, up, qclosed, stopst, queue, cs, cw, rj, info, lane,
                 late, rv, acc, sto, nst>>

(* Stop is called by the owner (record field by = 0) or by the callee of a  *)
(* running call (by = that call: an actor handling its own shutdown); the  *)
(* effect is the same.  Nothing says how long Stop takes: it may return at *)
(* once or wait for the lanes, so stopi .. stopr may span other actions.   *)
StopI ==    \* (a second Stop is a no-op in all four executors: stopOnce)
  /\ stopst = "no"
  /\ stopst' = "ing"
  /\ UNCHANGED <<kind, nl, qsize, slot, started, up, qclosed, queue, cs, cw, rj, info, lane, ctxd,
                 late, rv, acc, sto, nst>>

CloseLane(l) ==
  /\ stopst = "ing" /\ l \in LaneIds /\ Used(l) /\ ~qclosed[l]
  /\ qclosed' = [qclosed EXCEPT ![l] = TRUE]
  /\ UNCHANGED <<kind, nl, qsize, slot, started, up, stopst, queue, cs, cw, rj, info, lane, ctxd,
                 late, rv, acc, sto, nst>>

StopR ==    \* Stop returns: whatever it had not closed yet is closed now
  /\ stopst = "ing"
  /\ qclosed' = [l \in LaneIds |-> qclosed[l] \/ Used(l)]
  /\ stopst' = "done"
  /\ UNCHANGED <<kind, nl, qsize, slot, started, up, queue, cs, cw, rj, info, lane, ctxd,
                 late, rv, acc, sto, nst>>

(* a consumer leaves: its queue is closed and it is not inside a call; line, *)
(* mline and runq drain first (PopAnyway), pchan may leave a backlog behind *)
CanExit(l) ==
  /\ l \in LaneIds /\ Used(l) /\ up[l] /\ ~Busy(l) /\ qclosed[l]
  /\ queue[l] = <<>> \/ kind = "pchan" \/ ~FixPopAnyway

ExitSet(X) ==   \* the lanes in X leave (one step per lane in the exhaustive runs)
  /\ \A l \in X : CanExit(l)
  /\ up' = [l \in LaneIds |-> up[l] /\ l \notin X]
  /\ cs' = [c \in Calls |-> IF cs[c] = "queued" /\ lane[c] \in X THEN "dropped" ELSE cs[c]]
  /\ queue' = [l \in LaneIds |-> IF l \in X THEN <<>> ELSE queue[l]]
  /\ UNCHANGED <<kind, nl, qsize, slot, started, qclosed, stopst, cw, rj, info, lane, ctxd, late, rv,
                 acc, sto, nst>>

Exit(l) == ExitSet({l})

(* ---- action records, shared with the Go harness ------------------------ *)
Do(a) ==
  CASE a.op = "run"    -> Run
    [] a.op = "inv"    -> Inv(a.c, a.h, a.fail, a.pre, a.kd)
    [] a.op = "enq"    -> Enq(a.c, a.r, a.l)
    [] a.op = "start"  -> Start(a.c)
    [] a.op = "skip"   -> Skip(a.c)
    [] a.op = "end"    -> End(a.c)
    [] a.op = "ret"    -> Ret(a.c, a.r)
    [] a.op = "cancel" -> Cancel(a.c)
    [] a.op = "stopi"  -> StopI
    [] a.op = "close"  -> CloseLane(a.l)
    [] a.op = "stopr"  -> StopR
    [] a.op = "exit"   -> Exit(a.l)
    [] OTHER -> FALSE

Step(a) == Do(a) /\ last' = a

RetCands(c) == {R(rj[c], 0, FALSE, 0), OwnRes(c), R("ctx", c, FALSE, 0), R("closed", c - c, FALSE, 0)}

NextCall == IF \E c \in Calls : cw[c] = "idle"
            THEN {CHOOSE c \in Calls : cw[c] = "idle" /\ \A d \in Calls : cw[d] = "idle" => c <= d}
            ELSE {}
\* the hash matters for mline only
HashChoice == IF kind = "mline" THEN Hashes ELSE {CHOOSE h \in Hashes : TRUE}
\* a cancellation is visible only while the caller waits or the call is queued
CancelMatters(c) == cw[c] \in {"called", "wait", "rej"} \/ cs[c] = "queued"

ExtNext ==   \* what the environment (owner, callers, callee) decides
  \/ Step([op |-> "run"])
  \/ \E b \in {0} : Step([by |-> b, op |-> "stopi"])
  \/ \E c \in NextCall, h \in HashChoice, f \in Fails, p \in Pres :
       Step([c |-> c, fail |-> f, h |-> h, kd |-> c - c, op |-> "inv", pre |-> p])
  \/ \E c \in Calls : \/ Step([c |-> c, op |-> "end"])
                       \/ (CancelMatters(c) /\ Step([c |-> c, op |-> "cancel"]))
IntNext ==   \* what happens by itself
  \/ Step([op |-> "stopr"])
  \/ \E c \in Calls :
       \/ Step([c |-> c, op |-> "start"])
       \/ Step([c |-> c, op |-> "skip"])
       \/ \E r \in {"ok", "full", "closed"}, l \in LaneIds : Step([c |-> c, l |-> l, op |-> "enq", r |-> r])
       \/ \E r \in RetCands(c) : Step([c |-> c, op |-> "ret", r |-> r])
  \/ \E l \in LaneIds : Step([l |-> l, op |-> "close"]) \/ Step([l |-> l, op |-> "exit"])

InitWith(k, n, q, sl) ==
  /\ kind = k /\ nl = n /\ qsize = q /\ slot = sl
  /\ started = FALSE
  /\ up = [l \in LaneIds |-> FALSE]
  /\ qclosed = [l \in LaneIds |-> FALSE]
  /\ stopst = "no"
  /\ queue = [l \in LaneIds |-> <<>>]
  /\ cs = [c \in Calls |-> "none"]
  /\ cw = [c \in Calls |-> "idle"]
  /\ rj = [c \in Calls |-> "none"]
  /\ info = [c \in Calls |-> NoInfo]
  /\ lane = [c \in Calls |-> -1]
  /\ ctxd = [c \in Calls |-> FALSE]
  /\ late = [c \in Calls |-> FALSE]
  /\ rv = [c \in Calls |-> NoRet]
  /\ acc = [l \in LaneIds |-> <<>>]
  /\ sto = [l \in LaneIds |-> <<>>]
  /\ nst = [c \in Calls |-> 0]
  /\ last = [kind |-> k, nl |-> n, op |-> "init", qsize |-> q]

Init == \E k \in Kinds, q \in QSizes :
          \E n \in (IF k = "mline" THEN LaneCounts ELSE {1}) :
            InitWith(k, n, q, [h \in Hashes |-> IF k = "mline" THEN SlotModel(h, n) ELSE 0])

Next == ExtNext \/ IntNext
\* plan generation mirrors the executor: the environment moves only when nothing moves by itself
\* (RandomElement keeps `inv` one successor among the others instead of |Hashes| * 4, starts the
\* consumers early most of the time and keeps Stop from ending most plans at once)
GenExt ==
  IF ~started /\ RandomElement(1..10) <= 7 THEN Step([op |-> "run"])
  ELSE
    \/ Step([op |-> "run"])
    \/ (stopst = "no" /\ (RandomElement(1..4) = 1 \/ NextCall = {}))
         /\ Step([by |-> RandomElement({0} \cup {c \in Calls : cs[c] = "running"}), op |-> "stopi"])
    \/ \E c \in NextCall :
         Step([c |-> c, fail |-> RandomElement(Fails), h |-> RandomElement(HashChoice), kd |-> c - c, op |-> "inv", pre |-> (TRUE \in Pres /\ RandomElement(1..5) = 1)])
    \/ \E c \in Calls : \/ Step([c |-> c, op |-> "end"])
                         \/ (CancelMatters(c) /\ RandomElement(1..2) = 1 /\ Step([c |-> c, op |-> "cancel"]))
GenNext == IF ENABLED IntNext THEN IntNext ELSE GenExt
GenSpec == Init /\ [][GenNext]_allvars
Spec == Init /\ [][Next]_allvars

FairSpec ==
  /\ Spec
  /\ WF_allvars(IntNext)
  /\ WF_allvars(Step([op |-> "run"]))
  /\ \A c \in Calls : WF_allvars(Step([c |-> c, op |-> "end"]))

-----------------------------------------------------------------------------
TypeOK ==
  /\ nl \in Nat \ {0} /\ qsize \in Nat     \* (lanes beyond MaxLanes-1 are not modelled: no call may land there)
  /\ stopst \in {"no", "ing", "done"}
  /\ \A c \in Calls :
       /\ cs[c] \in {"none", "queued", "running", "done", "skipped", "dropped"}
       /\ cw[c] \in {"idle", "called", "wait", "rej", "back"}
       /\ lane[c] \in LaneIds \cup {-1}

(* every accepted call enters the callee at most once *)
AtMostOnce == \A c \in Calls : nst[c] <= 1

(* executions on one lane never overlap *)
Serial == \A l \in LaneIds : Cardinality({c \in Calls : cs[c] = "running" /\ lane[c] = l}) <= 1

(* calls of one lane start in the order they were accepted: the started    *)
(* calls are the accepted ones in the same order, and nobody overtakes a   *)
(* call that is still queued                                               *)
Order ==
  \A l \in LaneIds :
    /\ SelectSeq(acc[l], LAMBDA c : nst[c] > 0) = sto[l]
    /\ \A i, j \in 1..Len(acc[l]) : (i < j /\ nst[acc[l][j]] > 0) => cs[acc[l][i]] # "queued"
    /\ \A i \in 1..Len(queue[l]) : cs[queue[l][i]] = "queued" /\ lane[queue[l][i]] = l

(* a call whose callee was not entered ended for a reason the property allows *)
SkipSound == \A c \in Calls :
  /\ cs[c] = "skipped" => ctxd[c]
  /\ cs[c] = "dropped" => qclosed[lane[c]]

(* each caller receives its own result, its own context's error, or a rejection *)
Routed == \A c \in Calls : cw[c] = "back" =>
  \/ rv[c] = OwnRes(c) /\ cs[c] = "done"
  \/ rv[c] = R("ctx", c, FALSE, 0) /\ ctxd[c]
  \/ rv[c] = R("full", 0, FALSE, 0) /\ cs[c] = "none"
  \/ rv[c] = R("closed", 0, FALSE, 0) /\ (cs[c] = "none" \/ kind = "pchan") /\ \E l \in LaneIds : qclosed[l]

(* lane = Slot(hash), a function of the hash into 0..nl-1 *)
SlotInRange == \A h \in Hashes : slot[h] = Unknown \/ (slot[h] >= 0 /\ slot[h] < nl)
SlotFun == \A c \in Calls : lane[c] # -1 => (lane[c] = slot[info[c].h] /\ lane[c] >= 0 /\ lane[c] < nl)

(* after Stop returned no later submission is accepted *)
NoLateAccept == \A c \in Calls : late[c] => cs[c] = "none"

(* no lane goroutine leaves before Stop, none leaves a backlog behind (line, mline, runq) *)
ExitSound == \A l \in LaneIds : (started /\ Used(l) /\ ~up[l]) => qclosed[l]
NoOrphan == kind # "pchan" => \A c \in Calls : cs[c] # "dropped"

(* A state in which nothing happens by itself: what the real executor must *)
(* have reached when every goroutine is parked (used by the plan           *)
(* generator and by the `quiet` events of recorded traces).  It says that  *)
(* every submission was answered or queued, every available reply was      *)
(* delivered, no live idle lane has work, and a closed idle lane is gone   *)
(* (a Stop that has not returned yet may be parked: it may be waiting for  *)
(* the lanes).                                                             *)
(* H: callers that have handed their call over but have not yet looked at   *)
(* their context and result (a descheduled submitter); a reply that waits    *)
(* for one of them is the environment's delay, not the executor's.           *)
QuiescentBut(H) ==
  /\ \A c \in Calls :
       /\ cw[c] \notin {"called", "rej"}
       /\ (cw[c] = "wait" /\ c \notin H) =>
            ~(cs[c] = "done" \/ ctxd[c] \/ (kind = "pchan" /\ qclosed[0]))
  /\ \A x \in LaneIds : (up[x] /\ ~Busy(x)) => (queue[x] = <<>> /\ ~qclosed[x])

Quiescent == QuiescentBut({})

(* The quiescent state at the end of a run in which the environment has    *)
(* started the consumers, called Stop and let every callee that asked       *)
(* return: Stop has returned, every accepted call has completed (pchan: or  *)
(* was dropped), every caller is back and every lane goroutine is gone.     *)
(* This is the safety form of Completes / Returns / Terminates below.       *)
Final ==
  /\ Quiescent
  /\ started /\ stopst = "done"
  /\ \A c \in Calls : cs[c] \notin {"queued", "running"} /\ cw[c] \in {"idle", "back"}
  /\ \A x \in LaneIds : ~up[x]

(* liveness, under FairSpec *)
Completes  == \A c \in Calls : (cs[c] = "queued" /\ kind # "pchan") ~> (cs[c] \in {"done", "skipped"})
Returns    == \A c \in Calls : (cw[c] \in {"called", "wait", "rej"}) ~> (cw[c] = "back")
Terminates == (stopst # "no") ~> (started /\ \A l \in LaneIds : ~up[l])

View == vars
=============================================================================
