SPECIFICATION Spec
CONSTANTS
  Calls = {1, 2, 3}
  Hashes <- ModelHashes2
  MaxLanes = 2
  Kinds = {"mline"}
  LaneCounts = {2}
  QSizes = {1}
  HashBits = 3
  Fails = {FALSE}
  Pres = {FALSE}
  FixSlot = TRUE
  FixPcAdd = TRUE
  FixPopAnyway = TRUE
INVARIANTS TypeOK AtMostOnce Serial Order SkipSound Routed SlotInRange SlotFun NoLateAccept ExitSound NoOrphan
VIEW View
CHECK_DEADLOCK FALSE
