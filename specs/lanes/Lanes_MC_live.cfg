SPECIFICATION FairSpec
CONSTANTS
  Calls = {1, 2}
  Hashes <- ModelHashes2
  MaxLanes = 1
  Kinds = {"line"}
  LaneCounts = {1}
  QSizes = {1}
  HashBits = 3
  Fails = {FALSE}
  Pres = {FALSE}
  FixSlot = TRUE
  FixPcAdd = TRUE
  FixPopAnyway = TRUE
PROPERTIES Completes Returns Terminates
CHECK_DEADLOCK FALSE
