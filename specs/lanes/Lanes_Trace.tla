--------------------------- MODULE Lanes_Trace ---------------------------
(* Validates ndjson traces recorded from the real executors against Lanes. *)
(* Events (logged in an order consistent with real time: callers log `inv` *)
(* before calling and `ret` after returning, the callee logs `start` on    *)
(* entry and `end` before it returns, `cancel` / `stopi` are logged before *)
(* and `stopr` after the respective call):                                 *)
(*   reset  {kind, nl, qsize}       new executor (also separates traces)   *)
(*   idx    {h, r}                  MultiLine.IndexOf(hash class h) = r    *)
(*   run                                                                   *)
(*   stopi {by} | stopr {by}        Stop called / returned (by: 0 owner,   *)
(*                                  c: the callee of running call c)       *)
(*   inv    {c, h, fail, pre, kd}   caller c enters AsyncCall (kd: kind of *)
(*                                  what its callee will hand back)        *)
(*   start  {c, lane, g}            callee entered: lane index it was      *)
(*                                  given (g: goroutine, for the reader)   *)
(*   end    {c}                     callee about to return                 *)
(*   ret    {c, r}                  reply received by the caller           *)
(*   cancel {c}                                                            *)
(*   held {c} | look {c}            submitter c has handed its call over   *)
(*                                  but is kept from looking at its        *)
(*                                  context and result / is let go         *)
(*   term                           the owner's wait for termination (wait *)
(*                                  group / WaitStop) has just returned    *)
(*   cfg    {nl, q}                 what SlotSize and QSize / Size report  *)
(*   late   {stoppers, accepted, executed, other, stuck}   one Stop || Stop *)
(*                                  round, counted by the harness          *)
(*   burst  {n, own, entered, overlap, disorder, wronglane}   n calls one  *)
(*                                  after the other, counted by the harness *)
(*   quiet  {alive, term, final}    every goroutine is parked: some        *)
(*                                  goroutine of the executor is left,     *)
(*                                  owner's wait for termination returned; *)
(*                                  final: the harness has started the     *)
(*                                  consumers, called Stop and opened      *)
(*                                  every gate a callee reached            *)
(* Not logged, inferred by TLC (silent steps): the moment a submission     *)
(* takes effect and its outcome (acceptance order!), a consumer skipping a *)
(* call whose context ended, Stop closing a lane; a consumer leaving is    *)
(* accounted for at the next `quiet`.                                      *)
EXTENDS Lanes, Json, IOUtils

TraceLog == ndJsonDeserialize(IOEnv.VERIF_TRACE)

VARIABLES pos,    \* line of the log
          heldc   \* submitters held between handing their call over and looking at context / result
tvars == <<allvars, pos, heldc>>

TraceInit == pos = 1 /\ heldc = {} /\ InitWith("line", 1, 0, [h \in Hashes |-> 0])

TReset(e) ==
  /\ kind' = e.kind /\ nl' = e.nl /\ qsize' = e.qsize
  /\ slot' = [h \in Hashes |-> IF e.kind = "mline" THEN Unknown ELSE 0]
  /\ started' = FALSE
  /\ up' = [x \in LaneIds |-> FALSE]
  /\ qclosed' = [x \in LaneIds |-> FALSE]
  /\ stopst' = "no"
  /\ queue' = [x \in LaneIds |-> <<>>]
  /\ cs' = [c \in Calls |-> "none"]
  /\ cw' = [c \in Calls |-> "idle"]
  /\ rj' = [c \in Calls |-> "none"]
  /\ info' = [c \in Calls |-> NoInfo]
  /\ lane' = [c \in Calls |-> -1]
  /\ ctxd' = [c \in Calls |-> FALSE]
  /\ late' = [c \in Calls |-> FALSE]
  /\ rv' = [c \in Calls |-> NoRet]
  /\ acc' = [x \in LaneIds |-> <<>>]
  /\ sto' = [x \in LaneIds |-> <<>>]
  /\ nst' = [c \in Calls |-> 0]
  /\ last' = [kind |-> e.kind, nl |-> e.nl, op |-> "init", qsize |-> e.qsize]

(* IndexOf must be the routing function: in range, and the lane the calls  *)
(* with that hash really run on                                            *)
TIdx(e) ==
  /\ e.r >= 0 /\ e.r < nl
  /\ slot[e.h] \in {Unknown, e.r}
  /\ slot' = [slot EXCEPT ![e.h] = e.r]
  /\ UNCHANGED <<kind, nl, qsize, started, up, qclosed, stopst, queue, cs, cw, rj, info, lane, ctxd,
                 late, rv, acc, sto, nst, last>>

(* the index handed to the callee is the index of the lane the call runs on *)
TStart(e) ==
  /\ Step([c |-> e.c, op |-> "start"])
  /\ lane[e.c] = e.lane

(* Every goroutine is parked.  A consumer leaving is not logged and is seen  *)
(* only here (leaving earlier or later changes nothing a caller or callee   *)
(* can see), so the lanes that can leave do so now; the state reached must  *)
(* be one in which nothing moves by itself.  (Before Run, `alive` is left   *)
(* open: MultiLine.Stop starts its exit signaller even then.)               *)
TQuiet(e) ==
  /\ ExitSet({x \in LaneIds : CanExit(x)})
  /\ IF e.final THEN Final' /\ heldc = {} ELSE QuiescentBut(heldc)'
  /\ e.term = (started /\ \A x \in LaneIds : ~up'[x])
  /\ (\E x \in LaneIds : up'[x]) => e.alive    \* a live lane is a live goroutine
  /\ e.term => ~e.alive                        \* after termination nothing of the executor is left
  /\ UNCHANGED last

(* The owner's wait for termination (WaitStop / the wait group) returned.   *)
(* It is logged after the return, so by now the consumers were started and  *)
(* every lane goroutine has left: no lane is inside a call or has a backlog *)
(* (pchan: the backlog is dropped), and no callee is entered afterwards.    *)
TTerm ==
  /\ started
  /\ ExitSet({x \in LaneIds : CanExit(x)})
  /\ \A x \in LaneIds : ~up'[x]
  /\ UNCHANGED last

(* A long run: n calls made one after the other through a started, idle      *)
(* executor that nobody has stopped, logged run-length encoded.  Each of     *)
(* them is accepted (nothing is queued or running when it arrives), runs     *)
(* once on the lane of its hash, alone and in order, and its caller gets its *)
(* own result - n times over, whatever n is.                                 *)
TBurst(e) ==
  /\ started /\ stopst = "no"
  /\ \A x \in LaneIds : Used(x) => (up[x] /\ ~Busy(x) /\ queue[x] = <<>>)
  /\ \A c \in Calls : cw[c] \in {"idle", "back"}
  /\ e.own = e.n /\ e.entered = e.n
  /\ e.overlap = 0 /\ e.disorder = 0 /\ e.wronglane = 0
  /\ UNCHANGED allvars

(* One Stop-race round on a fresh, started executor of this trace's kind and *)
(* lane count (the lanes may be far more than LaneIds): several goroutines   *)
(* called Stop at the same moment and each submitted one call as soon as ITS *)
(* Stop had returned.  After a Stop that returned - any of them - no call is *)
(* accepted and none is executed; every one of those callers was told        *)
(* "closed"; Stop, the callers and the owner's wait for termination all      *)
(* came back.                                                                *)
TLate(e) ==
  /\ e.accepted = 0 /\ e.executed = 0 /\ e.other = 0 /\ e.stuck = 0
  /\ UNCHANGED allvars

(* the getters (SlotSize, QSize / Size) report the configuration, also while calls are in flight *)
TCfg(e) == e.nl = nl /\ e.q = qsize /\ UNCHANGED allvars

Consume ==
  /\ pos <= Len(TraceLog) /\ pos' = pos + 1
  /\ heldc' = (LET e == TraceLog[pos] IN
                 CASE e.ev = "reset" -> {}
                   [] e.ev = "held"  -> heldc \cup {e.c}
                   [] e.ev = "look"  -> heldc \ {e.c}
                   [] OTHER -> heldc)
  /\ LET e == TraceLog[pos] IN
       CASE e.ev = "reset"  -> TReset(e)
         [] e.ev \in {"held", "look"} -> UNCHANGED allvars
         [] e.ev = "idx"    -> TIdx(e)
         [] e.ev = "start"  -> TStart(e)
         [] e.ev = "quiet"  -> TQuiet(e)
         [] e.ev = "run"    -> IF started THEN UNCHANGED allvars    \* Run again: no-op (startOnce)
                               ELSE Step([op |-> "run"])
         [] e.ev = "term"   -> TTerm
         [] e.ev = "burst"  -> TBurst(e)
         [] e.ev = "late"   -> TLate(e)
         [] e.ev = "cfg"    -> TCfg(e)
         [] e.ev = "stopi"  -> IF stopst = "no" THEN Step([by |-> e.by, op |-> "stopi"])
                               ELSE UNCHANGED allvars                      \* Stop again: no-op
         [] e.ev = "stopr"  -> IF stopst = "ing" THEN Step([op |-> "stopr"])
                               ELSE stopst = "done" /\ UNCHANGED allvars  \* a second Stop returning
         [] e.ev = "inv"    -> Step([c |-> e.c, fail |-> e.fail, h |-> e.h, kd |-> e.kd, op |-> "inv", pre |-> e.pre])
                              
         [] e.ev = "end"    -> Step([c |-> e.c, op |-> "end"])
         [] e.ev = "ret"    -> Step([c |-> e.c, op |-> "ret", r |-> e.r])
         [] e.ev = "cancel" -> Step([c |-> e.c, op |-> "cancel"])
         [] OTHER -> FALSE

(* A Stop that is parked (it may wait for the lanes) has closed whatever it  *)
(* closes; besides the per-lane inference above only "everything" is tried  *)
(* (which lanes are closed shows only in `term`, i.e. when all are).        *)
CloseAll ==
  /\ TraceLog[pos].ev \in {"quiet", "term"}   \* needed only for lanes leaving, which is seen there
  /\ stopst = "ing" /\ \E x \in LaneIds : Used(x) /\ ~qclosed[x]
  /\ qclosed' = [x \in LaneIds |-> qclosed[x] \/ Used(x)]
  /\ last' = [op |-> "closeall"]
  /\ UNCHANGED <<kind, nl, qsize, slot, started, up, stopst, queue, cs, cw, rj, info, lane, ctxd,
                 late, rv, acc, sto, nst>>

(* Silent steps.  Stop closing a lane before it returns matters only to a    *)
(* submission that is still pending (and, for pchan, to a waiting caller,   *)
(* who may be told "closed"), so it is inferred only then.                  *)
Silent ==
  /\ pos <= Len(TraceLog) /\ TraceLog[pos].ev # "reset"
  /\ UNCHANGED <<pos, heldc>>
  /\ \/ \E c \in Calls :
          \/ Step([c |-> c, op |-> "skip"])
          \/ \E r \in {"ok", "full", "closed"}, x \in LaneIds :
               Step([c |-> c, l |-> x, op |-> "enq", r |-> r])
     \/ \E x \in LaneIds :
          /\ \E c \in Calls : \/ cw[c] = "called" /\ slot[info[c].h] \in {Unknown, x}
                              \/ cw[c] = "wait" /\ kind = "pchan"
          /\ Step([l |-> x, op |-> "close"])
     \/ CloseAll

TraceNext == Consume \/ Silent
TraceSpec == TraceInit /\ [][TraceNext]_tvars

ASSUME TLCSet(1, 0)
Mark == TLCSet(1, IF pos > TLCGet(1) THEN pos ELSE TLCGet(1))
Accepted == PrintT(<<"MARK", TLCGet(1), Len(TraceLog)>>) /\ TLCGet(1) = Len(TraceLog) + 1
=============================================================================
