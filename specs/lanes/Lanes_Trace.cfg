SPECIFICATION TraceSpec
CONSTANTS
  Calls = {1, 2, 3, 4, 5, 6, 7, 8, 9, 10, 11, 12}
  Hashes = {1, 2, 3, 4, 5, 6, 7, 8}
  MaxLanes = 7
  Kinds = {"line"}
  LaneCounts = {1}
  QSizes = {0}
  HashBits = 3
  Fails = {FALSE}
  Pres = {FALSE}
  FixSlot = TRUE
  FixPcAdd = TRUE
  FixPopAnyway = TRUE
INVARIANTS TypeOK AtMostOnce Serial Order SkipSound Routed SlotInRange SlotFun NoLateAccept ExitSound NoOrphan
CONSTRAINT Mark
POSTCONDITION Accepted
CHECK_DEADLOCK FALSE
