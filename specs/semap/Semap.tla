------------------------------- MODULE Semap -------------------------------
(***************************************************************************)
(* neptune syncx/semap: a map  key -> weighted semaphore used as a          *)
(* reader/writer lock (reader weight 1, writer weight = ratio).            *)
(*                                                                         *)
(* One action per critical section of the code (one hold of the map        *)
(* mutex):                                                                 *)
(*   Acquire(p,k,m)   lookup-or-create the entry, grant at once or enqueue *)
(*   Release(p)       give tokens back, grant waiters strictly in queue    *)
(*                    order (notifyWaiters), delete the entry when unused  *)
(*   CancelWake(p)    p's context ended while p waits: p leaves the select *)
(*                    and is about to re-lock (no lock held: a separate,   *)
(*                    independently scheduled step)                        *)
(*   CancelResolve(p) under the lock: "already granted" wins, otherwise    *)
(*                    unlink; if p was the head and tokens are free, grant *)
(* Entries have identities because the failure mode to exclude is "a       *)
(* second entry for a key that is still held".                             *)
(*                                                                         *)
(* FixRelease = FALSE reproduces the rule of the pinned code (delete the   *)
(* entry whenever the waiter list is empty) and violates Exclusion,        *)
(* NoResidue and StaleFree; it is kept as the non-vacuity witness.         *)
(***************************************************************************)
EXTENDS Integers, Sequences, FiniteSets, TLC

CONSTANTS Procs, Keys, Ratios, FixRelease

MaxEnt == Cardinality(Procs) + Cardinality(Keys)
Ents   == 1..MaxEnt

VARIABLES
  ratio,   \* configuration: rwRatio >= 1
  ent,     \* key -> entry id currently in the map (0 = no entry)
  cur,     \* entry -> tokens handed out
  wq,      \* entry -> FIFO of waiting processes
  pc,      \* proc -> "idle" | "wait" | "cancelling" | "cgranted" | "hold"
  req,     \* proc -> [k, n, e] of its current call / hold
  last     \* latest action record (output only)

vars    == <<ratio, ent, cur, wq, pc, req>>
allvars == <<vars, last>>

NoReq == [k |-> 0, n |-> 0, e |-> 0]
Weight(m)  == IF m = "w" THEN ratio ELSE 1

(* The mutable part of the state as one record, so that a step of the code *)
(* is a function S -> S and multi-step calls are function composition.     *)
S == [ent |-> ent, cur |-> cur, wq |-> wq, pc |-> pc, req |-> req]

InUseS(s) == ({s.ent[k] : k \in Keys} \cup {s.req[p].e : p \in {q \in Procs : s.pc[q] # "idle"}}) \ {0}
FreshS(s) == CHOOSE e \in Ents \ InUseS(s) : \A f \in Ents \ InUseS(s) : e <= f

(* notifyWaiters: grant strictly in queue order; stop at the first waiter  *)
(* that does not fit.  Returns <<cur, queue, granted set>>.                *)
RECURSIVE Notify(_, _, _, _)
Notify(rq, c, q, g) ==
  IF q = <<>> THEN <<c, q, g>>
  ELSE LET p == Head(q) IN
       IF ratio - c < rq[p].n THEN <<c, q, g>>
       ELSE Notify(rq, c + rq[p].n, Tail(q), g \cup {p})

GrantPc(s, p, g) ==   \* p leaves (idle); granted plain waiters hold, gated cancellers learn later
  [q \in Procs |-> IF q = p THEN "idle"
                   ELSE IF q \in g THEN (IF s.pc[q] = "wait" THEN "hold" ELSE "cgranted")
                   ELSE s.pc[q]]

CanAcquire(s, p) == s.pc[p] = "idle"
AcquireF(s, p, k, m) ==
  LET fresh == s.ent[k] = 0
      e == IF fresh THEN FreshS(s) ELSE s.ent[k]
      n == Weight(m)
      c == IF fresh THEN 0 ELSE s.cur[e]
      q == IF fresh THEN <<>> ELSE s.wq[e]
      now == ratio - c >= n /\ q = <<>>                  \* tokens AND nobody waiting
  IN [ent |-> [s.ent EXCEPT ![k] = e],
      req |-> [s.req EXCEPT ![p] = [k |-> k, n |-> n, e |-> e]],
      cur |-> [s.cur EXCEPT ![e] = IF now THEN c + n ELSE c],
      wq  |-> [s.wq EXCEPT ![e] = IF now THEN q ELSE Append(q, p)],
      pc  |-> [s.pc EXCEPT ![p] = IF now THEN "hold" ELSE "wait"]]

CanRelease(s, p) == s.pc[p] = "hold"
ReleaseF(s, p) ==
  LET e == s.req[p].e
      k == s.req[p].k
      r == Notify(s.req, s.cur[e] - s.req[p].n, s.wq[e], {})
      del == r[2] = <<>> /\ (~FixRelease \/ r[1] = 0)      \* the code deletes by key
  IN [ent |-> IF del THEN [s.ent EXCEPT ![k] = 0] ELSE s.ent,
      req |-> [s.req EXCEPT ![p] = NoReq],
      cur |-> [s.cur EXCEPT ![e] = r[1]],
      wq  |-> [s.wq EXCEPT ![e] = r[2]],
      pc  |-> GrantPc(s, p, r[3])]

CanCancelWake(s, p) == s.pc[p] = "wait"
CancelWakeF(s, p) == [s EXCEPT !.pc[p] = "cancelling"]

CanCancelResolve(s, p) == s.pc[p] \in {"cancelling", "cgranted"}
CancelResolveF(s, p) ==
  IF s.pc[p] = "cgranted"
  THEN [s EXCEPT !.pc[p] = "hold"]                 \* acquired after the cancellation: keep it
  ELSE LET e == s.req[p].e
           isFront == Head(s.wq[e]) = p
           rest == SelectSeq(s.wq[e], LAMBDA x : x # p)
           r == IF isFront /\ ratio > s.cur[e] THEN Notify(s.req, s.cur[e], rest, {})
                ELSE <<s.cur[e], rest, {}>>
       IN [ent |-> s.ent,
           req |-> [s.req EXCEPT ![p] = NoReq],
           cur |-> [s.cur EXCEPT ![e] = r[1]],
           wq  |-> [s.wq EXCEPT ![e] = r[2]],
           pc  |-> GrantPc(s, p, r[3])]

(* one critical section as guard + function (used by the trace spec for batches) *)
CanF(s, a) ==
  CASE a.op = "acq"      -> CanAcquire(s, a.p)
    [] a.op = "rel"      -> CanRelease(s, a.p)
    [] a.op = "cresolve" -> CanCancelResolve(s, a.p)
    [] OTHER -> FALSE
ApplyF(s, a) ==
  CASE a.op = "acq"      -> AcquireF(s, a.p, a.k, a.m)
    [] a.op = "rel"      -> ReleaseF(s, a.p)
    [] a.op = "cresolve" -> CancelResolveF(s, a.p)
    [] OTHER -> s

Install(t) == ent' = t.ent /\ cur' = t.cur /\ wq' = t.wq /\ pc' = t.pc /\ req' = t.req /\ UNCHANGED ratio

(* action records, shared with the Go harness *)
Do(a) ==
  CASE a.op = "acq"      -> CanAcquire(S, a.p) /\ Install(AcquireF(S, a.p, a.k, a.m))
    [] a.op = "rel"      -> CanRelease(S, a.p) /\ Install(ReleaseF(S, a.p))
    [] a.op = "cwake"    -> CanCancelWake(S, a.p) /\ Install(CancelWakeF(S, a.p))
    [] a.op = "cresolve" -> CanCancelResolve(S, a.p) /\ Install(CancelResolveF(S, a.p))
    [] a.op = "cancel"   -> \* ungated cancellation: both halves back to back
         CanCancelWake(S, a.p) /\ Install(CancelResolveF(CancelWakeF(S, a.p), a.p))
    [] a.op = "acqc"     -> \* acquire with a context that has already ended (ungated)
         /\ CanAcquire(S, a.p)
         /\ LET t == AcquireF(S, a.p, a.k, a.m) IN
              IF t.pc[a.p] = "hold" THEN Install(t)
              ELSE Install(CancelResolveF(CancelWakeF(t, a.p), a.p))
    [] OTHER -> FALSE

Step(a) == Do(a) /\ last' = a

Acts == [op : {"acq", "acqc"}, p : Procs, k : Keys, m : {"r", "w"}]
   \cup [op : {"rel", "cwake", "cresolve", "cancel"}, p : Procs]

InitWith(r) ==
  /\ ratio = r
  /\ ent = [k \in Keys |-> 0]
  /\ cur = [e \in Ents |-> 0]
  /\ wq = [e \in Ents |-> <<>>]
  /\ pc = [p \in Procs |-> "idle"]
  /\ req = [p \in Procs |-> NoReq]
  /\ last = [op |-> "init", ratio |-> r]

Init == \E r \in Ratios : InitWith(r)
Next == \E a \in Acts : Step(a)
Spec == Init /\ [][Next]_allvars
FairSpec == Spec /\ \A p \in Procs : WF_allvars(Step([op |-> "cresolve", p |-> p]))

-----------------------------------------------------------------------------
Active(p)  == pc[p] # "idle"
Holding(p) == pc[p] \in {"hold", "cgranted"}      \* owns tokens
Queued(p)  == pc[p] \in {"wait", "cancelling"}    \* linked in a waiter list
HoldersOf(k) == {p \in Procs : Holding(p) /\ req[p].k = k}
WaitersOf(k) == {p \in Procs : Queued(p) /\ req[p].k = k}

TypeOK ==
  /\ ratio \in Nat \ {0}
  /\ \A p \in Procs : pc[p] \in {"idle", "wait", "cancelling", "cgranted", "hold"}
  /\ \A e \in Ents : cur[e] \in 0..ratio

(* at every instant: one writer or at most `ratio` readers per key *)
Exclusion ==
  \A k \in Keys :
    LET H == HoldersOf(k) IN
      \/ H = {}
      \/ (\A p \in H : req[p].n = 1) /\ Cardinality(H) <= ratio
      \/ Cardinality(H) = 1
WeightBound == \A k \in Keys :
  LET H == HoldersOf(k)
      RECURSIVE Sum(_)
      Sum(T) == IF T = {} THEN 0 ELSE LET x == CHOOSE y \in T : TRUE IN req[x].n + Sum(T \ {x})
  IN Sum(H) <= ratio
(* the container keeps an entry exactly while somebody holds or waits *)
NoResidue == \A k \in Keys : (ent[k] # 0) <=> (HoldersOf(k) \cup WaitersOf(k) # {})
(* everybody works on the entry that is in the map *)
StaleFree == \A p \in Procs : Active(p) => ent[req[p].k] = req[p].e
(* token accounting *)
CurIsSum == \A k \in Keys : ent[k] # 0 =>
  LET H == {p \in HoldersOf(k) : req[p].e = ent[k]}
      RECURSIVE Sum(_)
      Sum(T) == IF T = {} THEN 0 ELSE LET x == CHOOSE y \in T : TRUE IN req[x].n + Sum(T \ {x})
  IN cur[ent[k]] = Sum(H)
QueueSound == \A e \in Ents : \A i \in 1..Len(wq[e]) : Queued(wq[e][i]) /\ req[wq[e][i]].e = e
(* nobody waits while the head of its queue would fit (hand-off is immediate) *)
NoLostGrant == \A e \in Ents : wq[e] # <<>> => ratio - cur[e] < req[Head(wq[e])].n

(* FIFO: a waiter is granted only when it is at the head; an arrival behind *)
(* a non-empty queue never holds at once.                                  *)
FIFO == [][
   /\ \A p \in Procs : (Queued(p) /\ pc'[p] \in {"hold", "cgranted"}) =>
         \A i \in 1..Len(wq[req[p].e]) :
            (wq[req[p].e][i] = p) => \A j \in 1..(i-1) :
               pc'[wq[req[p].e][j]] \in {"hold", "cgranted", "idle"}
   /\ \A p \in Procs : (pc[p] = "idle" /\ pc'[p] = "hold") =>
         (ent[req'[p].k] = 0 \/ wq[ent[req'[p].k]] = <<>>)
 ]_allvars

(* a successful acquire holds until its own release *)
HoldStable == [][\A p \in Procs : (pc[p] = "hold" /\ pc'[p] # "hold") => last'.op = "rel" /\ last'.p = p]_allvars

(* liveness: a cancellation always resolves; a waiter whose predecessors left is granted *)
Resolves == \A p \in Procs : (pc[p] \in {"cancelling", "cgranted"}) ~> (pc[p] \in {"idle", "hold"})

View == vars
=============================================================================
