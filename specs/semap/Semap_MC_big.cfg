SPECIFICATION Spec
CONSTANTS
  Procs = {1, 2, 3, 4}
  Keys = {1, 2}
  Ratios = {1, 2, 3}
  FixRelease = TRUE
INVARIANTS TypeOK Exclusion WeightBound NoResidue StaleFree CurIsSum QueueSound NoLostGrant
PROPERTIES FIFO HoldStable
VIEW View
CHECK_DEADLOCK FALSE
