---------------------------- MODULE Semap_IndRef ----------------------------
(***************************************************************************)
(* Refinement mapping Semap.tla -> Semap_Ind.tla, checked by TLC on the    *)
(* constants of Semap_MC.cfg (Semap_IndRef.cfg):                           *)
(*   IndInvRef   the inductive invariant of Semap_Ind holds in every       *)
(*               reachable state of Semap!Spec;                            *)
(*   StepRef     every step of Semap!Next is a step of Semap_Ind!Next      *)
(*               (so what Apalache proves about Semap_Ind!Next is proved   *)
(*               about Semap!Next);                                        *)
(* and Semap_Ind_MC.cfg runs Semap_Ind!Spec on its own: the number of      *)
(* distinct states must equal that of Semap_MC.cfg (checks/c01.py), which  *)
(* together with StepRef and the injectivity of the mapping on states      *)
(* satisfying QueueSound means Semap_Ind allows nothing more either.       *)
(***************************************************************************)
EXTENDS Semap

PosOf == [p \in Procs |->
            IF Queued(p) THEN CHOOSE i \in 1..Len(wq[req[p].e]) : wq[req[p].e][i] = p ELSE 0]

I == INSTANCE Semap_Ind WITH Ents <- Ents,
       rk <- [p \in Procs |-> req[p].k], rn <- [p \in Procs |-> req[p].n],
       re <- [p \in Procs |-> req[p].e], pos <- PosOf

IndInvRef == I!IndInv
InitRef   == I!Init
StepRef   == [][I!Next]_vars
=============================================================================
