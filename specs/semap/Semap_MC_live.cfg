SPECIFICATION FairSpec
CONSTANTS
  Procs = {1, 2, 3}
  Keys = {1}
  Ratios = {2}
  FixRelease = TRUE
PROPERTIES Resolves
CHECK_DEADLOCK FALSE
