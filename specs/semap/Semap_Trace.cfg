SPECIFICATION TraceSpec
CONSTANTS
  Procs = {1, 2, 3, 4, 5, 6}
  Keys = {1, 2, 3}
  Ratios = {1}
  FixRelease = TRUE
INVARIANTS TypeOK Exclusion WeightBound NoResidue StaleFree CurIsSum QueueSound NoLostGrant
CONSTRAINT Mark
POSTCONDITION Accepted
CHECK_DEADLOCK FALSE
