SPECIFICATION Spec
CONSTANTS
  Procs = {1, 2, 3}
  Keys = {1}
  Ratios = {1, 2}
  FixRelease = TRUE
INVARIANTS IndInvRef
PROPERTIES StepRef InitRef
VIEW View
CHECK_DEADLOCK FALSE
