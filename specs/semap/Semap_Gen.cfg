SPECIFICATION Spec
CONSTANTS
  Procs = {1, 2, 3, 4}
  Keys = {1, 2}
  Ratios = {1, 2, 3}
  FixRelease = TRUE
  Depth = 16
INVARIANTS Emit
CHECK_DEADLOCK FALSE
