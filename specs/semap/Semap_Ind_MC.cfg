INIT MCInit
NEXT Next
CONSTANTS
  Procs = {1, 2, 3}
  Keys = {1}
  Ents = {1, 2, 3, 4}
  FixRelease = TRUE
INVARIANTS IndInv
CHECK_DEADLOCK FALSE
