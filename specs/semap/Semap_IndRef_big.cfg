SPECIFICATION Spec
CONSTANTS
  Procs = {1, 2, 3, 4}
  Keys = {1, 2}
  Ratios = {1, 2, 3}
  FixRelease = TRUE
INVARIANTS IndInvRef
PROPERTIES StepRef InitRef
VIEW View
CHECK_DEADLOCK FALSE
