--------------------------- MODULE Semap_Trace ---------------------------
(* Validates step-by-step executions of the real semaphore maps.  Every    *)
(* event is one external step issued by the harness followed by global     *)
(* quiescence; it carries the status of every worker and the projection of *)
(* the container state read through the verif accessors.                   *)
(*   reset {ratio, ...}                                                    *)
(*   step  {a, st, keys, entries}                                          *)
(*   batch {as, st, keys, entries}       critical sections queued on the held mutex    *)
(*                                       or released together by one barrier (race step)  *)
(*   run   {a, n, ok, st, keys, entries} n cycles of acquire a and its release by one process     *)
(*   mon   {kind: "in"|"out", p, k, m}   free-running monitor events       *)
EXTENDS Semap, Json, IOUtils

TraceLog == ndJsonDeserialize(IOEnv.VERIF_TRACE)
VARIABLES l, inside
tvars == <<allvars, l, inside>>

Status(s) == CASE s = "idle" -> "idle" [] s = "hold" -> "hold" [] s = "wait" -> "parked"
               [] s \in {"cancelling", "cgranted"} -> "gate"

TraceInit == l = 1 /\ InitWith(1) /\ inside = [k \in Keys |-> <<>>]

TReset(e) ==
  /\ ratio' = e.ratio
  /\ ent' = [k \in Keys |-> 0] /\ cur' = [x \in Ents |-> 0] /\ wq' = [x \in Ents |-> <<>>]
  /\ pc' = [p \in Procs |-> "idle"] /\ req' = [p \in Procs |-> NoReq]
  /\ last' = [op |-> "init", ratio |-> e.ratio]
  /\ inside' = [k \in Keys |-> <<>>]

KeyObs(k, en, cu, q) ==
  IF en[k] = 0 THEN [present |-> FALSE, cur |-> 0, waiters |-> 0]
  ELSE [present |-> TRUE, cur |-> cu[en[k]], waiters |-> Len(q[en[k]])]

TStep(e) ==
  /\ Step(e.a)
  /\ \A p \in 1..Len(e.st) : e.st[p] = Status(pc'[p])
  /\ \A k \in 1..Len(e.keys) : e.keys[k] = KeyObs(k, ent', cur', wq')
  /\ e.entries = Cardinality({k \in Keys : ent'[k] # 0})
  /\ UNCHANGED inside

(* A batch: the harness held the map mutex while the batch's calls queued on it, then let go, so   *)
(* their critical sections ran back to back.  Cancellations have left the select before the     *)
(* batch ran (CancelWake first); the critical sections themselves may have run in any order -    *)
(* TLC searches the permutations - and the quiescent observation must match the result.          *)
TBatch(e) ==
  LET as == e.as
      n  == Len(as)
      RECURSIVE Wake(_, _)
      Wake(s, i) == IF i > n THEN s
                    ELSE IF as[i].op = "cancel" /\ CanCancelWake(s, as[i].p)
                         THEN Wake(CancelWakeF(s, as[i].p), i + 1) ELSE Wake(s, i + 1)
      item(i) == IF as[i].op = "cancel" THEN [op |-> "cresolve", p |-> as[i].p] ELSE as[i]
      RECURSIVE Run(_, _, _)
      Run(s, f, i) == IF i > n THEN [ok |-> TRUE, s |-> s]
                      ELSE IF CanF(s, item(f[i])) THEN Run(ApplyF(s, item(f[i])), f, i + 1)
                           ELSE [ok |-> FALSE, s |-> s]
      s0 == Wake(S, 1)
  IN \E f \in Permutations(1..n) :
       LET r == Run(s0, f, 1) IN
         /\ r.ok
         /\ Install(r.s)
         /\ last' = [op |-> "batch"]
         /\ \A p \in 1..Len(e.st) : e.st[p] = Status(pc'[p])
         /\ \A k \in 1..Len(e.keys) : e.keys[k] = KeyObs(k, ent', cur', wq')
         /\ e.entries = Cardinality({k \in Keys : ent'[k] # 0})
         /\ UNCHANGED inside

(* A run: n cycles of one acquire and its release, back to back, by an idle process, issued only  *)
(* where the acquire is granted at once.  Then one cycle leaves the state exactly as it was, hence *)
(* so do n of them: every cycle must have gone through (ok = n) and the observation is that of the *)
(* unchanged state.                                                                                *)
TRun(e) ==
  LET a == e.a
      t == AcquireF(S, a.p, a.k, a.m)
  IN /\ CanAcquire(S, a.p)
     /\ t.pc[a.p] = "hold"
     /\ ReleaseF(t, a.p) = S
     /\ e.n >= 1 /\ e.ok = e.n
     /\ \A p \in 1..Len(e.st) : e.st[p] = Status(pc[p])
     /\ \A k \in 1..Len(e.keys) : e.keys[k] = KeyObs(k, ent, cur, wq)
     /\ e.entries = Cardinality({k \in Keys : ent[k] # 0})
     /\ last' = [op |-> "run"]
     /\ UNCHANGED <<vars, inside>>

(* Free-running stress: `in` is logged after an acquire returned, `out`    *)
(* before the release is called, so logged hold intervals lie inside the   *)
(* real ones and an overlap in the log is a real overlap.                  *)
TMon(e) ==
  /\ IF e.kind = "in"
     THEN /\ inside' = [inside EXCEPT ![e.k] = Append(@, [p |-> e.p, m |-> e.m])]
          /\ LET H == inside'[e.k] IN
               \/ (\A i \in 1..Len(H) : H[i].m = "r") /\ Len(H) <= ratio
               \/ Len(H) = 1
     ELSE inside' = [inside EXCEPT ![e.k] = SelectSeq(@, LAMBDA x : x.p # e.p)]
  /\ UNCHANGED allvars

TEnd(e) ==   \* end of a free-running run: everybody came back, nothing held, nothing kept
  /\ e.stuck = 0
  /\ \A k \in Keys : inside[k] = <<>>
  /\ e.entries = 0
  /\ UNCHANGED <<allvars, inside>>

(* retention probe: one goroutine acquired and released e.n distinct keys one after the other and  *)
(* kept none of them; e.per1k = bytes the heap kept per 1000 keys (after collections, the smaller  *)
(* of two rounds).  No residue: no entry is left and what is kept does not grow with the number of *)
(* keys (8 bytes a key would be 8000).                                                             *)
RetainBound == 4000
TRetain(e) ==
  /\ \A k \in Keys : inside[k] = <<>>
  /\ e.n >= 1000 /\ e.entries = 0
  /\ e.per1k >= 0 /\ e.per1k < RetainBound
  /\ UNCHANGED <<allvars, inside>>

TraceNext ==
  /\ l <= Len(TraceLog) /\ l' = l + 1
  /\ LET e == TraceLog[l] IN
       CASE e.ev = "reset" -> TReset(e)
         [] e.ev = "step"  -> TStep(e)
         [] e.ev = "batch" -> TBatch(e)
         [] e.ev = "run"   -> TRun(e)
         [] e.ev = "mon"   -> TMon(e)
         [] e.ev = "end"   -> TEnd(e)
         [] e.ev = "retain" -> TRetain(e)
         [] OTHER -> FALSE

TraceSpec == TraceInit /\ [][TraceNext]_tvars

ASSUME TLCSet(1, 0)
Mark == TLCSet(1, IF l > TLCGet(1) THEN l ELSE TLCGet(1))
Accepted == PrintT(<<"MARK", TLCGet(1), Len(TraceLog)>>) /\ TLCGet(1) = Len(TraceLog) + 1
=============================================================================
