----------------------------- MODULE Semap_Ind -----------------------------
(***************************************************************************)
(* Inductive invariant of the design in Semap.tla, typed for Apalache.     *)
(*                                                                         *)
(* Semap.tla itself is not typable (RECURSIVE Notify / Sum, heterogeneous  *)
(* action record `last`, CASE over action records) and its waiter queues   *)
(* are sequences, on which Apalache stalls (> 5 min for 2 processes).  The *)
(* transition relation is therefore RESTATED here on a sequence-free       *)
(* representation of the same state:                                       *)
(*    ratio, ent, cur, pc      as in Semap.tla                             *)
(*    rk, rn, re               req[p].k, req[p].n, req[p].e                *)
(*    pos                      pos[p] = index of p in wq[req[p].e] if p is *)
(*                             linked in a waiter list, else 0             *)
(* with the same step functions on a state record (AcquireF, ReleaseF,     *)
(* CancelWakeF, CancelResolveF, GrantPc, FreshS) and the same six actions  *)
(* (acq, rel, cwake, cresolve, cancel, acqc).  Left out: `last` and the    *)
(* action records (Next quantifies over the parameters of Acts).  The      *)
(* recursive Notify is replaced by its closed form: because every weight   *)
(* is >= 1, "grant in queue order, stop at the first that does not fit"    *)
(* grants exactly the waiters whose prefix sum of weights fits.  Ents is a *)
(* CONSTANT (Semap.tla: 1..(|Procs|+|Keys|)).                              *)
(*                                                                         *)
(* Semap_IndRef.tla is the refinement mapping and lets TLC check, on the   *)
(* MC constants of Semap_MC.cfg, that every step of Semap!Next is a step   *)
(* of Next here and vice versa (so this copy cannot drift), and that       *)
(* IndInv holds in every reachable state of Semap!Spec.                    *)
(*                                                                         *)
(* Apalache:  Init => IndInv  and  IndInit /\ NextAtomic => IndInv'  with  *)
(* --cinit=CInit (repaired rule) resp. CInitDev (pinned rule: the step     *)
(* fails, non-vacuity witness).  NextAtomic is the four critical sections  *)
(* acq, rel, cwake, cresolve.  The ungated actions are, as written in      *)
(* Semap.tla, compositions of these on the state record:                   *)
(*   cancel = cwake ; cresolve        acqc = acq [; cwake ; cresolve]      *)
(* (the guards of the later parts hold by construction), and every         *)
(* intermediate record is a state of this module, so an invariant that is  *)
(* preserved by the four is preserved by the six.  The step for the full   *)
(* Next (six actions) also passes, in ~7 min (run by hand, see             *)
(* extras/ind.md); the check uses NextAtomic to stay inside the time       *)
(* budget of the thorough tier.                                            *)
(***************************************************************************)
EXTENDS Integers, FiniteSets, Apalache

CONSTANTS
  \* @type: Set(Int);
  Procs,
  \* @type: Set(Int);
  Keys,
  \* @type: Set(Int);
  Ents,
  \* @type: Bool;
  FixRelease

VARIABLES
  \* @type: Int;
  ratio,
  \* @type: Int -> Int;
  ent,
  \* @type: Int -> Int;
  cur,
  \* @type: Int -> Str;
  pc,
  \* @type: Int -> Int;
  rk,
  \* @type: Int -> Int;
  rn,
  \* @type: Int -> Int;
  re,
  \* @type: Int -> Int;
  pos

(* @typeAlias: state = {ent: Int -> Int, cur: Int -> Int, pc: Int -> Str, rk: Int -> Int,
                        rn: Int -> Int, re: Int -> Int, pos: Int -> Int}; *)
vars == <<ratio, ent, cur, pc, rk, rn, re, pos>>

CInit    == Procs = 1..3 /\ Keys = 1..2 /\ Ents = 1..5 /\ FixRelease = TRUE
CInitDev == Procs = 1..3 /\ Keys = 1..2 /\ Ents = 1..5 /\ FixRelease = FALSE

Weight(m) == IF m = "w" THEN ratio ELSE 1
PcVals == {"idle", "wait", "cancelling", "cgranted", "hold"}

\* @type: $state;
S == [ent |-> ent, cur |-> cur, pc |-> pc, rk |-> rk, rn |-> rn, re |-> re, pos |-> pos]

\* @type: $state => Set(Int);
InUseS(s) == ({s.ent[k] : k \in Keys} \cup {s.re[p] : p \in {q \in Procs : s.pc[q] # "idle"}}) \ {0}
\* @type: $state => Int;
FreshS(s) == CHOOSE e \in Ents \ InUseS(s) : \A f \in Ents \ InUseS(s) : e <= f

(* the waiter list of entry e, as a set ordered by pos *)
\* @type: ($state, Int) => Set(Int);
QS(s, e) == {p \in Procs : s.pc[p] \in {"wait", "cancelling"} /\ s.re[p] = e}

\* @type: (Int -> Int, Set(Int)) => Int;
SumOver(w, T) == LET \* @type: (Int, Int) => Int;
                     Add(acc, p) == acc + w[p]
                 IN ApaFoldSet(Add, 0, T)
\* @type: Set(Int) => Int;
Count(T) == LET \* @type: (Int, Int) => Int;
                Inc(acc, p) == acc + 1
            IN ApaFoldSet(Inc, 0, T)

(* notifyWaiters on the waiters Q (ordered by s.pos) with c tokens out:     *)
(* the granted set.  Closed form of Semap!Notify.                          *)
\* @type: ($state, Int, Set(Int)) => Set(Int);
Granted(s, c, Q) == {p \in Q : c + SumOver(s.rn, {q \in Q : s.pos[q] <= s.pos[p]}) <= ratio}

(* positions after the waiters R have left the list Q *)
\* @type: ($state, Set(Int), Set(Int)) => (Int -> Int);
Renumber(s, Q, R) ==
  [q \in Procs |-> IF q \in R THEN 0
                   ELSE IF q \in Q THEN Count({r \in Q \ R : s.pos[r] <= s.pos[q]})
                   ELSE s.pos[q]]

\* @type: ($state, Int, Set(Int)) => (Int -> Str);
GrantPc(s, p, g) ==
  [q \in Procs |-> IF q = p THEN "idle"
                   ELSE IF q \in g THEN (IF s.pc[q] = "wait" THEN "hold" ELSE "cgranted")
                   ELSE s.pc[q]]

\* @type: ($state, Int) => Bool;
CanAcquire(s, p) == s.pc[p] = "idle"
\* @type: ($state, Int, Int, Str) => $state;
AcquireF(s, p, k, m) ==
  LET fresh == s.ent[k] = 0
      e == IF fresh THEN FreshS(s) ELSE s.ent[k]
      n == Weight(m)
      c == IF fresh THEN 0 ELSE s.cur[e]
      Q == IF fresh THEN {} ELSE QS(s, e)
      now == ratio - c >= n /\ Q = {}
  IN [ent |-> [s.ent EXCEPT ![k] = e],
      rk  |-> [s.rk EXCEPT ![p] = k],
      rn  |-> [s.rn EXCEPT ![p] = n],
      re  |-> [s.re EXCEPT ![p] = e],
      cur |-> [s.cur EXCEPT ![e] = IF now THEN c + n ELSE c],
      pos |-> [s.pos EXCEPT ![p] = IF now THEN 0 ELSE Count(Q) + 1],
      pc  |-> [s.pc EXCEPT ![p] = IF now THEN "hold" ELSE "wait"]]

\* @type: ($state, Int) => Bool;
CanRelease(s, p) == s.pc[p] = "hold"
\* @type: ($state, Int) => $state;
ReleaseF(s, p) ==
  LET e == s.re[p]
      k == s.rk[p]
      Q == QS(s, e)
      c == s.cur[e] - s.rn[p]
      g == Granted(s, c, Q)
      c2 == c + SumOver(s.rn, g)
      del == Q \ g = {} /\ (~FixRelease \/ c2 = 0)
  IN [ent |-> IF del THEN [s.ent EXCEPT ![k] = 0] ELSE s.ent,
      rk  |-> [s.rk EXCEPT ![p] = 0],
      rn  |-> [s.rn EXCEPT ![p] = 0],
      re  |-> [s.re EXCEPT ![p] = 0],
      cur |-> [s.cur EXCEPT ![e] = c2],
      pos |-> Renumber(s, Q, g),
      pc  |-> GrantPc(s, p, g)]

\* @type: ($state, Int) => Bool;
CanCancelWake(s, p) == s.pc[p] = "wait"
\* @type: ($state, Int) => $state;
CancelWakeF(s, p) == [s EXCEPT !.pc = [s.pc EXCEPT ![p] = "cancelling"]]

\* @type: ($state, Int) => Bool;
CanCancelResolve(s, p) == s.pc[p] \in {"cancelling", "cgranted"}
\* @type: ($state, Int) => $state;
CancelResolveF(s, p) ==
  IF s.pc[p] = "cgranted"
  THEN [s EXCEPT !.pc = [s.pc EXCEPT ![p] = "hold"]]
  ELSE LET e == s.re[p]
           Q == QS(s, e)
           isFront == s.pos[p] = 1
           notify == isFront /\ ratio > s.cur[e]
           g == IF notify THEN Granted(s, s.cur[e], Q \ {p}) ELSE {}
       IN [ent |-> s.ent,
           rk  |-> [s.rk EXCEPT ![p] = 0],
           rn  |-> [s.rn EXCEPT ![p] = 0],
           re  |-> [s.re EXCEPT ![p] = 0],
           cur |-> [s.cur EXCEPT ![e] = s.cur[e] + SumOver(s.rn, g)],
           pos |-> Renumber(s, Q, g \cup {p}),
           pc  |-> GrantPc(s, p, g)]

\* @type: $state => Bool;
Install(t) == /\ ent' = t.ent /\ cur' = t.cur /\ pc' = t.pc /\ rk' = t.rk /\ rn' = t.rn /\ re' = t.re
              /\ pos' = t.pos /\ UNCHANGED ratio

Acq(p, k, m)  == CanAcquire(S, p) /\ Install(AcquireF(S, p, k, m))
Rel(p)        == CanRelease(S, p) /\ Install(ReleaseF(S, p))
CWake(p)      == CanCancelWake(S, p) /\ Install(CancelWakeF(S, p))
CResolve(p)   == CanCancelResolve(S, p) /\ Install(CancelResolveF(S, p))
Cancel(p)     == CanCancelWake(S, p) /\ Install(CancelResolveF(CancelWakeF(S, p), p))
AcqC(p, k, m) == /\ CanAcquire(S, p)
                 /\ LET t == AcquireF(S, p, k, m) IN
                      IF t.pc[p] = "hold" THEN Install(t)
                      ELSE Install(CancelResolveF(CancelWakeF(t, p), p))

Init ==
  /\ ratio \in Nat \ {0}
  /\ ent = [k \in Keys |-> 0]
  /\ cur = [e \in Ents |-> 0]
  /\ pc = [p \in Procs |-> "idle"]
  /\ rk = [p \in Procs |-> 0]
  /\ rn = [p \in Procs |-> 0]
  /\ re = [p \in Procs |-> 0]
  /\ pos = [p \in Procs |-> 0]

MCInit == ratio \in {1, 2} /\ Init      \* TLC only (Semap_Ind_MC.cfg): Ratios of Semap_MC.cfg

Next ==
  \E p \in Procs :
    \/ \E k \in Keys : \E m \in {"r", "w"} : Acq(p, k, m) \/ AcqC(p, k, m)
    \/ Rel(p) \/ CWake(p) \/ CResolve(p) \/ Cancel(p)

NextAtomic ==
  \E p \in Procs :
    \/ \E k \in Keys : \E m \in {"r", "w"} : Acq(p, k, m)
    \/ Rel(p) \/ CWake(p) \/ CResolve(p)

Spec == Init /\ [][Next]_vars

-----------------------------------------------------------------------------
Active(p)  == pc[p] # "idle"
Holding(p) == pc[p] \in {"hold", "cgranted"}
Queued(p)  == pc[p] \in {"wait", "cancelling"}
HoldersOf(k) == {p \in Procs : Holding(p) /\ rk[p] = k}
WaitersOf(k) == {p \in Procs : Queued(p) /\ rk[p] = k}
QueueOf(e)   == {p \in Procs : Queued(p) /\ re[p] = e}

(* shape of every variable: the bounded universe Apalache starts from       *)
TypeOK ==
  /\ ratio \in Nat \ {0}
  /\ ent \in [Keys -> Ents \cup {0}]
  /\ cur \in [Ents -> Nat]
  /\ pc \in [Procs -> PcVals]
  /\ rk \in [Procs -> Keys \cup {0}]
  /\ rn \in [Procs -> Nat]
  /\ re \in [Procs -> Ents \cup {0}]
  /\ pos \in [Procs -> Nat]

(* the invariants of Semap.tla (same names) ...                            *)
CurBound    == \A e \in Ents : cur[e] <= ratio
Exclusion ==
  \A k \in Keys :
    LET H == HoldersOf(k) IN
      \/ H = {}
      \/ (\A p \in H : rn[p] = 1) /\ Cardinality(H) <= ratio
      \/ Cardinality(H) = 1
WeightBound == \A k \in Keys : SumOver(rn, HoldersOf(k)) <= ratio
NoResidue   == \A k \in Keys : (ent[k] # 0) <=> (HoldersOf(k) \cup WaitersOf(k) # {})
StaleFree   == \A p \in Procs : Active(p) => rk[p] \in Keys /\ ent[rk[p]] = re[p]
CurIsSum    == \A k \in Keys : ent[k] # 0 =>
                  cur[ent[k]] = SumOver(rn, {p \in HoldersOf(k) : re[p] = ent[k]})
(* QueueSound of Semap.tla (the list of e holds exactly the queued         *)
(* processes of e, once each) is: pos is a bijection QueueOf(e) -> 1..n    *)
QueueSound  == /\ \A p \in Procs : Queued(p) => 1 <= pos[p] /\ pos[p] <= Count(QueueOf(re[p]))
               /\ \A p, q \in Procs : (Queued(p) /\ Queued(q) /\ re[p] = re[q] /\ pos[p] = pos[q]) => p = q
               /\ \A p \in Procs : ~Queued(p) => pos[p] = 0
NoLostGrant == \A p \in Procs : (Queued(p) /\ pos[p] = 1) => ratio - cur[re[p]] < rn[p]

(* ... and what has to be added to make their conjunction inductive         *)
ReqShape    == \A p \in Procs : Active(p) => re[p] \in Ents /\ (rn[p] = 1 \/ rn[p] = ratio)
EntInj      == \A k1, k2 \in Keys : (ent[k1] = ent[k2] /\ ent[k1] # 0) => k1 = k2

IndInv ==
  /\ TypeOK /\ CurBound /\ ReqShape /\ StaleFree /\ EntInj /\ QueueSound
  /\ NoResidue /\ CurIsSum /\ NoLostGrant
  /\ WeightBound /\ Exclusion

IndInit == IndInv
=============================================================================
