SPECIFICATION Spec
CONSTANTS
  FixNilRecover = TRUE
  TxDoneIsError = TRUE
  MaxArgs = 1
  MaxSteps = 3
  MaxEx = 0
  Outs = {"ok", "err", "panic", "pnil", "exit", "nilfn"}
  Fins = {"none", "commit", "rollback"}
  CancelOn = TRUE
  DbStates = {"ok", "nobegin", "err", "zero"}
INVARIANTS TypeOK FinishedOnce CommitIffAllOk NoLaterStep NoBeginForEmpty RetRight GoneOnlyByExit
PROPERTIES StepsOnlyInOpenTx ExecInsideTx FinishGuard NothingAfterAnswer
VIEW View
CHECK_DEADLOCK FALSE
