SPECIFICATION Spec
CONSTANTS
  FixNilRecover = TRUE
  TxDoneIsError = FALSE
  MaxArgs = 1
  MaxSteps = 1
  MaxEx = 1
  Outs = {"ok", "err", "panic", "pnil", "exit"}
  Fins = {"none", "commit", "rollback"}
  CancelOn = TRUE
  DbStates = {"ok", "nobegin", "err", "zero"}
INVARIANTS TypeOK FinishedOnce CommitIffAllOk NoLaterStep NoBeginForEmpty RetRight GoneOnlyByExit
PROPERTIES StepsOnlyInOpenTx ExecInsideTx FinishGuard NothingAfterAnswer
VIEW View
CHECK_DEADLOCK FALSE
