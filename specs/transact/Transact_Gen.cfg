SPECIFICATION GenSpec
CONSTANTS
  FixNilRecover = TRUE
  TxDoneIsError = TRUE
  MaxArgs = 2
  MaxSteps = 4
  MaxEx = 2
  Outs = {"ok", "err", "panic", "pnil", "exit", "nilfn"}
  Fins = {"none", "commit", "rollback"}
  CancelOn = TRUE
  DbStates = {"ok", "nobegin", "err", "zero"}
  Depth = 40
INVARIANTS Emit
CHECK_DEADLOCK FALSE
