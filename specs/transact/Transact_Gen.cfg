SPECIFICATION GenSpec
CONSTANTS
  FixNilRecover = TRUE
  MaxArgs = 2
  MaxSteps = 3
  MaxEx = 2
  Outs = {"ok", "err", "panic", "pnil", "exit"}
  Depth = 20
INVARIANTS Emit
CHECK_DEADLOCK FALSE
