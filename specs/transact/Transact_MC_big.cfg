SPECIFICATION Spec
CONSTANTS
  FixNilRecover = TRUE
  TxDoneIsError = TRUE
  MaxArgs = 1
  MaxSteps = 4
  MaxEx = 1
  Outs = {"ok", "err", "panic", "pnil", "exit", "nilfn"}
  Fins = {"none"}
  CancelOn = FALSE
  DbStates = {"ok"}
INVARIANTS TypeOK FinishedOnce CommitIffAllOk NoLaterStep NoBeginForEmpty RetRight GoneOnlyByExit
PROPERTIES StepsOnlyInOpenTx ExecInsideTx FinishGuard NothingAfterAnswer
VIEW View
CHECK_DEADLOCK FALSE
