SPECIFICATION Spec
CONSTANTS
  FixNilRecover = TRUE
  MaxArgs = 1
  MaxSteps = 4
  MaxEx = 1
  Outs = {"ok", "err", "panic", "pnil", "exit"}
INVARIANTS TypeOK FinishedOnce CommitIffAllOk NoLaterStep NoBeginForEmpty RetRight GoneOnlyByExit
PROPERTIES StepsOnlyInOpenTx ExecInsideTx FinishGuard NothingAfterAnswer
VIEW View
CHECK_DEADLOCK FALSE
