SPECIFICATION Spec
CONSTANTS
  FixNilRecover = TRUE
  MaxArgs = 2
  MaxSteps = 4
  MaxEx = 2
  Outs = {"ok", "err", "panic", "pnil", "exit"}
INVARIANTS TypeOK FinishedOnce CommitIffAllOk NoLaterStep NoBeginForEmpty RetRight GoneOnlyByExit
PROPERTIES StepsOnlyInOpenTx ExecInsideTx FinishGuard NothingAfterAnswer
VIEW View
CHECK_DEADLOCK FALSE
