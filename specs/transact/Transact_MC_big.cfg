SPECIFICATION Spec
CONSTANTS
  FixNilRecover = TRUE
  TxDoneIsError = TRUE
  MaxArgs = 1
  MaxSteps = 4
  MaxEx = 1
  Outs = {"ok", "err", "panic", "pnil", "exit"}
  Fins = {"none"}
  CancelOn = FALSE
INVARIANTS TypeOK FinishedOnce CommitIffAllOk NoLaterStep NoBeginForEmpty RetRight GoneOnlyByExit
PROPERTIES StepsOnlyInOpenTx ExecInsideTx FinishGuard NothingAfterAnswer
VIEW View
CHECK_DEADLOCK FALSE
