---------------------------- MODULE Transact_Gen ----------------------------
(* Plan generation: `tlc -simulate` picks the environment's choices (cfg)   *)
(* and walks the one call to its end; the behaviour is written as one       *)
(* ndjson plan: line 1 = [ev |-> "init", cfg |-> ...] (what the harness     *)
(* executes), the remaining lines = the events the specification expects.   *)
(* The choices are made step by step (pc = "plan": pick a length, add that  *)
(* many steps, then seal with arguments / faults / cancellation point), so  *)
(* that simulation need not enumerate every configuration as an initial     *)
(* state.  A call is shorter than Depth: the finished call idles until then.*)
EXTENDS Transact, TLCExt, Json, IOUtils
CONSTANT Depth
VARIABLE want                      \* number of steps this plan will have
ASSUME TLCSet(2, 0)

gvars == <<allvars, want>>
Blank == MkCfg(0, <<>>, TRUE, TRUE, TRUE, -1, "ok")

GenInit ==
  /\ want \in 0..MaxSteps
  /\ cfg = Blank /\ pc = "plan" /\ cur = 0 /\ nex = 0 /\ fail = 0
  /\ begun = <<>> /\ ran = <<>> /\ execs = <<>> /\ fin = <<>> /\ ret = NoRet
  /\ last = [ev |-> "plan"]

AddStep ==
  /\ pc = "plan" /\ Len(cfg.steps) < want
  /\ \E s \in StepRecs : cfg' = [cfg EXCEPT !.steps = Append(@, s)]
  /\ last' = [ev |-> "plan"]
  /\ UNCHANGED <<pc, cur, nex, fail, begun, ran, execs, fin, ret, want>>

Seal ==
  /\ pc = "plan" /\ Len(cfg.steps) = want
  /\ \E n \in 0..MaxArgs, b, c, r \in BOOLEAN, k \in CancelPts(want), d \in DbStates :
       /\ n = 0 => want = 0
       /\ d # "ok" => want <= 1 /\ b /\ c /\ k = -1     \* keep these rare among the plans
       /\ cfg' = MkCfg(n, cfg.steps, b, c, r, k, d)
  /\ pc' = "start" /\ last' = [ev |-> "init", cfg |-> cfg']
  /\ UNCHANGED <<cur, nex, fail, begun, ran, execs, fin, ret, want>>

Idle == pc = "done" /\ UNCHANGED <<vars, want>> /\ last' = [ev |-> "idle"]
GenNext == AddStep \/ Seal \/ (Next /\ UNCHANGED want) \/ Idle
GenSpec == GenInit /\ [][GenNext]_gvars

Emit ==
  \/ TLCGet("level") < Depth
  \/ /\ TLCSet(2, TLCGet(2) + 1)
     /\ ndJsonSerialize(IOEnv.VERIF_PLANDIR \o "/p" \o ToString(TLCGet(2)) \o ".ndjson",
                        SelectSeq([i \in 1..Len(Trace) |-> Trace[i].last],
                                  LAMBDA x : x.ev \notin {"idle", "plan"}))
=============================================================================
