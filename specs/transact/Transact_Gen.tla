---------------------------- MODULE Transact_Gen ----------------------------
(* Plan generation: `tlc -simulate` picks the environment's choices (cfg)   *)
(* and walks the one call to its end; the behaviour is written as one       *)
(* ndjson plan: line 1 = [ev |-> "init", cfg |-> ...] (what the harness     *)
(* executes), the remaining lines = the events the specification expects.   *)
(* A call is shorter than Depth, so the finished call idles until then.     *)
EXTENDS Transact, TLCExt, Json, IOUtils
CONSTANT Depth
ASSUME TLCSet(2, 0)

Idle == pc = "done" /\ UNCHANGED vars /\ last' = [ev |-> "idle"]
GenNext == Next \/ Idle
GenSpec == Init /\ [][GenNext]_allvars

Emit ==
  \/ TLCGet("level") < Depth
  \/ /\ TLCSet(2, TLCGet(2) + 1)
     /\ ndJsonSerialize(IOEnv.VERIF_PLANDIR \o "/p" \o ToString(TLCGet(2)) \o ".ndjson",
                        SelectSeq([i \in 1..Len(Trace) |-> Trace[i].last],
                                  LAMBDA x : x.ev # "idle"))
=============================================================================
