SPECIFICATION Spec
CONSTANTS
  FixNilRecover = FALSE
  MaxArgs = 1
  MaxSteps = 2
  MaxEx = 1
  Outs = {"ok", "err", "panic", "pnil", "exit"}
INVARIANTS TypeOK FinishedOnce CommitIffAllOk NoLaterStep NoBeginForEmpty RetRight GoneOnlyByExit
PROPERTIES StepsOnlyInOpenTx ExecInsideTx FinishGuard NothingAfterAnswer
VIEW View
CHECK_DEADLOCK FALSE
