SPECIFICATION Spec
CONSTANTS
  FixNilRecover = FALSE
  TxDoneIsError = TRUE
  MaxArgs = 1
  MaxSteps = 2
  MaxEx = 1
  Outs = {"ok", "err", "panic", "pnil", "exit"}
  Fins = {"none"}
  CancelOn = FALSE
  DbStates = {"ok"}
INVARIANTS TypeOK FinishedOnce CommitIffAllOk NoLaterStep NoBeginForEmpty RetRight GoneOnlyByExit
PROPERTIES StepsOnlyInOpenTx ExecInsideTx FinishGuard NothingAfterAnswer
VIEW View
CHECK_DEADLOCK FALSE
