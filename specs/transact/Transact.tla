------------------------------ MODULE Transact ------------------------------
(***************************************************************************)
(* gormx.Transact(db, fn_1 .. fn_n): one database transaction around a     *)
(* list of steps.                                                          *)
(*                                                                         *)
(* A behaviour is ONE call.  The environment's choices are fixed in `cfg`  *)
(* at the start (this is also what a plan is):                             *)
(*   cfg.n        number of arguments handed to Transact (an argument may  *)
(*                be a Combine of several - or of no - steps)              *)
(*   cfg.steps    the flat list of steps; step i executes `ex` statements  *)
(*                and then ends with `out`:                                *)
(*                  "ok" returns nil | "err" returns its error |           *)
(*                  "panic" panics with a value | "pnil" panics with nil   *)
(*                  (recover() = nil before go1.21) | "exit" ends the      *)
(*                  goroutine (runtime.Goexit: deferred calls run,         *)
(*                  recover() = nil, nothing is returned to the caller)    *)
(*                Before its outcome (after its statements) a step may     *)
(*                end the transaction on the handle it was given:          *)
(*                `fin` = "none" | "commit" | "rollback".                  *)
(*   cfg.cancel   the context the db handle is bound to is cancelled:      *)
(*                -1 never | 0 before the call | k > 0 inside step k after *)
(*                its statements (and its own `fin`).  database/sql then   *)
(*                rolls an open transaction back by itself.                *)
(*                A step with out = "nilfn" is a nil function: calling it  *)
(*                is a panic (runtime error) of that step; there is no     *)
(*                closure that could record step / end events for it.      *)
(*   cfg.db       the handle Transact is given: "ok" (plain, session,      *)
(*                context, prepared statements, chained clauses ...) |     *)
(*                "nobegin" a handle on which gorm / database/sql refuse   *)
(*                to begin without asking the database (it is a            *)
(*                transaction already, the pool is closed) | "err" a       *)
(*                handle that carries an error: gorm hands that error on   *)
(*                to the handle Begin returns, so the begin has failed for *)
(*                the caller although the database may have been asked -   *)
(*                no step runs, the caller gets an error, and if the       *)
(*                database did begin, the transaction is rolled back       *)
(*                (finished exactly once).                                 *)
(*                "zero" is no handle at all (nil, or a gorm.DB that was    *)
(*                never opened): nothing can be begun and no step runs;    *)
(*                whether the caller gets an error or a panic is left open.*)
(*   cfg.begin / commit / rollback   does the database accept the request  *)
(*                                                                         *)
(* Very long lists are recorded run-length encoded: steps{from,to} stands  *)
(* for step{i}, end{i,ok} of every i in from..to, all of them steps that   *)
(* execute nothing, end nothing and return nil.                            *)
(*                                                                         *)
(* ret / gone carry two observations of the caller: `inuse` connections of  *)
(* the pool still checked out after the call (a finished transaction gives *)
(* its connection back: 0) and `inmut` the argument list is as it was.     *)
(*                                                                         *)
(* A transaction ended behind Transact's back (by a step or by the         *)
(* cancelled context) is "dead": database/sql answers every later request  *)
(* on it with ErrTxDone / the context's error and nothing more reaches the *)
(* database: no statement, no second finish.  The contract stays the same  *)
(* exact one.  DECISION for the dead case, from "the caller gets nil only  *)
(* if the commit itself succeeded": that is the commit Transact issues for *)
(* the transaction it started.  On a dead transaction that commit cannot   *)
(* succeed, so the caller must get a non-nil error (which one: left open)  *)
(* -- also when the step that ended the transaction committed it and       *)
(* returned nil, and a fortiori when it or the context rolled it back (the *)
(* steps' work is lost).  A failing step still yields its own error.       *)
(*                                                                         *)
(* One action per observable event; an action is described by the record   *)
(* `a` that the Go harness logs for it (field `ev` names the action):      *)
(*   begin{ok} step{i} exec{i,tx} end{i,out} commit{ok} rollback{ok}       *)
(*   ret{r} gone{}                                                         *)
(* begin/exec/commit/rollback are recorded by the database driver (who     *)
(* asked for a commit/rollback - Transact, a step, database/sql on         *)
(* cancellation - follows from where the call stands), step/end by the     *)
(* step closures, ret/gone by the caller.                                  *)
(*                                                                         *)
(* FixNilRecover = TRUE is the design: the deferred handler knows whether  *)
(* the step loop ran to completion.  FALSE is the rule the pinned code     *)
(* implements: "a step failed" is inferred from err # nil or recover() #   *)
(* nil, so a step ending with pnil / exit goes unnoticed and the partial   *)
(* transaction is committed.                                               *)
(* TxDoneIsError = TRUE is the design; FALSE names the deviation "a commit *)
(* answered with ErrTxDone counts as success" (caller gets nil although    *)
(* Transact committed nothing).                                            *)
(***************************************************************************)
EXTENDS Integers, Sequences, FiniteSets, TLC

CONSTANTS FixNilRecover, TxDoneIsError

VARIABLES
  cfg,    \* the environment's choices (constant during a call)
  pc,     \* "start" | "run" | "in" | "failed" | "finished" | "nobegin" | "errbegun" | "done"
  cur,    \* index of the step running / that ran last (0: none yet)
  nex,    \* statements executed so far by step cur
  fail,   \* index of the first step that did not return nil (0: none)
  begun,  \* history: outcomes of the begin requests
  ran,    \* history: indices of the steps entered
  execs,  \* history: step index of every statement that reached the database
  fin,    \* history: finish requests [op, ok, by, at] that reached the database
          \*   by = "transact" | "step" | "ctx";  at = step during which (0: by Transact)
  ret,    \* what the caller got: [kind, i]
  last    \* action record of the latest step (output only; hidden by VIEW)

vars == <<cfg, pc, cur, nex, fail, begun, ran, execs, fin, ret>>
allvars == <<vars, last>>

NoRet == [kind |-> "none", i |-> 0]
Gone  == [kind |-> "gone", i |-> 0]     \* the calling goroutine ended inside Transact
Nil   == [kind |-> "nil", i |-> 0]

(* cfg.pad: that many leading steps are not listed in cfg.steps: they execute nothing, end nothing *)
(* and return nil (lists of tens of thousands of steps)                                          *)
Uneventful == [out |-> "ok", ex |-> 0, fin |-> "none"]
NSteps == cfg.pad + Len(cfg.steps)
StepAt(i) == IF i <= cfg.pad THEN Uneventful ELSE cfg.steps[i - cfg.pad]
Out(i) == StepAt(i).out

(* a real error value came back (not nil, and Transact did not let a panic escape) *)
IsError(r) == r.kind \notin {"nil", "raised", "none", "gone"}

(* pinned rule: these endings leave err = nil and recover() = nil *)
Unnoticed == fail > 0 /\ Out(fail) \in {"pnil", "exit"}
Noticed   == FixNilRecover \/ ~Unnoticed

(* the next step is a nil function: calling it panics, nothing of it is recorded *)
NilNext == pc = "run" /\ cur < NSteps /\ Out(cur + 1) = "nilfn"
PanicOf(i) == [kind |-> "panic", i |-> i]

(* the transaction was ended behind Transact's back *)
Dead == fin # <<>> /\ fin[1].by # "transact"
DeadBefore(i) == Dead /\ fin[1].at < i
Need(i) == IF DeadBefore(i) THEN 0 ELSE StepAt(i).ex   \* statements that reach the database

Committing  == \/ pc = "run" /\ cur = NSteps
               \/ pc = "failed" /\ ~Noticed
RollingBack == pc = "failed" /\ Noticed

(* steps lo..hi execute nothing, end nothing, return nil (the padding does so by definition) *)
AllUneventful(lo, hi) ==
  \A i \in (IF lo > cfg.pad THEN lo ELSE cfg.pad + 1)..hi :
     Out(i) = "ok" /\ Need(i) = 0 /\ StepAt(i).fin = "none"

(* inside step cur, statements done: the step / the cancelled context ends the transaction *)
StepFinishes(op) == pc = "in" /\ ~Dead /\ nex = Need(cur) /\ StepAt(cur).fin = op
CtxRollsBack     == pc = "in" /\ ~Dead /\ nex = Need(cur) /\ StepAt(cur).fin = "none"
                    /\ cfg.cancel = cur
Fin(op, ok, by, at) == [op |-> op, ok |-> ok, by |-> by, at |-> at]

(* a panic with a nil value has no value to describe: an error saying so, or  *)
(* any error that is not someone else's                                       *)
PanicNilErrors(i) == {[kind |-> "panic", i |-> i], [kind |-> "other", i |-> 0]}

(* what the caller may get once the transaction is finished *)
FailRet(r) ==
  CASE Out(fail) = "err"   -> r = [kind |-> "step", i |-> fail]
    [] Out(fail) \in {"panic", "nilfn"} -> r = PanicOf(fail)
    [] Out(fail) = "pnil"  -> r \in PanicNilErrors(fail)
    [] OTHER               -> FALSE               \* exit: nobody to return to
RetAfterFinish(r) ==
  IF cfg.db = "err" THEN IsError(r)                  \* the handle's error or any other
  ELSE IF fin[1].op = "commit"
  THEN IF fin[1].ok THEN r = Nil ELSE IsError(r)     \* which error: left open
  ELSE FailRet(r)
(* the transaction is dead when Transact comes to finish it: nothing reaches the database *)
RetOnDead(r) ==
  IF pc = "failed" /\ Noticed THEN FailRet(r)
  ELSE IF TxDoneIsError THEN IsError(r) ELSE r = Nil  \* Transact's commit did not succeed

Do(a) ==
  CASE a.ev = "begin" ->
         /\ pc = "start" /\ cfg.n > 0 /\ a.ok = cfg.begin
         /\ cfg.cancel # 0 /\ cfg.db \in {"ok", "err"}  \* the others never reach the database
         /\ begun' = Append(begun, a.ok)
         /\ pc' = IF ~a.ok THEN "nobegin" ELSE IF cfg.db = "err" THEN "errbegun" ELSE "run"
         /\ UNCHANGED <<cfg, cur, nex, fail, ran, execs, fin, ret>>
    [] a.ev = "step" ->
         /\ pc = "run" /\ a.i = cur + 1 /\ a.i <= NSteps /\ Out(a.i) # "nilfn"
         /\ pc' = "in" /\ cur' = a.i /\ nex' = 0 /\ ran' = Append(ran, a.i)
         /\ UNCHANGED <<cfg, fail, begun, execs, fin, ret>>
    [] a.ev = "steps" ->
         /\ pc = "run" /\ a.from = cur + 1 /\ a.from <= a.to /\ a.to <= NSteps
         /\ (cfg.cancel < a.from \/ cfg.cancel > a.to)
         /\ AllUneventful(a.from, a.to) = TRUE    \* (= TRUE: evaluated as a value, not as an action)
         /\ cur' = a.to /\ nex' = 0
         /\ ran' = ran \o [k \in 1..(a.to - a.from + 1) |-> a.from + k - 1]
         /\ UNCHANGED <<cfg, pc, fail, begun, execs, fin, ret>>
    [] a.ev = "exec" ->
         /\ pc = "in" /\ a.i = cur /\ nex < Need(cur) /\ ~Dead
         /\ a.tx = TRUE                          \* on the connection that holds the transaction
         /\ nex' = nex + 1 /\ execs' = Append(execs, a.i)
         /\ UNCHANGED <<cfg, pc, cur, fail, begun, ran, fin, ret>>
    [] a.ev = "end" ->
         /\ pc = "in" /\ a.i = cur /\ a.out = Out(cur) /\ nex = Need(cur)
         /\ (StepAt(cur).fin # "none" \/ cfg.cancel = cur) => Dead
         /\ IF a.out = "ok" THEN pc' = "run" /\ fail' = fail
                            ELSE pc' = "failed" /\ fail' = cur
         /\ UNCHANGED <<cfg, cur, nex, begun, ran, execs, fin, ret>>
    [] a.ev = "commit" ->
         /\ a.ok = cfg.commit
         /\ \/ /\ Committing /\ ~Dead
               /\ fin' = Append(fin, Fin("commit", a.ok, "transact", 0)) /\ pc' = "finished"
            \/ /\ StepFinishes("commit")
               /\ fin' = Append(fin, Fin("commit", a.ok, "step", cur)) /\ pc' = pc
         /\ UNCHANGED <<cfg, cur, nex, fail, begun, ran, execs, ret>>
    [] a.ev = "rollback" ->
         /\ a.ok = cfg.rollback
         /\ \/ /\ (RollingBack /\ ~Dead) \/ pc = "errbegun"
               /\ fin' = Append(fin, Fin("rollback", a.ok, "transact", 0)) /\ pc' = "finished"
               /\ UNCHANGED <<cur, fail, ran>>
            \/ /\ NilNext /\ ~Dead                 \* the nil step panicked
               /\ fin' = Append(fin, Fin("rollback", a.ok, "transact", 0)) /\ pc' = "finished"
               /\ cur' = cur + 1 /\ fail' = cur + 1 /\ ran' = Append(ran, cur + 1)
            \/ /\ StepFinishes("rollback")
               /\ fin' = Append(fin, Fin("rollback", a.ok, "step", cur)) /\ pc' = pc
               /\ UNCHANGED <<cur, fail, ran>>
            \/ /\ CtxRollsBack
               /\ fin' = Append(fin, Fin("rollback", a.ok, "ctx", cur)) /\ pc' = pc
               /\ UNCHANGED <<cur, fail, ran>>
         /\ UNCHANGED <<cfg, nex, begun, execs, ret>>
    [] a.ev = "ret" ->
         /\ a.inuse = 0 /\ a.inmut = TRUE
         /\ ret' = a.r /\ pc' = "done"
         /\ IF NilNext /\ Dead                   \* the nil step panicked, nothing left to roll back
            THEN /\ a.r = PanicOf(cur + 1)
                 /\ cur' = cur + 1 /\ fail' = cur + 1 /\ ran' = Append(ran, cur + 1)
                 /\ UNCHANGED <<cfg, nex, begun, execs, fin>>
            ELSE /\ CASE pc = "start" ->
                          IF cfg.n = 0 THEN a.r.kind # "raised"            \* value left open
                          ELSE /\ cfg.cancel = 0 \/ cfg.db # "ok"          \* begin refused / failed
                               /\ IF cfg.db = "zero" THEN IsError(a.r) \/ a.r.kind = "raised"
                                                     ELSE IsError(a.r)
                        [] pc = "nobegin"  -> IsError(a.r)               \* which error: left open
                        [] pc = "finished" -> RetAfterFinish(a.r)
                        [] pc = "run"      -> cur = NSteps /\ Dead /\ RetOnDead(a.r)
                        [] pc = "failed"   -> Dead /\ RetOnDead(a.r)
                        [] OTHER           -> FALSE
                 /\ UNCHANGED <<cfg, cur, nex, fail, begun, ran, execs, fin>>
    [] a.ev = "gone" ->
         /\ a.inuse = 0 /\ a.inmut = TRUE
         /\ pc = "finished" \/ (pc = "failed" /\ Dead)
         /\ fail > 0 /\ Out(fail) = "exit"
         /\ ret' = Gone /\ pc' = "done"
         /\ UNCHANGED <<cfg, cur, nex, fail, begun, ran, execs, fin>>
    [] OTHER -> FALSE

Step(a) == Do(a) /\ last' = a

InitWith(c) ==
  /\ cfg = c /\ pc = "start" /\ cur = 0 /\ nex = 0 /\ fail = 0
  /\ begun = <<>> /\ ran = <<>> /\ execs = <<>> /\ fin = <<>> /\ ret = NoRet
  /\ last = [ev |-> "init", cfg |-> c]

---------------------------------------------------------------------------
(* Bounded instance for exhaustive checking *)
CONSTANTS MaxArgs, MaxSteps, MaxEx, Outs, Fins, CancelOn, DbStates

StepRecs == {s \in [out : Outs, ex : 0..MaxEx, fin : Fins] :
               s.out = "nilfn" => s.ex = 0 /\ s.fin = "none"}
StepLists == UNION {[1..m -> StepRecs] : m \in 0..MaxSteps}
MkCfg(n, s, b, c, r, k, d) ==
  [n |-> n, steps |-> s, begin |-> b, commit |-> c, rollback |-> r, cancel |-> k, db |-> d, pad |-> 0]
CancelPts(m) == IF CancelOn THEN -1..m ELSE {-1}

RetVals ==      [kind : {"nil", "begin", "commit", "rollback", "other", "raised"}, i : {0}]
           \cup [kind : {"step", "panic"}, i : 1..MaxSteps]
Acts ==
       [ev : {"begin", "commit", "rollback"}, ok : BOOLEAN]
  \cup [ev : {"step"}, i : 1..MaxSteps]
  \cup [ev : {"steps"}, from : 1..MaxSteps, to : 1..MaxSteps]
  \cup [ev : {"exec"}, i : 1..MaxSteps, tx : BOOLEAN]
  \cup [ev : {"end"}, i : 1..MaxSteps, out : Outs]
  \cup [ev : {"ret"}, r : RetVals, inuse : {0, 1}, inmut : BOOLEAN]
  \cup [ev : {"gone"}, inuse : {0, 1}, inmut : BOOLEAN]

Init == \E n \in 0..MaxArgs, s \in StepLists, b, c, r \in BOOLEAN :
          \E k \in CancelPts(Len(s)), d \in DbStates :
          /\ n = 0 => s = <<>>
          /\ d # "ok" => Len(s) <= 1           \* the steps never matter then
          /\ InitWith(MkCfg(n, s, b, c, r, k, d))
Next == \E a \in Acts : Step(a)
Spec == Init /\ [][Next]_allvars

(* ------------------------- the property ------------------------------ *)
Began == begun = <<TRUE>>
AllOk == fail = 0 /\ cur = NSteps /\ pc = "run"     \* every supplied step returned nil

TypeOK ==
  /\ pc \in {"start", "run", "in", "failed", "finished", "nobegin", "errbegun", "done"}
  /\ cur \in 0..NSteps /\ fail \in 0..NSteps /\ nex \in Nat
  /\ Len(begun) <= 1 /\ Len(fin) <= 1

(* finished exactly once: never twice - whoever finished it; once the       *)
(* caller has its answer (or its goroutine is gone) a transaction that was  *)
(* begun has been finished, and nothing is finished that was not begun      *)
FinishedOnce ==
  /\ Len(fin) <= 1
  /\ (pc = "done" /\ Began) => Len(fin) = 1
  /\ ~Began => fin = <<>>

(* commit iff every step returned nil without panicking, else rollback *)
(* (what Transact itself asks the database for; on a dead transaction nothing  *)
(* it asks for arrives)                                                       *)
CommitIffAllOk ==
  (fin # <<>> /\ fin[1].by = "transact") =>
                /\ fin[1].op = "commit"   <=> (fail = 0 /\ ran = [i \in 1..NSteps |-> i] /\ cfg.db = "ok")
                /\ fin[1].op = "rollback" <=> (fail > 0 \/ cfg.db = "err")

(* steps run in order, inside the transaction, and none after the first failure *)
NoLaterStep ==
  /\ ran = [i \in 1..Len(ran) |-> i]
  /\ fail > 0 => Len(ran) = fail
  /\ ~Began => ran = <<>> /\ execs = <<>>

(* with no steps nothing is begun; at most one begin *)
NoBeginForEmpty == (cfg.n = 0 => begun = <<>>) /\ Len(begun) <= 1

(* the caller's answer *)
RetRight ==
  (pc = "done" /\ ret # Gone) =>
     /\ cfg.n > 0 => (ret = Nil <=> fin = <<Fin("commit", TRUE, "transact", 0)>>)
     /\ ret.kind = "raised" => cfg.db = "zero"
     /\ (fail > 0 /\ Out(fail) = "err")    => ret = [kind |-> "step", i |-> fail]
     /\ (fail > 0 /\ Out(fail) \in {"panic", "nilfn"}) => ret = PanicOf(fail)
     /\ cfg.db # "ok" => ran = <<>>
     /\ (fail > 0 /\ Out(fail) = "pnil")  => ret \in PanicNilErrors(fail)
GoneOnlyByExit == ret = Gone => fail > 0 /\ Out(fail) = "exit"

(* action properties, read off the action record of each step *)
StepsOnlyInOpenTx ==
  [][LET a == last' IN
       /\ a.ev \in {"step", "steps"} => Began /\ fail = 0 /\ (fin = <<>> \/ Dead)
       /\ a.ev = "exec" => Began /\ fail = 0 /\ fin = <<>>]_allvars
ExecInsideTx ==
  [][LET a == last' IN a.ev = "exec" => a.tx]_allvars
FinishGuard ==
  [][LET a == last' IN
       /\ a.ev \in {"commit", "rollback"} => Began /\ fin = <<>>
       /\ (a.ev = "commit"   /\ fin'[1].by = "transact") => AllOk
       /\ (a.ev = "rollback" /\ fin'[1].by = "transact") => (fail' > 0 \/ cfg.db = "err")]_allvars
NothingAfterAnswer ==
  [][pc = "done" => UNCHANGED vars]_allvars

View == vars
=============================================================================
