SPECIFICATION TraceSpec
CONSTANTS
  FixNilRecover = TRUE
  TxDoneIsError = TRUE
  MaxArgs = 0
  MaxSteps = 0
  MaxEx = 0
  Outs = {}
  Fins = {}
  CancelOn = FALSE
  DbStates = {}
INVARIANTS TypeOK FinishedOnce CommitIffAllOk NoLaterStep NoBeginForEmpty RetRight GoneOnlyByExit
CONSTRAINT Mark
POSTCONDITION Accepted
CHECK_DEADLOCK FALSE
