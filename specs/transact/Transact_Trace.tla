--------------------------- MODULE Transact_Trace ---------------------------
(* Validates ndjson traces recorded from the real gormx.Transact against    *)
(* Transact.tla.  One trace = one call:                                     *)
(*   reset {cfg}                       the environment's choices (the plan) *)
(*   begin / exec / commit / rollback  recorded by the database driver,     *)
(*                                     whoever asked (Transact, a step,     *)
(*                                     database/sql on cancellation)        *)
(*   step / end                        recorded by the step closures        *)
(*   ret / gone                        recorded by the caller               *)
(* Every event is passed unchanged to the action of the specification that  *)
(* it names; a line that is not a step of the specification rejects the     *)
(* trace.  A new call may only start when the previous one is complete.     *)
EXTENDS Transact, Json, IOUtils

TraceLog == ndJsonDeserialize(IOEnv.VERIF_TRACE)

VARIABLES l
tvars == <<allvars, l>>

EmptyCfg == MkCfg(0, <<>>, TRUE, TRUE, TRUE, -1, "ok")

TraceInit ==
  /\ l = 1
  /\ cfg = EmptyCfg /\ pc = "done" /\ cur = 0 /\ nex = 0 /\ fail = 0
  /\ begun = <<>> /\ ran = <<>> /\ execs = <<>> /\ fin = <<>> /\ ret = NoRet
  /\ last = [ev |-> "init"]

TReset(e) ==
  /\ pc = "done"
  /\ e.cfg.n = 0 => e.cfg.steps = <<>> /\ e.cfg.pad = 0
  /\ e.cfg.pad >= 0
  /\ cfg' = e.cfg /\ pc' = "start" /\ cur' = 0 /\ nex' = 0 /\ fail' = 0
  /\ begun' = <<>> /\ ran' = <<>> /\ execs' = <<>> /\ fin' = <<>> /\ ret' = NoRet
  /\ last' = [ev |-> "init"]

TraceNext ==
  /\ l <= Len(TraceLog) /\ l' = l + 1
  /\ LET e == TraceLog[l] IN
       IF e.ev = "reset" THEN TReset(e) ELSE Step(e)

TraceSpec == TraceInit /\ [][TraceNext]_tvars

(* high-water mark of l in TLC register 1 (needs -workers 1) *)
ASSUME TLCSet(1, 0)
Mark == TLCSet(1, IF l > TLCGet(1) THEN l ELSE TLCGet(1))
Accepted == PrintT(<<"MARK", TLCGet(1), Len(TraceLog)>>) /\ TLCGet(1) = Len(TraceLog) + 1
=============================================================================
