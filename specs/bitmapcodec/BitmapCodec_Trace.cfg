SPECIFICATION TraceSpec
CONSTANTS
  N = 1024
  ByteBase = 256
  BPB = 8
  C = 1024
  ND = 7
  SD = 4
  TopLim = 4
  Deviation = {}
  NH = 1
  MaxBytes = 0
INVARIANTS TypeOK
CONSTRAINT Mark
POSTCONDITION Accepted
VIEW TView
CHECK_DEADLOCK FALSE
