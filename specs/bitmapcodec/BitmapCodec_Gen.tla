-------------------------- MODULE BitmapCodec_Gen --------------------------
(* Plan generation: `tlc -simulate` walks BitmapCodec.tla with the real      *)
(* geometry (1024-bit blocks, 7 base-1024 digits) over boundary integers     *)
(* and a few bitmaps / byte strings, and writes the action records of each   *)
(* behaviour as one ndjson plan.                                             *)
EXTENDS BitmapCodec, TLCExt, Json, IOUtils, Randomization
CONSTANT Depth

GI(neg, d) == [neg |-> neg, d |-> d \o Zeros(ND - Len(d))]
GenInts ==
  {GI(FALSE, <<>>), GI(FALSE, <<1>>), GI(FALSE, <<1023>>), GI(FALSE, <<0, 1>>), GI(FALSE, <<1, 1>>),
   GI(FALSE, <<1023, 1023, 1023, 3>>),          \* 2^32 - 1
   GI(FALSE, <<0, 1023, 1023, 3>>),             \* 2^32 - 1024
   GI(FALSE, <<7, 0, 0, 2>>),                   \* 2^31 + 7
   GI(FALSE, <<0, 0, 0, 4>>),                   \* 2^32
   GI(FALSE, <<5, 0, 0, 4>>),                   \* 2^32 + 5
   GI(FALSE, <<1023, 1023, 1023, 3, 0>>),
   GI(FALSE, <<0, 0, 0, 8>>),                   \* 2^33
   GI(FALSE, <<9, 3, 2, 1, 1>>),                \* 2^40 + ...
   GI(FALSE, <<1023, 1022, 1023, 1023, 3>>),    \* (2^32-1)*1024 - 1: the largest
   GI(FALSE, <<0, 1022, 1023, 1023, 3>>),
   GI(FALSE, <<0, 1023, 1023, 1023, 3>>),       \* (2^32-1)*1024: the first refused
   GI(FALSE, <<0, 0, 0, 0, 4>>),                \* 2^42
   GI(FALSE, <<3, 0, 0, 0, 0, 1>>),             \* 2^50 + 3
   GI(FALSE, <<1023, 1023, 1023, 1023, 1023, 1023, 7>>),   \* MaxInt64
   GI(TRUE, <<1>>), GI(TRUE, <<0, 1>>), GI(TRUE, <<1, 1>>), GI(TRUE, <<0, 0, 0, 0, 0, 0, 8>>)}

InBlock(h) == {ValueOf(blk[h], m) : m \in {0, 1, 63, 64, 1022, 1023}}
(* the same bit in the next block *)
Next1(h) == IF blk[h].start[1] < C - 1
            THEN {[ValueOf(blk[h], 5) EXCEPT !.d[2] = @ + 1]} ELSE {}

FillSets == {{}, {0}, {1023}, 0..62, 0..63, 0..64, {x \in U : x % 16 = 5}, U}
ByteStrs ==
  {<<>>, <<0, 0>>, <<255, 3>>, <<0, 4>>, <<1>>, <<5, 0, 5, 0>>, <<9, 0, 3, 0>>, <<3, 0, 255, 255>>,
   <<3, 0, 0, 128>>, Zeros(128), Zeros(129), Zeros(130), [i \in 1..128 |-> 255],
   [i \in 1..128 |-> IF i % 2 = 1 THEN i ELSE 0], [i \in 1..126 |-> IF i % 2 = 1 THEN i ELSE 0]}

MarshalStrs == {ImplMarshal(S) : S \in FillSets}        \* constant: evaluated once
AllByteStrs == ByteStrs \cup MarshalStrs
Loads == {[op |-> "load", ms |-> Asc(S)] : S \in FillSets}

SLen(h) == Card(blk[h].S)
Pairs(k) == RandomSubset(4, {s \in SeqsUpTo({h \in OkHs : blk[h].kind = k}, 3) : s # <<>>})

(* random sub-selections keep the candidate set small and the kinds of step balanced *)
GenActs ==
       {[op |-> "new", h |-> h, kind |-> k, v |-> v] : h \in Hs, k \in {"big", "tip"}, v \in RandomSubset(3, GenInts)}
  \cup UNION {{[op |-> "bset", h |-> h, v |-> v] : v \in RandomSubset(3, GenInts) \cup InBlock(h) \cup Next1(h)} : h \in OkHs}
  \cup {[op |-> "bnew0", h |-> h, kind |-> k] : h \in {RandomElement(Hs)}, k \in {"big", "tip"}}
  \cup {[op |-> "bdata", h |-> h, kind |-> k, start |-> st, bytes |-> b]
          : h \in {RandomElement(Hs)}, k \in {"big", "tip"},
            st \in RandomSubset(1, {Zeros(SD), <<1, 0, 0, 0>>, <<1023, 1023, 3, 0>>}), b \in RandomSubset(2, AllByteStrs)}
  \cup {[op |-> "bdata", h |-> h, kind |-> "big", start |-> st, bytes |-> b]
          : h \in {RandomElement(Hs)}, st \in RandomSubset(1, {<<0, 0, 4, 0>>, <<1022, 1023, 1023, 3>>, <<5, 6, 7, 2>>}),
            b \in RandomSubset(1, AllByteStrs)}
  \cup {[op |-> "bsetrun", h |-> h, lo |-> RandomElement({0, 1, 63, 512}),
          cnt |-> RandomElement({0, 1, 64, 255, 256, 257, 512})] : h \in OkHs}
  \cup {[op |-> "brev", h |-> h, d |-> d] : h \in OkHs, d \in Hs}
  \cup UNION {{[op |-> "bgetn", h |-> h, dir |-> dir, n |-> n]
                 : dir \in {"f", "r"}, n \in {0, 1, 2, SLen(h), SLen(h) + 1, 2000}} : h \in OkHs}
  \cup UNION {{[op |-> "biter", h |-> h, dir |-> dir, n |-> n, pos |-> p, len |-> p + Count(blk[h].S, n) + 1,
                sent |-> GI(TRUE, <<1>>)]
                 : dir \in {"f", "r"}, n \in {-1, 0, 1, SLen(h), 2000}, p \in {RandomElement({0, 1, 4})}} : h \in OkHs}
  \cup UNION {{[op |-> "lgetn", kind |-> k, hs |-> hs, dir |-> dir, n |-> n]
                 : hs \in Pairs(k), dir \in {"f", "r"}, n \in RandomSubset(2, {0, 1, 3, 1024, 3000})} : k \in {"big", "tip"}}
  \cup {[op |-> "lgetn", kind |-> "big", hs |-> <<>>, dir |-> "f", n |-> 3]}
  \cup RandomSubset(3, Loads)
  \cup [op : {"fresh", "marshal"}]
  \cup (IF cur = {} THEN [op : {"unmarshal"}, bytes : RandomSubset(4, AllByteStrs)] ELSE {})

(* a plan needs the actions only; the reply decides the transition for unmarshal / bdata alone *)
GenNext == \E a \in GenActs : Typed(a) /\ Step(a, IF a.op \in {"unmarshal", "bdata"} THEN ImplReply(a) ELSE 0)
GenSpec == InitWith(NH) /\ [][GenNext]_allvars

(* Invariants are evaluated on every candidate successor during simulation; the first        *)
(* candidate seen at level Depth of each behaviour writes the path leading to it (without    *)
(* the candidate itself, whose choice is not random).                                        *)
ASSUME TLCSet(2, 0) /\ TLCSet(3, 1)
Emit ==
  IF TLCGet("level") < Depth THEN TLCSet(3, 1)
  ELSE \/ TLCGet(3) = 0
       \/ /\ TLCSet(3, 0)
          /\ TLCSet(2, TLCGet(2) + 1)
          /\ ndJsonSerialize(IOEnv.VERIF_PLANDIR \o "/p" \o ToString(TLCGet(2)) \o ".ndjson",
                             [i \in 1..(Len(Trace) - 1) |-> Trace[i].last])
=============================================================================
