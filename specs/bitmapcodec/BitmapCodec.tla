---------------------------- MODULE BitmapCodec ----------------------------
(***************************************************************************)
(* neptune bitmap1024, part 2:                                             *)
(*  (a) Bit1024.Marshal / Unmarshal: what a byte string denotes, and the   *)
(*      round trip;                                                        *)
(*  (b) the block integers BigU32 (int64 = uint32 block * 1024 + bit) and  *)
(*      U32BitTip (uint32 likewise), single blocks and lists of blocks.    *)
(*                                                                         *)
(* Integers beyond TLC's 32 bits are carried as sign + digits in base C    *)
(* (the block size, 1024), least significant first: digit 1 is the bit     *)
(* inside the block, digits 2.. are the block number.  A uint32 is SD      *)
(* digits whose top digit is < TopLim (1024^3 * 4 = 2^32).                 *)
(*                                                                         *)
(* State: `cur`, the members of the one Bit1024 the codec actions work on, *)
(* and `blk`, one block (kind, block number, members) per handle.          *)
(* An action is a record `a`; ReplyOK(a, r) says which replies the         *)
(* PROPERTY allows in the current state, Do(a, r) is the transition.       *)
(* ImplReply(a) is a model of what the CODE answers (with the deviations   *)
(* found in the pinned tree as named constants); the exhaustive run shows  *)
(* that the code's design conforms when the deviations are off and that    *)
(* each deviation is caught.                                               *)
(***************************************************************************)
EXTENDS Integers, Sequences, FiniteSets, SequencesExt, TLC

CONSTANTS
  N,          \* universe of the bitmap: 1024
  ByteBase,   \* 256;  ByteBase = 2^BPB
  BPB,        \* bits per byte: 8
  C,          \* block size: 1024 (= N in the code; independent here so that both can be scaled)
  ND,         \* digits of a logged integer: 7 (70 bits >= int64)
  SD,         \* digits of a uint32: 4
  TopLim,     \* bound of the top digit of a uint32: 4
  Deviation   \* subset of {"wrapmul", "swapdir", "le64", "norange"}

VARIABLES cur, blk, last
vars == <<cur, blk>>
allvars == <<vars, last>>

U    == 0..(N - 1)
Bits == 0..(C - 1)
Card(S) == Cardinality(S)
AsSet(s) == {s[i] : i \in 1..Len(s)}
Asc(S)  == SetToSortSeq(S, LAMBDA x, y : x < y)
Desc(S) == SetToSortSeq(S, LAMBDA x, y : x > y)
Take(s, n) == SubSeq(s, 1, IF n < Len(s) THEN n ELSE Len(s))
Rev(s) == [i \in 1..Len(s) |-> s[Len(s) + 1 - i]]
RECURSIVE Concat(_)
Concat(ss) == IF ss = <<>> THEN <<>> ELSE ss[1] \o Concat(Tail(ss))

(* ========================== (a) the codec ============================== *)
DL        == N \div BPB          \* length of the dense encoding: 128
SparseMax == DL \div 2           \* fewer members than this: sparse encoding (64)

RECURSIVE Pow2(_)
Pow2(k) == IF k = 0 THEN 1 ELSE 2 * Pow2(k - 1)
BitOf(v, k) == (v \div Pow2(k)) % 2

Err == [ok |-> FALSE, S |-> {}]
Elem(bytes, i) == bytes[2 * i - 1] + ByteBase * bytes[2 * i]      \* little-endian 16-bit value

(* the set a byte string denotes, or Err *)
Denote(bytes) ==
  LET n == Len(bytes) IN
  IF n = 0 THEN [ok |-> TRUE, S |-> {}]
  ELSE IF n > DL \/ n % 2 # 0 THEN Err
  ELSE IF n < DL
       THEN LET vals == {Elem(bytes, i) : i \in 1..(n \div 2)} IN
            IF \E v \in vals : v > N - 1 THEN Err ELSE [ok |-> TRUE, S |-> vals]
       ELSE [ok |-> TRUE, S |-> {m \in U : BitOf(bytes[(m \div BPB) + 1], m % BPB) = 1}]

(* bytes is an encoding Marshal may produce for S: it denotes S and has the length of the   *)
(* mode the member count selects (the order of the sparse elements is not prescribed)       *)
IsMarshalOf(bytes, S) ==
  /\ Len(bytes) = IF Card(S) < SparseMax THEN 2 * Card(S) ELSE DL
  /\ \A i \in 1..Len(bytes) : bytes[i] \in 0..(ByteBase - 1)
  /\ Denote(bytes) = [ok |-> TRUE, S |-> S]

(* ======================== (b) block integers =========================== *)
Zeros(n) == [i \in 1..n |-> 0]
NonNeg(v) == ~v.neg
HighZero(v, from) == \A i \in from..ND : v.d[i] = 0

(* lexicographic < on digit sequences of equal length, least significant first *)
RECURSIVE DLess(_, _)
DLess(x, y) ==
  IF x = <<>> THEN FALSE
  ELSE LET n == Len(x) IN
       IF x[n] # y[n] THEN x[n] < y[n] ELSE DLess(SubSeq(x, 1, n - 1), SubSeq(y, 1, n - 1))

MaxU32D == [i \in 1..SD |-> IF i = SD THEN TopLim - 1 ELSE C - 1]       \* 2^32 - 1

(* v is a uint32 *)
IsU32(v) == NonNeg(v) /\ HighZero(v, SD + 1) /\ v.d[SD] < TopLim

BitD(v) == v.d[1]
(* block number as SD digits *)
StartD(kind, v) ==
  IF kind = "big" THEN SubSeq(v.d, 2, SD + 1)
  ELSE SubSeq(v.d, 2, SD) \o <<0>>

(* integers a block can be built from / extended with *)
Valid(kind, v) ==
  IF kind = "big"
  THEN NonNeg(v) /\ HighZero(v, SD + 2) /\ DLess(StartD("big", v), MaxU32D)     \* 0 <= v < (2^32-1)*1024
  ELSE IsU32(v)

None == [ok |-> FALSE, kind |-> "", start |-> <<>>, S |-> {}]
Block(kind, v) == [ok |-> TRUE, kind |-> kind, start |-> StartD(kind, v), S |-> {BitD(v)}]

(* block numbers a block of the kind can have: a uint32 below 2^32-1 resp. below 2^22 *)
StartOK(kind, st) ==
  /\ Len(st) = SD /\ \A i \in 1..SD : st[i] \in Bits
  /\ IF kind = "big" THEN DLess(st, MaxU32D) ELSE st[SD] = 0 /\ st[SD - 1] < TopLim

(* the integer block b holds for bit m *)
ValueOf(b, m) == [neg |-> FALSE, d |-> <<m>> \o b.start \o Zeros(ND - SD - 1)]

(* all members in direction order, as integers *)
AllVals(b, dir) ==
  LET o == IF dir = "f" THEN Asc(b.S) ELSE Desc(b.S) IN [j \in 1..Len(o) |-> ValueOf(b, o[j])]

Count(S, n) == IF n <= 0 THEN 0 ELSE IF n < Card(S) THEN n ELSE Card(S)

SliceAfter(a, vals) ==
  [x \in 1..a.len |-> IF x > a.pos /\ x <= a.pos + Len(vals) THEN vals[x - a.pos] ELSE a.sent]

(* =========================== replies =================================== *)
ReplyOK(a, r) ==
  CASE a.op \in {"load", "fresh", "brev", "bload", "bnew0"} -> r = 0
    [] a.op = "bsetrun" -> r = 0          \* number of Set calls of the run that were refused
    [] a.op = "bdata" ->   \* a block from (block number, bytes): fails or holds what the bytes denote
         LET d == Denote(a.bytes) IN
         IF r THEN ~d.ok \/ ~IsMarshalOf(a.bytes, d.S) ELSE d.ok
    [] a.op = "marshal"   -> IsMarshalOf(r, cur)
    [] a.op = "unmarshal" ->
         LET d == Denote(a.bytes) IN
         IF r.err
         THEN \* may fail on bytes that denote nothing, and on bytes no Marshal produces
              r.ms = <<>> /\ (~d.ok \/ ~IsMarshalOf(a.bytes, d.S))
         ELSE d.ok /\ r.ms = Asc(d.S)
    [] a.op = "new"   -> r = ~Valid(a.kind, a.v)
    [] a.op = "bset"  -> r = ~(Valid(blk[a.h].kind, a.v) /\ StartD(blk[a.h].kind, a.v) = blk[a.h].start)
    [] a.op = "bgetn" -> r = Take(AllVals(blk[a.h], a.dir), a.n)
    [] a.op = "biter" -> LET vals == Take(AllVals(blk[a.h], a.dir), a.n)
                         IN r = [c |-> Len(vals), out |-> SliceAfter(a, vals)]
    [] a.op = "lgetn" -> \* per-block iteration, concatenated; for the reverse form the property
                         \* does not say in which order the blocks are visited
                         LET per == [i \in 1..Len(a.hs) |-> AllVals(blk[a.hs[i]], a.dir)] IN
                         \/ r = Take(Concat(per), a.n)
                         \/ a.dir = "r" /\ r = Take(Concat(Rev(per)), a.n)
    [] OTHER -> FALSE

Do(a, r) ==
  CASE a.op = "load"  -> /\ \A i \in 1..Len(a.ms) : a.ms[i] \in U
                         /\ cur' = AsSet(a.ms) /\ UNCHANGED blk
    [] a.op = "fresh" -> cur' = {} /\ UNCHANGED blk
    [] a.op = "marshal" -> UNCHANGED vars
    [] a.op = "unmarshal" ->       \* into a fresh bitmap; after a failure the bitmap is not used again
         /\ cur = {}
         /\ cur' = IF r.err THEN cur ELSE Denote(a.bytes).S
         /\ UNCHANGED blk
    [] a.op = "new" ->
         /\ a.kind = "tip" => IsU32(a.v)                  \* the parameter type is uint32
         /\ blk' = [blk EXCEPT ![a.h] = IF Valid(a.kind, a.v) THEN Block(a.kind, a.v) ELSE None]
         /\ UNCHANGED cur
    [] a.op = "bload" ->           \* the harness builds the struct itself (public fields)
         /\ a.kind \in {"big", "tip"} /\ StartOK(a.kind, a.start)
         /\ \A i \in 1..Len(a.ms) : a.ms[i] \in Bits
         /\ blk' = [blk EXCEPT ![a.h] = [ok |-> TRUE, kind |-> a.kind, start |-> a.start, S |-> AsSet(a.ms)]]
         /\ UNCHANGED cur
    [] a.op = "bsetrun" ->         \* cnt Set calls with the block's own integers of bits lo, lo+1, ...: one event
         /\ blk[a.h].ok /\ a.lo >= 0 /\ a.cnt >= 0 /\ a.lo + a.cnt <= C
         /\ blk' = [blk EXCEPT ![a.h].S = @ \cup {m \in Bits : m >= a.lo /\ m < a.lo + a.cnt}]
         /\ UNCHANGED cur
    [] a.op = "bnew0" ->           \* NewBigU32() / NewU32BitTip(): the empty block number 0
         /\ a.kind \in {"big", "tip"}
         /\ blk' = [blk EXCEPT ![a.h] = [ok |-> TRUE, kind |-> a.kind, start |-> Zeros(SD), S |-> {}]]
         /\ UNCHANGED cur
    [] a.op = "bdata" ->           \* New...FromData(start, bytes)
         /\ a.kind \in {"big", "tip"} /\ StartOK(a.kind, a.start)
         /\ N = C
         /\ blk' = [blk EXCEPT ![a.h] =
                      IF r THEN None
                      ELSE [ok |-> TRUE, kind |-> a.kind, start |-> a.start, S |-> Denote(a.bytes).S]]
         /\ UNCHANGED cur
    [] a.op = "bset" ->
         /\ blk[a.h].ok
         /\ blk[a.h].kind = "tip" => IsU32(a.v)
         /\ blk' = [blk EXCEPT ![a.h].S =
                      IF Valid(blk[a.h].kind, a.v) /\ StartD(blk[a.h].kind, a.v) = blk[a.h].start
                      THEN @ \cup {BitD(a.v)} ELSE @]
         /\ UNCHANGED cur
    [] a.op = "brev" ->
         /\ blk[a.h].ok
         /\ blk' = [blk EXCEPT ![a.d] = [blk[a.h] EXCEPT !.S = Bits \ @]]
         /\ UNCHANGED cur
    [] a.op = "bgetn" -> blk[a.h].ok /\ a.n >= 0 /\ UNCHANGED vars
    [] a.op = "biter" -> /\ blk[a.h].ok /\ a.pos >= 0 /\ a.pos + Count(blk[a.h].S, a.n) <= a.len
                         /\ UNCHANGED vars
    [] a.op = "lgetn" -> /\ a.n >= 0
                         /\ \A i \in 1..Len(a.hs) : blk[a.hs[i]].ok /\ blk[a.hs[i]].kind = a.kind
                         /\ UNCHANGED vars
    [] OTHER -> FALSE

Step(a, r) == Do(a, r) /\ last' = [a |-> a, r |-> r]

InitWith(nh) ==
  /\ cur = {} /\ blk = [h \in 1..nh |-> None]
  /\ last = [a |-> [op |-> "init", nh |-> nh], r |-> 0]

(* ======================================================================= *)
(* Model of the code (bit1024.go Marshal/Unmarshal, bigu32.go, u32bittip.go) *)
(* ======================================================================= *)
Dev(x) == x \in Deviation

ImplMarshal(S) ==
  LET n == Card(S) IN
  IF n = 0 THEN <<>>
  ELSE IF n < SparseMax \/ (Dev("le64") /\ n = SparseMax)
       THEN LET o == Asc(S) IN
            [x \in 1..(2 * n) |-> LET m == o[(x + 1) \div 2] IN IF x % 2 = 1 THEN m % ByteBase ELSE m \div ByteBase]
       ELSE [k \in 1..DL |->
               LET RECURSIVE Sum(_)
                   Sum(j) == IF j = BPB THEN 0
                             ELSE (IF (k - 1) * BPB + j \in S THEN Pow2(j) ELSE 0) + Sum(j + 1)
               IN Sum(0)]

(* the sparse loop: stop at the first invalid element; SetI16 ignores what is out of range *)
RECURSIVE SparseLoop(_, _, _)
SparseLoop(bytes, i, acc) ==
  IF i > Len(bytes) \div 2 THEN [err |-> FALSE, S |-> acc]
  ELSE LET v == Elem(bytes, i) IN
       IF ~Dev("norange") /\ v > N - 1 THEN [err |-> TRUE, S |-> acc]
       ELSE SparseLoop(bytes, i + 1, IF v <= N - 1 THEN acc \cup {v} ELSE acc)

ImplUnmarshal(bytes) ==
  LET n == Len(bytes)
      out(x) == IF x.err THEN [err |-> TRUE, ms |-> <<>>] ELSE [err |-> FALSE, ms |-> Asc(x.S)]
  IN IF n = 0 THEN out([err |-> FALSE, S |-> {}])
     ELSE IF n > DL \/ n % 2 # 0 THEN out([err |-> TRUE, S |-> {}])
     ELSE IF n < DL THEN out(SparseLoop(bytes, 1, {}))
     ELSE out([err |-> FALSE, S |-> {m \in U : BitOf(bytes[(m \div BPB) + 1], m % BPB) = 1}])

(* what the block's iterators add to a bit: int64(Start*1024) resp. Start*1024 - a uint32  *)
(* product, i.e. the top digit is cut to TopLim and what is above is lost                   *)
ImplValueOf(b, m) ==
  IF b.kind = "big" /\ Dev("wrapmul")
  THEN [neg |-> FALSE,
        d |-> <<m>> \o [i \in 1..(SD - 1) |-> IF i = SD - 1 THEN b.start[i] % TopLim ELSE b.start[i]]
                   \o Zeros(ND - SD)]
  ELSE ValueOf(b, m)

ImplAll(b, dir) ==
  LET o == IF dir = "f" THEN Asc(b.S) ELSE Desc(b.S) IN [j \in 1..Len(o) |-> ImplValueOf(b, o[j])]

Flip(dir) == IF dir = "f" THEN "r" ELSE "f"

ImplReply(a) ==
  CASE a.op \in {"load", "fresh", "brev", "bload", "bnew0", "bsetrun"} -> 0
    [] a.op = "bdata"     -> ImplUnmarshal(a.bytes).err
    [] a.op = "marshal"   -> ImplMarshal(cur)
    [] a.op = "unmarshal" -> ImplUnmarshal(a.bytes)
    [] a.op = "new"   -> IF a.kind = "big" THEN ~Valid("big", a.v) ELSE FALSE
    [] a.op = "bset"  -> IF blk[a.h].kind = "big"
                         THEN ~Valid("big", a.v) \/ StartD("big", a.v) # blk[a.h].start
                         ELSE StartD("tip", a.v) # blk[a.h].start
    [] a.op = "bgetn" -> \* U32BitTip.getNAsU32 dispatches the two directions the wrong way round
                         LET dir == IF blk[a.h].kind = "tip" /\ Dev("swapdir") THEN Flip(a.dir) ELSE a.dir
                         IN Take(ImplAll(blk[a.h], dir), a.n)
    [] a.op = "biter" -> LET vals == Take(ImplAll(blk[a.h], a.dir), a.n)
                         IN [c |-> Len(vals), out |-> SliceAfter(a, vals)]
    [] a.op = "lgetn" -> LET per == [i \in 1..Len(a.hs) |-> ImplAll(blk[a.hs[i]], a.dir)] IN
                         IF a.kind = "tip" /\ a.dir = "r" THEN Take(Concat(Rev(per)), a.n)
                         ELSE Take(Concat(per), a.n)
    [] OTHER -> 0

---------------------------------------------------------------------------
(* Bounded instances for exhaustive checking *)
CONSTANTS NH, MaxBytes

RECURSIVE SeqsUpTo(_, _)
SeqsUpTo(S, n) == IF n = 0 THEN {<<>>}
                  ELSE LET p == SeqsUpTo(S, n - 1) IN p \cup {Append(s, x) : s \in {t \in p : Len(t) = n - 1}, x \in S}

AllInts == {v \in [neg : BOOLEAN, d : [1..ND -> Bits]] : v.neg => v.d # Zeros(ND)}     \* no negative zero
Hs == DOMAIN blk
OkHs == {h \in Hs : blk[h].ok}

CodecActs ==
       [op : {"marshal"}]
  \cup (IF cur = {} THEN [op : {"unmarshal"}, bytes : SeqsUpTo(0..(ByteBase - 1), MaxBytes)] ELSE {})

BlockActs ==
       {[op |-> "new", h |-> h, kind |-> k, v |-> v] : h \in Hs, k \in {"big", "tip"},
                                                       v \in AllInts}
  \cup {[op |-> "bnew0", h |-> h, kind |-> k] : h \in Hs, k \in {"big", "tip"}}
  \cup UNION {{[op |-> "bsetrun", h |-> h, lo |-> lo, cnt |-> c] : h \in OkHs, c \in 0..(C - lo)} : lo \in Bits}
  \cup {[op |-> "bset", h |-> h, v |-> v] : h \in OkHs, v \in AllInts}
  \cup {[op |-> "brev", h |-> h, d |-> d] : h \in OkHs, d \in Hs}
  \cup {[op |-> "bgetn", h |-> h, dir |-> dir, n |-> n] : h \in OkHs, dir \in {"f", "r"}, n \in 0..(C + 1)}
  \cup {[op |-> "biter", h |-> h, dir |-> dir, n |-> n, pos |-> 1, len |-> C + 2,
         sent |-> [neg |-> TRUE, d |-> [i \in 1..ND |-> IF i = 1 THEN 1 ELSE 0]]]
           : h \in OkHs, dir \in {"f", "r"}, n \in (-1)..(C + 1)}
  \cup UNION {{[op |-> "lgetn", kind |-> k, hs |-> hs, dir |-> dir, n |-> n]
                 : hs \in {s \in SeqsUpTo(OkHs, 2) : \A i \in 1..Len(s) : blk[s[i]].kind = k},
                   dir \in {"f", "r"}, n \in {1, C + 1, 2 * C}}
              : k \in {"big", "tip"}}

(* the parameter types of the code: "tip" functions take a uint32 *)
Typed(a) ==
  CASE a.op = "new"  -> a.kind = "tip" => IsU32(a.v)
    [] a.op = "bset" -> blk[a.h].kind = "tip" => IsU32(a.v)
    [] OTHER -> TRUE

NextOf(acts) == \E a \in acts : Typed(a) /\ Step(a, ImplReply(a))

(* codec: start from any bitmap (or a fresh one), one step *)
InitCodec == \E S \in SUBSET U : cur = S /\ blk = [h \in 1..NH |-> None]
                                 /\ last = [a |-> [op |-> "init", nh |-> NH], r |-> 0]
SpecCodec == InitCodec /\ [][NextOf(CodecActs)]_allvars
SpecBlock == InitWith(NH) /\ [][NextOf(BlockActs)]_allvars

(* list forms: any two blocks of one kind (block numbers 0..1; empty, 1-2 members or full), one step *)
ListActs == {a \in BlockActs : a.op = "lgetn"}
InitList == \E k \in {"big", "tip"} :
              \E f \in [1..NH -> [ok : {TRUE}, kind : {k},
                                  start : {[i \in 1..SD |-> IF i = 1 THEN x ELSE 0] : x \in 0..(TopLim - 1)},
                                  S : {x \in SUBSET Bits : Card(x) <= 2 \/ x = Bits}]] :
                cur = {} /\ blk = f /\ last = [a |-> [op |-> "init", nh |-> NH], r |-> 0]
SpecList == InitList /\ [][NextOf(ListActs)]_allvars

(* ------------------------------ properties ----------------------------- *)
TypeOK ==
  /\ cur \subseteq U
  /\ \A h \in Hs : blk[h].ok => /\ blk[h].S \subseteq Bits /\ blk[h].kind \in {"big", "tip"}
                                /\ Len(blk[h].start) = SD /\ DLess(blk[h].start, MaxU32D)

(* every reply the code's design gives is one the property allows *)
Conforms == [][ReplyOK(last'.a, last'.r)]_allvars

(* round trip, said directly: whatever Marshal answers denotes the bitmap again, and decoding *)
(* that answer into a fresh bitmap succeeds with exactly this set                           *)
RoundTrip ==
  [][last'.a.op = "marshal" =>
       LET bytes == last'.r IN
       /\ Denote(bytes) = [ok |-> TRUE, S |-> cur]
       /\ ImplUnmarshal(bytes) = [err |-> FALSE, ms |-> Asc(cur)]
       /\ ReplyOK([op |-> "unmarshal", bytes |-> bytes], [err |-> TRUE, ms |-> <<>>]) = FALSE
  ]_allvars

(* total: arbitrary bytes either fail or give a subset of the universe *)
DecodeTotal ==
  [][last'.a.op = "unmarshal" =>
       /\ last'.r.err \in BOOLEAN
       /\ ~last'.r.err => cur' \subseteq U /\ cur' = Denote(last'.a.bytes).S
       /\ last'.r.err = ~Denote(last'.a.bytes).ok          \* the code's design: fails exactly on Err
  ]_allvars

(* the digit arithmetic against true integers (small constants only) *)
RECURSIVE ToNat(_)
ToNat(d) == IF d = <<>> THEN 0 ELSE d[1] + C * ToNat(Tail(d))
IntOf(v) == IF v.neg THEN -ToNat(v.d) ELSE ToNat(v.d)
RECURSIVE PowC(_)
PowC(k) == IF k = 0 THEN 1 ELSE C * PowC(k - 1)
U32Lim == TopLim * PowC(SD - 1)                       \* 2^32

BlockMeaning ==
  [][LET a == last'.a IN a.op = "new" =>
       LET x == IntOf(a.v)
           inrange == IF a.kind = "big" THEN x >= 0 /\ x < (U32Lim - 1) * C ELSE x >= 0 /\ x < U32Lim
       IN /\ last'.r = ~inrange
          /\ blk'[a.h].ok = inrange
          /\ inrange => /\ ToNat(blk'[a.h].start) = x \div C
                        /\ blk'[a.h].S = {x % C}
                        \* iterates back to precisely that integer, both ways, for any n >= 1
                        /\ AllVals(blk'[a.h], "f") = <<a.v>> /\ AllVals(blk'[a.h], "r") = <<a.v>>
  ]_allvars

Accepts ==
  [][LET a == last'.a IN a.op = "bset" =>
       LET x == IntOf(a.v)
           b == blk[a.h]
           inrange == IF b.kind = "big" THEN x >= 0 /\ x < (U32Lim - 1) * C ELSE x >= 0 /\ x < U32Lim
           belongs == inrange /\ x \div C = ToNat(b.start)
       IN /\ last'.r = ~belongs
          /\ blk'[a.h].S = IF belongs THEN b.S \cup {x % C} ELSE b.S
          /\ blk'[a.h].start = b.start
  ]_allvars

(* a run is its single Set calls: each integer ValueOf(b, m) is accepted and adds m *)
RunMeaning ==
  [][LET a == last'.a IN a.op = "bsetrun" =>
       LET b == blk[a.h] IN
       /\ \A m \in a.lo..(a.lo + a.cnt - 1) :
             Valid(b.kind, ValueOf(b, m)) /\ StartD(b.kind, ValueOf(b, m)) = b.start /\ BitD(ValueOf(b, m)) = m
       /\ blk'[a.h].S = b.S \cup (a.lo..(a.lo + a.cnt - 1))
       /\ blk'[a.h].start = b.start
  ]_allvars

(* the integers of a block are start*C + member; forward ascending, reverse descending *)
Ordered ==
  [][LET a == last'.a IN a.op \in {"bgetn"} /\ ReplyOK(a, last'.r) =>
       LET r == last'.r
           b == blk[a.h] IN
       /\ Len(r) = Count(b.S, a.n)
       /\ \A j \in 1..Len(r) : IntOf(r[j]) \in {ToNat(b.start) * C + m : m \in b.S}
       /\ \A j \in 1..(Len(r) - 1) : IF a.dir = "f" THEN IntOf(r[j]) < IntOf(r[j + 1])
                                                    ELSE IntOf(r[j]) > IntOf(r[j + 1])
       \* the first Count ones: nothing skipped
       /\ \A m \in b.S : LET x == ToNat(b.start) * C + m IN
            (\E j \in 1..Len(r) : IntOf(r[j]) = x)
            \/ (Len(r) = a.n /\ \A j \in 1..Len(r) : IF a.dir = "f" THEN IntOf(r[j]) < x ELSE IntOf(r[j]) > x)
  ]_allvars

View == vars
=============================================================================
