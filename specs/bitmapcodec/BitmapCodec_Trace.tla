------------------------- MODULE BitmapCodec_Trace -------------------------
(* Validates ndjson traces recorded from bitmap1024 (Marshal/Unmarshal,      *)
(* BigU32, U32BitTip and their list forms) against BitmapCodec.tla.          *)
(*   reset {nh}          fresh bitmap, no blocks; separates traces           *)
(*   call  {a, r, obs}   one call: action record, reply, and the delta of    *)
(*                       the real state read off the raw words:              *)
(*                       obs.cur = <<>> (bitmap unchanged) or <<members>>,   *)
(*                       obs.blk = {h, ok, kind, start, ms} per handle whose block *)
(*                       (kind, Start, words) differs from before the call         *)
(*   panic {a, msg}      the call panicked: no action explains it            *)
(* An iterator budget n beyond +-2^30 is logged clamped to +-2^30 (same      *)
(* meaning: only min(max(n,0), Len) matters), the real argument in a.nreal.  *)
EXTENDS BitmapCodec, Json, IOUtils

TraceLog == ndJsonDeserialize(IOEnv.VERIF_TRACE)

VARIABLES l
tvars == <<allvars, l>>

ObsOK(obs, cur0, cur1, blk0, blk1) ==
  LET ch == {obs.blk[i].h : i \in 1..Len(obs.blk)} IN
  /\ IF obs.cur = <<>> THEN cur1 = cur0 ELSE cur1 = AsSet(obs.cur[1])
  /\ ch \subseteq DOMAIN blk0
  /\ \A i \in 1..Len(obs.blk) :
       LET o == obs.blk[i]  b == blk1[o.h] IN
       /\ b.ok = o.ok
       /\ o.ok => b.kind = o.kind /\ b.start = o.start /\ b.S = AsSet(o.ms)
  /\ \A h \in DOMAIN blk0 \ ch : blk1[h] = blk0[h]

TraceInit == l = 1 /\ InitWith(1)

TReset(e) ==
  /\ cur' = {} /\ blk' = [h \in 1..e.nh |-> None]
  /\ last' = [a |-> [op |-> "init"], r |-> 0]

(* inputs the harness passed by reference (the byte string given to Unmarshal) are compared  *)
(* with a private copy after the call: a.inmut = the callee left them alone                  *)
TCall(e) ==
  /\ ("inmut" \in DOMAIN e.a) => e.a.inmut
  /\ ReplyOK(e.a, e.r)
  /\ Step(e.a, e.r)
  /\ ObsOK(e.obs, cur, cur', blk, blk')

Consume ==
  /\ l <= Len(TraceLog) /\ l' = l + 1
  /\ LET e == TraceLog[l] IN
       CASE e.ev = "reset" -> TReset(e)
         [] e.ev = "call"  -> TCall(e)
         [] OTHER -> FALSE          \* panic, crash

TraceNext == Consume
TraceSpec == TraceInit /\ [][TraceNext]_tvars

(* high-water mark of l in TLC register 1 (needs -workers 1) *)
ASSUME TLCSet(1, 0)
Mark == TLCSet(1, IF l > TLCGet(1) THEN l ELSE TLCGet(1))
Accepted == PrintT(<<"MARK", TLCGet(1), Len(TraceLog)>>) /\ TLCGet(1) = Len(TraceLog) + 1

TView == <<cur, blk, l>>
=============================================================================
