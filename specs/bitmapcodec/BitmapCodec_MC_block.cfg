SPECIFICATION SpecBlock
CONSTANTS
  N = 12
  ByteBase = 4
  BPB = 2
  C = 4
  ND = 4
  SD = 2
  TopLim = 2
  Deviation = {}
  NH = 1
  MaxBytes = 8
INVARIANTS TypeOK
PROPERTIES Conforms BlockMeaning Accepts RunMeaning Ordered
VIEW View
CHECK_DEADLOCK FALSE
