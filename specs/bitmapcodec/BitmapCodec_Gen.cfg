SPECIFICATION GenSpec
CONSTANTS
  N = 1024
  ByteBase = 256
  BPB = 8
  C = 1024
  ND = 7
  SD = 4
  TopLim = 4
  Deviation = {}
  NH = 3
  MaxBytes = 0
  Depth = 13
INVARIANTS Emit
CHECK_DEADLOCK FALSE
