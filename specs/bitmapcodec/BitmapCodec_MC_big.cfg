SPECIFICATION SpecCodec
CONSTANTS
  N = 16
  ByteBase = 4
  BPB = 2
  C = 4
  ND = 4
  SD = 2
  TopLim = 2
  Deviation = {}
  NH = 1
  MaxBytes = 9
INVARIANTS TypeOK
PROPERTIES Conforms RoundTrip DecodeTotal
VIEW View
CHECK_DEADLOCK FALSE
