SPECIFICATION MSpec
CONSTANTS
  KeySet = {1, 2, 3, 4}
  VerSet = {1, 2}
  PivotSet = {0, 1, 2, 3, 4, 5}
  NSet = {0, 1, 3, 100}
  DegSet = {2}
  MaxH = 1
  Apis = {"wrap"}
  Deviation = "none"
INVARIANTS TypeOK MechRefines ScanRefines
PROPERTIES MechReplies
VIEW MView
CHECK_DEADLOCK FALSE
