SPECIFICATION GenSpec
CONSTANTS
  KeySet = {1, 2, 3, 4, 5, 6, 7, 8, 9, 10, 11, 12}
  VerSet = {1, 2, 3}
  PivotSet = {0, 1, 2, 3, 4, 5, 6, 7, 8, 9, 10, 11, 12, 13}
  NSet = {0, 1, 2, 3, 100}
  DegSet = {2, 3}
  MaxH = 4
  Apis = {"wrap", "inner"}
  Depth = 40
INVARIANTS Emit
CHECK_DEADLOCK FALSE
