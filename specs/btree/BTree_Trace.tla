---------------------------- MODULE BTree_Trace ----------------------------
(* Validates ndjson traces recorded from the real trees against BTree.     *)
(* Events:                                                                 *)
(*   reset {api, deg, threads}      new tree, one handle (separates traces)*)
(*   call  {a, r, obs}              sequential call: action, reply, state  *)
(*   callr {a, r}                   sequential call, reply only            *)
(*   inv   {t, a} / res {t, r}      overlapping calls on the locked        *)
(*                                  wrapper: the effect is an internal     *)
(*                                  step between the two (TLC searches)    *)
(*   final {obs}                    quiescent observation after overlap    *)
(* obs = [full, all, dumps]:                                               *)
(*   all   = <<[h, items, len]>>  ascending contents (an unbounded Ascend) *)
(*           and Len() of handles; with full = TRUE it must list *every*   *)
(*           live handle, which is how isolation is observed: a write      *)
(*           changes the model of one handle only, so any change that      *)
(*           shows up in another handle's contents is inexplicable;        *)
(*   dumps = <<[h, deg, len, root]>>  node structure from the verif hook:  *)
(*           only WellFormed for the handle's contents, never a predicted  *)
(*           shape.                                                        *)
(* Anything else (e.g. the harness's "panic" event) has no arm: rejected.  *)
EXTENDS BTree, Json, IOUtils

TraceLog == ndJsonDeserialize(IOEnv.VERIF_TRACE)

VARIABLES l, pend
tvars == <<allvars, l, pend>>

Idle == [st |-> "idle"]

ObsOK(o, tr, d) ==
  /\ o.full => {o.all[i].h : i \in 1..Len(o.all)} = 1..Len(tr)
  /\ \A i \in 1..Len(o.all) : LET x == o.all[i] IN
       /\ x.h \in 1..Len(tr)
       /\ x.items = tr[x.h]
       /\ x.len = Len(tr[x.h])
  /\ \A i \in 1..Len(o.dumps) : LET x == o.dumps[i] IN
       /\ x.h \in 1..Len(tr)
       /\ x.deg = d
       /\ WellFormed(x.root, x.len, d, tr[x.h])

TraceInit ==
  /\ l = 1 /\ pend = <<>>
  /\ InitWith("inner", 2)

TReset(e) ==
  /\ trees' = << <<>> >> /\ deg' = e.deg /\ api' = e.api
  /\ last' = [op |-> "init"]
  /\ pend' = [t \in 1..e.threads |-> Idle]

TCall(e) ==
  /\ Step(e.a)
  /\ e.r = Reply(e.a)
  /\ ObsOK(e.obs, trees', deg')
  /\ UNCHANGED pend

TCallR(e) ==
  /\ Step(e.a)
  /\ e.r = Reply(e.a)
  /\ UNCHANGED pend

TInv(e) ==
  /\ pend[e.t] = Idle
  /\ pend' = [pend EXCEPT ![e.t] = [st |-> "called", a |-> e.a]]
  /\ UNCHANGED allvars

TRes(e) ==
  /\ pend[e.t].st = "done" /\ pend[e.t].r = e.r
  /\ pend' = [pend EXCEPT ![e.t] = Idle]
  /\ UNCHANGED allvars

TFinal(e) ==
  /\ \A t \in DOMAIN pend : pend[t] = Idle
  /\ ObsOK(e.obs, trees, deg)
  /\ UNCHANGED <<allvars, pend>>

Consume ==
  /\ l <= Len(TraceLog) /\ l' = l + 1
  /\ LET e == TraceLog[l] IN
       CASE e.ev = "reset" -> TReset(e)
         [] e.ev = "call"  -> TCall(e)
         [] e.ev = "callr" -> TCallR(e)
         [] e.ev = "inv"   -> TInv(e)
         [] e.ev = "res"   -> TRes(e)
         [] e.ev = "final" -> TFinal(e)
         [] OTHER -> FALSE

Lin == \E t \in DOMAIN pend :
  /\ pend[t].st = "called"
  /\ Step(pend[t].a)
  /\ pend' = [pend EXCEPT ![t] = [st |-> "done", r |-> Reply(pend[t].a)]]
  /\ UNCHANGED l

TraceNext == Consume \/ Lin
TraceSpec == TraceInit /\ [][TraceNext]_tvars

(* high-water mark of l in TLC register 1 (needs -workers 1) *)
ASSUME TLCSet(1, 0)
Mark == TLCSet(1, IF l > TLCGet(1) THEN l ELSE TLCGet(1))
Accepted == PrintT(<<"MARK", TLCGet(1), Len(TraceLog)>>) /\ TLCGet(1) = Len(TraceLog) + 1

TView == <<trees, deg, api, l, pend>>
=============================================================================
