SPECIFICATION TraceSpec
CONSTANTS
  KeySet = {}
  VerSet = {}
  PivotSet = {}
  NSet = {}
  DegSet = {}
  MaxH = 100000
  Apis = {}
INVARIANTS TypeOK
CONSTRAINT Mark
POSTCONDITION Accepted
VIEW TView
CHECK_DEADLOCK FALSE
