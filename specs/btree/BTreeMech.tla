---------------------------- MODULE BTreeMech ----------------------------
(***************************************************************************)
(* The mechanism of ds/tree/btree, transcribed function by function, run   *)
(* next to the sorted-set specification BTree:                             *)
(*   find, split / maybeSplitChild / insert         btree.go:186-337       *)
(*   remove / growChildAndRemove (steal left, steal right, merge)          *)
(*                                                   btree.go:387-494      *)
(*   ReplaceOrInsert / deleteItem (root split, root collapse, length)      *)
(*                                                   btree.go:691-755      *)
(*   iterate: start / stop / includeStart / hit      btree.go:510-576      *)
(*   the ten range scans + AscendGreater / DescendLess (btree_ext.go)      *)
(*   the wrapper's Update / UpdateOrInsert / iterWalk (ds/tree/btree.go)   *)
(* Nodes are values [items, ch]; copy-on-write is not modelled here (a     *)
(* value has no aliases) - clone isolation is stated in BTree and bound to *)
(* the real code by trace validation.                                      *)
(*                                                                         *)
(* Checked: after every step the concrete tree is WellFormed for exactly   *)
(* the sorted set of the specification, every reply of the mechanism is    *)
(* the specified reply, and in every reachable shape every scan function,  *)
(* from every pivot, with every filter and limit, yields the specified     *)
(* sequence.  `Deviation` names a few wrong variants used as non-vacuity   *)
(* witnesses.                                                              *)
(***************************************************************************)
EXTENDS BTree

CONSTANT Deviation   \* "none" | "desc_excl_keeps_pivot" | "no_root_collapse"

VARIABLES
  conc,    \* handle -> [root |-> node, length |-> counter]
  mout     \* reply computed by the mechanism for the latest step

mvars == <<allvars, conc, mout>>

Leaf(its) == [items |-> its, ch |-> <<>>]
EmptyTree == [root |-> Leaf(<<>>), length |-> 0]

InsertAt(s, i, x) == SubSeq(s, 1, i - 1) \o <<x>> \o SubSeq(s, i, Len(s))
RemoveAt(s, i)    == SubSeq(s, 1, i - 1) \o SubSeq(s, i + 1, Len(s))
DropLast(s)       == SubSeq(s, 1, Len(s) - 1)

(* items.find: index of the equal item, else the insertion point (1-based) *)
Find(its, k) ==
  LET i == Cardinality({j \in 1..Len(its) : Key(its[j]) < k}) + 1
  IN [i |-> i, found |-> i <= Len(its) /\ Key(its[i]) = k]

(* ------------------------------ insert -------------------------------- *)
SplitNode(c, mx) ==       \* node.split(maxItems/2)
  LET mid == (mx \div 2) + 1 IN
  [sep   |-> c.items[mid],
   left  |-> [items |-> SubSeq(c.items, 1, mid - 1),
              ch    |-> IF c.ch = <<>> THEN <<>> ELSE SubSeq(c.ch, 1, mid)],
   right |-> [items |-> SubSeq(c.items, mid + 1, Len(c.items)),
              ch    |-> IF c.ch = <<>> THEN <<>> ELSE SubSeq(c.ch, mid + 1, Len(c.ch))]]

RECURSIVE InsertN(_, _, _)
InsertN(n, it, mx) ==     \* node.insert: [n |-> node afterwards, out |-> replaced item]
  LET f == Find(n.items, Key(it))
      Down(m, j) == LET r == InsertN(m.ch[j], it, mx)
                    IN [n |-> [m EXCEPT !.ch[j] = r.n], out |-> r.out]
  IN
  IF f.found THEN [n |-> [n EXCEPT !.items[f.i] = it], out |-> Some(n.items[f.i])]
  ELSE IF n.ch = <<>> THEN [n |-> [n EXCEPT !.items = InsertAt(@, f.i, it)], out |-> None]
  ELSE IF Len(n.ch[f.i].items) >= mx
  THEN LET sp == SplitNode(n.ch[f.i], mx)
           n2 == [items |-> InsertAt(n.items, f.i, sp.sep),
                  ch    |-> SubSeq(n.ch, 1, f.i - 1) \o <<sp.left, sp.right>>
                              \o SubSeq(n.ch, f.i + 1, Len(n.ch))]
       IN IF Key(it) < Key(sp.sep) THEN Down(n2, f.i)
          ELSE IF Key(sp.sep) < Key(it) THEN Down(n2, f.i + 1)
          ELSE [n |-> [n2 EXCEPT !.items[f.i] = it], out |-> Some(sp.sep)]
  ELSE Down(n, f.i)

MRoi(t, it, d) ==         \* BTree.ReplaceOrInsert
  LET mx    == 2 * d - 1
      root0 == IF Len(t.root.items) >= mx
               THEN LET sp == SplitNode(t.root, mx)
                    IN [items |-> <<sp.sep>>, ch |-> <<sp.left, sp.right>>]
               ELSE t.root
      r     == InsertN(root0, it, mx)
  IN [t |-> [root |-> r.n, length |-> IF r.out.ok THEN t.length ELSE t.length + 1], out |-> r.out]

(* ------------------------------ remove -------------------------------- *)
Grow(n, i, mn) ==         \* the three cases of growChildAndRemove, before the retry
  IF i > 1 /\ Len(n.ch[i - 1].items) > mn
  THEN \* steal from left sibling
       LET child == n.ch[i]   sf == n.ch[i - 1]
           child2 == [items |-> <<n.items[i - 1]>> \o child.items,
                      ch    |-> IF sf.ch # <<>> THEN <<sf.ch[Len(sf.ch)]>> \o child.ch ELSE child.ch]
           sf2    == [items |-> DropLast(sf.items),
                      ch    |-> IF sf.ch # <<>> THEN DropLast(sf.ch) ELSE <<>>]
       IN [items |-> [n.items EXCEPT ![i - 1] = sf.items[Len(sf.items)]],
           ch    |-> [n.ch EXCEPT ![i - 1] = sf2, ![i] = child2]]
  ELSE IF i <= Len(n.items) /\ Len(n.ch[i + 1].items) > mn
  THEN \* steal from right sibling
       LET child == n.ch[i]   sf == n.ch[i + 1]
           child2 == [items |-> Append(child.items, n.items[i]),
                      ch    |-> IF sf.ch # <<>> THEN Append(child.ch, sf.ch[1]) ELSE child.ch]
           sf2    == [items |-> Tail(sf.items),
                      ch    |-> IF sf.ch # <<>> THEN Tail(sf.ch) ELSE <<>>]
       IN [items |-> [n.items EXCEPT ![i] = sf.items[1]],
           ch    |-> [n.ch EXCEPT ![i] = child2, ![i + 1] = sf2]]
  ELSE \* merge with the right sibling (the last child merges into its left sibling)
       LET j == IF i > Len(n.items) THEN i - 1 ELSE i
           child == n.ch[j]   mc == n.ch[j + 1]
           child2 == [items |-> Append(child.items, n.items[j]) \o mc.items,
                      ch    |-> child.ch \o mc.ch]
       IN [items |-> RemoveAt(n.items, j),
           ch    |-> [RemoveAt(n.ch, j + 1) EXCEPT ![j] = child2]]

RECURSIVE RemoveN(_, _, _, _)
RemoveN(n, k, mn, typ) == \* node.remove: [n |-> node afterwards, out |-> removed item]
  LET f == Find(n.items, k) IN
  IF n.ch = <<>>
  THEN CASE typ = "max" -> [n |-> [n EXCEPT !.items = DropLast(@)], out |-> Some(n.items[Len(n.items)])]
         [] typ = "min" -> [n |-> [n EXCEPT !.items = Tail(@)], out |-> Some(n.items[1])]
         [] OTHER -> IF f.found
                     THEN [n |-> [n EXCEPT !.items = RemoveAt(@, f.i)], out |-> Some(n.items[f.i])]
                     ELSE [n |-> n, out |-> None]
  ELSE LET i     == CASE typ = "max" -> Len(n.items) + 1 [] typ = "min" -> 1 [] OTHER -> f.i
           found == typ = "item" /\ f.found
       IN IF Len(n.ch[i].items) <= mn THEN RemoveN(Grow(n, i, mn), k, mn, typ)
          ELSE IF found
          THEN \* replace by the predecessor: rightmost item of the left child
               LET r == RemoveN(n.ch[i], 0, mn, "max")
               IN [n |-> [items |-> [n.items EXCEPT ![i] = r.out.it], ch |-> [n.ch EXCEPT ![i] = r.n]],
                   out |-> Some(n.items[i])]
          ELSE LET r == RemoveN(n.ch[i], k, mn, typ)
               IN [n |-> [n EXCEPT !.ch[i] = r.n], out |-> r.out]

MDel(t, k, typ, d) ==     \* BTree.deleteItem
  IF Len(t.root.items) = 0 THEN [t |-> t, out |-> None]
  ELSE LET r     == RemoveN(t.root, k, d - 1, typ)
           root2 == IF Len(r.n.items) = 0 /\ r.n.ch # <<>> /\ Deviation # "no_root_collapse"
                    THEN r.n.ch[1] ELSE r.n
       IN [t |-> [root |-> root2, length |-> IF r.out.ok THEN t.length - 1 ELSE t.length],
           out |-> r.out]

(* ---------------------------- point reads ----------------------------- *)
RECURSIVE GetN(_, _)
GetN(n, k) ==
  LET f == Find(n.items, k) IN
  IF f.found THEN Some(n.items[f.i]) ELSE IF n.ch # <<>> THEN GetN(n.ch[f.i], k) ELSE None
RECURSIVE MinN(_)
MinN(n) == IF n.ch # <<>> THEN MinN(n.ch[1]) ELSE IF n.items = <<>> THEN None ELSE Some(n.items[1])
RECURSIVE MaxN(_)
MaxN(n) == IF n.ch # <<>> THEN MaxN(n.ch[Len(n.ch)])
           ELSE IF n.items = <<>> THEN None ELSE Some(n.items[Len(n.items)])

(* ------------------------------ iterate ------------------------------- *)
(* q = [dir, start, stop, incl, cb]; start/stop = [has, k]; cb = the       *)
(* iterator callback: kind "wrap" is iterWalk's closure, kind "plain" the  *)
(* harness's (collect what passes the filter, stop once n are collected).  *)
NoKey    == [has |-> FALSE, k |-> 0]
AKey(k)  == [has |-> TRUE, k |-> k]

Call(out, x, cb) ==       \* [out |-> collected so far, cont |-> what the iterator returns]
  IF cb.kind = "wrap"
  THEN IF Len(out) >= cb.n THEN [out |-> out, cont |-> FALSE]
       ELSE [out |-> IF Pass(x, cb.fm, cb.fr) THEN Append(out, x) ELSE out, cont |-> TRUE]
  ELSE LET o == IF cb.n > 0 /\ Pass(x, cb.fm, cb.fr) THEN Append(out, x) ELSE out
       IN [out |-> o, cont |-> Len(o) < cb.n]

Ret(hit, ok, out) == [hit |-> hit, ok |-> ok, out |-> out]

RECURSIVE Iter(_, _, _, _), AscLoop(_, _, _, _, _), DescLoop(_, _, _, _, _)
AscLoop(n, q, i, hit, out) ==
  IF i > Len(n.items)
  THEN IF n.ch # <<>> THEN Iter(n.ch[Len(n.ch)], q, hit, out) ELSE Ret(hit, TRUE, out)
  ELSE LET c == IF n.ch # <<>> THEN Iter(n.ch[i], q, hit, out) ELSE Ret(hit, TRUE, out)
           x == n.items[i]
       IN IF ~c.ok THEN c
          ELSE IF ~q.incl /\ ~c.hit /\ q.start.has /\ ~(q.start.k < Key(x))
          THEN AscLoop(n, q, i + 1, TRUE, c.out)
          ELSE IF q.stop.has /\ ~(Key(x) < q.stop.k) THEN Ret(TRUE, FALSE, c.out)
          ELSE LET r == Call(c.out, x, q.cb)
               IN IF ~r.cont THEN Ret(TRUE, FALSE, r.out) ELSE AscLoop(n, q, i + 1, TRUE, r.out)

DescLoop(n, q, i, hit, out) ==
  IF i < 1
  THEN IF n.ch # <<>> THEN Iter(n.ch[1], q, hit, out) ELSE Ret(hit, TRUE, out)
  ELSE LET x == n.items[i] IN
       IF /\ q.start.has /\ ~(Key(x) < q.start.k)
          /\ \/ ~q.incl /\ Deviation # "desc_excl_keeps_pivot"
             \/ hit
             \/ q.start.k < Key(x)
       THEN DescLoop(n, q, i - 1, hit, out)
       ELSE LET c == IF n.ch # <<>> THEN Iter(n.ch[i + 1], q, hit, out) ELSE Ret(hit, TRUE, out)
            IN IF ~c.ok THEN c
               ELSE IF q.stop.has /\ ~(q.stop.k < Key(x)) THEN Ret(c.hit, FALSE, c.out)
               ELSE LET r == Call(c.out, x, q.cb)
                    IN IF ~r.cont THEN Ret(TRUE, FALSE, r.out) ELSE DescLoop(n, q, i - 1, TRUE, r.out)

Iter(n, q, hit, out) ==
  IF q.dir = "asc"
  THEN AscLoop(n, q, IF q.start.has THEN Find(n.items, q.start.k).i ELSE 1, hit, out)
  ELSE LET f == Find(n.items, q.start.k)
       IN DescLoop(n, q, IF q.start.has THEN (IF f.found THEN f.i ELSE f.i - 1) ELSE Len(n.items),
                   hit, out)

Q(d, st, sp, inc) == [dir |-> d, start |-> st, stop |-> sp, incl |-> inc]
EntryPoint(fn, pk, qk) == \* the arguments each public scan passes to root.iterate (pk, qk: AKey or NoKey = nil)
  CASE fn = "AscendRange"          -> Q("asc", pk, qk, TRUE)
    [] fn = "AscendLessThan"       -> Q("asc", NoKey, pk, FALSE)
    [] fn = "AscendGreaterOrEqual" -> Q("asc", pk, NoKey, TRUE)
    [] fn = "Ascend"               -> Q("asc", NoKey, NoKey, FALSE)
    [] fn = "DescendRange"         -> Q("desc", pk, qk, TRUE)
    [] fn = "DescendLessOrEqual"   -> Q("desc", pk, NoKey, TRUE)
    [] fn = "DescendGreaterThan"   -> Q("desc", NoKey, pk, FALSE)
    [] fn = "Descend"              -> Q("desc", NoKey, NoKey, FALSE)
    [] fn = "AscendGreater"        -> Q("asc", pk, NoKey, FALSE)       \* btree_ext.go
    [] fn = "DescendLess"          -> Q("desc", pk, NoKey, FALSE)      \* btree_ext.go
    [] fn = "AscendGte"            -> Q("asc", pk, NoKey, TRUE)        \* wrapper -> inner
    [] fn = "AscendGt"             -> Q("asc", pk, NoKey, FALSE)
    [] fn = "DescendLte"           -> Q("desc", pk, NoKey, TRUE)
    [] fn = "DescendLt"            -> Q("desc", pk, NoKey, FALSE)

MScan(t, a) ==
  LET wrap == a.fn \in WrapScans
      cb   == [kind |-> IF wrap THEN "wrap" ELSE "plain", fm |-> a.fm, fr |-> a.fr, n |-> a.n]
      ep   == EntryPoint(a.fn, IF PNil(a) THEN NoKey ELSE AKey(a.p), IF QNil(a) THEN NoKey ELSE AKey(a.q))
      q    == [dir |-> ep.dir, start |-> ep.start, stop |-> ep.stop, incl |-> ep.incl, cb |-> cb]
  IN IF wrap /\ a.n = 0 THEN <<>> ELSE Iter(t.root, q, FALSE, <<>>).out

(* ------------------------------ actions ------------------------------- *)
MDo(a) ==    \* [t |-> tree afterwards, out |-> reply of the mechanism]
  LET t == conc[a.h] IN
  CASE a.op = "ins"    -> [t |-> MRoi(t, <<a.k, a.v>>, deg).t, out |-> 0]
    [] a.op = "roi"    -> MRoi(t, <<a.k, a.v>>, deg)
    [] a.op = "upd"    -> LET r == MDel(t, a.o, "item", deg)
                          IN IF r.out.ok THEN [t |-> MRoi(r.t, <<a.k, a.v>>, deg).t, out |-> TRUE]
                             ELSE [t |-> r.t, out |-> FALSE]
    [] a.op = "upsert" -> LET r == MDel(t, a.o, "item", deg)
                          IN [t |-> MRoi(r.t, <<a.k, a.v>>, deg).t, out |-> r.out.ok]
    [] a.op = "del"    -> LET r == MDel(t, a.k, "item", deg) IN [t |-> r.t, out |-> r.out.ok]
    [] a.op = "idel"   -> MDel(t, a.k, "item", deg)
    [] a.op = "delmin" -> MDel(t, 0, "min", deg)
    [] a.op = "delmax" -> MDel(t, 0, "max", deg)
    [] a.op = "clear"  -> [t |-> EmptyTree, out |-> 0]
    [] a.op = "get"    -> [t |-> t, out |-> GetN(t.root, a.k)]
    [] a.op = "has"    -> [t |-> t, out |-> GetN(t.root, a.k).ok]
    [] a.op = "len"    -> [t |-> t, out |-> t.length]
    [] a.op = "min"    -> [t |-> t, out |-> MinN(t.root)]
    [] a.op = "max"    -> [t |-> t, out |-> MaxN(t.root)]
    [] a.op = "scan"   -> [t |-> t, out |-> MScan(t, a)]

MStep(a) ==
  /\ Step(a)
  /\ IF a.op = "clone" THEN conc' = Append(conc, conc[a.h]) /\ mout' = 0
     ELSE IF a.op = "nop" THEN UNCHANGED conc /\ mout' = 0
     ELSE LET r == MDo(a) IN conc' = [conc EXCEPT ![a.h] = r.t] /\ mout' = r.out

MInit == Init /\ conc = <<EmptyTree>> /\ mout = 0
MNext == \E a \in Acts : MStep(a)
MSpec == MInit /\ [][MNext]_mvars

(* ---------------------------- properties ------------------------------ *)
(* balance + ordered-set equivalence of the structure *)
MechRefines ==
  \A h \in Handles : WellFormed(conc[h].root, conc[h].length, deg, trees[h])

(* every reply of the mechanism is the specified reply *)
MechReplies == [][LET a == last' IN mout' = Reply(a)]_mvars

(* in every reachable shape: every scan, every pivot (present, absent, below the minimum, *)
(* above the maximum), every filter, every limit                                           *)
AllPass == [fm |-> 1, fr |-> <<0>>]
Combos  == {[f |-> f, n |-> Big] : f \in Filters} \cup {[f |-> AllPass, n |-> n] : n \in NSet}
             \cup {[f |-> [fm |-> 2, fr |-> <<0>>], n |-> 1], [f |-> [fm |-> 3, fr |-> <<0, 2>>], n |-> 2]}
Combos2 == {[f |-> AllPass, n |-> Big], [f |-> [fm |-> 2, fr |-> <<1>>], n |-> 2]}
ScanRefines ==
  \A h \in Handles, fn \in (IF api = "wrap" THEN WrapScans ELSE InnerScans) :
    \A p \in (IF fn \in NoPivot THEN {0} ELSE PivotSet), q \in (IF fn \in TwoPivot THEN PivotSet ELSE {0}) :
      \A c \in (IF fn \in TwoPivot THEN Combos2 ELSE Combos) :
        \* a nil pivot (no bound on that side) is checked once per function, not once per pivot value
        \A pn \in (IF fn \notin NoPivot /\ p = 0 THEN BOOLEAN ELSE {FALSE}),
           qn \in (IF fn \in TwoPivot /\ q = 0 THEN BOOLEAN ELSE {FALSE}) :
          LET a == [op |-> "scan", h |-> h, fn |-> fn, p |-> p, q |-> q, pn |-> pn, qn |-> qn,
                    fm |-> c.f.fm, fr |-> c.f.fr, n |-> c.n]
          IN MScan(conc[h], a) = Scan(trees[h], a)

(* used by the _depth configuration only: shows that three-level trees are reachable *)
Shallow == \A h \in Handles : LeafDepths(conc[h].root) \subseteq {1, 2}

MView == <<vars, conc>>
=============================================================================
