SPECIFICATION Spec
CONSTANTS
  KeySet = {1, 2, 3, 4}
  VerSet = {1, 2}
  PivotSet = {0, 1, 2, 3, 4, 5}
  NSet = {0, 1, 2, 3}
  DegSet = {2, 3}
  MaxH = 2
  Apis = {"wrap", "inner"}
INVARIANTS TypeOK ScanAlgebra
PROPERTIES WriteEffect Isolation
VIEW View
CHECK_DEADLOCK FALSE
