------------------------------- MODULE BTree -------------------------------
(***************************************************************************)
(* Sequential specification of neptune's B-tree                            *)
(*   ds/tree.BTree         the RWMutex wrapper (api = "wrap", degree 2,    *)
(*                          one handle)                                    *)
(*   ds/tree/btree.BTree   the vendored tree + the two exclusive scans     *)
(*                          added by neptune (api = "inner", any degree,   *)
(*                          Clone creates further handles)                 *)
(*                                                                         *)
(* A handle's contents is the *sorted set* the property speaks about: a    *)
(* strictly ascending sequence of items <<key, version>>.  One action per  *)
(* public method, described by an action record `a` (the same JSON object  *)
(* the Go harness logs): the transition is Do(a), the value the method     *)
(* returns is Reply(a), a function of the state before the call.           *)
(*                                                                         *)
(* The second half defines what a *node dump* of the real tree must look   *)
(* like (WellFormed): the shape itself is never predicted.  How the real   *)
(* algorithm (split on the way down, steal / merge, iterate's start / stop *)
(* / includeStart / hit state machine) keeps these promises is modelled    *)
(* and model-checked in BTreeMech.tla.                                     *)
(***************************************************************************)
EXTENDS Integers, Sequences, FiniteSets, TLC

VARIABLES
  trees,   \* sequence: handle h \in 1..Len(trees) -> sorted sequence of items <<k, v>>
  deg,     \* degree of the tree(s) (every node but the root holds deg-1 .. 2*deg-1 items)
  api,     \* "wrap" | "inner"
  last     \* action record of the latest step (output only; hidden by VIEW)

vars == <<trees, deg, api>>
allvars == <<vars, last>>

---------------------------------------------------------------------------
(* items, optional items *)
Key(x)  == x[1]
None    == [ok |-> FALSE, it |-> <<0, 0>>]
Some(x) == [ok |-> TRUE, it |-> x]

(* the sorted-set operations *)
KeysOf(s)     == {Key(s[i]) : i \in 1..Len(s)}
HasK(s, k)    == \E i \in 1..Len(s) : Key(s[i]) = k
ItemAt(s, k)  == s[CHOOSE i \in 1..Len(s) : Key(s[i]) = k]
Lookup(s, k)  == IF HasK(s, k) THEN Some(ItemAt(s, k)) ELSE None
Without(s, k) == SelectSeq(s, LAMBDA x : Key(x) # k)
Put(s, it)    == SelectSeq(s, LAMBDA x : Key(x) < Key(it)) \o <<it>>
                   \o SelectSeq(s, LAMBDA x : Key(x) > Key(it))
First(s)      == IF s = <<>> THEN None ELSE Some(s[1])
Final(s)      == IF s = <<>> THEN None ELSE Some(s[Len(s)])
Sorted(s)     == \A i \in 1..(Len(s) - 1) : Key(s[i]) < Key(s[i + 1])

Rev(s)     == [i \in 1..Len(s) |-> s[Len(s) + 1 - i]]
Take(s, n) == SubSeq(s, 1, IF n < Len(s) THEN n ELSE Len(s))

(* ------------------------------ scans --------------------------------- *)
(* A scan function denotes a direction and an interval of keys.           *)
NoB    == [kind |-> "none", k |-> 0]
Inc(k) == [kind |-> "inc", k |-> k]
Exc(k) == [kind |-> "exc", k |-> k]
Above(b, k) == CASE b.kind = "none" -> TRUE [] b.kind = "inc" -> k >= b.k [] b.kind = "exc" -> k > b.k
                 [] OTHER -> FALSE
Below(b, k) == CASE b.kind = "none" -> TRUE [] b.kind = "inc" -> k <= b.k [] b.kind = "exc" -> k < b.k
                 [] OTHER -> FALSE

WrapScans  == {"AscendGte", "AscendGt", "DescendLte", "DescendLt"}
InnerScans == {"AscendRange", "AscendLessThan", "AscendGreaterOrEqual", "Ascend",
               "DescendRange", "DescendLessOrEqual", "DescendGreaterThan", "Descend",
               "AscendGreater", "DescendLess"}
TwoPivot   == {"AscendRange", "DescendRange"}
NoPivot    == {"Ascend", "Descend"}

Rng(d, lo, hi) == [dir |-> d, lo |-> lo, hi |-> hi]
(* A nil pivot means "no bound on that side": every entry point hands its pivots to iterate as   *)
(* start / stop, and iterate treats a nil start or stop as absent (that is how Ascend / Descend  *)
(* themselves are written).  pn / qn say that p / q was passed as nil.                           *)
IncN(k, isnil) == IF isnil THEN NoB ELSE Inc(k)
ExcN(k, isnil) == IF isnil THEN NoB ELSE Exc(k)
RangeN(fn, p, q, pn, qn) ==
  CASE fn = "AscendGte"            -> Rng("asc", IncN(p, pn), NoB)
    [] fn = "AscendGt"             -> Rng("asc", ExcN(p, pn), NoB)
    [] fn = "DescendLte"           -> Rng("desc", NoB, IncN(p, pn))
    [] fn = "DescendLt"            -> Rng("desc", NoB, ExcN(p, pn))
    [] fn = "AscendRange"          -> Rng("asc", IncN(p, pn), ExcN(q, qn))     \* [p, q)
    [] fn = "AscendLessThan"       -> Rng("asc", NoB, ExcN(p, pn))
    [] fn = "AscendGreaterOrEqual" -> Rng("asc", IncN(p, pn), NoB)
    [] fn = "Ascend"               -> Rng("asc", NoB, NoB)
    [] fn = "DescendRange"         -> Rng("desc", ExcN(q, qn), IncN(p, pn))    \* [p, q) downwards = (q, p]
    [] fn = "DescendLessOrEqual"   -> Rng("desc", NoB, IncN(p, pn))
    [] fn = "DescendGreaterThan"   -> Rng("desc", ExcN(p, pn), NoB)
    [] fn = "Descend"              -> Rng("desc", NoB, NoB)
    [] fn = "AscendGreater"        -> Rng("asc", ExcN(p, pn), NoB)        \* added by neptune
    [] fn = "DescendLess"          -> Rng("desc", NoB, ExcN(p, pn))       \* added by neptune
Range(fn, p, q) == RangeN(fn, p, q, FALSE, FALSE)

(* every item of the interval, in scan order *)
ScanSeqN(s, fn, p, q, pn, qn) ==
  LET r == RangeN(fn, p, q, pn, qn)
      f == SelectSeq(s, LAMBDA x : Above(r.lo, Key(x)) /\ Below(r.hi, Key(x)))
  IN IF r.dir = "asc" THEN f ELSE Rev(f)
ScanSeq(s, fn, p, q) == ScanSeqN(s, fn, p, q, FALSE, FALSE)

(* filters are logged as (modulus fm, residues fr): keep x iff key mod fm is a residue *)
Pass(x, fm, fr) == \E i \in 1..Len(fr) : fr[i] = Key(x) % fm

(* the first n items of the interval, in scan order, that pass the filter *)
ScanOf(s, fn, p, q, fm, fr, n) ==
  Take(SelectSeq(ScanSeq(s, fn, p, q), LAMBDA x : Pass(x, fm, fr)), n)
PNil(a) == "pn" \in DOMAIN a /\ a.pn        \* action records without the field: not nil
QNil(a) == "qn" \in DOMAIN a /\ a.qn
Scan(s, a) ==
  Take(SelectSeq(ScanSeqN(s, a.fn, a.p, a.q, PNil(a), QNil(a)), LAMBDA x : Pass(x, a.fm, a.fr)), a.n)

(* --------------------------- actions ---------------------------------- *)
Live(h) == h \in 1..Len(trees)
T(a) == trees[a.h]

WriteOps == {"ins", "roi", "upd", "upsert", "del", "idel", "delmin", "delmax", "clear"}
(* run-length encoded histories (long runs around counter widths), applied in one step:          *)
(*   fill  [h, k, n, v]  ReplaceOrInsert of the keys k .. k+n-1 in ascending order with versions *)
(*                       v .. v+n-1; reply = how many of them replaced an item                   *)
(*   drain [h, n, max]   n times DeleteMin (DeleteMax); reply = how many returned an item        *)
(*   refill [h, v]       ReplaceOrInsert of every key the handle holds, ascending, with versions  *)
(*                       v, v+1, ...; reply = how many replaced an item (all of them)            *)
RunOps   == {"fill", "drain", "refill"}
Refilled(s, v) == [i \in 1..Len(s) |-> <<Key(s[i]), v + i - 1>>]
Fill(s, k, n, v) ==
  SelectSeq(s, LAMBDA x : Key(x) < k) \o [i \in 1..n |-> <<k + i - 1, v + i - 1>>]
    \o SelectSeq(s, LAMBDA x : Key(x) > k + n - 1)
Drained(s, n, max) ==
  IF n >= Len(s) THEN <<>> ELSE IF max THEN SubSeq(s, 1, Len(s) - n) ELSE SubSeq(s, n + 1, Len(s))
ReadOps  == {"get", "has", "len", "min", "max", "scan", "nop", "pscan"}   \* pscan: a scan whose callback panics: changes nothing, replies 0

Reply(a) ==
  CASE a.op = "ins"    -> 0                                   \* wrapper Insert
    [] a.op = "roi"    -> Lookup(T(a), a.k)                   \* ReplaceOrInsert: the replaced item
    [] a.op = "upd"    -> HasK(T(a), a.o)                     \* wrapper Update(old, new)
    [] a.op = "upsert" -> HasK(T(a), a.o)                     \* wrapper UpdateOrInsert(old, new)
    [] a.op = "del"    -> HasK(T(a), a.k)                     \* wrapper Delete
    [] a.op = "idel"   -> Lookup(T(a), a.k)                   \* inner Delete: the removed item
    [] a.op = "delmin" -> First(T(a))
    [] a.op = "delmax" -> Final(T(a))
    [] a.op = "get"    -> Lookup(T(a), a.k)
    [] a.op = "has"    -> HasK(T(a), a.k)
    [] a.op = "len"    -> Len(T(a))
    [] a.op = "min"    -> First(T(a))
    [] a.op = "max"    -> Final(T(a))
    [] a.op = "scan"   -> Scan(T(a), a)
    [] a.op = "fill"   -> Cardinality({x \in KeysOf(T(a)) : x >= a.k /\ x <= a.k + a.n - 1})
    [] a.op = "drain"  -> IF a.n < Len(T(a)) THEN a.n ELSE Len(T(a))
    [] a.op = "refill" -> Len(T(a))
    [] OTHER           -> 0                                   \* clone, clear, nop

After(a) ==      \* contents of handle a.h after a write
  LET s == T(a) IN
  CASE a.op \in {"ins", "roi"} -> Put(s, <<a.k, a.v>>)
    [] a.op = "upd"    -> IF HasK(s, a.o) THEN Put(Without(s, a.o), <<a.k, a.v>>) ELSE s
    [] a.op = "upsert" -> Put(Without(s, a.o), <<a.k, a.v>>)
    [] a.op \in {"del", "idel"} -> Without(s, a.k)
    [] a.op = "delmin" -> IF s = <<>> THEN s ELSE Tail(s)
    [] a.op = "delmax" -> IF s = <<>> THEN s ELSE SubSeq(s, 1, Len(s) - 1)
    [] a.op = "clear"  -> <<>>

Do(a) ==
  CASE a.op \in WriteOps ->
         /\ Live(a.h)
         /\ trees' = [trees EXCEPT ![a.h] = After(a)]
         /\ UNCHANGED <<deg, api>>
    [] a.op \in RunOps ->
         /\ Live(a.h)
         /\ trees' = [trees EXCEPT ![a.h] = CASE a.op = "fill"   -> Fill(T(a), a.k, a.n, a.v)
                                                  [] a.op = "drain"  -> Drained(T(a), a.n, a.max)
                                                  [] a.op = "refill" -> Refilled(T(a), a.v)]
         /\ UNCHANGED <<deg, api>>
    [] a.op = "clone" ->                  \* the new handle is the next free number
         /\ Live(a.h) /\ a.h2 = Len(trees) + 1
         /\ trees' = Append(trees, trees[a.h])
         /\ UNCHANGED <<deg, api>>
    [] a.op = "nop" -> UNCHANGED vars
    [] a.op \in ReadOps -> Live(a.h) /\ UNCHANGED vars
    [] OTHER -> FALSE

Step(a) == Do(a) /\ last' = a

InitWith(ap, d) ==
  /\ trees = << <<>> >> /\ deg = d /\ api = ap
  /\ last = [op |-> "init", api |-> ap, deg |-> d]

---------------------------------------------------------------------------
(* What a dump of the real node structure must satisfy.  A node is         *)
(* [items |-> sequence of <<k, v>>, ch |-> sequence of nodes] (ch empty    *)
(* for a leaf); an absent root is dumped as the empty leaf.                *)
RECURSIVE ArityOK(_)
ArityOK(n) ==
  \/ n.ch = <<>>
  \/ /\ Len(n.ch) = Len(n.items) + 1
     /\ \A i \in 1..Len(n.ch) : ArityOK(n.ch[i])

RECURSIVE InOrder(_)
InOrder(n) ==                             \* requires ArityOK(n)
  IF n.ch = <<>> THEN n.items
  ELSE LET RECURSIVE F(_)
           F(i) == IF i = 0 THEN InOrder(n.ch[1])
                   ELSE F(i - 1) \o <<n.items[i]>> \o InOrder(n.ch[i + 1])
       IN F(Len(n.items))

RECURSIVE LeafDepths(_)
LeafDepths(n) ==
  IF n.ch = <<>> THEN {1}
  ELSE {d + 1 : d \in UNION {LeafDepths(n.ch[i]) : i \in 1..Len(n.ch)}}

RECURSIVE Occupancy(_, _, _)
Occupancy(n, root, d) ==
  /\ Len(n.items) <= 2 * d - 1
  /\ root \/ Len(n.items) >= d - 1
  /\ n.ch # <<>> => Len(n.items) >= 1
  /\ \A i \in 1..Len(n.ch) : Occupancy(n.ch[i], FALSE, d)

RECURSIVE NodeCount(_)
NodeCount(n) ==
  LET RECURSIVE S(_)
      S(i) == IF i = 0 THEN 0 ELSE S(i - 1) + NodeCount(n.ch[i])
  IN 1 + S(Len(n.ch))

(* root: dumped node structure, length: the tree's own counter, s: what it must contain *)
WellFormed(root, length, d, s) ==
  /\ ArityOK(root)
  /\ InOrder(root) = s               \* ordering + separator property + exactly these items
  /\ Occupancy(root, TRUE, d)
  /\ Cardinality(LeafDepths(root)) = 1
  /\ length = Len(s)

---------------------------------------------------------------------------
(* Bounded instance for exhaustive checking *)
CONSTANTS KeySet, VerSet, PivotSet, NSet, DegSet, MaxH, Apis

Filters == {[fm |-> 1, fr |-> <<0>>], [fm |-> 2, fr |-> <<0>>], [fm |-> 2, fr |-> <<1>>],
            [fm |-> 3, fr |-> <<0, 2>>], [fm |-> 1, fr |-> <<>>]}

WrapActs(H) ==
       [op : {"ins"}, h : H, k : KeySet, v : VerSet]
  \cup [op : {"upd", "upsert"}, h : H, o : KeySet, k : KeySet, v : VerSet]
  \cup [op : {"del", "get"}, h : H, k : KeySet]
InnerActs(H) ==
       [op : {"roi"}, h : H, k : KeySet, v : VerSet]
  \cup [op : {"idel", "get", "has"}, h : H, k : KeySet]
  \cup [op : {"delmin", "delmax", "len", "min", "max"}, h : H]
  \cup [op : {"clear"}, h : H, fl : BOOLEAN]
  \cup {[op |-> "clone", h |-> h, h2 |-> Len(trees) + 1] : h \in (IF Len(trees) < MaxH THEN H ELSE {})}
ScanActs(H, fns) ==
  {[op |-> "scan", h |-> h, fn |-> fn, p |-> p, q |-> IF fn \in TwoPivot THEN q ELSE 0,
    fm |-> f.fm, fr |-> f.fr, n |-> n] :
      h \in H, fn \in fns, p \in PivotSet, q \in PivotSet, f \in Filters, n \in NSet}

Handles == 1..Len(trees)
Acts == IF api = "wrap" THEN WrapActs({1}) ELSE InnerActs(Handles)

Init == \E ap \in Apis, d \in DegSet : (ap = "wrap" => d = 2) /\ InitWith(ap, d)
Next == \E a \in Acts : Step(a)
Spec == Init /\ [][Next]_allvars

(* ------------------------- properties -------------------------------- *)
TypeOK ==
  /\ Len(trees) >= 1 /\ Len(trees) <= MaxH
  /\ \A h \in Handles : Sorted(trees[h])
  /\ deg >= 2

AsFn(s) == [k \in KeysOf(s) |-> ItemAt(s, k)[2]]
Ext(f, k, v) == [x \in DOMAIN f \cup {k} |-> IF x = k THEN v ELSE f[x]]
Rem(f, k)    == [x \in DOMAIN f \ {k} |-> f[x]]

(* the writes, said a second time in terms of finite maps: exactly the keys a set would  *)
(* contain, each with the most recently stored item                                       *)
WriteEffect ==
  [][LET a == last' IN a.op \in WriteOps =>
       LET f == AsFn(trees[a.h])  g == AsFn(trees'[a.h]) IN
       CASE a.op \in {"ins", "roi"} -> g = Ext(f, a.k, a.v)
         [] a.op = "upd"    -> g = IF a.o \in DOMAIN f THEN Ext(Rem(f, a.o), a.k, a.v) ELSE f
         [] a.op = "upsert" -> g = Ext(Rem(f, a.o), a.k, a.v)
         [] a.op \in {"del", "idel"} -> g = Rem(f, a.k)
         [] a.op = "delmin" -> g = IF DOMAIN f = {} THEN f
                                    ELSE Rem(f, CHOOSE k \in DOMAIN f : \A x \in DOMAIN f : k <= x)
         [] a.op = "delmax" -> g = IF DOMAIN f = {} THEN f
                                    ELSE Rem(f, CHOOSE k \in DOMAIN f : \A x \in DOMAIN f : k >= x)
         [] a.op = "clear"  -> g = <<>>
  ]_allvars

(* clone isolation: a write changes the contents of exactly one handle; a clone starts   *)
(* with the contents of its origin and changes nobody                                     *)
Isolation ==
  [][LET a == last' IN
       /\ a.op \in WriteOps \cup ReadOps =>
            /\ Len(trees') = Len(trees)
            /\ \A h \in Handles : (a.op \in ReadOps \/ h # a.h) => trees'[h] = trees[h]
       /\ a.op = "clone" =>
            /\ Len(trees') = Len(trees) + 1 /\ trees'[Len(trees')] = trees[a.h]
            /\ \A h \in Handles : trees'[h] = trees[h]
  ]_allvars

(* algebra of the scan denotation, on every reachable contents: exclusive = inclusive    *)
(* minus the pivot, limit = prefix of the unbounded scan, n = 0 is empty, descending is  *)
(* the mirror image of ascending, a range scan is the head of the scan from its start    *)
Big == 1000
ScanAlgebra ==
  \A h \in Handles : LET s == trees[h] IN
    \A p \in PivotSet :
      /\ ScanSeq(s, "AscendGt", p, 0) = SelectSeq(ScanSeq(s, "AscendGte", p, 0), LAMBDA x : Key(x) # p)
      /\ ScanSeq(s, "DescendLt", p, 0) = SelectSeq(ScanSeq(s, "DescendLte", p, 0), LAMBDA x : Key(x) # p)
      /\ ScanSeq(s, "AscendGreater", p, 0) = ScanSeq(s, "AscendGt", p, 0)
      /\ ScanSeq(s, "DescendLess", p, 0) = ScanSeq(s, "DescendLt", p, 0)
      /\ ScanSeq(s, "AscendGreaterOrEqual", p, 0) = ScanSeq(s, "AscendGte", p, 0)
      /\ ScanSeq(s, "DescendLessOrEqual", p, 0) = ScanSeq(s, "DescendLte", p, 0)
      /\ Rev(ScanSeq(s, "DescendLte", p, 0)) \o ScanSeq(s, "AscendGt", p, 0) = s
      /\ Rev(ScanSeq(s, "DescendLt", p, 0)) \o ScanSeq(s, "AscendGte", p, 0) = s
      /\ ScanSeq(s, "AscendLessThan", p, 0) = Rev(ScanSeq(s, "DescendLt", p, 0))
      /\ ScanSeq(s, "DescendGreaterThan", p, 0) = Rev(ScanSeq(s, "AscendGt", p, 0))
      /\ \A q \in PivotSet :
           /\ p <= q => ScanSeq(s, "AscendRange", p, q) \o ScanSeq(s, "AscendGte", q, 0)
                          = ScanSeq(s, "AscendGte", p, 0)
           /\ p > q => ScanSeq(s, "AscendRange", p, q) = <<>>
           /\ q <= p => ScanSeq(s, "DescendRange", p, q) \o ScanSeq(s, "DescendLte", q, 0)
                          = ScanSeq(s, "DescendLte", p, 0)
           /\ q > p => ScanSeq(s, "DescendRange", p, q) = <<>>
      /\ \A fn \in WrapScans, f \in Filters :
           LET all == ScanOf(s, fn, p, 0, f.fm, f.fr, Big) IN
           /\ ScanOf(s, fn, p, 0, f.fm, f.fr, 0) = <<>>
           /\ \A n \in NSet : ScanOf(s, fn, p, 0, f.fm, f.fr, n) = Take(all, n)
           /\ \A i \in 1..Len(all) : Pass(all[i], f.fm, f.fr)
           /\ f.fr = <<>> => all = <<>>
    /\ ScanSeq(s, "Ascend", 0, 0) = s /\ ScanSeq(s, "Descend", 0, 0) = Rev(s)

View == vars
=============================================================================
