----------------------------- MODULE BTree_Gen -----------------------------
(* Plan generation: `tlc -simulate` walks the BTree spec and, at depth     *)
(* Depth, writes the sequence of action records of the behaviour as one    *)
(* ndjson plan file.  The exhaustive action set of BTree is dominated by   *)
(* scans and two-key updates, so each step offers a *menu*: a fixed number *)
(* of candidates per kind of call (the weights), arguments drawn with      *)
(* RandomElement (seeded by -seed, reproducible).                          *)
EXTENDS BTree, TLCExt, Json, IOUtils
CONSTANT Depth

R(S) == RandomElement(S)

WrapMenu  == <<"ins", "ins", "ins", "ins", "ins", "upd", "upd", "upsert", "upsert", "del", "del", "del",
               "get", "wscan", "wscan", "wscan", "wscan">>
InnerMenu == <<"roi", "roi", "roi", "roi", "roi", "roi", "idel", "idel", "idel", "delmin", "delmax",
               "get", "has", "len", "min", "max", "clone", "clone", "clear",
               "iscan", "iscan", "iscan", "iscan", "iscan">>

Cand(kind) ==     \* set of candidate actions of one kind (empty = not offered this time)
  LET h == R(Handles)
      f == R(Filters)
  IN CASE kind = "ins"    -> {[op |-> "ins", h |-> 1, k |-> R(KeySet), v |-> R(VerSet)]}
       [] kind \in {"upd", "upsert"}
                          -> {[op |-> kind, h |-> 1, o |-> R(KeySet), k |-> R(KeySet), v |-> R(VerSet)]}
       [] kind = "del"    -> {[op |-> "del", h |-> 1, k |-> R(KeySet)]}
       [] kind = "roi"    -> {[op |-> "roi", h |-> h, k |-> R(KeySet), v |-> R(VerSet)]}
       [] kind \in {"idel", "get", "has"}
                          -> {[op |-> kind, h |-> h, k |-> R(KeySet)]}
       [] kind \in {"delmin", "delmax", "len", "min", "max"}
                          -> {[op |-> kind, h |-> h]}
       [] kind = "clone"  -> IF Len(trees) < MaxH   \* in every state: never used, drained, one item ...
                             THEN {[op |-> "clone", h |-> h, h2 |-> Len(trees) + 1]} ELSE {}
       [] kind = "clear"  -> IF R(1..6) = 1 THEN {[op |-> "clear", h |-> h, fl |-> R(BOOLEAN)]} ELSE {}
       [] kind = "wscan"  -> {[op |-> "scan", h |-> 1, fn |-> R(WrapScans), p |-> R(PivotSet), q |-> 0,
                               fm |-> f.fm, fr |-> f.fr, n |-> R(NSet)]}
       [] kind = "iscan"  -> LET fn == R(InnerScans) IN
                             {[op |-> "scan", h |-> h, fn |-> fn,
                               p |-> IF fn \in NoPivot THEN 0 ELSE R(PivotSet),
                               q |-> IF fn \in TwoPivot THEN R(PivotSet) ELSE 0,
                               fm |-> f.fm, fr |-> f.fr, n |-> R(NSet)]}

GenNext ==
  LET menu == IF api = "wrap" THEN WrapMenu ELSE InnerMenu
  IN \E i \in 1..Len(menu) : \E a \in Cand(menu[i]) : Step(a)
GenSpec == Init /\ [][GenNext]_allvars

ASSUME TLCSet(2, 0)
Emit ==
  \/ TLCGet("level") < Depth
  \/ /\ TLCSet(2, TLCGet(2) + 1)
     /\ ndJsonSerialize(IOEnv.VERIF_PLANDIR \o "/p" \o ToString(TLCGet(2)) \o ".ndjson",
                        [i \in 1..Len(Trace) |-> Trace[i].last])
=============================================================================
