------------------------------- MODULE Shard -------------------------------
(***************************************************************************)
(* neptune shard routing (remap) and the sharded map built on it           *)
(* (cache.WideMap / cache.WideXHashMap).                                   *)
(*                                                                         *)
(* Two groups of actions, both driven by action records `a` (the JSON      *)
(* object the Go harness logs):                                            *)
(*                                                                         *)
(* 1. Routing observations  a.op \in {"search", "xhash", "simple"}.  The   *)
(*    index r comes from outside (the W-bit algorithm model in ShardAlg,   *)
(*    the real remap package in traces); RouteOK(a, r) is the CONTRACT:    *)
(*      - r \in [0, n)                          (usable as a slice index)  *)
(*      - the same key asked again gets the same index            (stable) *)
(*      - modulo route (integer keys / HitGroup through SimpleIndex):      *)
(*        a non-negative key k gets k mod n.  For negative keys the        *)
(*        property only asks for range and stability, so does the spec.    *)
(*      - hash route: the observations (hash, index) made so far are       *)
(*        ordered alike - they fit a partition of the hash space into n    *)
(*        consecutive intervals; one hash never shows two indices.         *)
(*    The exact position of the boundaries is left open (the property      *)
(*    does not fix it).                                                    *)
(*                                                                         *)
(* 2. Map calls  a.op \in {"set", "get", "exist", "del", "delr"} on        *)
(*    m    the unsharded structure (a plain map) - this is what traces of  *)
(*         the real sharded containers are validated against; and          *)
(*    sh   n plain maps behind a router `rt` that may send a key it has    *)
(*         not seen anywhere in [0, n) but must then stay with its choice. *)
(*    The model checker shows that sh answers every request exactly as m   *)
(*    for EVERY such router (Equiv, OneHome); with Stable = FALSE (router  *)
(*    may change its mind) Equiv fails - the non-vacuity witness.          *)
(***************************************************************************)
EXTENDS ShardOps, TLC

CONSTANTS
  LimbBase,   \* base of the limb representation of hashes / integer keys
  Stable      \* TRUE: a key keeps its shard (the design); FALSE: deviation

VARIABLES
  n,      \* number of shards (>= 1)
  obs,    \* hash-route observations so far: set of [h |-> limbs, i |-> index]
  kidx,   \* routing memory: [op, k] -> index returned before
  m,      \* the unsharded map: key -> value
  sh,     \* sharded model: sequence of n maps
  rt,     \* sharded model: key -> shard chosen by the router so far
  last    \* latest action record (output only)

rvars   == <<obs, kidx>>
mvars   == <<m, sh, rt>>
vars    == <<n, obs, kidx, m, sh, rt>>
allvars == <<vars, last>>

(* ------------------------------ routing -------------------------------- *)
RouteOps == {"search", "xhash", "simple"}
ModTypes == {"u8", "i8", "i16", "u16", "i32", "u32", "i64", "u64", "int", "uint", "hit"}

(* SimpleIndex on an integer / HitGroup key: modulo route *)
ByMod(a) == a.op = "simple" /\ a.k.t \in ModTypes
RId(a)   == [op |-> a.op, k |-> a.k]

RouteOK(a, r) ==
  /\ InRange(n, r)
  /\ RId(a) \in DOMAIN kidx => kidx[RId(a)] = r
  /\ IF ByMod(a)
     THEN ~a.neg => r = LimbsMod(a.k.b, LimbBase, n)
     ELSE HashOK(obs, a.h, r)

RouteDo(a, r) ==
  /\ obs'  = IF ByMod(a) THEN obs ELSE obs \cup {[h |-> a.h, i |-> r]}
  /\ kidx' = Ext(kidx, RId(a), r)
  /\ UNCHANGED <<n, m, sh, rt>>
  /\ last' = a

RouteStep(a, r) == RouteOK(a, r) /\ RouteDo(a, r)

(* ------------------------------ plain map ------------------------------ *)
Miss == [ok |-> FALSE, v |-> 0]
Ack  == [ok |-> TRUE, v |-> 0]

(* reply of map f to request a (a function of the state before the call).  *)
(* "delr" is Delete of the LRU facades, which reports whether it removed.   *)
ReplyOf(f, a) ==
  CASE a.op = "set"   -> Ack
    [] a.op = "get"   -> IF a.k \in DOMAIN f THEN [ok |-> TRUE, v |-> f[a.k]] ELSE Miss
    [] a.op = "exist" -> [ok |-> a.k \in DOMAIN f, v |-> 0]
    [] a.op = "del"   -> Ack
    [] a.op = "delr"  -> [ok |-> a.k \in DOMAIN f, v |-> 0]
    [] OTHER          -> Miss

Apply(f, a) ==
  CASE a.op = "set"             -> Ext(f, a.k, a.v)
    [] a.op \in {"del", "delr"} -> Rem(f, a.k)
    [] OTHER                    -> f

MapOps   == {"set", "get", "exist", "del", "delr"}
Reply(a) == ReplyOf(m, a)

(* the unsharded structure *)
MapDo(a) == a.op \in MapOps /\ m' = Apply(m, a)

(* the sharded structure: where may the router send key k now? *)
Routes(k) == IF Stable /\ k \in DOMAIN rt THEN {rt[k]} ELSE 0..(n - 1)

ShardDo(a) ==
  \E i \in Routes(a.k) :
    /\ sh' = [sh EXCEPT ![i + 1] = Apply(@, a)]
    /\ rt' = Ext(rt, a.k, i)

(* one call on both structures *)
Do(a)   == MapDo(a) /\ ShardDo(a) /\ UNCHANGED <<n, obs, kidx>>
Step(a) == Do(a) /\ last' = a

(* trace validation: only the unsharded structure is needed *)
MapStep(a) == MapDo(a) /\ UNCHANGED <<n, obs, kidx, sh, rt>> /\ last' = a

InitWith(c) ==
  /\ n = c /\ obs = {} /\ kidx = <<>>
  /\ m = <<>> /\ sh = [i \in 1..c |-> <<>>] /\ rt = <<>>
  /\ last = [op |-> "init", n |-> c]

---------------------------------------------------------------------------
(* Bounded instance for exhaustive checking of the container part *)
CONSTANTS KeySet, ValSet, ShardCounts

Acts ==
       [op : {"set"}, k : KeySet, v : ValSet]
  \cup [op : {"get", "exist", "del", "delr"}, k : KeySet]

Init == \E c \in ShardCounts : InitWith(c)
Next == \E a \in Acts : Step(a)
Spec == Init /\ [][Next]_allvars

TypeOK ==
  /\ n \in Nat \ {0}
  /\ DOMAIN m \subseteq KeySet /\ \A k \in DOMAIN m : m[k] \in ValSet
  /\ Len(sh) = n
  /\ DOMAIN rt \subseteq KeySet

(* the router only ever produced usable indices *)
RouterInRange == \A k \in DOMAIN rt : InRange(n, rt[k])

(* every request is answered by the sharded structure exactly as by the    *)
(* unsharded one, wherever the router may send it                          *)
Equiv == \A a \in Acts : \A i \in Routes(a.k) : ReplyOf(sh[i + 1], a) = Reply(a)

(* a key lives in at most one shard - the one the router names - with the  *)
(* value the unsharded map holds; nothing else is stored anywhere          *)
OneHome ==
  \A k \in KeySet :
    /\ k \in DOMAIN m <=> \E i \in 1..n : k \in DOMAIN sh[i]
    /\ \A i \in 1..n : k \in DOMAIN sh[i] =>
         /\ k \in DOMAIN rt /\ rt[k] = i - 1
         /\ k \in DOMAIN m /\ sh[i][k] = m[k]

(* reads are reads *)
ReadOnly == [][last'.op \in {"get", "exist"} => UNCHANGED <<m, sh>>]_allvars

View == vars
=============================================================================
