------------------------------- MODULE Shard -------------------------------
(***************************************************************************)
(* neptune shard routing (remap) and the sharded map built on it           *)
(* (cache.WideMap / cache.WideXHashMap).                                   *)
(*                                                                         *)
(* Two groups of actions, both driven by action records `a` (the JSON      *)
(* object the Go harness logs):                                            *)
(*                                                                         *)
(* 1. Routing observations  a.op \in {"search", "xhash", "simple"}.  The   *)
(*    index r comes from outside (the W-bit algorithm model in ShardAlg,   *)
(*    the real remap package in traces); RouteOK(a, r) is the CONTRACT,    *)
(*    exactly what the property states and nothing more:                   *)
(*      - r \in [0, n)                          (usable as a slice index)  *)
(*      - keyed routes (SimpleIndex, XHashIndex): the same key asked again *)
(*        gets the same index                            (deterministic)   *)
(*      - the hash partition (SearchIndex): the observations (hash, index) *)
(*        made so far are ordered alike - they fit a partition of the hash *)
(*        space into n consecutive intervals; one hash never shows two     *)
(*        indices.                                                         *)
(*    Left open on purpose: where the boundaries lie, which in-range shard *)
(*    a key is sent to (so a refactoring that re-distributes keys is not   *)
(*    flagged as long as it stays total, in range and stable).             *)
(*                                                                         *)
(* 2. Map calls  a.op \in {"set", "get", "exist", "del", "delr"} on        *)
(*    m    the unsharded structure (a plain map) - this is what traces of  *)
(*         the real sharded containers are validated against; and          *)
(*    sh   n plain maps behind a router `rt` that may send a key it has    *)
(*         not seen anywhere in [0, n) but must then stay with its choice. *)
(*    The model checker shows that sh answers every request exactly as m   *)
(*    for EVERY such router (Equiv, OneHome); with Stable = FALSE (router  *)
(*    may change its mind) Equiv fails - the non-vacuity witness.          *)
(***************************************************************************)
EXTENDS ShardOps, TLC

CONSTANTS
  LimbBase,   \* base of the limb representation of hashes / integer keys
  Stable      \* TRUE: a key keeps its shard (the design); FALSE: deviation

VARIABLES
  n,      \* number of shards (>= 1)
  obs,    \* hash-route observations so far: [h |-> limbs, i |-> index], sorted by h
  kidx,   \* routing memory: [op, k] -> index returned before
  m,      \* the unsharded map: key -> value
  sh,     \* sharded model: sequence of n maps
  rt,     \* sharded model: key -> shard chosen by the router so far
  last    \* latest action record (output only)

rvars   == <<obs, kidx>>
mvars   == <<m, sh, rt>>
vars    == <<n, obs, kidx, m, sh, rt>>
allvars == <<vars, last>>

(* ------------------------------ routing -------------------------------- *)
RouteOps == {"search", "xhash", "simple"}
RId(a)   == [op |-> a.op, k |-> a.k]

RouteOK(a, r) ==
  /\ InRange(n, r)
  /\ IF a.op = "search"
     THEN HashOKSeq(obs, a.h, r)
     ELSE RId(a) \in DOMAIN kidx => kidx[RId(a)] = r

RouteDo(a, r) ==
  /\ obs'  = IF a.op = "search" THEN InsertObs(obs, a.h, r) ELSE obs
  /\ kidx' = IF a.op = "search" THEN kidx ELSE Ext(kidx, RId(a), r)
  /\ UNCHANGED <<n, m, sh, rt>>
  /\ last' = a

RouteStep(a, r) == RouteOK(a, r) /\ RouteDo(a, r)

(* ------------------------------ plain map ------------------------------ *)
Miss == [ok |-> FALSE, v |-> 0]
Ack  == [ok |-> TRUE, v |-> 0]

(* reply of map f to request a (a function of the state before the call).  *)
(* "delr" is Delete of the LRU facades, which reports whether it removed.   *)
ReplyOf(f, a) ==
  CASE a.op = "set"   -> Ack
    [] a.op = "get"   -> IF a.k \in DOMAIN f THEN [ok |-> TRUE, v |-> f[a.k]] ELSE Miss
    [] a.op = "exist" -> [ok |-> a.k \in DOMAIN f, v |-> 0]
    [] a.op = "del"   -> Ack
    [] a.op = "delr"  -> [ok |-> a.k \in DOMAIN f, v |-> 0]
    [] OTHER          -> Miss

Apply(f, a) ==
  CASE a.op = "set"             -> Ext(f, a.k, a.v)
    [] a.op \in {"del", "delr"} -> Rem(f, a.k)
    [] OTHER                    -> f

MapOps   == {"set", "get", "exist", "del", "delr"}
Reply(a) == ReplyOf(m, a)

(* the unsharded structure *)
MapDo(a) == a.op \in MapOps /\ m' = Apply(m, a)

(* the sharded structure: where may the router send key k now? *)
Routes(k) == IF Stable /\ k \in DOMAIN rt THEN {rt[k]} ELSE 0..(n - 1)

ShardDo(a) ==
  \E i \in Routes(a.k) :
    /\ sh' = [sh EXCEPT ![i + 1] = Apply(@, a)]
    /\ rt' = Ext(rt, a.k, i)

(* one call on both structures *)
Do(a)   == MapDo(a) /\ ShardDo(a) /\ UNCHANGED <<n, obs, kidx>>
Step(a) == Do(a) /\ last' = a

(* trace validation: only the unsharded structure is needed *)
MapStep(a) == MapDo(a) /\ UNCHANGED <<n, obs, kidx, sh, rt>> /\ last' = a

InitWith(c) ==
  /\ n = c /\ obs = <<>> /\ kidx = <<>>
  /\ m = <<>> /\ sh = [i \in 1..c |-> <<>>] /\ rt = <<>>
  /\ last = [op |-> "init", n |-> c]

---------------------------------------------------------------------------
(* Bounded instance for exhaustive checking of the container part *)
CONSTANTS KeySet, ValSet, ShardCounts

Acts ==
       [op : {"set"}, k : KeySet, v : ValSet]
  \cup [op : {"get", "exist", "del", "delr"}, k : KeySet]

Init == \E c \in ShardCounts : InitWith(c)
Next == \E a \in Acts : Step(a)
Spec == Init /\ [][Next]_allvars

TypeOK ==
  /\ n \in Nat \ {0}
  /\ DOMAIN m \subseteq KeySet /\ \A k \in DOMAIN m : m[k] \in ValSet
  /\ Len(sh) = n
  /\ DOMAIN rt \subseteq KeySet

(* the router only ever produced usable indices *)
RouterInRange == \A k \in DOMAIN rt : InRange(n, rt[k])

(* every request is answered by the sharded structure exactly as by the    *)
(* unsharded one, wherever the router may send it                          *)
Equiv == \A a \in Acts : \A i \in Routes(a.k) : ReplyOf(sh[i + 1], a) = Reply(a)

(* a key lives in at most one shard - the one the router names - with the  *)
(* value the unsharded map holds; nothing else is stored anywhere          *)
OneHome ==
  \A k \in KeySet :
    /\ k \in DOMAIN m <=> \E i \in 1..n : k \in DOMAIN sh[i]
    /\ \A i \in 1..n : k \in DOMAIN sh[i] =>
         /\ k \in DOMAIN rt /\ rt[k] = i - 1
         /\ k \in DOMAIN m /\ sh[i][k] = m[k]

(* reads are reads *)
ReadOnly == [][last'.op \in {"get", "exist"} => UNCHANGED <<m, sh>>]_allvars

View == vars

---------------------------------------------------------------------------
(* Bounded instance for exhaustive checking of the routing CONTRACT itself: *)
(* an arbitrary router answers arbitrary questions in arbitrary order and   *)
(* only answers the contract accepts are recorded.  Shows that the          *)
(* contract (neighbour test on the sorted observations) is exactly          *)
(* "some partition of the hash space into n consecutive intervals explains  *)
(* every answer so far": never weaker (Explainable), never stronger         *)
(* (Complete) - so trace validation neither misses a hole / overlap nor     *)
(* flags a router with different boundaries.                                *)
CONSTANTS HashVals,   \* hash values in 0..LimbBase^2-1 asked through the partition
          RKeys       \* keys asked through the keyed routes

L2(v) == <<v \div LimbBase, v % LimbBase>>                  \* 2 limbs
SearchA(v)  == [op |-> "search", k |-> [t |-> "hash", b |-> L2(v)], h |-> L2(v)]
KeyA(op, k) == [op |-> op, k |-> [t |-> "str", b |-> <<k>>], h |-> L2(0)]
RouteActs == {SearchA(v) : v \in HashVals} \cup {KeyA(op, k) : op \in {"xhash", "simple"}, k \in RKeys}
Answers   == (-1)..n          \* includes both kinds of out-of-range index

RNext == \E a \in RouteActs, r \in Answers : RouteStep(a, r)
RSpec == Init /\ [][RNext]_allvars

(* a partition of 0..MaxHash into n consecutive (possibly empty) intervals  *)
(* is given by n-1 ascending cut points; hash v belongs to the shard whose  *)
(* number is the count of cuts <= v                                         *)
MaxHash == LimbBase * LimbBase - 1
(* (constant-level, so TLC evaluates it once per shard count) *)
CutsAll == [c \in ShardCounts |->
             {f \in [1..(c - 1) -> 0..(MaxHash + 1)] : \A j \in 1..(c - 2) : f[j] <= f[j + 1]}]
Cuts == CutsAll[n]
ShardOf(c, v) == Cardinality({j \in 1..(n - 1) : c[j] <= v})
Explains(c, O) == \A o \in O : o.i = ShardOf(c, LimbsVal(o.h, LimbBase))

ObsSorted == \A j \in 1..(Len(obs) - 1) : LimbCmp(obs[j].h, obs[j + 1].h) = -1
Explainable == \E c \in Cuts : Explains(c, SeqRange(obs))
(* whatever some partition could still answer is accepted *)
Complete ==
  LET C == Cuts
      O == SeqRange(obs)
  IN \A v \in HashVals : \A r \in 0..(n - 1) :
       (\E c \in C : Explains(c, O \cup {[h |-> L2(v), i |-> r]})) => RouteOK(SearchA(v), r)
(* the neighbour test equals the pairwise reference formulation *)
FastIsRef ==
  \A v \in HashVals, r \in Answers :
    HashOKSeq(obs, L2(v), r) = HashOK(SeqRange(obs), L2(v), r)
(* keyed routes: only usable indices are ever remembered, any in-range     *)
(* first answer is accepted, and an answer once given stays                *)
MemoryOK == \A id \in DOMAIN kidx : InRange(n, kidx[id])
FirstFree ==
  \A op \in {"xhash", "simple"}, k \in RKeys :
    RId(KeyA(op, k)) \notin DOMAIN kidx => \A r \in 0..(n - 1) : RouteOK(KeyA(op, k), r)
Sticky == [][\A id \in DOMAIN kidx : id \in DOMAIN kidx' /\ kidx'[id] = kidx[id]]_allvars
RView == <<n, obs, kidx>>
=============================================================================
