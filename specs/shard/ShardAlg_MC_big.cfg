SPECIFICATION ASpec
CONSTANTS
  LimbBase = 8
  NLimbs = 3
  MaxShards = 512
  ForceLast = TRUE
  SearchGE = TRUE
  SignedMod = FALSE
  Stable = TRUE
  KeySet = {}
  ValSet = {}
  HashVals = {}
  RKeys = {}
  ShardCounts = {}
INVARIANTS Accepted ModAccepted TableOK Total ClampDead BisectIsFirst Monotone InOwn ExactlyOne Ends
VIEW AView
CHECK_DEADLOCK FALSE
