SPECIFICATION Spec
CONSTANTS
  LimbBase = 16
  Stable = TRUE
  KeySet = {1, 2, 3}
  ValSet = {1, 2}
  HashVals = {}
  RKeys = {}
  ShardCounts = {1, 2, 3}
INVARIANTS TypeOK RouterInRange Equiv OneHome
PROPERTIES ReadOnly
VIEW View
CHECK_DEADLOCK FALSE
