------------------------------ MODULE ShardOps ------------------------------
(***************************************************************************)
(* Pure operators shared by Shard.tla (routing contract + sharded          *)
(* containers) and ShardAlg.tla (the ReMap boundary algorithm at W bits).  *)
(*                                                                         *)
(* Hash values and integer keys are unsigned numbers written as sequences  *)
(* of limbs, most significant first (TLC integers are 32 bit):             *)
(*   traces   : 4 limbs, base 65536  (tr.Limbs of a uint64)                *)
(*   ShardAlg : 2 limbs, base 16     (the scaled-down 8-bit space)         *)
(* so the comparison / modulo operators that judge the real 64-bit values  *)
(* are the ones exercised exhaustively by the model checker.               *)
(***************************************************************************)
EXTENDS Integers, Sequences, FiniteSets

(* three-way comparison of two limb sequences of equal length: -1, 0, 1 *)
RECURSIVE LimbCmp(_, _)
LimbCmp(a, b) ==
  IF a = <<>> THEN 0
  ELSE IF Head(a) < Head(b) THEN -1
  ELSE IF Head(a) > Head(b) THEN 1
  ELSE LimbCmp(Tail(a), Tail(b))

(* value of limb sequence `a` (base `base`) modulo n, by Horner's rule.    *)
(* Intermediate values stay below n * base + base: fits int32 for          *)
(* base = 65536 and n <= 32767.                                            *)
LimbsMod(a, base, n) ==
  LET RECURSIVE R(_, _)
      R(i, acc) == IF i > Len(a) THEN acc ELSE R(i + 1, (acc * base + a[i]) % n)
  IN R(1, 0)

(* numeric value of a (short) limb sequence; only for the scaled-down model *)
LimbsVal(a, base) ==
  LET RECURSIVE V(_, _)
      V(i, acc) == IF i > Len(a) THEN acc ELSE V(i + 1, acc * base + a[i])
  IN V(1, 0)

(* ----------------------------------------------------------------------- *)
(* The routing contract                                                    *)
(* ----------------------------------------------------------------------- *)

(* an index usable for a slice of n shards *)
InRange(n, i) == i \in 0..(n - 1)

(* Hash route.  `obs` is a set of earlier observations [h |-> hash,        *)
(* i |-> index].  A new observation (h, i) is compatible with a monotone   *)
(* partition of the hash space into consecutive intervals iff it is        *)
(* ordered like every earlier one; equal hashes must give equal indices    *)
(* (every hash value belongs to exactly one shard).                        *)
HashOK(obs, h, i) ==
  \A o \in obs :
    LET c == LimbCmp(o.h, h) IN
      /\ c = -1 => o.i <= i
      /\ c = 1  => i <= o.i
      /\ c = 0  => o.i = i

(* extend / restrict a function *)
Ext(f, k, v) == [x \in DOMAIN f \cup {k} |-> IF x = k THEN v ELSE f[x]]
Rem(f, k)    == [x \in DOMAIN f \ {k} |-> f[x]]
=============================================================================
