------------------------------ MODULE ShardOps ------------------------------
(***************************************************************************)
(* Pure operators shared by Shard.tla (routing contract + sharded          *)
(* containers) and ShardAlg.tla (the ReMap boundary algorithm at W bits).  *)
(*                                                                         *)
(* Hash values and integer keys are unsigned numbers written as sequences  *)
(* of limbs, most significant first (TLC integers are 32 bit):             *)
(*   traces   : 4 limbs, base 65536  (tr.Limbs of a uint64)                *)
(*   ShardAlg : 2 limbs, base 16     (the scaled-down 8-bit space)         *)
(* so the comparison operators that judge the real 64-bit values are the   *)
(* ones exercised exhaustively by the model checker.                       *)
(***************************************************************************)
EXTENDS Integers, Sequences, FiniteSets, TLC

(* three-way comparison of two limb sequences of equal length: -1, 0, 1 *)
RECURSIVE LimbCmp(_, _)
LimbCmp(a, b) ==
  IF a = <<>> THEN 0
  ELSE IF Head(a) < Head(b) THEN -1
  ELSE IF Head(a) > Head(b) THEN 1
  ELSE LimbCmp(Tail(a), Tail(b))

(* numeric value of a (short) limb sequence; only for the scaled-down model *)
LimbsVal(a, base) ==
  LET RECURSIVE V(_, _)
      V(i, acc) == IF i > Len(a) THEN acc ELSE V(i + 1, acc * base + a[i])
  IN V(1, 0)

(* ----------------------------------------------------------------------- *)
(* The routing contract                                                    *)
(* ----------------------------------------------------------------------- *)

(* an index usable for a slice of n shards *)
InRange(n, i) == i \in 0..(n - 1)

(* Hash route, reference formulation.  `O` is a set of earlier            *)
(* observations [h |-> hash, i |-> index].  A new observation (h, i) is    *)
(* compatible with a partition of the hash space into consecutive          *)
(* intervals iff it is ordered like every earlier one; equal hashes must   *)
(* give equal indices (every hash value belongs to exactly one shard).     *)
HashOK(O, h, i) ==
  \A o \in O :
    LET c == LimbCmp(o.h, h) IN
      /\ c = -1 => o.i <= i
      /\ c = 1  => i <= o.i
      /\ c = 0  => o.i = i

(* The same judgement on the observations kept as a sequence sorted by     *)
(* hash (strictly ascending): only the two neighbours of h matter.  Traces *)
(* carry thousands of observations; this keeps validation O(log) per       *)
(* event.  Shard_MC_route.cfg checks that both formulations agree in every *)
(* reachable state for every candidate observation (FastIsRef).            *)
(* LowerBound: how many observations have a hash < h (bisection).          *)
RECURSIVE LowerBound(_, _, _, _)
LowerBound(s, h, lo, hi) ==
  IF lo < hi
  THEN LET mid == (lo + hi) \div 2 IN
         IF LimbCmp(s[mid + 1].h, h) = -1 THEN LowerBound(s, h, mid + 1, hi)
         ELSE LowerBound(s, h, lo, mid)
  ELSE lo

HashOKSeq(s, h, i) ==
  LET p == LowerBound(s, h, 0, Len(s)) IN
    /\ p >= 1 => s[p].i <= i
    /\ p < Len(s) => IF s[p + 1].h = h THEN s[p + 1].i = i ELSE i <= s[p + 1].i

InsertObs(s, h, i) ==
  LET p == LowerBound(s, h, 0, Len(s)) IN
    IF p < Len(s) /\ s[p + 1].h = h THEN s
    ELSE SubSeq(s, 1, p) \o <<[h |-> h, i |-> i]>> \o SubSeq(s, p + 1, Len(s))

SeqRange(s) == {s[j] : j \in 1..Len(s)}

(* extend / restrict a function *)
Ext(f, k, v) == (k :> v) @@ f          \* (TLC evaluates @@ natively; the left operand wins)
Rem(f, k)    == [x \in DOMAIN f \ {k} |-> f[x]]
=============================================================================
