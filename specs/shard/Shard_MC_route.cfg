SPECIFICATION RSpec
CONSTANTS
  LimbBase = 2
  Stable = TRUE
  KeySet = {}
  ValSet = {}
  HashVals = {0, 1, 2, 3}
  RKeys = {1}
  ShardCounts = {1, 2, 3}
INVARIANTS ObsSorted Explainable Complete FastIsRef MemoryOK FirstFree
PROPERTIES Sticky
VIEW RView
CHECK_DEADLOCK FALSE
