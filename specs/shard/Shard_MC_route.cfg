SPECIFICATION RSpec
CONSTANTS
  LimbBase = 3
  Stable = TRUE
  KeySet = {}
  ValSet = {}
  HashVals = {0, 1, 2, 3, 4, 5, 6, 7, 8}
  IntKeys = {0, 5}
  NegKeys = {2}
  ShardCounts = {1, 2, 3}
INVARIANTS ObsSorted Explainable Complete FastIsRef MemoryOK
VIEW RView
CHECK_DEADLOCK FALSE
