SPECIFICATION RSpec
CONSTANTS
  LimbBase = 3
  Stable = TRUE
  KeySet = {}
  ValSet = {}
  HashVals = {0, 1, 2, 3, 4, 5, 6, 7, 8}
  RKeys = {1, 2}
  ShardCounts = {1, 2, 3, 4}
INVARIANTS ObsSorted Explainable Complete FastIsRef MemoryOK FirstFree
PROPERTIES Sticky
VIEW RView
CHECK_DEADLOCK FALSE
