SPECIFICATION RSpec
CONSTANTS
  LimbBase = 3
  Stable = TRUE
  KeySet = {}
  ValSet = {}
  HashVals = {0, 2, 4, 5, 8}
  RKeys = {1}
  ShardCounts = {1, 2, 3, 4}
INVARIANTS ObsSorted Explainable Complete FastIsRef MemoryOK FirstFree
PROPERTIES Sticky
VIEW RView
CHECK_DEADLOCK FALSE
