SPECIFICATION ASpec
CONSTANTS
  LimbBase = 4
  NLimbs = 2
  MaxShards = 16
  ForceLast = FALSE
  SearchGE = TRUE
  SignedMod = FALSE
  Stable = TRUE
  KeySet = {}
  ValSet = {}
  HashVals = {}
  RKeys = {}
  ShardCounts = {}
INVARIANTS Total Accepted
VIEW AView
CHECK_DEADLOCK FALSE
