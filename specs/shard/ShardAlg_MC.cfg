SPECIFICATION ASpec
CONSTANTS
  LimbBase = 16
  NLimbs = 2
  MaxShards = 256
  ForceLast = TRUE
  SearchGE = TRUE
  SignedMod = FALSE
  Stable = TRUE
  KeySet = {}
  ValSet = {}
  HashVals = {}
  RKeys = {}
  ShardCounts = {}
INVARIANTS Accepted ModAccepted TableOK Total ClampDead BisectIsFirst Monotone InOwn Ends
VIEW AView
CHECK_DEADLOCK FALSE
