SPECIFICATION ASpec
CONSTANTS
  LimbBase = 4
  NLimbs = 2
  MaxShards = 16
  ForceLast = TRUE
  SearchGE = TRUE
  SignedMod = TRUE
  Stable = TRUE
  KeySet = {}
  ValSet = {}
  HashVals = {}
  RKeys = {}
  ShardCounts = {}
INVARIANTS Accepted ModAccepted
VIEW AView
CHECK_DEADLOCK FALSE
