SPECIFICATION Spec
CONSTANTS
  LimbBase = 16
  Stable = FALSE
  KeySet = {1, 2, 3}
  ValSet = {1, 2}
  HashVals = {}
  RKeys = {}
  ShardCounts = {1, 2, 3}
INVARIANTS TypeOK RouterInRange Equiv
VIEW View
CHECK_DEADLOCK FALSE
