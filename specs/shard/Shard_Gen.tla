---------------------------- MODULE Shard_Gen ----------------------------
(* Plan generation: `tlc -simulate` walks the container part of Shard.tla  *)
(* (calls on abstract keys; the router of the sharded model picks shards   *)
(* at random) and, at depth Depth, writes the action records of the        *)
(* behaviour as one ndjson plan.  The Go harness replays every plan on     *)
(* cache.Map, cache.WideMap, cache.WideXHashMap (and the wide LRU facades  *)
(* with a capacity nothing can reach) under several concrete key schemes.  *)
EXTENDS Shard, TLCExt, Json, IOUtils
CONSTANT Depth
ASSUME TLCSet(2, 0)
Emit ==
  \/ TLCGet("level") < Depth
  \/ /\ TLCSet(2, TLCGet(2) + 1)
     /\ ndJsonSerialize(IOEnv.VERIF_PLANDIR \o "/p" \o ToString(TLCGet(2)) \o ".ndjson",
                        [i \in 1..Len(Trace) |-> Trace[i].last])
=============================================================================
