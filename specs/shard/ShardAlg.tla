----------------------------- MODULE ShardAlg -----------------------------
(***************************************************************************)
(* The remap.ReMap algorithm over a scaled-down hash space of              *)
(* LimbBase^NLimbs values (8 bits = 2 limbs of 4 bits in the quick         *)
(* configuration), for EVERY shard count 1..MaxShards and EVERY hash:      *)
(*                                                                         *)
(*   NewReMap     y = Max \div n;  nps[i] = y * (i+1);  nps[n-1] = Max     *)
(*   SearchIndex  sort.Search(n, nps[i] >= x)  (binary search, modelled    *)
(*                step by step), result clamped to 0 when out of range     *)
(*   SimpleIndex  uint(key) % n  for integer keys, sign-extended           *)
(*                                                                         *)
(* A behaviour fixes n and sweeps x = 0, 1, ..., Max; every step performs  *)
(* the SAME contract action (Shard!RouteDo) the trace validation uses, and *)
(* the invariant Accepted says that the contract (Shard!RouteOK) accepts   *)
(* the algorithm's answer after all earlier answers - i.e. the algorithm   *)
(* refines the contract.  The remaining invariants state the property      *)
(* directly on the boundaries: total, in range, monotone, each hash in     *)
(* exactly one interval, intervals cover 0..Max, the clamp is dead code.   *)
(*                                                                         *)
(* Deviations kept as non-vacuity witnesses (all FALSE/TRUE = the code):   *)
(*   ForceLast = FALSE   last boundary left at y*n     -> hashes above it  *)
(*                       fall out of the table (hidden by the clamp as     *)
(*                       shard 0: Monotone / ExactlyOne / ClampDead fail)  *)
(*   SearchGE  = FALSE   `>` instead of `>=`           -> hash Max unowned *)
(*   SignedMod = TRUE    modulo on the signed value    -> negative index   *)
(***************************************************************************)
EXTENDS Shard

CONSTANTS NLimbs, MaxShards, ForceLast, SearchGE, SignedMod

VARIABLES
  nps,   \* the boundary table built by NewReMap (1-based here)
  x      \* the hash / key bit pattern looked up in this step

avars == <<allvars, nps, x>>

RECURSIVE Pow(_, _)
Pow(b, e) == IF e = 0 THEN 1 ELSE b * Pow(b, e - 1)
Space == Pow(LimbBase, NLimbs)       \* number of hash values
Max   == Space - 1                   \* math.MaxUint64 of the model
ToLimbs(v) == [j \in 1..NLimbs |-> (v \div Pow(LimbBase, NLimbs - j)) % LimbBase]

(* NewReMap *)
Y(c)     == Max \div c
Table(c) == [j \in 1..c |-> IF j = c /\ ForceLast THEN Max ELSE Y(c) * j]

(* sort.Search(n, pred): smallest index in [0, n] with pred, by bisection *)
Pred(j, v) == IF SearchGE THEN nps[j + 1] >= v ELSE nps[j + 1] > v
RECURSIVE Bisect(_, _, _)
Bisect(lo, hi, v) ==
  IF lo < hi
  THEN LET h == (lo + hi) \div 2 IN
         IF ~Pred(h, v) THEN Bisect(h + 1, hi, v) ELSE Bisect(lo, h, v)
  ELSE lo
Raw(v) == Bisect(0, n, v)

(* SearchIndex: clamp *)
Idx(v) == LET r == Raw(v) IN IF r < 0 \/ r >= n THEN 0 ELSE r

(* "first boundary >= x", read off the table from the left *)
RECURSIVE Scan(_, _)
Scan(j, v) == IF j = n \/ nps[j + 1] >= v THEN j ELSE Scan(j + 1, v)

(* SimpleIndex on an integer key whose two's complement pattern is v.      *)
(* Signed(v): the value a signed type of full width holds.                 *)
Signed(v) == IF v >= Space \div 2 THEN v - Space ELSE v
GoRem(a, b)     == IF a >= 0 THEN a % b ELSE -((-a) % b)     \* Go's % truncates
(* full-width key (int64/uint64 in the code) *)
ModIdx(v, isSigned) ==
  IF SignedMod /\ isSigned THEN GoRem(Signed(v), n) ELSE v % n
(* narrow signed key (int8..int32 in the code): half width, sign-extended  *)
HalfSpace == Pow(LimbBase, NLimbs \div 2)
SignExt(v) == IF v >= HalfSpace \div 2 THEN v + (Space - HalfSpace) ELSE v
NarrowIdx(v) ==
  IF SignedMod THEN GoRem(IF v >= HalfSpace \div 2 THEN v - HalfSpace ELSE v, n)
  ELSE SignExt(v) % n

(* action records as the harness writes them *)
SearchAct(v)   == [op |-> "search", k |-> [t |-> "hash", b |-> ToLimbs(v)], h |-> ToLimbs(v)]
ModAct(t, pat) == [op |-> "simple", k |-> [t |-> t, b |-> ToLimbs(pat)], h |-> ToLimbs(pat)]

AInit ==
  /\ \E c \in 1..MaxShards : InitWith(c) /\ nps = Table(c)
  /\ x = 0

ANext ==
  /\ x < Max
  /\ RouteDo(SearchAct(x), Idx(x))        \* record the answer for x ...
  /\ x' = x + 1                           \* ... and go on to the next hash
  /\ UNCHANGED nps

ASpec == AInit /\ [][ANext]_avars

(* ----------------------------- properties ------------------------------ *)
(* the contract accepts the algorithm (hash route, after all earlier answers) *)
Accepted == RouteOK(SearchAct(x), Idx(x))

(* ... and the modulo route for unsigned, signed and narrow signed keys *)
ModAccepted ==
  /\ RouteOK(ModAct("u64", x), ModIdx(x, FALSE))
  /\ RouteOK(ModAct("i64", x), ModIdx(x, TRUE))
  /\ x < HalfSpace => RouteOK(ModAct("i8", SignExt(x)), NarrowIdx(x))

(* the table: ascending, no wrap-around of y*(i+1), ends at Max *)
TableOK ==
  x = 0 => /\ \A j \in 1..(n - 1) : nps[j] <= nps[j + 1]
           /\ \A j \in 1..n : nps[j] \in 0..Max
           /\ nps[n] = Max

Total     == InRange(n, Idx(x))                       \* never a panic index
ClampDead == InRange(n, Raw(x))                       \* the clamp never fires
BisectIsFirst == Raw(x) = Scan(0, x)                  \* binary search = first boundary >= x
Monotone  == x < Max => Idx(x) <= Idx(x + 1)
(* x lies in the interval of exactly one shard, and that is the one returned *)
Lower(j)   == IF j = 0 THEN 0 ELSE nps[j] + 1
ExactlyOne == {j \in 0..(n - 1) : Lower(j) <= x /\ x <= nps[j + 1]} = {Idx(x)}
(* The same in O(1) per state (ExactlyOne costs O(n) and is kept for the     *)
(* thorough configuration): x lies in the interval of the shard returned.    *)
(* The intervals [Lower(j), nps[j+1]] start at 0, follow each other without  *)
(* gap by construction and, the table being ascending and ending at Max      *)
(* (TableOK), are pairwise disjoint and cover 0..Max.                        *)
InOwn == Lower(Idx(x)) <= x /\ x <= nps[Idx(x) + 1]
(* both ends of the space are owned by the first and the last shard *)
Ends == (x = 0 => Idx(x) = 0) /\ (x = Max => Idx(x) = n - 1)

AView == <<n, x>>
=============================================================================
