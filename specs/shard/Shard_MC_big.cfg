SPECIFICATION Spec
CONSTANTS
  LimbBase = 16
  Stable = TRUE
  KeySet = {1, 2, 3, 4}
  ValSet = {1, 2, 3}
  HashVals = {}
  RKeys = {}
  ShardCounts = {1, 2, 3, 4, 5}
INVARIANTS TypeOK RouterInRange Equiv OneHome
PROPERTIES ReadOnly
VIEW View
CHECK_DEADLOCK FALSE
