--------------------------- MODULE Shard_Trace ---------------------------
(* Validates ndjson traces recorded from the real remap package and the    *)
(* real sharded containers against Shard.tla.                              *)
(* Events:                                                                 *)
(*   reset {shards, kind, ...}  new router / new container (separates      *)
(*                              traces); forgets all observations          *)
(*   idx   {a, r}               routing observation: a.op is "search"      *)
(*                              (SearchIndex), "xhash" (XHashIndex) or     *)
(*                              "simple" (SimpleIndex); a.k = [t, b] the   *)
(*                              key (type name, limbs or bytes), and       *)
(*                              a.h = limbs of the 64-bit hash (of the key *)
(*                              value itself on the modulo route); r the   *)
(*                              index the real code returned               *)
(*   call  {a, r}               one call on a container; r = [ok, v]       *)
(* 64-bit values are 4 limbs of 16 bits (LimbBase = 65536).                *)
EXTENDS Shard, Json, IOUtils

TraceLog == ndJsonDeserialize(IOEnv.VERIF_TRACE)

VARIABLES l
tvars == <<allvars, l>>

TraceInit == l = 1 /\ InitWith(1)

TReset(e) ==
  /\ e.shards >= 1 /\ e.numbs = e.shards      \* the configured shard count is the one in use
  /\ n' = e.shards /\ obs' = <<>> /\ kidx' = <<>>
  /\ m' = <<>> /\ sh' = <<>> /\ rt' = <<>>
  /\ last' = [op |-> "init", n |-> e.shards]

(* the index the real router returned must satisfy the contract *)
TIdx(e) == RouteStep(e.a, e.r)

(* the real (sharded) container must answer as the unsharded map *)
TCall(e) ==
  /\ MapStep(e.a)
  /\ e.r.ok = Reply(e.a).ok
  /\ e.r.v = Reply(e.a).v

TraceNext ==
  /\ l <= Len(TraceLog) /\ l' = l + 1
  /\ LET e == TraceLog[l] IN
       CASE e.ev = "reset" -> TReset(e)
         [] e.ev = "idx"   -> TIdx(e)
         [] e.ev = "call"  -> TCall(e)
         [] OTHER -> FALSE

TraceSpec == TraceInit /\ [][TraceNext]_tvars

(* high-water mark of l in TLC register 1 (needs -workers 1) *)
ASSUME TLCSet(1, 0)
Mark == TLCSet(1, IF l > TLCGet(1) THEN l ELSE TLCGet(1))
Accepted == PrintT(<<"MARK", TLCGet(1), Len(TraceLog)>>) /\ TLCGet(1) = Len(TraceLog) + 1

TView == <<n, obs, kidx, m, l>>
=============================================================================
