--------------------------- MODULE Shard_Trace ---------------------------
(* Validates ndjson traces recorded from the real remap package and the    *)
(* real sharded containers against Shard.tla.                              *)
(* Events:                                                                 *)
(*   reset {shards, kind, ...}  new router / new container (separates      *)
(*                              traces); forgets all observations          *)
(*   idx   {a, r}               routing observation: a.op is "search"      *)
(*                              (SearchIndex), "xhash" (XHashIndex) or     *)
(*                              "simple" (SimpleIndex); a.k = [t, b] the   *)
(*                              key (type name, limbs or bytes), and       *)
(*                              a.h = limbs of the 64-bit hash (of the key *)
(*                              value itself on the modulo route); r the   *)
(*                              index the real code returned; inmut: the   *)
(*                              []byte key the harness handed over still   *)
(*                              holds what it held (TRUE for other keys)   *)
(*   call  {a, r}               one sequential call on a container (no     *)
(*                              call may be open); r = [ok, v]             *)
(*   inv {t, a} / res {t, r}    overlapping calls of goroutine t on one    *)
(*                              container (sequence numbers drawn before   *)
(*                              the call and after it returned): the       *)
(*                              effect is an internal step (Lin) somewhere *)
(*                              between the two, TLC searches for a        *)
(*                              linearization against the plain map        *)
(*   run    {a, r, n, same}     n calls in a row on one key: n times the   *)
(*                              same get / exist, or n sets of n different *)
(*                              values of which a is the LAST (the earlier *)
(*                              ones are overwritten: applying a once is   *)
(*                              applying the run); r is the first reply,   *)
(*                              same says that all n replies were equal    *)
(*   idxrun {a, r, n, same, inmut}  the same for a routing question        *)
(*   panic / stuck / crash      a constructor panicked, a call never       *)
(*                              returned, the process died inside neptune: *)
(*                              no action explains them (CASE OTHER)       *)
(* 64-bit values are 4 limbs of 16 bits (LimbBase = 65536).                *)
EXTENDS Shard, Json, IOUtils

TraceLog == ndJsonDeserialize(IOEnv.VERIF_TRACE)

VARIABLES l, pend
tvars == <<allvars, l, pend>>

Idle == [st |-> "idle"]
Quiet == \A t \in DOMAIN pend : pend[t] = Idle

TraceInit == l = 1 /\ pend = <<>> /\ InitWith(1)

TReset(e) ==
  /\ e.shards >= 1 /\ e.numbs = e.shards      \* the configured shard count is the one in use
  /\ n' = e.shards /\ obs' = <<>> /\ kidx' = <<>>
  /\ m' = <<>> /\ sh' = <<>> /\ rt' = <<>>
  /\ last' = [op |-> "init", n |-> e.shards]
  /\ pend' = [t \in 1..e.threads |-> Idle]

(* the index the real router returned must satisfy the contract *)
TIdx(e) == RouteStep(e.a, e.r) /\ e.inmut = TRUE /\ UNCHANGED pend

(* the real (sharded) container must answer as the unsharded map *)
TCall(e) ==
  /\ Quiet
  /\ MapStep(e.a)
  /\ e.r.ok = Reply(e.a).ok
  /\ e.r.v = Reply(e.a).v
  /\ UNCHANGED pend

(* long runs of one idempotent call, run-length encoded *)
TRun(e) ==
  /\ Quiet
  /\ e.a.op \in {"set", "get", "exist"} /\ e.n >= 1 /\ e.same = TRUE
  /\ MapStep(e.a)
  /\ e.r.ok = Reply(e.a).ok
  /\ e.r.v = Reply(e.a).v
  /\ UNCHANGED pend

TIdxRun(e) ==
  /\ e.n >= 1 /\ e.same = TRUE /\ e.inmut = TRUE
  /\ RouteStep(e.a, e.r)
  /\ UNCHANGED pend

TInv(e) ==
  /\ pend[e.t] = Idle
  /\ pend' = [pend EXCEPT ![e.t] = [st |-> "called", a |-> e.a]]
  /\ UNCHANGED allvars

TRes(e) ==
  /\ pend[e.t].st = "done"
  /\ pend[e.t].r.ok = e.r.ok /\ pend[e.t].r.v = e.r.v
  /\ pend' = [pend EXCEPT ![e.t] = Idle]
  /\ UNCHANGED allvars

Consume ==
  /\ l <= Len(TraceLog) /\ l' = l + 1
  /\ LET e == TraceLog[l] IN
       CASE e.ev = "reset" -> TReset(e)
         [] e.ev = "idx"   -> TIdx(e)
         [] e.ev = "call"  -> TCall(e)
         [] e.ev = "run"    -> TRun(e)
         [] e.ev = "idxrun" -> TIdxRun(e)
         [] e.ev = "inv"   -> TInv(e)
         [] e.ev = "res"   -> TRes(e)
         [] OTHER -> FALSE

(* the effect of an open call takes place, as one step of the plain map *)
Lin == \E t \in DOMAIN pend :
  /\ pend[t].st = "called"
  /\ MapStep(pend[t].a)
  /\ pend' = [pend EXCEPT ![t] = [st |-> "done", r |-> Reply(pend[t].a)]]
  /\ UNCHANGED l

TraceNext == Consume \/ Lin
TraceSpec == TraceInit /\ [][TraceNext]_tvars

(* high-water mark of l in TLC register 1 (needs -workers 1) *)
ASSUME TLCSet(1, 0)
Mark == TLCSet(1, IF l > TLCGet(1) THEN l ELSE TLCGet(1))
Accepted == PrintT(<<"MARK", TLCGet(1), Len(TraceLog)>>) /\ TLCGet(1) = Len(TraceLog) + 1

TView == <<n, obs, kidx, m, l, pend>>
=============================================================================
