SPECIFICATION TraceSpec
CONSTANTS
  LimbBase = 65536
  Stable = TRUE
  KeySet = {}
  ValSet = {}
  HashVals = {}
  RKeys = {}
  ShardCounts = {}
CONSTRAINT Mark
POSTCONDITION Accepted
VIEW TView
CHECK_DEADLOCK FALSE
