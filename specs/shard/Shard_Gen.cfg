SPECIFICATION Spec
CONSTANTS
  LimbBase = 16
  Stable = TRUE
  KeySet = {1, 2, 3, 4, 5, 6}
  ValSet = {1, 2, 3}
  HashVals = {}
  RKeys = {}
  ShardCounts = {1, 2, 3, 4, 7}
  Depth = 16
INVARIANTS Emit
CHECK_DEADLOCK FALSE
