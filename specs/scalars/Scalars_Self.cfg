SPECIFICATION TraceSpec
CONSTANTS
  CheckQuotes = TRUE
  CheckByte = TRUE
  IMax <- I64Max
  IMinMag <- I64MinMag
  UMax <- U64Max
  BMaxN = 255
  Types = {}
  Alphabet = {}
  MaxLen = 0
  ValsOf <- NoVals
CONSTRAINT Mark
POSTCONDITION Accepted
VIEW TView
CHECK_DEADLOCK FALSE
