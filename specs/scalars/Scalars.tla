------------------------------ MODULE Scalars ------------------------------
(***************************************************************************)
(* neptune/tex scalar wrappers (JsInt64, JsUInt64, JsByte, JsUnixTime,     *)
(* JsNanoTime, UnixStamp, Duration, Base64Bytes, hex helpers, SQL time     *)
(* adapters).                                                              *)
(*                                                                         *)
(* The CONTRACT is a denotation: Denote(ty, tok, prev) says what value a   *)
(* text (JSON scalar token or raw text, as byte codes) stands for, and     *)
(*     DecOK : decoding fails, or it yields exactly the denoted value      *)
(*     RtOK  : decoding the encoder's output succeeds with the original    *)
(* The DESIGN (DecDesign/Enc) is the algorithm of the code: look at the    *)
(* quotes, cut them off, parse strictly, check the range.  Two named       *)
(* deviations describe the pinned code: CheckQuotes = FALSE (first and     *)
(* last byte are cut off unseen) and CheckByte = FALSE (byte(t) wraps).    *)
(* The bounded instance explores every token up to MaxLen over Alphabet    *)
(* with scaled-down integer ranges so that range edges are reachable.      *)
(***************************************************************************)
EXTENDS Digits, TLC

CONSTANTS
  CheckQuotes,       \* TRUE = the design; FALSE = b[1:len-1] without looking (tex as pinned)
  CheckByte,         \* TRUE = the design; FALSE = byte(t) without a range check
  IMax, IMinMag,     \* signed range  -IMinMag .. IMax   (digit sequences)
  UMax,              \* unsigned range 0 .. UMax
  BMaxN              \* list elements 0 .. BMaxN (native integer; 255 in the code)

VARIABLES
  ty,     \* which wrapper this variable is (fixed during one life)
  cur,    \* the value the wrapper variable holds
  last    \* record of the latest step (output only)

vars == <<ty, cur>>
allvars == <<vars, last>>

\* ------------------------------------------------------------- tokens
NullT  == <<110, 117, 108, 108>>
TrueT  == <<116, 114, 117, 101>>
FalseT == <<102, 97, 108, 115, 101>>

Quoted(tok)  == Len(tok) >= 2 /\ tok[1] = 34 /\ tok[Len(tok)] = 34
Inner(tok)   == SubSeq(tok, 2, Len(tok) - 1)
PlainStr(s)  == \A i \in 1..Len(s) : s[i] >= 32 /\ s[i] # 34 /\ s[i] # 92     \* no escapes

JsonNum(s) ==        \* strict JSON number grammar
  LET n  == Len(s)
      p0 == IF n >= 1 /\ s[1] = 45 THEN 2 ELSE 1
      p1 == Span(s, p0)
      fr == p1 <= n /\ s[p1] = 46
      p2 == IF fr THEN Span(s, p1 + 1) ELSE p1
      ex == p2 <= n /\ s[p2] \in {69, 101}
      q  == IF ex THEN (IF p2 + 1 <= n /\ s[p2 + 1] \in {43, 45} THEN p2 + 2 ELSE p2 + 1) ELSE p2
      p3 == IF ex THEN Span(s, q) ELSE p2
  IN /\ p1 > p0 /\ (s[p0] = 48 => p1 = p0 + 1)
     /\ (fr => p2 > p1 + 1) /\ (ex => p3 > q) /\ p3 = n + 1

WellFormed(tok) ==   \* the JSON scalar tokens the property quantifies over
  \/ Quoted(tok) /\ PlainStr(Inner(tok))
  \/ tok \in {NullT, TrueT, FalseT}
  \/ tok # <<>> /\ JsonNum(tok)

\* ------------------------------------------------------------- contract
Same == [k |-> "same"]      \* JSON null: an acceptable success leaves the value alone or zeroes it
Zero(t) == IF t \in {"bytes", "b64", "bytestext"} THEN <<>> ELSE Int0

Kind(t) ==
  CASE t \in {"i64", "u64", "stamp", "unix", "nano"} -> "dec"
    [] t = "dur"                                     -> "dur"
    [] t = "bytes"                                   -> "list"
    [] OTHER                                         -> "raw"

TextDenote(kind, s) ==      \* content of a JSON string; blanks around it may be ignored
  LET t == Trim(s) IN
  CASE kind = "dec"  -> IF t = <<>> THEN IntD(Int0) ELSE NumDenote(t)
    [] kind = "dur"  -> IF t = <<>> THEN IntD(Int0) ELSE DurDenote(t)
    [] kind = "list" -> ListDenote(s)
    [] OTHER         -> None

BareDenote(kind, tok) ==    \* a bare JSON number
  LET d == NumDenote(tok) IN
  CASE kind \in {"dec", "dur"} -> d           \* duration: the integer of nanoseconds
    [] kind = "list" -> IF d.k = "int" THEN [k |-> "list", v |-> <<d.v>>] ELSE None
    [] OTHER -> None

Denote(t, tok) ==
  LET kind == Kind(t) IN
  IF kind = "raw" THEN          \* raw text forms (no JSON around them)
    CASE t \in {"hex16i", "hex16u"} -> RadDenote(tok, 4)
      [] t \in {"hex32i", "hex32u"} -> RadDenote(tok, 5)
      [] t = "b64"                  -> B64Denote(tok)
      [] t \in {"scannano", "scanunix"} -> NumDenote(tok)
      [] t = "bytestext"            -> ListDenote(tok)
      [] t = "durtext"              -> IF tok = <<>> THEN None ELSE DurDenote(tok)
      [] OTHER -> None
  ELSE IF tok = NullT \/ tok = <<>> THEN Same      \* nothing to decode: fail, leave alone or zero
  ELSE IF tok \in {TrueT, FalseT} THEN None
  ELSE IF Quoted(tok) THEN
         LET c == StrContent(Inner(tok)) IN          \* escapes stand for the characters they name
         IF c.k = "ok" THEN TextDenote(kind, c.s) ELSE IF c.k = "free" THEN Free ELSE None
  ELSE BareDenote(kind, tok)

Explains(d, t, prev, v) ==  \* is v the value that denotation d stands for?
  CASE d.k = "none"  -> FALSE
    [] d.k = "free"  -> TRUE
    [] d.k = "same"  -> v = prev \/ v = Zero(t)
    [] d.k = "int"   -> v = d.v
    [] d.k = "bytes" -> v = d.v
    [] d.k = "list"  -> /\ Len(v) = Len(d.v)
                        /\ \A i \in 1..Len(v) : FromInt(v[i]) = d.v[i]
    [] OTHER -> FALSE

(* out: "ok" | "err" | anything else (panic) *)
DecOK(t, tok, prev, out, v) ==
  \/ out = "err"
  \/ out = "ok" /\ Explains(Denote(t, tok), t, prev, v)
RtOK(out, v, back) == out = "ok" /\ back = v

(* sql.Scanner: a source value of any kind database/sql may hand over        *)
(* (int64, float64, bool, bytes, string, time, nil), given as its text.  The  *)
(* kinds the adapter is made for (native) are exact-or-error.  For the other  *)
(* kinds a success must give the number the source stands for, or ignore the  *)
(* source (variable unchanged or zero) - never some other value.              *)
NativeKind(t, kind) ==
  CASE t = "b64"                        -> kind \in {"bytes", "string"}
    [] t \in {"scannano", "scanunix"}   -> kind = "int64"
    [] t \in {"sqlstamp", "sqltime"}    -> kind = "time"
    [] t = "durtext"                    -> kind = "string"
    [] OTHER                            -> FALSE
ScanDenote(t, kind, tok) ==
  IF kind = "nil" THEN Same
  ELSE IF kind \in {"bool", "other"} THEN None     \* other: any further dynamic kind of interface{}
  ELSE IF t = "durtext" /\ kind = "string" THEN (IF tok = <<>> THEN None ELSE DurDenote(tok))
  ELSE IF t = "b64" THEN (IF kind \in {"bytes", "string"} THEN B64Denote(tok) ELSE None)
  ELSE NumDenote(tok)
ScanOK(t, kind, tok, prev, out, v) ==
  \/ out = "err"
  \/ /\ out = "ok"
     /\ \/ Explains(ScanDenote(t, kind, tok), t, prev, v)
        \/ ~NativeKind(t, kind) /\ (v = prev \/ v = Zero(t))

\* --------------------------------------------------------------- design
Fail  == [ok |-> FALSE, v |-> 0]
Ok(v) == [ok |-> TRUE, v |-> v]

StrictInt(s, signed) ==     \* strconv.Atoi / ParseUint on text s
  LET sgn  == signed /\ s # <<>> /\ s[1] \in {43, 45}
      body == IF sgn THEN Tail(s) ELSE s
  IN IF body = <<>> \/ \E i \in 1..Len(body) : ~IsDig(body[i]) THEN Fail
     ELSE Ok(MkInt(sgn /\ s[1] = 45, DigVals(body)))

Ranged(r, signed) ==
  IF r.ok /\ (IF signed THEN InRange(r.v, IMinMag, IMax) ELSE ~r.v.neg /\ NatLeq(r.v.d, UMax))
  THEN r ELSE Fail

SmallInt(v) == IF v.neg THEN 0 - ToInt(v.d) ELSE ToInt(v.d)

FromStr(s) ==               \* JsByte.FromString
  IF s = <<>> THEN Ok(<<>>)
  ELSE LET parts == SplitAt(s, 47)
           rs    == [i \in 1..Len(parts) |-> StrictInt(parts[i], TRUE)]
       IN IF \E i \in 1..Len(rs) : ~rs[i].ok THEN Fail
          ELSE IF CheckByte
               THEN IF \E i \in 1..Len(rs) : rs[i].v.neg \/ ~NatLeq(rs[i].v.d, NatDigits(BMaxN))
                    THEN Fail
                    ELSE Ok([i \in 1..Len(rs) |-> ToInt(rs[i].v.d)])
               ELSE Ok([i \in 1..Len(rs) |-> SmallInt(rs[i].v) % (BMaxN + 1)])    \* byte(t)

DecDesign(t, tok) ==
  LET n == Len(tok) IN
  CASE t = "i64" ->
         IF n = 0 THEN Fail
         ELSE IF Quoted(tok)
              THEN (IF Inner(tok) = <<>> THEN Ok(Int0) ELSE Ranged(StrictInt(Inner(tok), TRUE), TRUE))
              ELSE Ranged(StrictInt(tok, TRUE), TRUE)
    [] t \in {"u64", "stamp"} ->
         IF n <= 2 THEN Fail
         ELSE IF CheckQuotes /\ ~Quoted(tok) THEN Fail
         ELSE Ranged(StrictInt(Inner(tok), t = "stamp"), t = "stamp")
    [] t = "bytes" ->
         IF n < 2 THEN Fail
         ELSE IF CheckQuotes /\ ~Quoted(tok) THEN Fail
         ELSE FromStr(Inner(tok))
    [] OTHER -> Fail

RECURSIVE Join(_)
Join(b) == IF b = <<>> THEN <<>>
           ELSE IF Len(b) = 1 THEN DigChars(NatDigits(b[1]))
           ELSE DigChars(NatDigits(b[1])) \o <<47>> \o Join(Tail(b))

Enc(t, v) ==
  IF t = "bytes" THEN <<34>> \o Join(v) \o <<34>>
  ELSE <<34>> \o (IF v.neg THEN <<45>> ELSE <<>>) \o DigChars(v.d) \o <<34>>

\* ----------------------------------------------------- the state machine
(* a = [op |-> "set", v] | [op |-> "dec", tok] | [op |-> "rt", v]           *)
Do(a) ==
  /\ ty' = ty
  /\ CASE a.op = "set" ->
            /\ cur' = a.v
            /\ last' = [op |-> "set", tok |-> <<>>, prev |-> cur, ok |-> TRUE, v |-> a.v]
       [] a.op = "dec" ->
            LET r == DecDesign(ty, a.tok)
                nv == IF r.ok THEN r.v ELSE cur
            IN /\ cur' = nv
               /\ last' = [op |-> "dec", tok |-> a.tok, prev |-> cur, ok |-> r.ok, v |-> nv]
       [] a.op = "rt" ->        \* marshal a.v, unmarshal the wire form into this variable
            LET w == Enc(ty, a.v)
                r == DecDesign(ty, w)
                nv == IF r.ok THEN r.v ELSE cur
            IN /\ cur' = nv
               /\ last' = [op |-> "rt", tok |-> w, prev |-> a.v, ok |-> r.ok, v |-> nv]
       [] OTHER -> FALSE

Step(a) == Do(a)

---------------------------------------------------------------------------
(* Bounded instance *)
CONSTANTS Types, Alphabet, MaxLen, ValsOf(_)

Tokens == UNION {[1..n -> Alphabet] : n \in 0..MaxLen}

Acts(t) == [op : {"dec"}, tok : Tokens] \cup [op : {"set", "rt"}, v : ValsOf(t)]

Init == /\ ty \in Types /\ cur = Zero(ty)
        /\ last = [op |-> "init", tok |-> <<>>, prev |-> Zero(ty), ok |-> TRUE, v |-> Zero(ty)]
Next == \E a \in Acts(ty) : Step(a)
Spec == Init /\ [][Next]_allvars

(* ------------------------- properties -------------------------------- *)
TypeOK == cur \in ValsOf(ty)

(* The properties are action properties over the output record `last'`     *)
(* (TLC checks invariants only on states it has not seen, and `last` is    *)
(* hidden by the VIEW).                                                    *)

(* exact or error: whatever a well-formed token is decoded to is what it denotes *)
ExactOrError ==
  [][(last'.op = "dec" /\ WellFormed(last'.tok)) =>
        DecOK(ty, last'.tok, last'.prev, IF last'.ok THEN "ok" ELSE "err", last'.v)]_allvars

(* the encoder's output is a well-formed token, denotes the original and comes back as it *)
RoundTrip ==
  [][last'.op = "rt" =>
        /\ WellFormed(last'.tok)
        /\ RtOK(IF last'.ok THEN "ok" ELSE "err", last'.prev, last'.v)
        /\ Explains(Denote(ty, last'.tok), ty, last'.prev, last'.prev)]_allvars

(* a failed decode leaves the variable alone (design choice, not demanded from the code) *)
FailKeeps == [][(last'.op = "dec" /\ ~last'.ok) => cur' = cur]_allvars

View == <<ty, cur>>
=============================================================================
