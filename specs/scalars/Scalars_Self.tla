----------------------------- MODULE Scalars_Self -----------------------------
(* Self-test of the denotation operators: a file of judgements                *)
(*   {ev:"self", ty, tok, cur, v, expect}                                     *)
(* produced by an independent arbitrary-precision oracle (checks/c20_oracle); *)
(* for every line  DecOK(ty, tok, cur, "ok", v)  must equal  expect.  A        *)
(* disagreement is a machinery error (the specification is wrong), never a    *)
(* verdict about neptune.                                                     *)
EXTENDS Scalars, Json, IOUtils

TraceLog == ndJsonDeserialize(IOEnv.VERIF_TRACE)

VARIABLES l
tvars == <<allvars, l>>

TraceInit == l = 1 /\ ty = "none" /\ cur = Int0 /\ last = [op |-> "init"]

Consume ==
  /\ l <= Len(TraceLog) /\ l' = l + 1
  /\ LET e == TraceLog[l] IN
       /\ e.ev = "self"
       /\ DecOK(e.ty, e.tok, e.cur, "ok", e.v) = e.expect
  /\ UNCHANGED allvars

TraceSpec == TraceInit /\ [][Consume]_tvars

ASSUME TLCSet(1, 0)
Mark == TLCSet(1, IF l > TLCGet(1) THEN l ELSE TLCGet(1))
Accepted == PrintT(<<"MARK", TLCGet(1), Len(TraceLog)>>) /\ TLCGet(1) = Len(TraceLog) + 1

NoVals(t) == {}
TView == <<l>>
=============================================================================
