SPECIFICATION Spec
CONSTANTS
  CheckQuotes = TRUE
  CheckByte = TRUE
  IMaxN = 2
  IMinN = 3
  UMaxN = 3
  BMaxN = 2
  IMax <- MCIMax
  IMinMag <- MCIMinMag
  UMax <- MCUMax
  Types = {"i64", "u64", "stamp", "bytes"}
  Alphabet = {34, 45, 47, 48, 50, 51}
  MaxLen = 6
  ValsOf <- MCValsOf
INVARIANTS TypeOK
PROPERTIES ExactOrError RoundTrip FailKeeps
VIEW View
CHECK_DEADLOCK FALSE
