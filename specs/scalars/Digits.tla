------------------------------- MODULE Digits -------------------------------
(***************************************************************************)
(* Arbitrary-precision naturals as digit sequences (most significant       *)
(* first, canonical = no leading zero, zero = <<>>), signed integers as    *)
(* records [neg, d], and the text denotations the scalar wrappers of       *)
(* neptune/tex are judged against.  Texts are sequences of byte codes      *)
(* (TLC strings cannot be indexed; TLC integers are 32 bit).               *)
(***************************************************************************)
EXTENDS Integers, Sequences

\* --------------------------------------------------------------- naturals
RECURSIVE StripZ(_)
StripZ(d) == IF d # <<>> /\ d[1] = 0 THEN StripZ(Tail(d)) ELSE d

Zeros(n)   == [i \in 1..n |-> 0]
AllZero(d) == \A i \in 1..Len(d) : d[i] = 0

RECURSIVE NatDigits(_)          \* native natural -> canonical digits
NatDigits(n) == IF n = 0 THEN <<>> ELSE Append(NatDigits(n \div 10), n % 10)

RECURSIVE ToInt(_)              \* digits -> native natural (short sequences only)
ToInt(d) == IF d = <<>> THEN 0 ELSE 10 * ToInt(SubSeq(d, 1, Len(d) - 1)) + d[Len(d)]

LexLeq(a, b) ==                 \* equal lengths
  a = b \/ \E i \in 1..Len(a) : a[i] < b[i] /\ \A j \in 1..(i - 1) : a[j] = b[j]
NatLeq(a, b) ==                 \* canonical operands
  Len(a) < Len(b) \/ (Len(a) = Len(b) /\ LexLeq(a, b))

MulSmall(d, k) ==               \* d * k for a native k (k*9 + carry must stay small)
  LET RECURSIVE M(_, _)
      M(i, c) == IF i = 0 THEN NatDigits(c)
                 ELSE LET t == d[i] * k + c IN Append(M(i - 1, t \div 10), t % 10)
  IN StripZ(M(Len(d), 0))

AddNat(a, b) ==
  LET n  == IF Len(a) > Len(b) THEN Len(a) ELSE Len(b)
      pa == Zeros(n - Len(a)) \o a
      pb == Zeros(n - Len(b)) \o b
      RECURSIVE A(_, _)
      A(i, c) == IF i = 0 THEN NatDigits(c)
                 ELSE LET t == pa[i] + pb[i] + c IN Append(A(i - 1, t \div 10), t % 10)
  IN StripZ(A(n, 0))

\* ------------------------------------------------------- signed integers
Int0         == [neg |-> FALSE, d |-> <<>>]
MkInt(neg, d) == LET c == StripZ(d) IN [neg |-> neg /\ c # <<>>, d |-> c]
FromInt(n)   == IF n < 0 THEN [neg |-> TRUE, d |-> NatDigits(0 - n)]
                ELSE [neg |-> FALSE, d |-> NatDigits(n)]
InRange(v, minMag, max) ==      \* -minMag <= v <= max
  IF v.neg THEN NatLeq(v.d, minMag) ELSE NatLeq(v.d, max)

I64Max    == <<9,2,2,3,3,7,2,0,3,6,8,5,4,7,7,5,8,0,7>>
I64MinMag == <<9,2,2,3,3,7,2,0,3,6,8,5,4,7,7,5,8,0,8>>
U64Max    == <<1,8,4,4,6,7,4,4,0,7,3,7,0,9,5,5,1,6,1,5>>

\* ------------------------------------------------------------ characters
IsDig(c)   == c >= 48 /\ c <= 57
DigVals(s) == [i \in 1..Len(s) |-> s[i] - 48]
DigChars(d) == IF d = <<>> THEN <<48>> ELSE [i \in 1..Len(d) |-> d[i] + 48]

RECURSIVE Span(_, _)            \* first index >= i that is not a decimal digit
Span(s, i) == IF i <= Len(s) /\ IsDig(s[i]) THEN Span(s, i + 1) ELSE i

Blank(c) == c \in {9, 10, 13, 32}        \* JSON white space
RECURSIVE TrimL(_)
TrimL(s) == IF s # <<>> /\ Blank(s[1]) THEN TrimL(Tail(s)) ELSE s
RECURSIVE TrimR(_)
TrimR(s) == IF s # <<>> /\ Blank(s[Len(s)]) THEN TrimR(SubSeq(s, 1, Len(s) - 1)) ELSE s
Trim(s)  == TrimR(TrimL(s))

(***************************************************************************)
(* Content of a JSON string token (the bytes between the quotes): escapes  *)
(* resolved to UTF-8 bytes.  k = "ok" with the content, "bad" for a        *)
(* malformed string, "free" for surrogate escapes (not judged).            *)
(***************************************************************************)
HexV(c) == IF IsDig(c) THEN c - 48
           ELSE IF c >= 97 /\ c <= 102 THEN c - 87
           ELSE IF c >= 65 /\ c <= 70 THEN c - 55 ELSE 99
Utf8(cp) == IF cp < 128 THEN <<cp>>
            ELSE IF cp < 2048 THEN <<192 + (cp \div 64), 128 + (cp % 64)>>
            ELSE <<224 + (cp \div 4096), 128 + ((cp \div 64) % 64), 128 + (cp % 64)>>
BadStr == [k |-> "bad", s |-> <<>>]
Pre(b, r) == IF r.k = "ok" THEN [k |-> "ok", s |-> b \o r.s] ELSE r
RECURSIVE UnescFrom(_, _)
UnescFrom(s, i) ==
  IF i > Len(s) THEN [k |-> "ok", s |-> <<>>]
  ELSE IF s[i] < 32 \/ s[i] = 34 THEN BadStr
  ELSE IF s[i] # 92 THEN Pre(<<s[i]>>, UnescFrom(s, i + 1))
  ELSE IF i = Len(s) THEN BadStr
  ELSE LET c == s[i + 1] IN
       IF c \in {34, 92, 47} THEN Pre(<<c>>, UnescFrom(s, i + 2))
       ELSE IF c = 98 THEN Pre(<<8>>, UnescFrom(s, i + 2))
       ELSE IF c = 102 THEN Pre(<<12>>, UnescFrom(s, i + 2))
       ELSE IF c = 110 THEN Pre(<<10>>, UnescFrom(s, i + 2))
       ELSE IF c = 114 THEN Pre(<<13>>, UnescFrom(s, i + 2))
       ELSE IF c = 116 THEN Pre(<<9>>, UnescFrom(s, i + 2))
       ELSE IF c = 117 THEN
         IF i + 5 > Len(s) \/ \E j \in 2..5 : HexV(s[i + j]) > 15 THEN BadStr
         ELSE LET cp == 4096 * HexV(s[i + 2]) + 256 * HexV(s[i + 3]) + 16 * HexV(s[i + 4]) + HexV(s[i + 5])
              IN IF cp >= 55296 /\ cp <= 57343 THEN [k |-> "free", s |-> <<>>]
                 ELSE Pre(Utf8(cp), UnescFrom(s, i + 6))
       ELSE BadStr
StrContent(s) ==
  IF \A i \in 1..Len(s) : s[i] >= 32 /\ s[i] # 34 /\ s[i] # 92 THEN [k |-> "ok", s |-> s]
  ELSE UnescFrom(s, 1)

None     == [k |-> "none"]                  \* the text denotes no value: decoding must fail
Free     == [k |-> "free"]                  \* outside what the property pins down
IntD(v)  == [k |-> "int", v |-> v]

(***************************************************************************)
(* Decimal number text: optional sign, digits, optional point and digits,  *)
(* optional exponent (e or E, optional sign, digits); at least one digit in *)
(* the mantissa.  It denotes its mathematical value if *)
(* that is an integer ("1e3" = 1000, "1.50e1" = 15, "-0.0" = 0), nothing   *)
(* otherwise.  This is deliberately the widest reading: a decoder is free  *)
(* to refuse anything; what it accepts must have exactly this value.       *)
(***************************************************************************)
NumDenote(s) ==
  LET n    == Len(s)
      sgn  == n >= 1 /\ s[1] \in {43, 45}
      neg  == n >= 1 /\ s[1] = 45
      p1   == IF sgn THEN 2 ELSE 1
      p2   == Span(s, p1)
      dot  == p2 <= n /\ s[p2] = 46
      p3   == IF dot THEN Span(s, p2 + 1) ELSE p2
      ip   == DigVals(SubSeq(s, p1, p2 - 1))
      fp   == IF dot THEN DigVals(SubSeq(s, p2 + 1, p3 - 1)) ELSE <<>>
      hasE == p3 <= n /\ s[p3] \in {69, 101}
      esgn == hasE /\ p3 + 1 <= n /\ s[p3 + 1] \in {43, 45}
      eneg == esgn /\ s[p3 + 1] = 45
      p4   == IF hasE THEN (IF esgn THEN p3 + 2 ELSE p3 + 1) ELSE p3
      p5   == IF hasE THEN Span(s, p4) ELSE p3
      ed   == IF hasE THEN StripZ(DigVals(SubSeq(s, p4, p5 - 1))) ELSE <<>>
      wf   == p5 = n + 1 /\ Len(ip) + Len(fp) >= 1 /\ (hasE => p5 > p4)
      m    == ip \o fp
      mz   == StripZ(m)
  IN IF ~wf THEN None
     ELSE IF mz = <<>> THEN IntD(Int0)
     ELSE IF Len(ed) > 4 THEN None            \* astronomically large or a non-integer
     ELSE LET e  == IF eneg THEN 0 - ToInt(ed) ELSE ToInt(ed)
              sc == e - Len(fp)
          IN IF sc >= 0 THEN IntD(MkInt(neg, mz \o Zeros(sc)))
             ELSE IF 0 - sc >= Len(m) THEN None
             ELSE IF AllZero(SubSeq(m, Len(m) + sc + 1, Len(m)))
                  THEN IntD(MkInt(neg, SubSeq(m, 1, Len(m) + sc)))
                  ELSE None

(***************************************************************************)
(* Go duration text: optional sign, then a lone 0 or one or more components *)
(* (digits, optional point and digits, unit); value in nanoseconds.  A component that is not a whole number of nanoseconds  *)
(* makes the text Free (Go truncates; the property does not say).          *)
(***************************************************************************)
UnitOf(u) ==       \* multiplier m and trailing zeros z : unit = m * 10^z ns
  CASE u = <<110, 115>>      -> [m |-> 1, z |-> 0]
    [] u = <<117, 115>>      -> [m |-> 1, z |-> 3]
    [] u = <<194, 181, 115>> -> [m |-> 1, z |-> 3]      \* U+00B5 micro sign
    [] u = <<206, 188, 115>> -> [m |-> 1, z |-> 3]      \* U+03BC greek mu
    [] u = <<109, 115>>      -> [m |-> 1, z |-> 6]
    [] u = <<115>>           -> [m |-> 1, z |-> 9]
    [] u = <<109>>           -> [m |-> 6, z |-> 10]
    [] u = <<104>>           -> [m |-> 36, z |-> 11]
    [] OTHER                 -> [m |-> 0, z |-> 0]

RECURSIVE UnitEnd(_, _)         \* a unit runs up to the next digit or '.'
UnitEnd(s, i) == IF i <= Len(s) /\ ~IsDig(s[i]) /\ s[i] # 46 THEN UnitEnd(s, i + 1) ELSE i

RECURSIVE DurSum(_, _, _, _)    \* text, position, sum so far, exact so far
DurSum(s, i, acc, exact) ==
  IF i > Len(s) THEN [ok |-> TRUE, d |-> acc, exact |-> exact]
  ELSE LET p2  == Span(s, i)
           dot == p2 <= Len(s) /\ s[p2] = 46
           p3  == IF dot THEN Span(s, p2 + 1) ELSE p2
           ip  == DigVals(SubSeq(s, i, p2 - 1))
           fp  == IF dot THEN DigVals(SubSeq(s, p2 + 1, p3 - 1)) ELSE <<>>
           p4  == UnitEnd(s, p3)
           un  == UnitOf(SubSeq(s, p3, p4 - 1))
       IN IF Len(ip) + Len(fp) = 0 \/ un.m = 0 THEN [ok |-> FALSE, d |-> <<>>, exact |-> FALSE]
          ELSE LET full == MulSmall(ip \o fp, un.m) \o Zeros(un.z)     \* scaled by 10^Len(fp)
                   w    == Zeros(Len(fp)) \o full                       \* guard short products
                   cut  == Len(w) - Len(fp)
                   ex   == AllZero(SubSeq(w, cut + 1, Len(w)))
               IN DurSum(s, p4, AddNat(acc, StripZ(SubSeq(w, 1, cut))), exact /\ ex)

DurDenote(s) ==
  LET sgn  == s # <<>> /\ s[1] \in {43, 45}
      neg  == s # <<>> /\ s[1] = 45
      body == IF sgn THEN Tail(s) ELSE s
  IN IF body = <<>> THEN None
     ELSE IF body = <<48>> THEN IntD(Int0)
     ELSE LET r == DurSum(body, 1, <<>>, TRUE)
          IN IF ~r.ok THEN None ELSE IF ~r.exact THEN Free ELSE IntD(MkInt(neg, r.d))

(***************************************************************************)
(* Radix 16 / 32 text, value reported in binary digits (canonical).        *)
(***************************************************************************)
RadVal(c) == IF IsDig(c) THEN c - 48
             ELSE IF c >= 97 /\ c <= 122 THEN c - 87
             ELSE IF c >= 65 /\ c <= 90 THEN c - 55 ELSE 99
BitsOf(v, k) == [i \in 1..k |-> (v \div (2 ^ (k - i))) % 2]
RadDenote(s, k) ==              \* k = bits per digit (4 or 5)
  LET sgn  == s # <<>> /\ s[1] \in {43, 45}
      neg  == s # <<>> /\ s[1] = 45
      b0   == IF sgn THEN Tail(s) ELSE s
      pre  == k = 4 /\ Len(b0) >= 2 /\ b0[1] = 48 /\ b0[2] \in {88, 120}     \* 0x may be accepted
      body == IF pre THEN SubSeq(b0, 3, Len(b0)) ELSE b0
  IN IF body = <<>> \/ \E i \in 1..Len(body) : RadVal(body[i]) >= 2 ^ k THEN None
     ELSE IntD(MkInt(neg, [j \in 1..(k * Len(body)) |->
                             BitsOf(RadVal(body[(j - 1) \div k + 1]), k)[((j - 1) % k) + 1]]))

(***************************************************************************)
(* Base64, standard alphabet.  CR/LF may be skipped, correct '=' padding   *)
(* may be accepted, left-over bits are not constrained (all lenient        *)
(* readings a decoder may take); the bytes are fixed.                      *)
(***************************************************************************)
B64Val(c) == IF c >= 65 /\ c <= 90 THEN c - 65
             ELSE IF c >= 97 /\ c <= 122 THEN c - 71
             ELSE IF IsDig(c) THEN c + 4
             ELSE IF c = 43 THEN 62 ELSE IF c = 47 THEN 63 ELSE 99
B64Denote(s0) ==
  LET s   == SelectSeq(s0, LAMBDA c : c # 10 /\ c # 13)
      n0  == Len(s)
      pad == IF n0 >= 2 /\ s[n0] = 61 /\ s[n0 - 1] = 61 THEN 2
             ELSE IF n0 >= 1 /\ s[n0] = 61 THEN 1 ELSE 0
      b   == SubSeq(s, 1, n0 - pad)
      n   == Len(b)
  IN IF \E i \in 1..n : B64Val(b[i]) > 63 THEN None
     ELSE IF n % 4 = 1 THEN None
     ELSE IF pad > 0 /\ (n + pad) % 4 # 0 THEN None
     ELSE LET bit(j) == BitsOf(B64Val(b[(j - 1) \div 6 + 1]), 6)[((j - 1) % 6) + 1]
          IN [k |-> "bytes",
              v |-> [i \in 1..((6 * n) \div 8) |->
                       128 * bit(8*i - 7) + 64 * bit(8*i - 6) + 32 * bit(8*i - 5) + 16 * bit(8*i - 4)
                       + 8 * bit(8*i - 3) + 4 * bit(8*i - 2) + 2 * bit(8*i - 1) + bit(8*i)]]

(***************************************************************************)
(* Slash separated list of decimal numbers (JsByte text form).             *)
(***************************************************************************)
RECURSIVE SplitAt(_, _)
SplitAt(s, c) ==                \* split like strings.Split (n separators -> n+1 pieces)
  IF \A i \in 1..Len(s) : s[i] # c THEN <<s>>
  ELSE LET p == CHOOSE q \in 1..Len(s) : s[q] = c /\ \A j \in 1..(q - 1) : s[j] # c
       IN <<SubSeq(s, 1, p - 1)>> \o SplitAt(SubSeq(s, p + 1, Len(s)), c)

ListDenote(s) ==
  IF Trim(s) = <<>> THEN [k |-> "list", v |-> <<>>]
  ELSE LET parts == SplitAt(s, 47)
           ds    == [i \in 1..Len(parts) |-> NumDenote(Trim(parts[i]))]
       IN IF \E i \in 1..Len(ds) : ds[i].k # "int" THEN None
          ELSE [k |-> "list", v |-> [i \in 1..Len(ds) |-> ds[i].v]]
=============================================================================
