----------------------------- MODULE Scalars_MC -----------------------------
(* Bounded instance of Scalars: scaled-down ranges given as native integers, *)
(* value sets, and self-tests of the digit arithmetic against TLC integers.  *)
EXTENDS Scalars
CONSTANTS IMaxN, IMinN, UMaxN         \* signed -IMinN..IMaxN, unsigned 0..UMaxN

MCIMax    == NatDigits(IMaxN)
MCIMinMag == NatDigits(IMinN)
MCUMax    == NatDigits(UMaxN)

MCValsOf(t) ==
  CASE t \in {"i64", "stamp"} -> {FromInt(n) : n \in (0 - IMinN)..IMaxN}
    [] t = "u64"              -> {FromInt(n) : n \in 0..UMaxN}
    [] t = "bytes"            -> UNION {[1..n -> 0..BMaxN] : n \in 0..2}
    [] OTHER                  -> {}

S == 0..60
ASSUME \A a, b \in S : ToInt(AddNat(NatDigits(a), NatDigits(b))) = a + b
ASSUME \A a \in 0..300, k \in {0, 1, 6, 36, 60} : ToInt(MulSmall(NatDigits(a), k)) = a * k
ASSUME \A a \in S : ToInt(MulSmall(<<0, 0>> \o NatDigits(a), 36)) = a * 36
ASSUME \A a, b \in 0..120 : NatLeq(NatDigits(a), NatDigits(b)) <=> a <= b
ASSUME \A a \in (0 - 130)..130 : InRange(FromInt(a), NatDigits(128), NatDigits(127)) <=> (a >= 0 - 128 /\ a <= 127)
ASSUME \A a \in 0..63 : LET b == BitsOf(a, 6) IN
          32 * b[1] + 16 * b[2] + 8 * b[3] + 4 * b[4] + 2 * b[5] + b[6] = a
ASSUME StripZ(<<0, 0, 0>>) = <<>> /\ StripZ(<<0, 1, 0>>) = <<1, 0>>
=============================================================================
