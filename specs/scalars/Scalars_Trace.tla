---------------------------- MODULE Scalars_Trace ----------------------------
(* Validates ndjson traces recorded from the real tex wrappers against the   *)
(* contract of Scalars (DecOK / RtOK with the full 64-bit denotations).      *)
(* Events:                                                                   *)
(*   reset {ty, cur}               a fresh wrapper variable of type ty       *)
(*                                 holding cur (also separates traces)       *)
(*   dec   {via, tok, out, v}      tok decoded into the variable: out is     *)
(*                                 "ok" / "err" / "panic: ...", v the value  *)
(*                                 the variable holds afterwards             *)
(*                                 inmut: the decoder changed the bytes it   *)
(*                                 was given (never allowed); keep: the      *)
(*                                 harness holds on to the value as returned *)
(*   rt    {via, v, enc, out, back, keep} v encoded (enc, informational) and *)
(*                                 decoded again into the variable           *)
(*   scan  {kind, tok, out, v, inmut} sql Scan of a source of that kind      *)
(*   hang  / crash                 never explained                           *)
(*   fresh {cur}                   a new destination variable of the type    *)
(*   final {vals}                  everything kept (decoded values, encoder  *)
(*                                 outputs), exactly as returned, rendered   *)
(*                                 now: it must still be what was reported   *)
(*                                 (no result is a view of a buffer that     *)
(*                                 the caller or a later call writes to)     *)
(* Values: integers [neg, d] (d = canonical decimal digits; binary digits    *)
(* for the hex types), byte lists as lists of small integers.                *)
EXTENDS Scalars, Json, IOUtils

TraceLog == ndJsonDeserialize(IOEnv.VERIF_TRACE)

VARIABLES l,
          held      \* what the kept results were reported to be, in order
tvars == <<allvars, l, held>>

TraceInit ==
  /\ l = 1 /\ ty = "none" /\ cur = Int0 /\ held = <<>>
  /\ last = [op |-> "init"]

TReset(e) ==
  /\ ty' = e.ty /\ cur' = e.cur /\ held' = <<>> /\ last' = [op |-> "reset"]

TFresh(e) ==
  /\ cur' = e.cur /\ ty' = ty /\ last' = [op |-> "fresh"] /\ UNCHANGED held

TDec(e) ==
  /\ e.inmut = FALSE                      \* a decoder does not write into its argument
  /\ DecOK(ty, e.tok, cur, e.out, e.v)
  /\ cur' = e.v /\ ty' = ty /\ last' = [op |-> "dec"]
  /\ held' = IF e.keep THEN Append(held, e.v) ELSE held

TScan(e) ==
  /\ e.inmut = FALSE
  /\ ScanOK(ty, e.kind, e.tok, cur, e.out, e.v)
  /\ cur' = e.v /\ ty' = ty /\ last' = [op |-> "scan"] /\ UNCHANGED held

TRt(e) ==
  /\ RtOK(e.out, e.v, e.back)
  /\ cur' = e.back /\ ty' = ty /\ last' = [op |-> "rt"]
  /\ held' = IF e.keep THEN held \o <<e.enc, e.back>> ELSE held

TFinal(e) ==
  /\ Len(e.vals) = Len(held)
  /\ \A i \in 1..Len(held) : e.vals[i] = held[i]
  /\ UNCHANGED <<ty, cur, held>> /\ last' = [op |-> "final"]

Consume ==
  /\ l <= Len(TraceLog) /\ l' = l + 1
  /\ LET e == TraceLog[l] IN
       CASE e.ev = "reset" -> TReset(e)
         [] e.ev = "dec"   -> TDec(e)
         [] e.ev = "rt"    -> TRt(e)
         [] e.ev = "scan"  -> TScan(e)
         [] e.ev = "fresh" -> TFresh(e)
         [] e.ev = "final" -> TFinal(e)
         [] OTHER -> FALSE

TraceNext == Consume
TraceSpec == TraceInit /\ [][TraceNext]_tvars

(* high-water mark of l in TLC register 1 (needs -workers 1) *)
ASSUME TLCSet(1, 0)
Mark == TLCSet(1, IF l > TLCGet(1) THEN l ELSE TLCGet(1))
Accepted == PrintT(<<"MARK", TLCGet(1), Len(TraceLog)>>) /\ TLCGet(1) = Len(TraceLog) + 1

NoVals(t) == {}
TView == <<ty, cur, l, held>>
=============================================================================
