---------------------------- MODULE Scalars_Trace ----------------------------
(* Validates ndjson traces recorded from the real tex wrappers against the   *)
(* contract of Scalars (DecOK / RtOK with the full 64-bit denotations).      *)
(* Events:                                                                   *)
(*   reset {ty, cur}               a fresh wrapper variable of type ty       *)
(*                                 holding cur (also separates traces)       *)
(*   dec   {via, tok, out, v}      tok decoded into the variable: out is     *)
(*                                 "ok" / "err" / "panic: ...", v the value  *)
(*                                 the variable holds afterwards             *)
(*   rt    {via, v, enc, out, back} v encoded (enc, informational) and       *)
(*                                 decoded again into the variable           *)
(* Values: integers [neg, d] (d = canonical decimal digits; binary digits    *)
(* for the hex types), byte lists as lists of small integers.                *)
EXTENDS Scalars, Json, IOUtils

TraceLog == ndJsonDeserialize(IOEnv.VERIF_TRACE)

VARIABLES l
tvars == <<allvars, l>>

TraceInit ==
  /\ l = 1 /\ ty = "none" /\ cur = Int0
  /\ last = [op |-> "init"]

TReset(e) ==
  /\ ty' = e.ty /\ cur' = e.cur /\ last' = [op |-> "reset"]

TDec(e) ==
  /\ DecOK(ty, e.tok, cur, e.out, e.v)
  /\ cur' = e.v /\ ty' = ty /\ last' = [op |-> "dec"]

TRt(e) ==
  /\ RtOK(e.out, e.v, e.back)
  /\ cur' = e.back /\ ty' = ty /\ last' = [op |-> "rt"]

Consume ==
  /\ l <= Len(TraceLog) /\ l' = l + 1
  /\ LET e == TraceLog[l] IN
       CASE e.ev = "reset" -> TReset(e)
         [] e.ev = "dec"   -> TDec(e)
         [] e.ev = "rt"    -> TRt(e)
         [] OTHER -> FALSE

TraceNext == Consume
TraceSpec == TraceInit /\ [][TraceNext]_tvars

(* high-water mark of l in TLC register 1 (needs -workers 1) *)
ASSUME TLCSet(1, 0)
Mark == TLCSet(1, IF l > TLCGet(1) THEN l ELSE TLCGet(1))
Accepted == PrintT(<<"MARK", TLCGet(1), Len(TraceLog)>>) /\ TLCGet(1) = Len(TraceLog) + 1

NoVals(t) == {}
TView == <<ty, cur, l>>
=============================================================================
