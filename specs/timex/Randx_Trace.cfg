SPECIFICATION TraceSpec
CONSTANTS
  WrapSpan = FALSE
  Variant = "fy"
  Ns = {}
CONSTRAINT Mark
POSTCONDITION Accepted
CHECK_DEADLOCK FALSE
