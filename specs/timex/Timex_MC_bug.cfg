SPECIFICATION Spec
CONSTANTS
  DrainOnStop = FALSE
  Timed = TRUE
  Durs = {0, 1, 2}
  MaxNow = 4
  MaxGen = 3
INVARIANTS NoStale
VIEW View
CHECK_DEADLOCK FALSE
