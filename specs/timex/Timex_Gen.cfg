SPECIFICATION Spec
CONSTANTS
  DrainOnStop = TRUE
  Timed = TRUE
  Durs = {0, 1, 2, 3}
  MaxNow = 12
  MaxGen = 6
  Depth = 14
INVARIANTS Emit
CHECK_DEADLOCK FALSE
