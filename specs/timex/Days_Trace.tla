----------------------------- MODULE Days_Trace -----------------------------
(* Validates the replies of timex's day functions, LocalDiff and LocalTime recorded from the   *)
(* real code.  Events:                                                                        *)
(*   reset   {zone}                      one location (also separates traces)                 *)
(*   day     {a, r}                      DayBegin / DayDeltaBegin / DayDelta / DayDeltaBegins *)
(*   today   {a, r}                      the Today* forms; a.c1 / a.c2 = civil date of the    *)
(*                                       clock read just before / just after the call         *)
(*   local   {off, diff}                 LocalDiff() in a process whose zone has offset off   *)
(*   clitime {a, r}                      LocalTime of a command-line wall clock               *)
(* Civil fields of arguments and results are read with time.Time's accessors (trusted).       *)
EXTENDS Days, Json, IOUtils

TraceLog == ndJsonDeserialize(IOEnv.VERIF_TRACE)

VARIABLES l
tvars == <<dvars, l>>

TraceInit == l = 1 /\ z = 0 /\ c = <<1970, 1, 1>> /\ k = 0

TodayOK(a, r) ==
  \E cc \in {a.c1, a.c2} :
     ReplyOK([op |-> a.kind, y |-> cc.y, m |-> cc.m, d |-> cc.d, hh |-> 0, mm |-> 0, ss |-> 0, ns |-> 0,
              n |-> a.n, deltas |-> a.deltas, loc |-> a.loc, fixed |-> a.fixed, off |-> a.off], r)

Consume ==
  /\ l <= Len(TraceLog) /\ l' = l + 1 /\ UNCHANGED dvars
  /\ LET e == TraceLog[l] IN
       CASE e.ev = "reset"   -> TRUE
         [] e.ev = "day"     -> ReplyOK(e.a, e.r) = TRUE
         [] e.ev = "today"   -> TodayOK(e.a, e.r) = TRUE
         [] e.ev = "local"   -> e.diff = e.off
         [] e.ev = "clitime" -> CliOK(e.a, e.r) = TRUE
         [] OTHER -> FALSE

TraceSpec == TraceInit /\ [][Consume]_tvars

ASSUME TLCSet(1, 0)
Mark == TLCSet(1, IF l > TLCGet(1) THEN l ELSE TLCGet(1))
Accepted == PrintT(<<"MARK", TLCGet(1), Len(TraceLog)>>) /\ TLCGet(1) = Len(TraceLog) + 1
=============================================================================
