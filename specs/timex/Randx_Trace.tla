---------------------------- MODULE Randx_Trace ----------------------------
(* Validates results recorded from the real randx functions.  Events:                          *)
(*   reset   {kind, n}        new trace (n = length of the census, else 0)                     *)
(*   between {a, r}           one call of a Rand*Between* function (64-bit values as 4 limbs   *)
(*                            of value + 2^63); r.kind "panic" = the call panicked             *)
(*   hits    {a, seen}        offsets from min seen in many calls on a small range             *)
(*   bits    {fn, or, and}    OR / AND over many results of a typed generator                  *)
(*   shuffle {n, in, asks, swaps, out, r, census}                                              *)
(*                            one Shuffle of a recording Swapper; asks = (lo, hi, answer) of   *)
(*                            the scripted random function (empty with the package's own)      *)
(*   census  {}               the scripted answers of this trace enumerated every branch:      *)
(*                            every arrangement must have received the same mass               *)
(* Freedoms: which value of the range; how and in which order Shuffle swaps and asks.          *)
EXTENDS Randx, Json, IOUtils

TraceLog == ndJsonDeserialize(IOEnv.VERIF_TRACE)

VARIABLES l
tvars == <<rvars, l>>

TraceInit == l = 1 /\ InitAll

CD(n) == Fact(n) * Fact(n)

TShuffle(e) ==
  IF ~ShuffleOK(e) THEN FALSE
  ELSE IF ~e.census THEN UNCHANGED <<mass, total, nn>>
  ELSE LET sp == SpanProd(e.asks)
           w  == CD(nn) \div sp
       IN /\ e.n = nn /\ e.in = Ident(nn) /\ CD(nn) % sp = 0
          /\ mass' = [p \in DOMAIN mass \cup {e.out} |->
                        (IF p \in DOMAIN mass THEN mass[p] ELSE 0) + (IF p = e.out THEN w ELSE 0)]
          /\ total' = total + w /\ nn' = nn

Consume ==
  /\ l <= Len(TraceLog) /\ l' = l + 1 /\ UNCHANGED <<call, dist, idx>>
  /\ LET e == TraceLog[l] IN
       CASE e.ev = "reset"   -> mass' = <<>> /\ total' = 0 /\ nn' = e.n
         [] e.ev = "between" -> BetweenOK(e.a, e.r) = TRUE /\ UNCHANGED <<mass, total, nn>>
         [] e.ev = "hits"    -> HitsOK(e.a, e.seen) = TRUE /\ UNCHANGED <<mass, total, nn>>
         [] e.ev = "bits"    -> BitsOK(e) = TRUE /\ UNCHANGED <<mass, total, nn>>
         [] e.ev = "shuffle" -> TShuffle(e)
         [] e.ev = "census"  -> /\ (Uniform(mass, nn, CD(nn)) /\ total = CD(nn)) = TRUE
                                /\ UNCHANGED <<mass, total, nn>>
         [] OTHER -> FALSE

TraceSpec == TraceInit /\ [][Consume]_tvars

ASSUME TLCSet(1, 0)
Mark == TLCSet(1, IF l > TLCGet(1) THEN l ELSE TLCGet(1))
Accepted == PrintT(<<"MARK", TLCGet(1), Len(TraceLog)>>) /\ TLCGet(1) = Len(TraceLog) + 1
=============================================================================
