---------------------------- MODULE Timex_Trace ----------------------------
(* Validates ndjson traces recorded from the real timex.Timer against Timex.                  *)
(* Events (times in microseconds of the monotonic clock since the trace began):               *)
(*   reset {t, d, slack}   NewTimer(d) called at t                                            *)
(*   call  {a, r}          one call of the controller / one observation of the receiver;      *)
(*                         r = {got, at}: whether a tick was obtained and its time value      *)
(*   len   {n}             len(t.C) read by the controller between two calls                  *)
(*   end   {t, rp}         quiescent end; rp = the receiver is still parked in <-t.C          *)
(*   hang / crash          a call that never returned / the process died: nothing explains it *)
(* The runtime's Fire is an internal step TLC places wherever the observations need it.       *)
(* Freedoms: when (and whether, before `slack` has passed) the runtime fires; nothing is      *)
(* demanded of the tick's time value except at >= (clock before the arming call) + d.         *)
EXTENDS Timex, Json, IOUtils

TraceLog == ndJsonDeserialize(IOEnv.VERIF_TRACE)

VARIABLES l
tvars == <<allvars, l>>

TraceInit == l = 1 /\ InitWith(0, 0, 0)

(* an armed timer whose deadline passed more than `slack` ago has delivered (the only timing  *)
(* assumption; the harness waits that long only when the tick fails to arrive)                *)
Punctual(ar, nw, du, sl) == ~(ar /\ nw >= du + sl)

TReset(e) ==
  /\ now' = e.t /\ armed' = TRUE /\ due' = e.t + e.d /\ gen' = 1 /\ ch' = <<>> /\ rcv' = Idle
  /\ slack' = e.slack /\ last' = [op |-> "new", t |-> e.t, d |-> e.d]

TCall(e) ==
  /\ Step(e.a)
  /\ e.r.got = Reply(e.a).got
  /\ (e.r.got => e.r.at >= Reply(e.a).due)
  /\ Punctual(armed', now', due', slack')

TLen(e) == Len(ch) = e.n /\ UNCHANGED allvars

TEnd(e) ==
  /\ e.t >= now /\ now' = e.t
  /\ rcv.st = (IF e.rp THEN "parked" ELSE "idle")
  /\ Punctual(armed, e.t, due, slack)
  /\ UNCHANGED <<armed, due, gen, ch, rcv, slack, last>>

Consume ==
  /\ l <= Len(TraceLog) /\ l' = l + 1
  /\ LET e == TraceLog[l] IN
       CASE e.ev = "reset" -> TReset(e)
         [] e.ev = "call"  -> TCall(e)
         [] e.ev = "len"   -> TLen(e)
         [] e.ev = "end"   -> TEnd(e)
         [] OTHER -> FALSE

TraceNext == Consume \/ (Fire /\ UNCHANGED l)
TraceSpec == TraceInit /\ [][TraceNext]_tvars

ASSUME TLCSet(1, 0)
Mark == TLCSet(1, IF l > TLCGet(1) THEN l ELSE TLCGet(1))
Accepted == PrintT(<<"MARK", TLCGet(1), Len(TraceLog)>>) /\ TLCGet(1) = Len(TraceLog) + 1

TView == <<vars, l>>
=============================================================================
