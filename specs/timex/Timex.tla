------------------------------- MODULE Timex -------------------------------
(***************************************************************************)
(* timex.Timer: the Stop/Reset contract of the wrapper around time.Timer   *)
(* (legacy channel of capacity 1 that the runtime fills asynchronously).   *)
(*                                                                         *)
(*   X03-T  After Stop returns, the channel is empty and stays empty until *)
(*          the next Reset.  After Reset(d) returns, exactly one tick will *)
(*          be delivered, it belongs to THIS arming (its time value is not *)
(*          earlier than the moment Reset was called plus d), and no tick  *)
(*          of an earlier arming can be received any more.  Neither call   *)
(*          ever blocks, whoever consumed the earlier tick.                *)
(*                                                                         *)
(* Processes: one controller (new/stop/reset/poll), one receiver goroutine *)
(* that may be parked in `<-t.C` while the controller acts, and the Go     *)
(* runtime, which fires an armed timer on its own (internal action Fire).  *)
(* An action is a record `a` (the JSON object the harness logs); a.t is a  *)
(* reading of the monotonic clock taken BEFORE the call.                   *)
(*                                                                         *)
(* Deviation constant DrainOnStop: FALSE is the bare time.Timer discipline *)
(* (Stop/Reset leave an already delivered tick in the channel).            *)
(* Timed: TRUE = the model clock is authoritative (Fire needs now >= due). *)
(* In trace validation the logged clock lags the real one, so Timed=FALSE  *)
(* and earliness is judged on the tick's own time value (>= tick.due).     *)
(***************************************************************************)
EXTENDS Integers, Sequences, FiniteSets, TLC

CONSTANTS DrainOnStop, Timed,
          Durs, MaxNow, MaxGen      \* bounds of the exhaustive run only

VARIABLES
  now,     \* latest clock reading
  armed,   \* the runtime timer is pending
  due,     \* earliest legal time value of the tick of the current arming
  gen,     \* number of armings so far
  ch,      \* the channel t.C: at most one tick [gen, due]
  rcv,     \* receiver goroutine: idle / parked in <-t.C / got a tick (not yet observed)
  slack,   \* configuration: an armed timer delivers within `slack` of its deadline
  last     \* latest action record (output only)

vars == <<now, armed, due, gen, ch, rcv, slack>>
allvars == <<vars, last>>

Tick(g, d) == [gen |-> g, due |-> d]
None       == [got |-> FALSE, gen |-> 0, due |-> 0]
Got(k)     == [got |-> TRUE, gen |-> k.gen, due |-> k.due]
Idle       == [st |-> "idle", gen |-> 0, due |-> 0]
Parked     == [st |-> "parked", gen |-> 0, due |-> 0]
Holding(k) == [st |-> "got", gen |-> k.gen, due |-> k.due]

InitWith(t, d, sl) ==
  /\ now = t /\ armed = TRUE /\ due = t + d /\ gen = 1 /\ ch = <<>> /\ rcv = Idle
  /\ slack = sl /\ last = [op |-> "new", t |-> t, d |-> d]

(* what (Timer).Stop leaves in the channel: time.Timer.Stop reports FALSE when the timer is  *)
(* not pending any more (fired or stopped) and the wrapper then drains without blocking      *)
AfterStop == IF ~armed /\ DrainOnStop THEN <<>> ELSE ch

Do(a) ==
  /\ a.t >= now /\ now' = a.t /\ slack' = slack
  /\ CASE a.op = "stop"  -> /\ armed' = FALSE /\ ch' = AfterStop
                            /\ UNCHANGED <<due, gen, rcv>>
       [] a.op = "reset" -> /\ armed' = TRUE /\ ch' = AfterStop
                            /\ due' = a.t + a.d /\ gen' = gen + 1
                            /\ UNCHANGED rcv
       [] a.op = "poll"  -> /\ ch' = <<>>                 \* non-blocking receive by the controller
                            /\ UNCHANGED <<armed, due, gen, rcv>>
       [] a.op = "recv"  -> /\ rcv = Idle                 \* the receiver enters <-t.C
                            /\ IF ch # <<>> THEN rcv' = Holding(ch[1]) /\ ch' = <<>>
                                            ELSE rcv' = Parked /\ ch' = ch
                            /\ UNCHANGED <<armed, due, gen>>
       [] a.op = "take"  -> /\ rcv.st = "got"             \* the receiver's return is observed
                            /\ rcv' = Idle
                            /\ UNCHANGED <<armed, due, gen, ch>>
       [] a.op = "adv"   -> UNCHANGED <<armed, due, gen, ch, rcv>>
       [] OTHER -> FALSE

Reply(a) ==
  CASE a.op = "poll" -> IF ch = <<>> THEN None ELSE Got(ch[1])
    [] a.op = "take" -> IF rcv.st = "got" THEN Got(rcv) ELSE None
    [] OTHER -> None

Step(a) == Do(a) /\ last' = a

(* the runtime delivers the tick of the current arming: to a parked receiver directly, else  *)
(* into the channel; a full channel drops it (sendTime is a non-blocking send)               *)
Fire ==
  /\ armed /\ (Timed => now >= due)
  /\ armed' = FALSE
  /\ IF rcv.st = "parked" THEN rcv' = Holding(Tick(gen, due)) /\ ch' = ch
     ELSE /\ rcv' = rcv
          /\ ch' = IF ch = <<>> THEN <<Tick(gen, due)>> ELSE ch
  /\ UNCHANGED <<now, due, gen, slack>>
  /\ last' = [op |-> "fire", t |-> now]

----------------------------------------------------------------------------
(* exhaustive run *)
Acts ==
  {[op |-> o, t |-> now] : o \in {"stop", "poll", "recv", "take"}}
  \cup {[op |-> "reset", t |-> now, d |-> d] : d \in Durs}
  \cup {[op |-> "adv", t |-> t] : t \in (now + 1)..MaxNow}

Init == \E d \in Durs : InitWith(0, d, 0)
Next == Fire \/ \E a \in Acts : (a.op = "reset" => gen < MaxGen) /\ Step(a)
Spec == Init /\ [][Next]_allvars

TypeOK ==
  /\ now \in 0..MaxNow /\ armed \in BOOLEAN /\ gen \in 1..MaxGen /\ Len(ch) <= 1
  /\ rcv.st \in {"idle", "parked", "got"}
ArmedEmpty   == armed => ch = <<>>                          \* a pending timer has an empty channel
NoStale      == \A i \in 1..Len(ch) : ch[i].gen = gen       \* only the latest arming's tick is receivable
NoEarly      == Timed => /\ \A i \in 1..Len(ch) : now >= ch[i].due
                         /\ rcv.st = "got" => now >= rcv.due
ParkedEmpty  == rcv.st = "parked" => ch = <<>>

StopFinal  == [][last'.op = "stop" => ~armed' /\ ch' = <<>>]_allvars
ResetFresh == [][last'.op = "reset" => armed' /\ ch' = <<>> /\ due' = now' + last'.d]_allvars
(* a tick appears (in the channel or in the receiver's hands out of thin air) only by one Fire *)
OnePerArming ==
  [][(ch' # <<>> /\ ch' # ch) \/ (rcv.st = "parked" /\ rcv'.st = "got") => armed /\ ~armed']_allvars
(* without Fire/Reset nothing re-arms *)
StaysStopped == [][~armed /\ armed' => last'.op = "reset"]_allvars

View == vars
=============================================================================
