SPECIFICATION Spec
CONSTANTS
  Julian = FALSE
  Y0 = 0
  Y1 = 2810
  ChainLen = 370
  Deltas <- DeltasBig
INVARIANTS Agree DeltaOK MidnightOK
CHECK_DEADLOCK FALSE
