SPECIFICATION SpecRange
CONSTANTS
  WrapSpan = TRUE
  Variant = "fy"
  Ns = {1, 2, 3, 4}
INVARIANTS RangeContract
CHECK_DEADLOCK FALSE
