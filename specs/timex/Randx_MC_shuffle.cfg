SPECIFICATION SpecShuffle
CONSTANTS
  WrapSpan = FALSE
  Variant = "fy"
  Ns = {1, 2, 3, 4, 5}
INVARIANTS Conserved UniformAtEnd
CHECK_DEADLOCK FALSE
