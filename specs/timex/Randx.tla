------------------------------- MODULE Randx -------------------------------
(***************************************************************************)
(* randx: ranges of the generators and Shuffle.                            *)
(*                                                                         *)
(*   X03-R  For every min <= max each of RandBetween / SimpleRandBetween / *)
(*          RandBetweenSecure returns a value of [min, max] (every value   *)
(*          of a small range does occur); for min > max it panics.  The    *)
(*          typed generators use their whole width.                        *)
(*   X03-S  Shuffle touches its argument only through in-range Swap calls  *)
(*          and asks its random function only for non-empty ranges, so the *)
(*          result is a permutation of the input for every length; under a *)
(*          uniform random function every permutation is equally likely.   *)
(*                                                                         *)
(* Integers wider than TLC's are sequences of limbs, most significant      *)
(* first, of the value plus 2^(width-1) (so signed order = lexicographic   *)
(* order).  The exhaustive run uses 4-bit integers as 2 limbs of 2 bits.   *)
(* Deviation constants: WrapSpan (span max-min+1 computed in wrapping      *)
(* machine arithmetic and handed to Intn - what the code does today),      *)
(* Variant "sattolo" / "naive" (classic mis-shuffles).                     *)
(***************************************************************************)
EXTENDS Integers, Sequences, FiniteSets, TLC

CONSTANTS WrapSpan, Variant, Ns

(* ---- limbs ---- *)
RECURSIVE LtL(_, _)
LtL(x, y) == IF x = <<>> THEN FALSE
             ELSE IF x[1] # y[1] THEN x[1] < y[1] ELSE LtL(Tail(x), Tail(y))
LeL(x, y) == x = y \/ LtL(x, y)
(* x + k for a small k >= 0, limbs of base b; <<>> if it does not fit *)
RECURSIVE AddL(_, _, _)
AddL(x, k, b) ==
  IF x = <<>> THEN (IF k = 0 THEN <<>> ELSE <<-1>>)
  ELSE LET s == x[Len(x)] + k
           hi == AddL(SubSeq(x, 1, Len(x) - 1), s \div b, b)
       IN IF hi # <<>> /\ hi[1] = -1 THEN <<-1>> ELSE Append(hi, s % b)

(* ---- X03-R ---- *)
(* a = [fn, min, max], r = [kind, v] *)
BetweenOK(a, r) ==
  IF LeL(a.min, a.max) THEN r.kind = "val" /\ LeL(a.min, r.v) /\ LeL(r.v, a.max)
                       ELSE r.kind = "panic"
(* every value of a small range was seen: a.span = max - min, seen = offsets from min *)
HitsOK(a, seen) ==
  /\ AddL(a.min, a.span, 65536) = a.max
  /\ {seen[i] : i \in 1..Len(seen)} = 0..a.span
(* OR / AND of many results of a typed generator, bit by bit *)
Width(fn) == IF fn \in {"int32", "uint32", "int32s", "uint32s"} THEN 32 ELSE 64
BitsOK(e) == /\ Len(e.or) = Width(e.fn) /\ Len(e.and) = Width(e.fn)
             /\ \A i \in 1..Len(e.or) : e.or[i] = 1 /\ e.and[i] = 0

(* ---- X03-S ---- *)
SwapAt(s, i, j) == [s EXCEPT ![i] = s[j], ![j] = s[i]]              \* 1-based
RECURSIVE ApplySwaps(_, _)
ApplySwaps(s, sw) == IF sw = <<>> THEN s
                     ELSE ApplySwaps(SwapAt(s, sw[1][1] + 1, sw[1][2] + 1), Tail(sw))
Count(s, v) == Cardinality({i \in 1..Len(s) : s[i] = v})
IsPerm(s, t) == Len(s) = Len(t) /\ \A i \in 1..Len(s) : Count(s, s[i]) = Count(t, s[i])
(* e = [n, in, asks, swaps, out, r] *)
ShuffleOK(e) ==
  /\ e.r = "ok" /\ Len(e.in) = e.n
  /\ \A i \in 1..Len(e.swaps) : e.swaps[i][1] \in 0..(e.n - 1) /\ e.swaps[i][2] \in 0..(e.n - 1)
  /\ \A i \in 1..Len(e.asks) : e.asks[i][1] <= e.asks[i][3] /\ e.asks[i][3] <= e.asks[i][2]
  /\ e.out = ApplySwaps(e.in, e.swaps)
  /\ IsPerm(e.in, e.out)

Fact(n) == LET RECURSIVE F(_) F(k) == IF k <= 1 THEN 1 ELSE k * F(k - 1) IN F(n)
Pow(b, n) == LET RECURSIVE P(_) P(k) == IF k = 0 THEN 1 ELSE b * P(k - 1) IN P(n)
Perms(n) == {p \in [1..n -> 1..n] : \A i, j \in 1..n : i # j => p[i] # p[j]}
Ident(n) == [i \in 1..n |-> i]
(* probability mass in units of 1/D: every arrangement of 1..n carries the same *)
Uniform(massf, n, D) == /\ DOMAIN massf = Perms(n)
                        /\ \A p \in Perms(n) : massf[p] * Fact(n) = D
SpanProd(asks) == LET RECURSIVE S(_) S(i) == IF i = 0 THEN 1 ELSE (asks[i][2] - asks[i][1] + 1) * S(i - 1)
                  IN S(Len(asks))

----------------------------------------------------------------------------
VARIABLES
  call,            \* range machine: the latest call [a, r]
  nn, dist, idx,   \* shuffle design: length, mass of every arrangement, next position (0-based)
  mass, total      \* census of recorded shuffles: arrangement -> mass, mass so far
rvars == <<call, nn, dist, idx, mass, total>>

(* -- exhaustive run 1: 4-bit machine integers -- *)
H == 8
Wrap(x) == ((x + H) % (2 * H)) - H
Limbs2(x) == <<(x + H) \div 4, (x + H) % 4>>
Val(x) == [kind |-> "val", v |-> Limbs2(x)]
Panic == [kind |-> "panic", v |-> <<0, 0>>]
Algo(mn, mx) ==
  IF mn > mx THEN {Panic}
  ELSE IF mn = mx THEN {Val(mn)}
  ELSE LET span == IF WrapSpan THEN Wrap(mx - mn + 1) ELSE mx - mn + 1
       IN IF span <= 0 THEN {Panic}                         \* rand.Intn panics
          ELSE {Val(Wrap(mn + k)) : k \in 0..(span - 1)}
NoCall == [a |-> [fn |-> 0, min |-> <<0, 0>>, max |-> <<0, 0>>], r |-> Val(-H)]

InitAll == /\ call = NoCall /\ nn = 0 /\ dist = <<>> /\ idx = 0 /\ mass = <<>> /\ total = 0
RangeNext == \E mn, mx \in (-H)..(H - 1) : \E r \in Algo(mn, mx) :
               /\ call' = [a |-> [fn |-> 1, min |-> Limbs2(mn), max |-> Limbs2(mx)], r |-> r]
               /\ UNCHANGED <<nn, dist, idx, mass, total>>
SpecRange == InitAll /\ [][RangeNext]_rvars
RangeContract == BetweenOK(call.a, call.r)

(* -- exhaustive run 2: the distribution of the arrangement, position by position -- *)
DD(n) == Fact(n) * Pow(n, n)
Choices(n, i) == CASE Variant = "fy"      -> 0..i
                   [] Variant = "sattolo" -> 0..(i - 1)
                   [] Variant = "naive"   -> 0..(n - 1)
Last(n) == IF Variant = "sattolo" THEN 1 ELSE 0            \* the loop's last position
InitShuffle == /\ call = NoCall /\ mass = <<>> /\ total = 0
               /\ nn \in Ns /\ idx = nn - 1
               /\ dist = [p \in Perms(nn) |-> IF p = Ident(nn) THEN DD(nn) ELSE 0]
RECURSIVE SumOver(_, _)
SumOver(S, f) == IF S = {} THEN 0 ELSE LET x == CHOOSE x \in S : TRUE IN f[x] + SumOver(S \ {x}, f)
ShuffleNext ==
  /\ idx >= Last(nn) /\ idx' = idx - 1
  /\ LET J == Choices(nn, idx) IN
       dist' = [p \in Perms(nn) |->
                  SumOver(J, [j \in J |-> dist[SwapAt(p, idx + 1, j + 1)]]) \div Cardinality(J)]
  /\ UNCHANGED <<call, nn, mass, total>>
SpecShuffle == InitShuffle /\ [][ShuffleNext]_rvars
Conserved == SumOver(Perms(nn), dist) = DD(nn)
UniformAtEnd == idx < Last(nn) => Uniform(dist, nn, DD(nn))
=============================================================================
