SPECIFICATION TraceSpec
CONSTANTS
  DrainOnStop = TRUE
  Timed = FALSE
  Durs = {}
  MaxNow = 0
  MaxGen = 0
INVARIANTS ArmedEmpty NoStale ParkedEmpty
CONSTRAINT Mark
POSTCONDITION Accepted
VIEW TView
CHECK_DEADLOCK FALSE
