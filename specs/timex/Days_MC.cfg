SPECIFICATION Spec
CONSTANTS
  Julian = FALSE
  Y0 = 1895
  Y1 = 2105
  ChainLen = 370
  Deltas <- DeltasSmall
INVARIANTS Agree DeltaOK MidnightOK
CHECK_DEADLOCK FALSE
