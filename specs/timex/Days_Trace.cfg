SPECIFICATION TraceSpec
CONSTANTS
  Julian = FALSE
  Y0 = 0
  Y1 = 0
  ChainLen = 0
  Deltas = {}
CONSTRAINT Mark
POSTCONDITION Accepted
CHECK_DEADLOCK FALSE
