SPECIFICATION Spec
CONSTANTS
  DrainOnStop = TRUE
  Timed = TRUE
  Durs = {0, 1, 2, 3}
  MaxNow = 7
  MaxGen = 5
INVARIANTS TypeOK ArmedEmpty NoStale NoEarly ParkedEmpty
PROPERTIES StopFinal ResetFresh OnePerArming StaysStopped
VIEW View
CHECK_DEADLOCK FALSE
