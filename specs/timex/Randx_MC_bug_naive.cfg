SPECIFICATION SpecShuffle
CONSTANTS
  WrapSpan = FALSE
  Variant = "naive"
  Ns = {1, 2, 3, 4}
INVARIANTS UniformAtEnd
CHECK_DEADLOCK FALSE
