-------------------------------- MODULE Days --------------------------------
(***************************************************************************)
(* timex day arithmetic (day.go), LocalDiff (local.go), LocalTime (cli.go) *)
(*                                                                         *)
(*   X03-D  For every instant `at` (in any location whose midnights exist) *)
(*          and every n, DayDeltaBegin(at, n) is 00:00:00.000000000 of the *)
(*          civil day n days after at's civil day, in at's location;       *)
(*          DayBegin = DayDeltaBegin(.,0); DayDeltaBegins maps it over the *)
(*          list; DayDelta keeps the wall clock and moves the date; the    *)
(*          Today* forms do the same for the current instant.  In a zone   *)
(*          with a fixed offset the result is the unique such instant.     *)
(*   X03-L  LocalDiff() is the system zone's offset, and LocalTime reads a *)
(*          command-line wall clock as wall clock of the system zone.      *)
(*                                                                         *)
(* The civil calendar is specified twice: by table (leap rule, month       *)
(* lengths, successor day) - the contract - and by the closed day-number   *)
(* formulas the expected replies are computed with; TLC checks that they   *)
(* agree on every day of the exhaustive range (Agree, DeltaOK).            *)
(* Dates are triples <<y, m, d>>; instants are (epoch day, second of day). *)
(***************************************************************************)
EXTENDS Integers, Sequences, TLC

CONSTANTS Julian,               \* deviation for the non-vacuity witness: leap year = every 4th year
          Y0, Y1, ChainLen, Deltas   \* bounds of the exhaustive run only

(* ---- the calendar by table ---- *)
IsLeap(y)  == IF Julian THEN y % 4 = 0 ELSE (y % 4 = 0 /\ y % 100 # 0) \/ y % 400 = 0
DaysIn(y, m) == IF m = 2 THEN (IF IsLeap(y) THEN 29 ELSE 28)
                ELSE IF m \in {4, 6, 9, 11} THEN 30 ELSE 31
Succ(c) == IF c[3] < DaysIn(c[1], c[2]) THEN <<c[1], c[2], c[3] + 1>>
           ELSE IF c[2] < 12 THEN <<c[1], c[2] + 1, 1>> ELSE <<c[1] + 1, 1, 1>>

(* ---- the calendar by formula (days since 1970-01-01; d may be any integer) ---- *)
DaysFromCivil(c) ==
  LET y   == IF c[2] <= 2 THEN c[1] - 1 ELSE c[1]
      era == y \div 400
      yoe == y - era * 400
      mp  == IF c[2] > 2 THEN c[2] - 3 ELSE c[2] + 9
      doy == (153 * mp + 2) \div 5 + c[3] - 1
      doe == yoe * 365 + yoe \div 4 - yoe \div 100 + doy
  IN era * 146097 + doe - 719468

CivilFromDays(z0) ==
  LET z   == z0 + 719468
      era == z \div 146097
      doe == z - era * 146097
      yoe == (doe - doe \div 1460 + doe \div 36524 - doe \div 146096) \div 365
      doy == doe - (365 * yoe + yoe \div 4 - yoe \div 100)
      mp  == (5 * doy + 2) \div 153
      d   == doy - (153 * mp + 2) \div 5 + 1
      m   == IF mp < 10 THEN mp + 3 ELSE mp - 9
  IN <<yoe + era * 400 + (IF m <= 2 THEN 1 ELSE 0), m, d>>

AddDays(c, n) == CivilFromDays(DaysFromCivil(c) + n)

(* ---- expected replies ---- *)
(* instant of wall clock (c, sec) in a zone `off` seconds east of UTC *)
Inst(c, sec, off) == LET s == sec - off
                     IN [ed |-> DaysFromCivil(c) + s \div 86400, sod |-> s % 86400]

Fields(c, hh, mm, ss, ns) == [y |-> c[1], m |-> c[2], d |-> c[3], hh |-> hh, mm |-> mm, ss |-> ss, ns |-> ns]

(* a: [op, y, m, d, hh, mm, ss, ns, n] - the civil reading of `at` in its location and the delta *)
Moved(a, n) == AddDays(<<a.y, a.m, a.d>>, n)
ExpFields(a, n) ==
  IF a.op = "delta" THEN Fields(Moved(a, n), a.hh, a.mm, a.ss, a.ns)
                    ELSE Fields(Moved(a, n), 0, 0, 0, 0)
ExpInst(a, n, off) ==
  IF a.op = "delta" THEN Inst(Moved(a, n), a.hh * 3600 + a.mm * 60 + a.ss, off)
                    ELSE Inst(Moved(a, n), 0, off)

(* r: [f (fields record), ed, sod, loc]; a.fixed: the location has one offset a.off *)
OneOK(a, n, r) ==
  /\ r.f = ExpFields(a, n)
  /\ r.loc = a.loc
  /\ a.fixed => [ed |-> r.ed, sod |-> r.sod] = ExpInst(a, n, a.off)

ReplyOK(a, r) ==
  CASE a.op \in {"begin"}           -> OneOK(a, 0, r)
    [] a.op \in {"dbegin", "delta"} -> OneOK(a, a.n, r)
    [] a.op = "begins" -> /\ Len(r.list) = Len(a.deltas)
                          /\ \A i \in 1..Len(a.deltas) : OneOK(a, a.deltas[i], r.list[i])
    [] OTHER -> FALSE

(* LocalTime: the text's wall clock a read in the system zone (offset a.off) *)
CliOK(a, r) ==
  /\ [ed |-> r.ed, sod |-> r.sod] = Inst(<<a.y, a.m, a.d>>, a.hh * 3600 + a.mm * 60 + a.ss, a.off)
  /\ r.f = Fields(<<a.y, a.m, a.d>>, a.hh, a.mm, a.ss, 0)

----------------------------------------------------------------------------
(* exhaustive run: walk the calendar day by day from every 1 January of Y0..Y1 *)
VARIABLES z, c, k
DeltasSmall == {-366, -31, -1, 0, 1, 28, 365}          \* (.cfg files cannot hold negative numbers)
DeltasBig   == {-146097, -366, -31, -1, 0, 1, 28, 365, 1000000}
dvars == <<z, c, k>>

ASSUME DaysFromCivil(<<1970, 1, 1>>) = 0 /\ DaysFromCivil(<<2000, 3, 1>>) = 11017

Init == \E y \in Y0..Y1 : c = <<y, 1, 1>> /\ z = DaysFromCivil(<<y, 1, 1>>) /\ k = 0
Next == k < ChainLen /\ k' = k + 1 /\ z' = z + 1 /\ c' = Succ(c)
Spec == Init /\ [][Next]_dvars

Agree   == DaysFromCivil(c) = z /\ CivilFromDays(z) = c
DeltaOK == \A n \in Deltas : /\ DaysFromCivil(AddDays(c, n)) = z + n
                             /\ AddDays(AddDays(c, n), -n) = c
                             /\ DaysFromCivil(<<c[1], c[2], c[3] + n>>) = z + n   \* unnormalised day, as time.Date accepts
MidnightOK == \A off \in {-43200, -16200, 0, 20700, 28800, 50400} :
                LET i == Inst(c, 0, off) IN i.sod \in 0..86399 /\ (i.ed - z) * 86400 + i.sod = -off
=============================================================================
