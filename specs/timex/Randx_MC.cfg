SPECIFICATION SpecRange
CONSTANTS
  WrapSpan = FALSE
  Variant = "fy"
  Ns = {1, 2, 3, 4}
INVARIANTS RangeContract
CHECK_DEADLOCK FALSE
