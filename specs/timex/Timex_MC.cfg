SPECIFICATION Spec
CONSTANTS
  DrainOnStop = TRUE
  Timed = TRUE
  Durs = {0, 1, 2}
  MaxNow = 4
  MaxGen = 3
INVARIANTS TypeOK ArmedEmpty NoStale NoEarly ParkedEmpty
PROPERTIES StopFinal ResetFresh OnePerArming StaysStopped
VIEW View
CHECK_DEADLOCK FALSE
