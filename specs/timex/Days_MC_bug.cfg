SPECIFICATION Spec
CONSTANTS
  Julian = TRUE
  Y0 = 1895
  Y1 = 1905
  ChainLen = 370
  Deltas = {0}
INVARIANTS Agree
CHECK_DEADLOCK FALSE
