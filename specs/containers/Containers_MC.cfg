SPECIFICATION Spec
CONSTANTS
  ShareDiff = FALSE
  Keys = {"a", "b"}
  IntVals = {1}
  NH = 2
  PMax = 1
  RichLeaves = FALSE
  Getters = {"has"}
INVARIANTS TypeOK Isolation Disjoint NoGarbage
PROPERTIES ReadOnly OneHandle
VIEW View
CHECK_DEADLOCK FALSE
