------------------------------- MODULE Conv_MC -------------------------------
(***************************************************************************)
(* Bounded instance of Conv with scaled-down widths ("64 bit" = B64 bits,  *)
(* "32 bit" = B32 bits, float window 2^FW) and the DESIGN of               *)
(* tex/interface.go in native integers: every conversion is a Go           *)
(* conversion (wrap to the target width); strings go through Atoi, which   *)
(* clamps to the signed word.  SignedRoute = TRUE is the pinned code:      *)
(* ToUInt*/ToJsUInt64 are uint64(ToInt64(v)) and ToString prints int(v).   *)
(* SignedRoute = FALSE converts / parses / prints unsigned values as such. *)
(* Invariant Exact: the design's result satisfies the contract ConvOK for  *)
(* every source type, every value of that type and every target.           *)
(***************************************************************************)
EXTENDS Conv

CONSTANTS B64, B32, FW, SignedRoute

P2(n) == 2 ^ n
WrapS(v, b) == ((v + P2(b - 1)) % P2(b)) - P2(b - 1)
WrapU(v, b) == v % P2(b)
SMax(b) == P2(b - 1) - 1
SMin(b) == 0 - P2(b - 1)
UMax(b) == P2(b) - 1
Clamp(v, lo, hi) == IF v < lo THEN lo ELSE IF v > hi THEN hi ELSE v

RngSmall == [c \in {"s64", "u64", "i32", "u32", "fw"} |->
  CASE c = "s64" -> [lo |-> NatDigits(P2(B64 - 1)), hi |-> NatDigits(SMax(B64))]
    [] c = "u64" -> [lo |-> <<>>, hi |-> NatDigits(UMax(B64))]
    [] c = "i32" -> [lo |-> NatDigits(P2(B32 - 1)), hi |-> NatDigits(SMax(B32))]
    [] c = "u32" -> [lo |-> <<>>, hi |-> NatDigits(UMax(B32))]
    [] OTHER     -> [lo |-> NatDigits(P2(FW)), hi |-> NatDigits(P2(FW))]]

\* source types of the bounded instance and their value sets
SrcTypes == {"i32", "u32", "i64", "u64", "f64", "str"}
ValuesOf(ty) ==
  CASE ty = "i32" -> SMin(B32)..SMax(B32)
    [] ty = "u32" -> 0..UMax(B32)
    [] ty = "i64" -> SMin(B64)..SMax(B64)
    [] ty = "u64" -> 0..UMax(B64)
    [] OTHER      -> (SMin(B64) - 3)..(UMax(B64) + 3)       \* floats and decimal texts go beyond

\* float -> integer conversion outside the target range is implementation defined: the design
\* yields the minimum of the signed word (what amd64 does)
F2S(v, b) == IF v >= SMin(b) /\ v <= SMax(b) THEN v ELSE SMin(b)
F2U(v, b) == IF v >= 0 /\ v <= UMax(b) THEN v ELSE 0

ToS64(ty, v) == CASE ty = "f64" -> F2S(v, B64)
                  [] ty = "str" -> Clamp(v, SMin(B64), SMax(B64))      \* Atoi, error ignored
                  [] OTHER      -> WrapS(v, B64)
ToU64(ty, v) == IF SignedRoute THEN WrapU(ToS64(ty, v) + P2(B64), B64)
                ELSE CASE ty = "f64" -> F2U(v, B64)
                       [] ty = "str" -> Clamp(v, 0, UMax(B64))         \* ParseUint, error ignored
                       [] OTHER      -> WrapU(v + P2(B64), B64)
Design(ty, v, to) ==
  CASE to \in {"int", "i64", "jsi"}  -> FromInt(ToS64(ty, v))
    [] to \in {"uint", "u64", "jsu"} -> FromInt(ToU64(ty, v))
    [] to = "i32" -> FromInt(WrapS(ToS64(ty, v), B32))
    [] to = "u32" -> FromInt(IF ty = "f64" THEN F2U(v, B32) ELSE WrapU(ToS64(ty, v) + P2(B64), B32))
    [] to = "f64" -> LET x == FromInt(v) IN [fin |-> TRUE, int |-> TRUE, neg |-> x.neg, d |-> x.d]
    [] to = "bool" -> IF ty = "str" THEN FALSE ELSE v # 0
    [] to = "str" -> IF ty = "str" THEN DecText(FromInt(v))
                     ELSE IF ty = "f64" THEN <<>>
                     ELSE DecText(FromInt(IF SignedRoute THEN WrapS(v, B64) ELSE v))
    [] to = "bytes" -> IF ty = "str" THEN DecText(FromInt(v)) ELSE <<>>
    [] OTHER -> LET x == FromInt(ToS64(ty, v)) IN [ok |-> ty # "str", neg |-> x.neg, d |-> x.d]    \* dur

Targets == IntTargets \cup {"f64", "bool", "str", "bytes", "dur"}

SrcRec(ty, v) == LET x == FromInt(v) IN
  IF ty = "str" THEN [k |-> "txt", ty |-> "str", neg |-> FALSE, d |-> <<>>, txt |-> DecText(x)]
  ELSE [k |-> "num", ty |-> ty, neg |-> x.neg, d |-> x.d, txt |-> <<>>]

VARIABLE cur
Start == [ty |-> "i32", v |-> 0, to |-> "int"]
Init == cur = Start
Next == cur = Start /\ \E ty \in SrcTypes : \E v \in ValuesOf(ty) : \E to \in Targets : cur' = [ty |-> ty, v |-> v, to |-> to]
Spec == Init /\ [][Next]_cur

Exact == ConvOK(SrcRec(cur.ty, cur.v), cur.to, Design(cur.ty, cur.v, cur.to))
=============================================================================
