SPECIFICATION TraceSpec
CONSTANTS
  ShareDiff = FALSE
  Keys = {}
  IntVals = {}
  NH = 0
  PMax = 0
  RichLeaves = FALSE
  Getters = {}
INVARIANTS TypeOK Isolation
CONSTRAINT Mark
POSTCONDITION Accepted
CHECK_DEADLOCK FALSE
