SPECIFICATION Spec
CONSTANTS
  CloneShares = FALSE
  Vals = {1, 2, 3}
  NH = 3
  MaxLen = 3
INVARIANTS TypeOK Isolation NoSharing SeqLaws
PROPERTIES ReadOnly OneHandle
CONSTRAINT Bound
VIEW View
CHECK_DEADLOCK FALSE
