SPECIFICATION TraceSpec
CONSTANTS
  CloneShares = FALSE
  Vals = {}
  NH = 0
  MaxLen = 0
INVARIANTS TypeOK Isolation
CONSTRAINT Mark
POSTCONDITION Accepted
CHECK_DEADLOCK FALSE
