SPECIFICATION Spec
CONSTANTS
  ShareDiff = TRUE
  Keys = {"a", "b"}
  IntVals = {1}
  NH = 2
  PMax = 1
  RichLeaves = FALSE
  Getters = {"has"}
INVARIANTS Isolation
VIEW View
CHECK_DEADLOCK FALSE
