SPECIFICATION TraceSpec
CONSTANTS
  Rng <- RngReal
  Pinned = FALSE
CONSTRAINT Mark
POSTCONDITION Accepted
CHECK_DEADLOCK FALSE
