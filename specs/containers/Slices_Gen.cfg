SPECIFICATION Spec
CONSTANTS
  CloneShares = FALSE
  Vals = {0, 1, 2, 9}
  NH = 3
  MaxLen = 5
  Depth = 16
INVARIANTS Emit
CONSTRAINT Bound
CHECK_DEADLOCK FALSE
