------------------------------ MODULE Conv_Trace ------------------------------
(* Validates recorded conversions of tex.To* against Conv.ConvOK with the     *)
(* real 64/32-bit ranges.                                                     *)
(*   reset {ty}            one trace per source value                         *)
(*   conv  {src, to, r}    r in the fixed shape of the target (see Conv)      *)
(* A panic / crash event is not explained.                                    *)
EXTENDS Conv, Json, IOUtils

TraceLog == ndJsonDeserialize(IOEnv.VERIF_TRACE)

I64Max    == <<9,2,2,3,3,7,2,0,3,6,8,5,4,7,7,5,8,0,7>>
I64MinMag == <<9,2,2,3,3,7,2,0,3,6,8,5,4,7,7,5,8,0,8>>
U64Max    == <<1,8,4,4,6,7,4,4,0,7,3,7,0,9,5,5,1,6,1,5>>
RngReal == [c \in {"s64", "u64", "i32", "u32", "fw"} |->
  CASE c = "s64" -> [lo |-> I64MinMag, hi |-> I64Max]
    [] c = "u64" -> [lo |-> <<>>, hi |-> U64Max]
    [] c = "i32" -> [lo |-> <<2,1,4,7,4,8,3,6,4,8>>, hi |-> <<2,1,4,7,4,8,3,6,4,7>>]
    [] c = "u32" -> [lo |-> <<>>, hi |-> <<4,2,9,4,9,6,7,2,9,5>>]
    [] OTHER     -> [lo |-> <<9,0,0,7,1,9,9,2,5,4,7,4,0,9,9,2>>, hi |-> <<9,0,0,7,1,9,9,2,5,4,7,4,0,9,9,2>>]]

VARIABLES l, n
tvars == <<l, n>>

TraceInit == l = 1 /\ n = 0
Consume ==
  /\ l <= Len(TraceLog) /\ l' = l + 1
  /\ LET e == TraceLog[l] IN
       CASE e.ev = "reset" -> n' = 0
         [] e.ev = "conv"  -> IF ConvOK(e.src, e.to, e.r) THEN n' = n + 1 ELSE FALSE
         [] OTHER -> FALSE
TraceSpec == TraceInit /\ [][Consume]_tvars

ASSUME TLCSet(1, 0)
Mark == TLCSet(1, IF l > TLCGet(1) THEN l ELSE TLCGet(1))
Accepted == PrintT(<<"MARK", TLCGet(1), Len(TraceLog)>>) /\ TLCGet(1) = Len(TraceLog) + 1
=============================================================================
