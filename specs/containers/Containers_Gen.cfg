SPECIFICATION Spec
CONSTANTS
  ShareDiff = FALSE
  Keys = {"a", "b"}
  IntVals = {0, 7}
  NH = 3
  PMax = 1
  RichLeaves = TRUE
  Getters = {"has", "int", "str", "ilist", "slist", "dur"}
  Depth = 18
INVARIANTS Emit
CHECK_DEADLOCK FALSE
