SPECIFICATION TraceSpec
CONSTANTS
  ShareDiff = TRUE
  Keys = {}
  IntVals = {}
  NH = 0
  PMax = 0
  RichLeaves = FALSE
  Getters = {}
INVARIANTS TypeOK
CONSTRAINT Mark
POSTCONDITION Accepted
CHECK_DEADLOCK FALSE
