SPECIFICATION Spec
CONSTANTS
  CloneShares = TRUE
  Vals = {1, 2, 3}
  NH = 2
  MaxLen = 3
INVARIANTS Isolation
CONSTRAINT Bound
VIEW View
CHECK_DEADLOCK FALSE
