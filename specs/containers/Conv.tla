-------------------------------- MODULE Conv --------------------------------
(***************************************************************************)
(* tex/interface.go: ToInt, ToUInt, ToInt32, ToUInt32, ToInt64, ToUInt64,  *)
(* ToJsInt64, ToJsUInt64, ToFloat64, ToBool, ToString, ToBytes, ToDuration *)
(* judged by the NUMBER the argument denotes.                              *)
(*                                                                         *)
(* Numbers are arbitrary-precision: [neg, d] with d the decimal digits,    *)
(* most significant first, no leading zero, zero = [FALSE, <<>>] (TLC      *)
(* integers are 32 bit).  A source is                                      *)
(*   [k |-> "num", ty, neg, d, txt |-> <<>>]   a value of numeric Go type  *)
(*                                             ty (floats: integral only)  *)
(*   [k |-> "txt", ty |-> "str", txt, ...]     a string (byte codes)       *)
(* A string denotes a number iff it is [+-]?[0-9]+ .                       *)
(*                                                                         *)
(* CONTRACT ConvOK: whenever the denoted number is representable in the    *)
(* target type the result IS that number (exactness; for float64: inside   *)
(* the window where every integer is representable).  The decimal text of  *)
(* an integer-typed value is exact for every value.  ToBool of a number is *)
(* "not zero".  ToDuration reports ok for every numeric kind.              *)
(* Deliberately open: what a conversion returns when the number does NOT   *)
(* fit the target (there is no error channel: Go wraps), non-numeric text, *)
(* fractions, float formatting, Duration -> text.                          *)
(*                                                                         *)
(* Rng gives the target ranges as digit sequences so that the bounded      *)
(* instance (Conv_MC) can scale them down; KnownOpen names the input       *)
(* classes of the known findings (empty for the contract proper).          *)
(***************************************************************************)
EXTENDS Integers, Sequences, TLC

CONSTANTS Rng,        \* class -> [lo |-> magnitude of the minimum, hi |-> maximum]  (digit sequences)
          Pinned      \* FALSE = the contract; TRUE = the known-finding classes are left open

\* ------------------------------------------------------------- digits
RECURSIVE StripZ(_)
StripZ(d) == IF d # <<>> /\ d[1] = 0 THEN StripZ(Tail(d)) ELSE d
LexLeq(a, b) == a = b \/ \E i \in 1..Len(a) : a[i] < b[i] /\ \A j \in 1..(i - 1) : a[j] = b[j]
NatLeq(a, b) == Len(a) < Len(b) \/ (Len(a) = Len(b) /\ LexLeq(a, b))
RECURSIVE NatDigits(_)
NatDigits(n) == IF n = 0 THEN <<>> ELSE Append(NatDigits(n \div 10), n % 10)
FromInt(n) == IF n < 0 THEN [neg |-> TRUE, d |-> NatDigits(0 - n)] ELSE [neg |-> FALSE, d |-> NatDigits(n)]
MkNum(neg, d) == LET c == StripZ(d) IN [neg |-> neg /\ c # <<>>, d |-> c]
InRange(v, rg) == IF v.neg THEN NatLeq(v.d, rg.lo) ELSE NatLeq(v.d, rg.hi)

IsDig(c) == c >= 48 /\ c <= 57
TxtBody(s) == IF s # <<>> /\ s[1] \in {43, 45} THEN Tail(s) ELSE s
IsDecText(s) == LET b == TxtBody(s) IN b # <<>> /\ \A j \in 1..Len(b) : IsDig(b[j])
TextVal(s) == MkNum(s[1] = 45, [j \in 1..Len(TxtBody(s)) |-> TxtBody(s)[j] - 48])
DecText(v) == IF v.d = <<>> THEN <<48>>
              ELSE (IF v.neg THEN <<45>> ELSE <<>>) \o [j \in 1..Len(v.d) |-> v.d[j] + 48]
Upper(s) == [j \in 1..Len(s) |-> IF s[j] >= 97 /\ s[j] <= 122 THEN s[j] - 32 ELSE s[j]]

\* ------------------------------------------------------------- contract
IntTypes   == {"i8", "u8", "i16", "u16", "i32", "u32", "i64", "u64", "int", "uint", "jsi", "jsu"}
UnsignedTy == {"u64", "uint", "jsu"}
FloatTypes == {"f32", "f64"}
Class(to) == CASE to \in {"int", "i64", "jsi"} -> "s64"
               [] to \in {"uint", "u64", "jsu"} -> "u64"
               [] OTHER -> to                       \* "i32", "u32"
IntTargets == {"int", "i64", "jsi", "uint", "u64", "jsu", "i32", "u32"}

NumOf(src) == IF src.k = "num" THEN [has |-> TRUE, v |-> [neg |-> src.neg, d |-> src.d]]
              ELSE IF IsDecText(src.txt) THEN [has |-> TRUE, v |-> TextVal(src.txt)]
              ELSE [has |-> FALSE, v |-> [neg |-> FALSE, d |-> <<>>]]

(* Known findings (see extras/x02.md): values above the signed 64-bit      *)
(* maximum are routed through a signed intermediate.                       *)
Above(v) == ~v.neg /\ ~NatLeq(v.d, Rng["s64"].hi)
KnownOpen(src, to) ==
  /\ Pinned
  /\ LET n == NumOf(src) IN n.has /\ Above(n.v) /\
       \/ to = "str" /\ src.ty \in UnsignedTy                                    \* F2
       \/ Class(to) = "u64" /\ (src.k = "txt" \/ src.ty \in FloatTypes)          \* F3

ConvOK(src, to, r) ==
  LET n == NumOf(src) IN
  IF KnownOpen(src, to) THEN TRUE ELSE
  CASE to \in IntTargets ->
         IF n.has /\ InRange(n.v, Rng[Class(to)]) THEN r = n.v ELSE TRUE
    [] to = "f64" ->
         IF n.has /\ InRange(n.v, Rng["fw"])
         THEN r = [fin |-> TRUE, int |-> TRUE, neg |-> n.v.neg, d |-> n.v.d] ELSE TRUE
    [] to = "bool" ->
         IF src.k = "num" THEN r = (src.d # <<>>)
         ELSE IF Upper(src.txt) = <<84, 82, 85, 69>> THEN r = TRUE ELSE TRUE
    [] to = "str" ->
         IF src.k = "txt" THEN r = src.txt
         ELSE IF src.ty \in IntTypes THEN r = DecText(n.v) ELSE TRUE
    [] to = "bytes" -> IF src.k = "txt" THEN r = src.txt ELSE TRUE
    [] to = "dur" ->
         IF src.k = "num"
         THEN r.ok /\ (InRange(n.v, Rng["s64"]) => [neg |-> r.neg, d |-> r.d] = n.v)
         ELSE TRUE
    [] OTHER -> FALSE
=============================================================================
