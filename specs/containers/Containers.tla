----------------------------- MODULE Containers -----------------------------
(***************************************************************************)
(* neptune/tex: map[string]interface{} helpers (tex/map.go,                *)
(* tex/maparrayval.go) judged against finite maps.                         *)
(*                                                                         *)
(* CONTRACT (value semantics).  A handle denotes a TREE: a finite function *)
(* from keys to nodes; a node is a leaf ([t |-> "i", i |-> 3], "s" string  *)
(* as byte codes, "b" bool, "n" nil, "l" list of leaves, "u" time) or a    *)
(* nested map [t |-> "m", kv |-> tree].  MapClone(m) denotes m,            *)
(* MapMerge(b, d) denotes Merge(b, d) (right-biased, recursive where both  *)
(* sides are maps), a typed getter is a lookup followed by a conversion    *)
(* with the zero value for an absent key, and nothing but the handle an    *)
(* operation writes to ever changes: `val` is updated for ONE handle per   *)
(* step.                                                                   *)
(*                                                                         *)
(* DESIGN (heap).  Go maps are objects; a nested map is a reference.       *)
(* `heap` is a sequence of objects (key -> leaf or [t |-> "r", id]),       *)
(* `root` the object of each handle.  Clone builds fresh objects; merge    *)
(* clones the base and walks the diff the way tex.mapMerge does.  The      *)
(* named deviation ShareDiff = TRUE is the pinned code: a nested map of    *)
(* the diff is stored in the result BY REFERENCE.  Invariant Isolation     *)
(* (every handle's heap denotation = its value) holds with ShareDiff =     *)
(* FALSE and fails with TRUE (Containers_MC_bug.cfg).                      *)
(*                                                                         *)
(* Deliberate freedoms: getters applied to kinds for which no conversion   *)
(* is evident (bool -> int, arbitrary text -> number, list -> string ...)  *)
(* are not constrained (ReplyOK says TRUE); nil map and empty map are the  *)
(* same tree; sharing of list leaves is not observed (documented by        *)
(* MapClone as not cloned).                                                *)
(***************************************************************************)
EXTENDS Integers, Sequences, FiniteSets, TLC

CONSTANT ShareDiff

VARIABLES
  val,     \* handle -> tree                       (contract)
  heap,    \* sequence of objects                  (design)
  root,    \* handle -> object id                  (design)
  last     \* action record of the latest step (output only)

vars == <<val, heap, root>>
allvars == <<vars, last>>

Ext(f, k, v) == [x \in DOMAIN f \cup {k} |-> IF x = k THEN v ELSE f[x]]
Rem(f, k)    == [x \in DOMAIN f \ {k} |-> f[x]]
RECURSIVE Ord(_)             \* a fixed enumeration of a finite set
Ord(S) == IF S = {} THEN <<>> ELSE LET k == CHOOSE x \in S : TRUE IN <<k>> \o Ord(S \ {k})

\* ------------------------------------------------------------- trees
IsMap(n) == n.t = "m"
MapN(kv) == [t |-> "m", kv |-> kv]
IntN(x)  == [t |-> "i", i |-> x]
Absent   == [t |-> "x"]                  \* pseudo node: key not in the map

RECURSIVE Valid(_, _)        \* path p leads through nested maps
Valid(m, p) == p = <<>> \/ (p[1] \in DOMAIN m /\ IsMap(m[p[1]]) /\ Valid(m[p[1]].kv, Tail(p)))
RECURSIVE At(_, _)
At(m, p) == IF p = <<>> THEN m ELSE At(m[p[1]].kv, Tail(p))
RECURSIVE Put(_, _, _)       \* replace the map at (valid) path p
Put(m, p, nm) == IF p = <<>> THEN nm ELSE Ext(m, p[1], MapN(Put(m[p[1]].kv, Tail(p), nm)))

SetAt(m, p, k, n) == IF Valid(m, p) THEN Put(m, p, Ext(At(m, p), k, n)) ELSE m
DelAt(m, p, k)    == IF Valid(m, p) THEN Put(m, p, Rem(At(m, p), k)) ELSE m

RECURSIVE Merge(_, _)
Merge(b, d) ==
  [k \in DOMAIN b \cup DOMAIN d |->
     IF k \notin DOMAIN d THEN b[k]
     ELSE IF k \notin DOMAIN b THEN d[k]
     ELSE IF IsMap(b[k]) /\ IsMap(d[k]) THEN MapN(Merge(b[k].kv, d[k].kv))
     ELSE d[k]]

\* ------------------------------------------------------------- heap (design)
Ref(i) == [t |-> "r", id |-> i]
IsRef(c) == c.t = "r"

RECURSIVE Den(_, _)          \* the tree an object denotes
Den(S, i) == [k \in DOMAIN S[i] |-> IF IsRef(S[i][k]) THEN MapN(Den(S, S[i][k].id)) ELSE S[i][k]]

RECURSIVE Build(_, _)        \* fresh objects for a tree: [S, id]
Build(S, kv) ==
  LET ks == Ord(DOMAIN kv)
      RECURSIVE B(_, _, _)
      B(S1, i, c) ==
        IF i > Len(ks) THEN [S |-> S1, c |-> c]
        ELSE LET k == ks[i] IN
             IF IsMap(kv[k])
             THEN LET r == Build(S1, kv[k].kv) IN B(r.S, i + 1, Ext(c, k, Ref(r.id)))
             ELSE B(S1, i + 1, Ext(c, k, kv[k]))
      r0 == B(S, 1, <<>>)
  IN [S |-> Append(r0.S, r0.c), id |-> Len(r0.S) + 1]

RECURSIVE HWalk(_, _, _)     \* object at path p below object i, 0 if the path is not all maps
HWalk(S, i, p) ==
  IF p = <<>> THEN i
  ELSE IF p[1] \in DOMAIN S[i] /\ IsRef(S[i][p[1]]) THEN HWalk(S, S[i][p[1]].id, Tail(p)) ELSE 0

HSet(S, i, p, k, c) == LET o == HWalk(S, i, p) IN IF o = 0 THEN S ELSE [S EXCEPT ![o] = Ext(@, k, c)]
HDel(S, i, p, k)    == LET o == HWalk(S, i, p) IN IF o = 0 THEN S ELSE [S EXCEPT ![o] = Rem(@, k)]

(* tex.mapMerge(base = object ci, diff = object di): ci was freshly built. *)
RECURSIVE MergeInto(_, _, _)
MergeInto(S, ci, di) ==
  LET ks == Ord(DOMAIN S[di])
      Take(S1, v) ==         \* the cell stored for a value taken over from the diff
        IF IsRef(v) /\ ~ShareDiff
        THEN LET r == Build(S1, Den(S1, v.id)) IN [S |-> r.S, c |-> Ref(r.id)]
        ELSE [S |-> S1, c |-> v]
      RECURSIVE M(_, _)
      M(S1, i) ==
        IF i > Len(ks) THEN S1
        ELSE LET k == ks[i]
                 v == S1[di][k]
             IN IF k \notin DOMAIN S1[ci] \/ ~IsRef(S1[ci][k])
                THEN LET t == Take(S1, v) IN M([t.S EXCEPT ![ci] = Ext(@, k, t.c)], i + 1)
                ELSE IF IsRef(v) THEN M(MergeInto(S1, S1[ci][k].id, v.id), i + 1)
                ELSE M([S1 EXCEPT ![ci] = Ext(@, k, v)], i + 1)
  IN M(S, 1)

(* garbage collection + renumbering in first-visit order: isomorphic heaps *)
(* become equal, so the bounded state space is finite                      *)
Canon(S, rt) ==
  LET RECURSIVE CO(_, _)
      CO(st, id) ==
        IF id \in DOMAIN st.memo THEN st
        ELSE LET nid == Len(st.nh) + 1
                 st0 == [memo |-> Ext(st.memo, id, nid), nh |-> Append(st.nh, <<>>)]
                 ks  == Ord(DOMAIN S[id])
                 RECURSIVE K(_, _)
                 K(s, i) == IF i > Len(ks) THEN s
                            ELSE IF IsRef(S[id][ks[i]]) THEN K(CO(s, S[id][ks[i]].id), i + 1)
                            ELSE K(s, i + 1)
                 st1 == K(st0, 1)
             IN [memo |-> st1.memo,
                 nh |-> [st1.nh EXCEPT ![nid] =
                           [k \in DOMAIN S[id] |-> IF IsRef(S[id][k]) THEN Ref(st1.memo[S[id][k].id])
                                                   ELSE S[id][k]]]]
      RECURSIVE HH(_, _)
      HH(st, h) == IF h > Len(rt) THEN st ELSE HH(CO(st, rt[h]), h + 1)
      fin == HH([memo |-> <<>>, nh |-> <<>>], 1)
  IN [S |-> fin.nh, root |-> [h \in DOMAIN rt |-> fin.memo[rt[h]]]]

InstallH(r) == heap' = r.S /\ root' = r.root

\* ------------------------------------------------------------- getters (contract)
RECURSIVE NatTxt(_)
NatTxt(n) == IF n < 10 THEN <<48 + n>> ELSE Append(NatTxt(n \div 10), 48 + (n % 10))
IntTxt(n) == IF n < 0 THEN <<45>> \o NatTxt(0 - n) ELSE NatTxt(n)
IsDig(c)  == c >= 48 /\ c <= 57
DecBody(s) == IF s # <<>> /\ s[1] \in {43, 45} THEN Tail(s) ELSE s
IsDec(s)  == LET b == DecBody(s) IN Len(b) >= 1 /\ Len(b) <= 8 /\ \A j \in 1..Len(b) : IsDig(b[j])
RECURSIVE NatVal(_)
NatVal(b) == IF b = <<>> THEN 0 ELSE 10 * NatVal(SubSeq(b, 1, Len(b) - 1)) + (b[Len(b)] - 48)
DecVal(s) == IF s[1] = 45 THEN 0 - NatVal(DecBody(s)) ELSE NatVal(DecBody(s))
Upper(s)  == [j \in 1..Len(s) |-> IF s[j] >= 97 /\ s[j] <= 122 THEN s[j] - 32 ELSE s[j]]

NoConv == {"x", "n", "l", "m"}           \* absent, nil, list, map: zero value
Pin(v) == [open |-> FALSE, v |-> v]
Open   == [open |-> TRUE, v |-> 0]

IntC(n) == CASE n.t = "i" -> Pin(n.i)
             [] n.t \in NoConv -> Pin(0)
             [] n.t = "s" -> IF IsDec(n.s) THEN Pin(DecVal(n.s)) ELSE Open
             [] OTHER -> Open
BoolC(n) == CASE n.t = "b" -> Pin(n.b)
              [] n.t = "i" -> Pin(n.i # 0)
              [] n.t \in NoConv -> Pin(FALSE)
              [] n.t = "s" -> IF Upper(n.s) = <<84, 82, 85, 69>> THEN Pin(TRUE) ELSE Open
              [] OTHER -> Open
StrC(n) == CASE n.t = "s" -> Pin(n.s)
             [] n.t = "i" -> Pin(IntTxt(n.i))
             [] n.t = "x" -> Pin(<<>>)
             [] OTHER -> Open
BytesC(n) == IF n.t = "s" THEN Pin(n.s) ELSE IF n.t \in NoConv THEN Pin(<<>>) ELSE Open
F64C(n) == LET c == IntC(n) IN IF c.open THEN Open ELSE Pin([int |-> TRUE, v |-> c.v])
DurC(n) == CASE n.t = "i" -> Pin([ok |-> TRUE, v |-> n.i])
             [] n.t \in NoConv \cup {"b", "u"} -> Pin([ok |-> FALSE, v |-> 0])
             [] OTHER -> Open
TimeC(n) == IF n.t = "u" THEN Pin([ok |-> TRUE, v |-> n.u]) ELSE Pin([ok |-> FALSE, v |-> 0])

(* what a handle shows: its value; under the deviation, what the heap holds *)
Shown(v, S, rt) == IF ShareDiff THEN [h \in DOMAIN rt |-> Den(S, rt[h])] ELSE v
Sub(a)  == LET m == Shown(val, heap, root)[a.h] IN IF Valid(m, a.p) THEN At(m, a.p) ELSE <<>>
Look(a) == LET m == Sub(a) IN IF a.k \in DOMAIN m THEN m[a.k] ELSE Absent

Fits(c, r) == IF c.open THEN TRUE ELSE r = c.v
NotList == [ok |-> FALSE, v |-> <<>>]
ListFits(n, r, C(_)) ==      \* list getter: not a list -> (nil, false); else element-wise
  IF n.t # "l" THEN r = NotList
  ELSE IF ~r.ok \/ Len(r.v) # Len(n.e) THEN FALSE
  ELSE \A j \in 1..Len(n.e) : Fits(C(n.e[j]), r.v[j])

IntFields == {"i", "i64", "i32", "js"}
ReplyOK(a, r) ==
  IF a.op # "get" THEN r = 0
  ELSE LET n == Look(a) IN
    CASE a.g = "has"   -> r = (n.t # "x")
      [] a.g = "int"   -> \A f \in IntFields : Fits(IntC(n), r[f])
      [] a.g = "bool"  -> Fits(BoolC(n), r)
      [] a.g = "str"   -> Fits(StrC(n), r)
      [] a.g = "bytes" -> Fits(BytesC(n), r)
      [] a.g = "f64"   -> Fits(F64C(n), r)
      [] a.g = "dur"   -> Fits(DurC(n), r)
      [] a.g = "time"  -> Fits(TimeC(n), r)
      [] a.g = "ilist" -> \A f \in IntFields : ListFits(n, r[f], IntC)
      [] a.g = "blist" -> ListFits(n, r, BoolC)
      [] a.g = "flist" -> ListFits(n, r, F64C)
      [] a.g = "slist" -> ListFits(n, r, StrC)
      [] OTHER -> FALSE

\* ------------------------------------------------------------- actions
Do(a) ==
  CASE a.op = "set" ->
         /\ val' = [val EXCEPT ![a.h] = SetAt(@, a.p, a.k, a.n)]
         /\ InstallH(Canon(HSet(heap, root[a.h], a.p, a.k, a.n), root))
    [] a.op = "mkmap" ->
         /\ val' = [val EXCEPT ![a.h] = SetAt(@, a.p, a.k, MapN(<<>>))]
         /\ LET S1 == Append(heap, <<>>)
            IN InstallH(Canon(HSet(S1, root[a.h], a.p, a.k, Ref(Len(S1))), root))
    [] a.op = "del" ->
         /\ val' = [val EXCEPT ![a.h] = DelAt(@, a.p, a.k)]
         /\ InstallH(Canon(HDel(heap, root[a.h], a.p, a.k), root))
    [] a.op = "new" ->
         /\ val' = [val EXCEPT ![a.h] = <<>>]
         /\ LET S1 == Append(heap, <<>>) IN InstallH(Canon(S1, [root EXCEPT ![a.h] = Len(S1)]))
    [] a.op = "clone" ->
         /\ val' = [val EXCEPT ![a.to] = val[a.h]]
         /\ LET r == Build(heap, Den(heap, root[a.h]))
            IN InstallH(Canon(r.S, [root EXCEPT ![a.to] = r.id]))
    [] a.op = "merge" ->
         /\ val' = [val EXCEPT ![a.to] = Merge(val[a.b], val[a.d])]
         /\ LET c  == Build(heap, Den(heap, root[a.b]))
                S2 == MergeInto(c.S, c.id, root[a.d])
            IN InstallH(Canon(S2, [root EXCEPT ![a.to] = c.id]))
    [] a.op = "get" -> UNCHANGED vars
    [] OTHER -> FALSE

InitWith(nh) ==
  /\ val = [h \in 1..nh |-> <<>>]
  /\ heap = [h \in 1..nh |-> <<>>]
  /\ root = [h \in 1..nh |-> h]
  /\ last = [op |-> "init", nh |-> nh]

Step(a) == Do(a) /\ last' = a

---------------------------------------------------------------------------
(* Bounded instance *)
CONSTANTS Keys, IntVals, NH, PMax, RichLeaves, Getters

Hs    == 1..NH
Paths == UNION {[1..n -> Keys] : n \in 0..PMax}
StrN(s) == [t |-> "s", s |-> s]
LeafNodes ==
  {IntN(x) : x \in IntVals} \cup
  (IF RichLeaves
   THEN {StrN(<<52, 50>>), StrN(<<116, 82, 117, 101>>), StrN(<<>>), StrN(<<45, 55>>), StrN(<<122>>),
         [t |-> "b", b |-> TRUE], [t |-> "b", b |-> FALSE], [t |-> "n"], [t |-> "u", u |-> 86400],
         [t |-> "l", e |-> <<>>], [t |-> "l", e |-> <<IntN(0), IntN(-3), IntN(70000)>>],
         [t |-> "l", e |-> <<IntN(5), StrN(<<49, 50>>), [t |-> "b", b |-> TRUE], [t |-> "n"]>>]}
   ELSE {})

Acts ==
       [op : {"set"}, h : Hs, p : Paths, k : Keys, n : LeafNodes]
  \cup [op : {"mkmap", "del"}, h : Hs, p : Paths, k : Keys]
  \cup [op : {"new"}, h : Hs]
  \cup [op : {"clone"}, h : Hs, to : Hs]
  \cup [op : {"merge"}, b : Hs, d : Hs, to : Hs]
  \cup [op : {"get"}, h : Hs, p : Paths, k : Keys, g : Getters]

Init == InitWith(NH)
Next == \E a \in Acts : Step(a)
Spec == Init /\ [][Next]_allvars

(* ------------------------- properties -------------------------------- *)
RECURSIVE Reach(_, _)        \* objects reachable from object i (as a sequence: duplicates = sharing)
Reach(S, i) ==
  LET ks == Ord({k \in DOMAIN S[i] : IsRef(S[i][k])})
      RECURSIVE R(_)
      R(j) == IF j > Len(ks) THEN <<>> ELSE Reach(S, S[i][ks[j]].id) \o R(j + 1)
  IN <<i>> \o R(1)
AllReach == LET RECURSIVE A(_)
                A(h) == IF h > Len(root) THEN <<>> ELSE Reach(heap, root[h]) \o A(h + 1)
            IN A(1)

TypeOK    == DOMAIN val = DOMAIN root /\ \A h \in DOMAIN root : root[h] \in 1..Len(heap)
Isolation == \A h \in DOMAIN val : Den(heap, root[h]) = val[h]          \* design refines contract
Disjoint  == LET s == AllReach IN \A i, j \in 1..Len(s) : i # j => s[i] # s[j]   \* no shared object
NoGarbage == Len(AllReach) = Len(heap)

ReadOnly  == [][last'.op = "get" => UNCHANGED vars]_allvars
OneHandle == [][LET a == last' IN
                 LET w == CASE a.op \in {"set", "mkmap", "del", "new"} -> {a.h}
                            [] a.op \in {"clone", "merge"} -> {a.to}
                            [] OTHER -> {}
                 IN \A h \in DOMAIN val \ w : val'[h] = val[h]]_allvars
MergeLaws == \A h \in DOMAIN val :
               /\ Merge(val[h], <<>>) = val[h] /\ Merge(<<>>, val[h]) = val[h]
               /\ Merge(val[h], val[h]) = val[h]
               /\ \A g \in DOMAIN val : DOMAIN Merge(val[h], val[g]) = DOMAIN val[h] \cup DOMAIN val[g]

View == vars
=============================================================================
