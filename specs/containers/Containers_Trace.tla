------------------------- MODULE Containers_Trace -------------------------
(* Validates ndjson traces recorded from tex.MapClone / MapMerge / the     *)
(* MapVal2* getters against Containers.                                    *)
(*   reset {nh}          nh handles, each a fresh empty map                *)
(*   call  {a, r, obs}   a = action record, r = reply (0 for mutators,     *)
(*                       getter result otherwise), obs = the trees of ALL  *)
(*                       handles read back from the real Go maps           *)
(* Anything else (panic, crash) is not explained.                          *)
(* Containers_Trace.cfg judges against the contract (ShareDiff = FALSE).   *)
(* Containers_Trace_pinned.cfg (ShareDiff = TRUE) describes the pinned     *)
(* code including its known deviation; it is used only to keep judging     *)
(* traces in which that known finding occurs for any OTHER disagreement.   *)
EXTENDS Containers, Json, IOUtils

TraceLog == ndJsonDeserialize(IOEnv.VERIF_TRACE)

VARIABLE l
tvars == <<allvars, l>>

TraceInit == l = 1 /\ InitWith(0)

TReset(e) ==
  /\ val' = [h \in 1..e.nh |-> <<>>] /\ heap' = [h \in 1..e.nh |-> <<>>]
  /\ root' = [h \in 1..e.nh |-> h] /\ last' = [op |-> "init", nh |-> e.nh]

(* JSON {} arrives as an empty RECORD, which TLC refuses to compare with an  *)
(* empty function: both sides are rebuilt as functions before comparing.    *)
RECURSIVE NormT(_)
NormT(kv) == [k \in DOMAIN kv |-> IF kv[k].t = "m" THEN MapN(NormT(kv[k].kv)) ELSE kv[k]]
ObsOK(o, v) == Len(o) = Len(v) /\ \A h \in 1..Len(v) : NormT(o[h]) = NormT(v[h])

TCall(e) ==
  /\ Step(e.a)
  /\ (ReplyOK(e.a, e.r)) = TRUE
  /\ (ObsOK(e.obs, Shown(val', heap', root'))) = TRUE

Consume ==
  /\ l <= Len(TraceLog) /\ l' = l + 1
  /\ LET e == TraceLog[l] IN
       CASE e.ev = "reset" -> TReset(e)
         [] e.ev = "call"  -> TCall(e)
         [] OTHER -> FALSE

TraceNext == Consume
TraceSpec == TraceInit /\ [][TraceNext]_tvars

ASSUME TLCSet(1, 0)
Mark == TLCSet(1, IF l > TLCGet(1) THEN l ELSE TLCGet(1))
Accepted == PrintT(<<"MARK", TLCGet(1), Len(TraceLog)>>) /\ TLCGet(1) = Len(TraceLog) + 1
=============================================================================
