SPECIFICATION Spec
CONSTANTS
  Rng <- RngSmall
  Pinned = FALSE
  B64 = 9
  B32 = 5
  FW = 6
  SignedRoute = FALSE
INVARIANTS Exact
CHECK_DEADLOCK FALSE
