------------------------------- MODULE Slices -------------------------------
(***************************************************************************)
(* genericx/slicex (Insert, Remove, RemoveElem, RemoveElems, FindIndex,    *)
(* Contain, ContainFunc, Clone, Sum, Max, Min, Shuffle) and stringx        *)
(* (Reverse, Concat, Append, ContainAny, TrimStringsSpace) judged against  *)
(* finite sequences.                                                       *)
(*                                                                         *)
(* CONTRACT.  A handle denotes a sequence of integers (`sv`); positions    *)
(* are 0-based as in Go.  Insert/Remove clamp an index >= length to the    *)
(* end (Insert: documented; Remove: the mirrored rule), RemoveElem drops   *)
(* the first equal element, RemoveElems does so for each listed value in   *)
(* turn, Clone denotes the same sequence and is independent of its source, *)
(* Shuffle leaves a permutation in place and returns it.  Only the handle  *)
(* an operation is applied to changes.  Strings are sequences of code      *)
(* points (valid UTF-8 only).                                              *)
(*                                                                         *)
(* DESIGN.  Slices are views of storage: `grp[h]` is the handle whose      *)
(* storage h uses, `mem` the contents.  Element assignment writes storage. *)
(* Named deviation CloneShares = TRUE: Clone returns its argument (same    *)
(* storage); invariant Isolation then fails (Slices_MC_bug.cfg).           *)
(*                                                                         *)
(* Deliberately open: Max/Min of an empty list (the code panics), a        *)
(* negative index (documented panic), Sum when the mathematical sum does   *)
(* not fit the element type, which permutation Shuffle picks.              *)
(***************************************************************************)
EXTENDS Integers, Sequences, FiniteSets, TLC

CONSTANT CloneShares

VARIABLES
  sv,     \* handle -> sequence                       (contract)
  grp,    \* handle -> handle owning the storage      (design)
  mem,    \* owner handle -> contents                 (design)
  last

vars == <<sv, grp, mem>>
allvars == <<vars, last>>

\* ------------------------------------------------------------- sequences
Ins(s, i, v) == IF i >= Len(s) THEN Append(s, v)
                ELSE SubSeq(s, 1, i) \o <<v>> \o SubSeq(s, i + 1, Len(s))
Del(s, i)    == IF s = <<>> THEN s
                ELSE IF i >= Len(s) THEN SubSeq(s, 1, Len(s) - 1)
                ELSE SubSeq(s, 1, i) \o SubSeq(s, i + 2, Len(s))
Find(s, v)   == IF \E j \in 1..Len(s) : s[j] = v
                THEN (CHOOSE j \in 1..Len(s) : s[j] = v /\ \A q \in 1..(j - 1) : s[q] # v) - 1
                ELSE -1
DelElem(s, v) == IF Find(s, v) = -1 THEN s ELSE Del(s, Find(s, v))
RECURSIVE DelElems(_, _)
DelElems(s, vs) == IF vs = <<>> THEN s ELSE DelElems(DelElem(s, Head(vs)), Tail(vs))
RECURSIVE SumSeq(_)
SumSeq(s) == IF s = <<>> THEN 0 ELSE Head(s) + SumSeq(Tail(s))
MaxSeq(s) == CHOOSE x \in {s[j] : j \in 1..Len(s)} : \A j \in 1..Len(s) : s[j] <= x
MinSeq(s) == CHOOSE x \in {s[j] : j \in 1..Len(s)} : \A j \in 1..Len(s) : s[j] >= x
Count(s, v) == Cardinality({j \in 1..Len(s) : s[j] = v})
IsPerm(a, b) == Len(a) = Len(b) /\ \A j \in 1..Len(a) : Count(a, a[j]) = Count(b, a[j])

\* ------------------------------------------------------------- storage (design)
Canon(g, m) ==       \* owner = least handle of the sharing group; contents kept at the owner only
  LET own(h) == CHOOSE x \in DOMAIN g : g[x] = g[h] /\ \A y \in DOMAIN g : g[y] = g[h] => x <= y
  IN [g |-> [h \in DOMAIN g |-> own(h)],
      m |-> [h \in DOMAIN g |-> IF own(h) = h THEN m[g[h]] ELSE <<>>]]
Fresh(h, s) ==       \* handle h gets storage of its own holding s  (0 = temporary owner id)
  Canon([grp EXCEPT ![h] = 0], [x \in DOMAIN mem \cup {0} |-> IF x = 0 THEN s ELSE mem[x]])
Shown(h) == mem[grp[h]]
InstallS(r) == grp' = r.g /\ mem' = r.m

Reply(a) ==
  LET s == sv[a.h] IN
  CASE a.op = "find"     -> Find(s, a.v)
    [] a.op = "contain"  -> Find(s, a.v) # -1
    [] a.op = "containf" -> \E j \in 1..Len(s) : s[j] > a.c
    [] a.op = "sum"      -> SumSeq(s)
    [] a.op = "shuffle"  -> a.out
    [] OTHER -> 0
ReplyOK(a, r) ==
  IF a.op \in {"max", "min"}
  THEN IF sv[a.h] = <<>> THEN TRUE
       ELSE r = [ok |-> TRUE, v |-> IF a.op = "max" THEN MaxSeq(sv[a.h]) ELSE MinSeq(sv[a.h])]
  ELSE r = Reply(a)

Upd(h, s) == sv' = [sv EXCEPT ![h] = s] /\ InstallS(Fresh(h, s))
Do(a) ==
  CASE a.op = "insert"  -> Upd(a.h, Ins(sv[a.h], a.i, a.v))
    [] a.op = "remove"  -> Upd(a.h, Del(sv[a.h], a.i))
    [] a.op = "rmelem"  -> Upd(a.h, DelElem(sv[a.h], a.v))
    [] a.op = "rmelems" -> Upd(a.h, DelElems(sv[a.h], a.vs))
    [] a.op = "setat" ->      \* s[i] = v by the user: writes the storage
         IF a.i < Len(sv[a.h])
         THEN /\ sv' = [sv EXCEPT ![a.h][a.i + 1] = a.v]
              /\ mem' = [mem EXCEPT ![grp[a.h]][a.i + 1] = a.v] /\ UNCHANGED grp
         ELSE UNCHANGED vars
    [] a.op = "clone" ->
         /\ sv' = [sv EXCEPT ![a.to] = sv[a.h]]
         /\ IF CloneShares THEN InstallS(Canon([grp EXCEPT ![a.to] = grp[a.h]], mem))
            ELSE InstallS(Fresh(a.to, Shown(a.h)))
    [] a.op = "shuffle" ->
         IF IsPerm(a.out, sv[a.h]) THEN Upd(a.h, a.out) ELSE FALSE
    [] a.op \in {"find", "contain", "containf", "sum", "max", "min"} -> UNCHANGED vars
    [] OTHER -> FALSE

InitWith(nh) ==
  /\ sv = [h \in 1..nh |-> <<>>] /\ grp = [h \in 1..nh |-> h] /\ mem = [h \in 1..nh |-> <<>>]
  /\ last = [op |-> "init", nh |-> nh]
Step(a) == Do(a) /\ last' = a

\* ------------------------------------------------------------- pure functions
Rev(s) == [j \in 1..Len(s) |-> s[Len(s) + 1 - j]]
RECURSIVE Flat(_)
Flat(ss) == IF ss = <<>> THEN <<>> ELSE Head(ss) \o Flat(Tail(ss))
IsSub(t, s) == \E j \in 0..(Len(s) - Len(t)) : SubSeq(s, j + 1, j + Len(t)) = t
White == {9, 10, 11, 12, 13, 32, 133, 160, 5760, 8232, 8233, 8239, 8287, 12288} \cup (8192..8202)
RECURSIVE TrimL(_)
TrimL(s) == IF s # <<>> /\ s[1] \in White THEN TrimL(Tail(s)) ELSE s
RECURSIVE TrimR(_)
TrimR(s) == IF s # <<>> /\ s[Len(s)] \in White THEN TrimR(SubSeq(s, 1, Len(s) - 1)) ELSE s
Trim(s) == TrimR(TrimL(s))

PureOK(a, r) ==
  CASE a.op = "reverse"    -> r = Rev(a.s)
    [] a.op = "concat"     -> r = Flat(a.ss)
    [] a.op = "append"     -> r = a.hd \o Flat(a.ss)
    [] a.op = "containany" -> r = (\E j \in 1..Len(a.subs) : IsSub(a.subs[j], a.s))
    [] a.op = "trim"       -> r = [out |-> [j \in 1..Len(a.ss) |-> Trim(a.ss[j])], arg |-> a.ss]
    [] a.op = "sum8"       -> LET t == SumSeq(a.xs) IN IF t >= -128 /\ t <= 127 THEN r = t ELSE TRUE
    [] OTHER -> FALSE

---------------------------------------------------------------------------
(* Bounded instance *)
CONSTANTS Vals, NH, MaxLen

Hs == 1..NH
Perms(s) == {p \in [1..Len(s) -> {s[j] : j \in 1..Len(s)}] : IsPerm(p, s)}
Acts ==
       [op : {"insert", "setat"}, h : Hs, i : 0..MaxLen, v : Vals]
  \cup [op : {"remove"}, h : Hs, i : 0..MaxLen]
  \cup [op : {"rmelem", "find", "contain"}, h : Hs, v : Vals]
  \cup [op : {"containf"}, h : Hs, c : Vals]
  \cup [op : {"rmelems"}, h : Hs, vs : UNION {[1..n -> Vals] : n \in 0..2}]
  \cup [op : {"clone"}, h : Hs, to : Hs]
  \cup [op : {"sum", "max", "min"}, h : Hs]

Init == InitWith(NH)
Next == \/ \E a \in Acts : Step(a)
        \/ \E h \in Hs : \E p \in Perms(sv[h]) : Step([op |-> "shuffle", h |-> h, out |-> p])
Spec == Init /\ [][Next]_allvars
Bound == \A h \in Hs : Len(sv[h]) <= MaxLen

TypeOK    == DOMAIN sv = DOMAIN grp /\ \A h \in DOMAIN grp : grp[grp[h]] = grp[h] /\ grp[h] <= h
Isolation == \A h \in DOMAIN sv : Shown(h) = sv[h]
NoSharing == \A h \in DOMAIN sv : grp[h] = h
ReadOnly  == [][last'.op \in {"find", "contain", "containf", "sum", "max", "min"} => UNCHANGED vars]_allvars
OneHandle == [][LET a == last' IN
                 LET w == IF a.op = "clone" THEN a.to ELSE a.h
                 IN \A h \in DOMAIN sv \ {w} : sv'[h] = sv[h]]_allvars
(* sanity of the sequence operators on the reachable values *)
SeqLaws == \A h \in DOMAIN sv : LET s == sv[h] IN
  /\ \A v \in Vals : /\ Len(DelElem(s, v)) = Len(s) - (IF Find(s, v) = -1 THEN 0 ELSE 1)
                     /\ Find(Ins(s, 0, v), v) = 0
                     /\ \A i \in 0..MaxLen : Del(Ins(s, i, v), IF i >= Len(s) THEN Len(s) ELSE i) = s
  /\ Rev(Rev(s)) = s /\ IsPerm(Rev(s), s) /\ IsSub(<<>>, s) /\ IsSub(s, s)
  /\ Trim(Trim(s)) = Trim(s)
View == vars
=============================================================================
