SPECIFICATION TraceSpec
CONSTANTS
  Rng <- RngReal
  Pinned = TRUE
CONSTRAINT Mark
POSTCONDITION Accepted
CHECK_DEADLOCK FALSE
