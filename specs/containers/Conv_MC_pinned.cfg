SPECIFICATION Spec
CONSTANTS
  Rng <- RngSmall
  Pinned = TRUE
  B64 = 6
  B32 = 4
  FW = 4
  SignedRoute = TRUE
INVARIANTS Exact
CHECK_DEADLOCK FALSE
