-------------------------- MODULE Slices_Gen --------------------------
(* Plan generation: `tlc -simulate` walks Slices and writes the action  *)
(* records of each behaviour as one ndjson plan (first line = init).       *)
EXTENDS Slices, TLCExt, Json, IOUtils
CONSTANT Depth
ASSUME TLCSet(2, 0)
Emit ==
  \/ TLCGet("level") < Depth
  \/ /\ TLCSet(2, TLCGet(2) + 1)
     /\ ndJsonSerialize(IOEnv.VERIF_PLANDIR \o "/p" \o ToString(TLCGet(2)) \o ".ndjson",
                        [i \in 1..Len(Trace) |-> Trace[i].last])
=============================================================================
