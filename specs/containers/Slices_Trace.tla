---------------------------- MODULE Slices_Trace ----------------------------
(* Validates ndjson traces recorded from genericx/slicex and stringx.      *)
(*   reset {nh}          nh handles, each an empty []int                   *)
(*   call  {a, r, obs}   a = action record (shuffle: a.out = the handle's  *)
(*                       contents after the call), r = reply, obs = the    *)
(*                       contents of ALL handles after the call            *)
(*   pure  {a, r}        one call of a pure function (stringx, Sum[int8])  *)
(* Anything else (panic, crash) is not explained.                          *)
EXTENDS Slices, Json, IOUtils

TraceLog == ndJsonDeserialize(IOEnv.VERIF_TRACE)

VARIABLE l
tvars == <<allvars, l>>

TraceInit == l = 1 /\ InitWith(0)

TReset(e) ==
  /\ sv' = [h \in 1..e.nh |-> <<>>] /\ grp' = [h \in 1..e.nh |-> h] /\ mem' = [h \in 1..e.nh |-> <<>>]
  /\ last' = [op |-> "init", nh |-> e.nh]

TCall(e) ==
  /\ (ReplyOK(e.a, e.r)) = TRUE
  /\ Step(e.a)
  /\ e.obs = sv'

TPure(e) == (PureOK(e.a, e.r)) = TRUE /\ UNCHANGED allvars

Consume ==
  /\ l <= Len(TraceLog) /\ l' = l + 1
  /\ LET e == TraceLog[l] IN
       CASE e.ev = "reset" -> TReset(e)
         [] e.ev = "call"  -> TCall(e)
         [] e.ev = "pure"  -> TPure(e)
         [] OTHER -> FALSE

TraceSpec == TraceInit /\ [][Consume]_tvars

ASSUME TLCSet(1, 0)
Mark == TLCSet(1, IF l > TLCGet(1) THEN l ELSE TLCGet(1))
Accepted == PrintT(<<"MARK", TLCGet(1), Len(TraceLog)>>) /\ TLCGet(1) = Len(TraceLog) + 1
=============================================================================
