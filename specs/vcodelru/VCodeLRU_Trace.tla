-------------------------- MODULE VCodeLRU_Trace --------------------------
(* Validates ndjson traces recorded from the real vcode.VCLogic (CacheSize below, at and above   *)
(* the number of active pairs) against the PROPERTY layer of VCodeLRU: C19's Legal + Ghost, the   *)
(* touch contract and the trim of the bounded store.  The mechanism variables stay untouched.     *)
(* Events:                                                                                        *)
(*   reset {mock,len,ttl,gap,win,maxCount,maxVerify,cache}   new VCLogic instance                 *)
(*   call  {a}   one SendSMSCode / VerifySMSCode call, reply inside a (shapes as in VCode_Trace)  *)
(* A trim is a step of its own (no event consumed): it is taken whenever the store is over size.  *)
EXTENDS VCodeLRU, Json, IOUtils

TraceLog == ndJsonDeserialize(IOEnv.VERIF_TRACE)

VARIABLES l
tvars == <<xall, l>>

TraceInit ==
  /\ l = 1
  /\ XInitWith([mock |-> FALSE, len |-> 0, ttl |-> TRUE, gap |-> TRUE, win |-> FALSE,
                maxCount |-> 0, maxVerify |-> 0], 0)

TReset(e) ==
  /\ cfg' = [mock |-> e.mock, len |-> e.len, ttl |-> e.ttl, gap |-> e.gap, win |-> e.win,
             maxCount |-> e.maxCount, maxVerify |-> e.maxVerify]
  /\ csize' = e.cache
  /\ gs' = <<>> /\ rec' = <<>> /\ ent' = <<>> /\ nh' = 0 /\ mord' = <<>> /\ last' = [op |-> "init"]

TCall(e) ==
  /\ XCall(e.a)
  /\ last' = e.a
  /\ UNCHANGED <<cfg, csize, ent, nh, mord>>

Consume ==
  /\ l <= Len(TraceLog) /\ l' = l + 1
  /\ LET e == TraceLog[l] IN
       CASE e.ev = "reset" -> TReset(e)
         [] e.ev = "call"  -> TCall(e)
         [] OTHER -> FALSE

(* a reset abandons the instance whatever its store looks like; otherwise the trim comes first *)
TraceNext ==
  \/ XTrim /\ l' = l
  \/ Consume

TraceSpec == TraceInit /\ [][TraceNext]_tvars

(* high-water mark of l in TLC register 1 (needs -workers 1) *)
ASSUME TLCSet(1, 0)
Mark == TLCSet(1, IF l > TLCGet(1) THEN l ELSE TLCGet(1))
Accepted == PrintT(<<"MARK", TLCGet(1), Len(TraceLog)>>) /\ TLCGet(1) = Len(TraceLog) + 1

TView == <<cfg, csize, gs, rec, l>>
=============================================================================
