SPECIFICATION XSpec
CONSTANTS
  Alpha <- Alpha2
  KeyMode = "dash"
  CountFirst = TRUE
  FixNonce = TRUE
  EvictMode = "lru"
  VerifyTouch = TRUE
  RefusedTouch = FALSE
  PairSet <- Pairs3
  CacheSet = {1, 2}
  LenSet = {1}
  MaxCountSet = {1}
  MaxVerifySet = {1, 2}
  MaxSends = 4
INVARIANTS XTypeOK StoreIsState XCoupled WindowBound
PROPERTIES VerifiesWhenDue RejectsUnlessDue LimitTruthful SendsBounded RefusalsJustified SendResets EvictedIsFresh FreshReplies RecentKept TrimIsolated TouchContract
CONSTRAINT XBound
VIEW XView
CHECK_DEADLOCK FALSE
