SPECIFICATION GenSpec
CONSTANTS
  Alpha <- Alpha3
  KeyMode = "dash"
  CountFirst = TRUE
  FixNonce = TRUE
  EvictMode = "lru"
  VerifyTouch = TRUE
  RefusedTouch = FALSE
  PairSet <- Pairs4
  CacheSet = {0, 1, 2, 3, 4}
  LenSet = {1, 2}
  MaxCountSet <- CountsX
  MaxVerifySet <- VerifiesX
  MaxSends = 100
  Depth = 24
INVARIANTS Emit
CHECK_DEADLOCK FALSE
