--------------------------- MODULE VCodeLRU_Gen ---------------------------
(* Plan generation: `tlc -simulate` walks the VCodeLRU design (mechanism + property layer) and   *)
(* writes the action records of each behaviour as one ndjson plan.  The harness uses only the     *)
(* external part of a record: op, p and - for verify - the references cref / href; the init       *)
(* record carries the regime and the cache size; "trim" records are the spec's own steps and are  *)
(* skipped.  Sends are weighted up so that the store overflows often.                             *)
EXTENDS VCodeLRU, TLCExt, Json, IOUtils
CONSTANT Depth
ASSUME TLCSet(2, 0)

GenPicks == {[i \in 1..cfg.len |-> Alpha[j]] : j \in 1..Len(Alpha)}
GenRefs == {<<"cur", "cur">>, <<"bad", "cur">>, <<"cur", "bad">>, <<"old", "old">>, <<"oth", "oth">>}
VARIABLE steps
GenNext ==
  \/ /\ steps < Depth - 2 /\ steps' = steps + 1
     /\ \E dummy \in {nh} :
          \/ XTrim
          \/ \E p \in PairSet :
               \/ \E pick \in GenPicks, w \in 1..2 : XStep(SendAct(p, pick) @@ [w |-> w])
               \/ \E rr \in GenRefs : \E w \in 1..(IF rr = <<"cur", "cur">> THEN 3 ELSE 1) :
                    XStep(VerifyAct(p, rr[1], rr[2]) @@ [w |-> w])
  \/ /\ steps = Depth - 2 /\ steps' = steps + 1
     /\ UNCHANGED xvars /\ last' = [op |-> "end"]
GenSpec == XInit /\ steps = 0 /\ [][GenNext]_<<xall, steps>>

Emit ==
  \/ TLCGet("level") < Depth
  \/ /\ TLCSet(2, TLCGet(2) + 1)
     /\ ndJsonSerialize(IOEnv.VERIF_PLANDIR \o "/p" \o ToString(TLCGet(2)) \o ".ndjson",
                        [i \in 1..Len(Trace) |-> Trace[i].last])
=============================================================================
