SPECIFICATION TraceSpec
CONSTANTS
  Alpha <- Digits
  KeyMode = "dash"
  CountFirst = TRUE
  FixNonce = TRUE
  EvictMode = "lru"
  VerifyTouch = TRUE
  RefusedTouch = FALSE
  PairSet = {}
  CacheSet = {}
  LenSet = {}
  MaxCountSet = {}
  MaxVerifySet = {}
  MaxSends = 0
INVARIANTS XTypeOK StoreIsState
CONSTRAINT Mark
POSTCONDITION Accepted
VIEW TView
CHECK_DEADLOCK FALSE
