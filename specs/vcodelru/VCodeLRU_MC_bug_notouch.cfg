SPECIFICATION XSpec
CONSTANTS
  Alpha <- Alpha2
  KeyMode = "dash"
  CountFirst = TRUE
  FixNonce = TRUE
  EvictMode = "lru"
  VerifyTouch = FALSE
  RefusedTouch = FALSE
  PairSet <- Pairs3
  CacheSet = {2}
  LenSet = {1}
  MaxCountSet = {1}
  MaxVerifySet = {2}
  MaxSends = 3
INVARIANTS XTypeOK StoreIsState
PROPERTIES VerifiesWhenDue
CONSTRAINT XBound
VIEW XView
CHECK_DEADLOCK FALSE
