SPECIFICATION XSpec
CONSTANTS
  Alpha <- Alpha2
  KeyMode = "dash"
  CountFirst = TRUE
  FixNonce = TRUE
  EvictMode = "mru"
  VerifyTouch = TRUE
  RefusedTouch = FALSE
  PairSet <- Pairs3
  CacheSet = {2}
  LenSet = {1}
  MaxCountSet = {1}
  MaxVerifySet = {1}
  MaxSends = 3
INVARIANTS XTypeOK StoreIsState
PROPERTIES VerifiesWhenDue
CONSTRAINT XBound
VIEW XView
CHECK_DEADLOCK FALSE
