------------------------------ MODULE VCodeLRU ------------------------------
(***************************************************************************)
(* The COMPOSITION vcode-over-an-evicting-cache (growth property X06).     *)
(*                                                                         *)
(* vcode keeps the state of an (area, phone) pair in neptune's LRU cache   *)
(* of Config.CacheSize entries.  C19 (VCode.tla) says what a reply must be *)
(* as long as nothing is evicted.  This module says what a caller can rely *)
(* on when CacheSize is smaller than the number of active pairs:           *)
(*                                                                         *)
(*  PROPERTY layer = VCode's property layer (gs, Legal, Ghost: used as     *)
(*      they are, by EXTENDS) + an abstract recency-ordered store `rec` of *)
(*      bounded size `csize` with the eviction rule of LRU.tla (L!NDrop,   *)
(*      L!Front by INSTANCE).  A step is the C19 step plus a touch; when   *)
(*      the store is over its size a TRIM step drops pairs from the cold   *)
(*      end and forgets their property state, so that Legal judges the     *)
(*      next call on an evicted pair exactly like a call on a pair that    *)
(*      was never sent to.                                                 *)
(*      The touch contract (read from vcode/vlogic.go): a send that put a  *)
(*      code in force and EVERY verification of a pair that has state      *)
(*      (right or wrong code, within or beyond the limit) make the pair    *)
(*      the most recent one; a refused send and a verification of a pair   *)
(*      without state touch nothing.                                       *)
(*                                                                         *)
(*  MECHANISM layer = VCode's entries `ent` (checkSend / checkVerify as    *)
(*      VCode.tla has them) in a key-ordered LRU `mord`; named deviations  *)
(*      EvictMode, VerifyTouch, RefusedTouch.  TLC shows that with the     *)
(*      code's values every reply is legal for the property layer and      *)
(*      finds the counterexamples otherwise.                               *)
(***************************************************************************)
EXTENDS VCode

CONSTANTS
  EvictMode,     \* "lru": the least recent entries go (the code); "mru": the most recent other ones
  VerifyTouch,   \* TRUE: a verification refreshes recency (the code: cacheM.Get)
  RefusedTouch,  \* FALSE: a refused send leaves recency alone (the code: cacheM.Peek, no Set)
  CacheSet       \* bounded instance: cache sizes

VARIABLES
  csize,   \* Config.CacheSize
  rec,     \* property layer: pairs with state, most recently touched first
  mord     \* mechanism: formatted keys in the LRU's list order, most recent first

xvars == <<vars, csize, rec, mord>>
xall  == <<xvars, last>>

SeqSet(s) == {s[i] : i \in 1..Len(s)}
Ones(s)   == [x \in SeqSet(s) |-> 1]            \* vCache.Size() = 1

(* neptune's LRU (specs/lru/LRU.tla): only its pure operators are used *)
L == INSTANCE LRU WITH order <- rec, val <- gs, sz <- Ones(rec), size <- Len(rec), cap <- csize,
                       evict <- 0, sized <- TRUE, last <- last,
                       KeySet <- {}, ValSet <- {}, SizeSet <- {}, CapSet <- {}

(* how many entries the eviction loop drops from the cold end of `s` *)
Drops(s) == L!NDrop(s, Ones(s), Len(s), csize)
Over     == Drops(rec) > 0

(* ----------------------------------------------------------------------- *)
(* PROPERTY layer                                                          *)
(* ----------------------------------------------------------------------- *)
Cached(p) == p \in SeqSet(rec)

(* the touch of one call, given the property state before and after it *)
TouchOf(a, g0, g1) ==
  CASE a.op = "send" ->
         IF a.r = "ok" THEN L!Front(rec, a.p)
         ELSE IF a.r = "gw"
         THEN \* a send whose delivery failed: whatever it left behind (Ghost) is the newest state
              IF g1 # g0 THEN L!Front(rec, a.p) ELSE rec
         ELSE rec
    [] a.op = "verify" -> IF a.p \in DOMAIN g0 THEN L!Front(rec, a.p) ELSE rec
    [] OTHER -> rec

(* one call: judged and booked by C19's property layer, plus the touch *)
XCall(a) ==
  /\ ~Over
  /\ Legal(a)
  /\ Ghost(a)
  /\ rec' = TouchOf(a, gs, gs')

(* the store is over its size: the cold end goes, and with it the state *)
XTrimProp ==
  /\ Over
  /\ LET keep == SubSeq(rec, 1, Len(rec) - Drops(rec)) IN
       /\ rec' = keep
       /\ gs' = [p \in SeqSet(keep) |-> gs[p]]

(* ----------------------------------------------------------------------- *)
(* MECHANISM layer: VCode's entries in an LRU of csize entries             *)
(* ----------------------------------------------------------------------- *)
MDrops(s) == L!NDrop(s, Ones(s), Len(s), csize)
MKeep(ord) ==
  LET n == MDrops(ord) IN
    IF EvictMode = "lru" THEN SubSeq(ord, 1, Len(ord) - n)
    ELSE IF n >= Len(ord) THEN <<>>
    ELSE <<ord[1]>> \o SubSeq(ord, n + 2, Len(ord))      \* deviation: the warm end goes

XMechSend(a) ==
  LET k == SendKey(a.p)
      c == EntOf(k)
  IN IF a.r = "ok"
     THEN LET ne   == Ext(ent, k, [sent |-> TRUE, code |-> a.code, hash |-> a.hash, vcnt |-> 0,
                                   scnt |-> (IF cfg.win THEN c.scnt ELSE 0) + 1])
              keep == MKeep(L!Front(mord, k))
          IN /\ mord' = keep
             /\ ent' = [x \in SeqSet(keep) |-> ne[x]]
             /\ nh' = nh + 1
     ELSE /\ mord' = IF RefusedTouch /\ k \in DOMAIN ent THEN L!Front(mord, k) ELSE mord
          /\ UNCHANGED <<ent, nh>>

XMechVerify(a) ==
  LET k == VerifyKey(a.p) IN
  /\ MechVerify(a)
  /\ mord' = IF VerifyTouch /\ k \in DOMAIN ent THEN L!Front(mord, k) ELSE mord

XMech(a) ==
  CASE a.op = "send"   -> XMechSend(a)
    [] a.op = "verify" -> XMechVerify(a)
    [] OTHER -> FALSE

(* the mechanism answers (SendAct / VerifyAct of VCode read `ent`), the property layer books *)
XStep(a) == ~Over /\ XMech(a) /\ Ghost(a) /\ rec' = TouchOf(a, gs, gs')
            /\ UNCHANGED <<cfg, csize>> /\ last' = a
XTrim    == XTrimProp /\ UNCHANGED <<cfg, csize, ent, nh, mord>> /\ last' = [op |-> "trim"]

---------------------------------------------------------------------------
(* Bounded instance *)
Pairs4 == Pairs3 \cup {P(<<50>>, <<51>>)}

XInitWith(c, cs) ==
  /\ cfg = c /\ gs = <<>> /\ ent = <<>> /\ nh = 0 /\ csize = cs /\ rec = <<>> /\ mord = <<>>
  /\ last = [op |-> "init", mock |-> c.mock, len |-> c.len, ttl |-> c.ttl, gap |-> c.gap,
             win |-> c.win, maxCount |-> c.maxCount, maxVerify |-> c.maxVerify, cache |-> cs]

XInit == \E m, t, g, w \in BOOLEAN, n \in LenSet, mc \in MaxCountSet, mv \in MaxVerifySet, cs \in CacheSet :
           XInitWith([mock |-> m, len |-> n, ttl |-> t, gap |-> g, win |-> w,
                      maxCount |-> mc, maxVerify |-> mv], cs)

XNext ==
  \/ XTrim
  \/ \E p \in PairSet :
       \/ \E pick \in Picks : XStep(SendAct(p, pick))
       \/ \E cref, href \in Refs : XStep(VerifyAct(p, cref, href))

XSpec == XInit /\ [][XNext]_xall

(* ------------------------------ properties ----------------------------- *)
XTypeOK == TypeOK /\ Len(rec) <= (IF csize < 0 THEN 0 ELSE csize) + 1

(* the pairs with property state are exactly the pairs in the store, each once *)
StoreIsState == DOMAIN gs = SeqSet(rec) /\ Cardinality(SeqSet(rec)) = Len(rec)

(* between calls the mechanism's LRU holds exactly the contract's pairs, in the contract's order, *)
(* and each entry is the C19 state of its pair                                                   *)
XCoupled ==
  ~Over => /\ mord = [i \in 1..Len(rec) |-> SendKey(rec[i])]
           /\ Coupled

(* P1 an evicted pair is a pair never sent to: a trim leaves no state behind for what it drops,  *)
(*    and the replies on such a pair are the ones of a fresh pair                                *)
EvictedIsFresh ==
  [][last'.op = "trim" => \A p \in SeqSet(rec) \ SeqSet(rec') : p \notin DOMAIN gs']_xall
FreshReplies ==
  [][LET a == last' IN (a.op \in {"send", "verify"} /\ ~Sent(a.p)) =>
        IF a.op = "verify" THEN a.r = "fail" /\ a.err = "noexist"
        ELSE a.r = "ok" \/ (cfg.win /\ cfg.maxCount <= 0)]_xall

(* P2 a pair among the csize most recently touched never loses its state: a trim only drops      *)
(*    pairs behind position csize                                                                *)
RecentKept ==
  [][last'.op = "trim" =>
       \A i \in 1..Len(rec) : i <= csize => (i <= Len(rec') /\ rec'[i] = rec[i])]_xall

(* P4 eviction of one pair never changes anything for a pair still cached *)
TrimIsolated ==
  [][last'.op = "trim" => \A p \in SeqSet(rec') : gs'[p] = gs[p]]_xall

(* P3 the touch contract, as the mechanism realises it: after every call the called pair is the  *)
(*    most recent one iff the call was a send that went out or a verification of a pair with     *)
(*    state; all other pairs keep their relative order                                           *)
TouchContract ==
  [][LET a == last' IN a.op \in {"send", "verify"} =>
        LET k == SendKey(a.p)
            touched == IF a.op = "send" THEN a.r = "ok" ELSE k \in DOMAIN ent
        IN IF touched THEN mord' # <<>> => mord'[1] = k
           ELSE mord' = mord]_xall

XBound == nh <= MaxSends
XView == xvars
=============================================================================
