SPECIFICATION XSpec
CONSTANTS
  Alpha <- Alpha2
  KeyMode = "dash"
  CountFirst = TRUE
  FixNonce = TRUE
  EvictMode = "lru"
  VerifyTouch = TRUE
  RefusedTouch = TRUE
  PairSet <- Pairs3
  CacheSet = {2}
  LenSet = {1}
  MaxCountSet = {1}
  MaxVerifySet = {1}
  MaxSends = 3
INVARIANTS XTypeOK StoreIsState
PROPERTIES RefusalsJustified
CONSTRAINT XBound
VIEW XView
CHECK_DEADLOCK FALSE
