SPECIFICATION WSpec
CONSTANTS
  Deviation = "none"
  Kinds = {"q", "async", "mux", "mq", "syncq"}
  Caps = {0, 1}
  MaxItems = 4
  Cons = {1, 2, 3}
INVARIANTS TypeOK WTypeOK Conservation LanesSorted ClearedIsFinal NoStranded NothingLeftBeside
VIEW WView
CHECK_DEADLOCK FALSE
