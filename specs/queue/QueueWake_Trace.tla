-------------------------- MODULE QueueWake_Trace --------------------------
(* Validates step-by-step executions of the real list queues with blocking *)
(* consumers.  The harness issues ONE call, waits for global quiescence    *)
(* (internal/qx) and logs what every consumer goroutine is doing:          *)
(*   reset  {kind, ccap, rcap}                                             *)
(*   step   {a, r, st}    a: the call (a pop carries the consumer c), r:   *)
(*                        its reply (external calls), st[c] = {s, r}:      *)
(*                        s = "ret" (c's Pop returned r during this step), *)
(*                        "parked" (blocked inside Pop) or "idle"; a burst *)
(*                        step carries a.acts (calls issued back to back   *)
(*                        by one goroutine) and their replies rs; a race   *)
(*                        step carries a.acts issued by several goroutines *)
(*                        released together (applied in any order)         *)
(*   stress {...}         summary of a free-running producers / consumers  *)
(*                        / closer run, judged at its quiescent end        *)
(* One step = the external action, then as many Wake steps as it takes to  *)
(* reach a stable state; TLC searches which notified consumer ran first.   *)
(* The stable picture must match: who returned with what, who sleeps.      *)
EXTENDS QueueWake, Json, IOUtils

TraceLog == ndJsonDeserialize(IOEnv.VERIF_TRACE)

VARIABLES l, phase, rets,
          bi,     \* burst step: index of the next call of the burst (0: not in a burst)
          pend,   \* race step: indices of the calls not yet applied
          prets   \* producers whose AddAnyway returned during this step
tvars == <<allwvars, l, phase, rets, bi, pend, prets>>

TraceInit == l = 1 /\ phase = "ready" /\ rets = {} /\ bi = 0 /\ pend = {} /\ prets = {} /\ WInitWith("q", 0, 0)

(* an AddAnyway issued on producer goroutine p ("paddw"): it may stay inside the call *)
AsAddw(x) == [op |-> "addw", lane |-> x.lane, v |-> x.v, val |-> x.val]
ProdStep(x) == ProdCall(x.p, AsAddw(x)) /\ prets' = (IF pst'[x.p] = "idle" THEN prets \cup {x.p} ELSE prets)

TReset(e) ==
  /\ phase = "ready"
  /\ kind' = e.kind /\ ccap' = e.ccap /\ rcap' = e.rcap
  /\ ctrl' = <<>> /\ req' = <<>> /\ closed' = FALSE /\ cleared' = FALSE
  /\ seq' = 0 /\ hist' = <<>> /\ out' = <<>>
  /\ cst' = [c \in Cons |-> "idle"] /\ cany' = [c \in Cons |-> FALSE]
  /\ cres' = [c \in Cons |-> R("none", 0)]
  /\ pst' = [p \in Prods |-> "idle"] /\ preq' = [p \in Prods |-> NoAdd]
  /\ pres' = [p \in Prods |-> R("none", 0)]
  /\ last' = [a |-> [op |-> "init"], r |-> Ok]
  /\ l' = l + 1 /\ UNCHANGED <<phase, rets, bi, pend, prets>>

(* the call of the step *)
TBegin(e) ==
  /\ phase = "ready" /\ phase' = "settle" /\ l' = l
  /\ CASE e.a.op = "pop" ->
             /\ PopCall(e.a.c, e.a.any)
             /\ rets' = (IF cst'[e.a.c] = "idle" THEN {e.a.c} ELSE {})
             /\ bi' = 0 /\ pend' = {} /\ prets' = {}
        [] e.a.op = "paddw" ->
             /\ ProdStep(e.a)
             /\ rets' = {} /\ bi' = 0 /\ pend' = {}
        [] e.a.op = "burst" ->       \* nothing has happened yet; the calls follow one by one
             /\ rets' = {} /\ bi' = 1 /\ pend' = {} /\ prets' = {} /\ UNCHANGED allwvars
        [] e.a.op = "race" ->        \* nothing has happened yet; the calls follow in any order
             /\ rets' = {} /\ bi' = 0 /\ pend' = 1..Len(e.a.acts) /\ prets' = {} /\ UNCHANGED allwvars
        [] OTHER ->
             /\ External(e.a, e.r)
             /\ rets' = {} /\ bi' = 0 /\ pend' = {} /\ prets' = {}

(* a burst: one goroutine issues the calls e.a.acts back to back, without waiting for *)
(* quiescence in between; notified consumers may run between any two of them          *)
TBurst(e) ==
  /\ phase = "settle" /\ e.a.op = "burst" /\ bi \in 1..Len(e.a.acts)
  /\ IF e.a.acts[bi].op = "pop"       \* a Pop inside the burst (issued where it cannot block): it returns at once
     THEN /\ PopCall(e.a.c, e.a.acts[bi].any)
          /\ cst'[e.a.c] = "idle" /\ e.rs[bi] = cres'[e.a.c]
     ELSE External(e.a.acts[bi], e.rs[bi])
  /\ bi' = bi + 1
  /\ UNCHANGED <<l, phase, rets, pend, prets>>

(* a race: the calls e.a.acts (Pops of distinct consumers, adds, close ...) are issued by *)
(* different goroutines released together; every call is one mutex hold, so what happened *)
(* is SOME order of them, with notified consumers running in between: TLC searches it     *)
TRace(e) ==
  /\ phase = "settle" /\ e.a.op = "race"
  /\ \E i \in pend :
       /\ CASE e.a.acts[i].op = "pop" ->
               /\ PopCall(e.a.acts[i].c, e.a.acts[i].any)
               /\ rets' = (IF cst'[e.a.acts[i].c] = "idle" THEN rets \cup {e.a.acts[i].c} ELSE rets)
               /\ prets' = prets
            [] e.a.acts[i].op = "paddw" ->
               /\ ProdStep(e.a.acts[i]) /\ rets' = rets
            [] OTHER ->
               /\ External(e.a.acts[i], e.rs[i])
               /\ rets' = rets /\ prets' = prets
       /\ pend' = pend \ {i}
  /\ UNCHANGED <<l, phase, bi>>

(* notified consumers run, in any order *)
TWake ==
  /\ phase = "settle"
  /\ \/ \E c \in Cons : /\ Wake(c)
                         /\ rets' = (IF cst'[c] = "idle" THEN rets \cup {c} ELSE rets)
                         /\ prets' = prets
     \/ \E p \in Prods : ProdRetry(p) /\ prets' = prets \cup {p} /\ rets' = rets   \* a blocked producer gets on
  /\ UNCHANGED <<l, phase, bi, pend>>

(* quiescence: the logged picture is the stable state *)
TEnd(e) ==
  /\ phase = "settle" /\ Stable
  /\ (e.a.op = "burst" => bi = Len(e.a.acts) + 1)
  /\ pend = {}
  /\ \A p \in Prods :
        IF p \in prets THEN e.pt[p].s = "ret" /\ e.pt[p].r = pres[p]
                       ELSE e.pt[p].s = pst[p]
  /\ \A c \in Cons :
        IF c \in rets THEN e.st[c].s = "ret" /\ e.st[c].r = cres[c]
                      ELSE e.st[c].s = cst[c]
  /\ phase' = "ready" /\ rets' = {} /\ bi' = 0 /\ pend' = {} /\ prets' = {} /\ l' = l + 1
  /\ UNCHANGED allwvars

(* free-running stress, judged at its quiescent end: every consumer returned *)
(* (close releases all of them), and the items handed out plus the residue   *)
(* of the closed queue are exactly the accepted ones, once each              *)
StressOK(e) ==
  LET all == e.got \o e.residue
      S   == {all[i] : i \in 1..Len(all)}
  IN /\ e.stuck = 0
     /\ Cardinality(S) = Len(all)                                   \* nothing handed out twice
     /\ S = {e.accepted[i] : i \in 1..Len(e.accepted)}              \* nothing lost, nothing invented
TStress(e) ==
  /\ phase = "ready"
  /\ IF StressOK(e) THEN TRUE ELSE FALSE      \* (IF: evaluated as a plain state predicate)
  /\ l' = l + 1 /\ UNCHANGED <<allwvars, phase, rets, bi, pend, prets>>

TraceNext ==
  \/ /\ l <= Len(TraceLog)
     /\ LET e == TraceLog[l] IN
          CASE e.ev = "reset"  -> TReset(e)
            [] e.ev = "step"   -> TBegin(e) \/ TBurst(e) \/ TRace(e) \/ TEnd(e)
            [] e.ev = "stress" -> TStress(e)
            [] OTHER -> FALSE
  \/ TWake

TraceSpec == TraceInit /\ [][TraceNext]_tvars

ASSUME TLCSet(1, 0)
Mark == TLCSet(1, IF l > TLCGet(1) THEN l ELSE TLCGet(1))
Accepted == PrintT(<<"MARK", TLCGet(1), Len(TraceLog)>>) /\ TLCGet(1) = Len(TraceLog) + 1
=============================================================================
