SPECIFICATION GenSpec
CONSTANTS
  Deviation = "none"
  Kinds = {"q", "async", "mux", "mq", "syncq"}
  Caps = {0, 1, 2}
  MaxItems = 8
  Cons = {1, 2, 3, 4}
  Prods = {1, 2, 3}
  Depth = 18
INVARIANTS Emit
CHECK_DEADLOCK FALSE
