SPECIFICATION WFairSpec
CONSTANTS
  Deviation = "none"
  Kinds = {"async", "syncq"}
  Caps = {0}
  MaxItems = 2
  Cons = {1, 2}
  Prods = {1}
PROPERTIES CloseReleases ItemsDelivered
CHECK_DEADLOCK FALSE
