SPECIFICATION Spec
CONSTANTS
  Procs = {1, 2, 3, 4}
  WDeviation = "none"
  WCaps = {1, 2, 3}
INVARIANTS TypeOK WakeInv
VIEW WView
CHECK_DEADLOCK FALSE
