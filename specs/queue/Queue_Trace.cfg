SPECIFICATION TraceSpec
CONSTANTS
  Deviation = "none"
  Kinds = {}
  Caps = {}
  MaxItems = 0
INVARIANTS TypeOK Conservation LanesSorted ClearedIsFinal
CONSTRAINT Mark
POSTCONDITION Accepted
CHECK_DEADLOCK FALSE
