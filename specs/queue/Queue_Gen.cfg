SPECIFICATION Spec
CONSTANTS
  Deviation = "none"
  Kinds = {"q", "async", "mux", "mq", "syncq"}
  Caps = {0, 1, 2, 3}
  MaxItems = 14
  Depth = 22
INVARIANTS Emit
CHECK_DEADLOCK FALSE
