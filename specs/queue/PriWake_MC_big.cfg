SPECIFICATION Spec
CONSTANTS
  Procs = {1, 2, 3, 4, 5, 6}
  WDeviation = "none"
  WCaps = {1, 2, 3, 4}
INVARIANTS TypeOK WakeInv
VIEW WView
CHECK_DEADLOCK FALSE
