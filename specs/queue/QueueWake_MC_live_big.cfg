SPECIFICATION WFairSpec
CONSTANTS
  Deviation = "none"
  Kinds = {"async", "mq", "syncq"}
  Caps = {0}
  MaxItems = 2
  Cons = {1, 2, 3}
  Prods = {1, 2}
PROPERTIES CloseReleases ItemsDelivered
CHECK_DEADLOCK FALSE
