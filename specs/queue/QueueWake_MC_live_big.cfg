SPECIFICATION WFairSpec
CONSTANTS
  Deviation = "none"
  Kinds = {"async", "mq", "syncq"}
  Caps = {0}
  MaxItems = 2
  Cons = {1, 2, 3}
PROPERTIES CloseReleases ItemsDelivered
CHECK_DEADLOCK FALSE
