SPECIFICATION WSpec
CONSTANTS
  Deviation = "signal_if_first"
  Kinds = {"syncq"}
  Caps = {0, 1}
  MaxItems = 2
  Cons = {1, 2, 3}
  Prods = {1, 2}
INVARIANTS TypeOK WTypeOK Conservation LanesSorted ClearedIsFinal NoStranded NoStrandedProducer NothingLeftBeside
VIEW WView
CHECK_DEADLOCK FALSE
