---------------------------- MODULE PriWake_Gen ----------------------------
(* Plan generation for C13 (priq): `tlc -simulate` walks PriWake.tla; every *)
(* action is a plan step (calls, gate releases, token receives).           *)
EXTENDS PriWake, TLCExt, Json, IOUtils
CONSTANT Depth
(* one file per simulated behaviour: TLC evaluates the invariant on every candidate successor at *)
(* the last level; only the first candidate of a behaviour id is written                       *)
ASSUME TLCSet(2, 0)
BehaviourId == TLCGet("stats").behavior.id
Emit ==
  \/ TLCGet("level") < Depth
  \/ TLCGet(2) = BehaviourId
  \/ /\ TLCSet(2, BehaviourId)
     /\ ndJsonSerialize(IOEnv.VERIF_PLANDIR \o "/p" \o ToString(BehaviourId) \o ".ndjson",
                        [i \in 1..Len(Trace) |-> Trace[i].last])
=============================================================================
