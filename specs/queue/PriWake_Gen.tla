---------------------------- MODULE PriWake_Gen ----------------------------
(* Plan generation for C13 (priq): `tlc -simulate` walks PriWake.tla; every *)
(* action is a plan step (calls, gate releases, token receives).           *)
EXTENDS PriWake, TLCExt, Json, IOUtils
CONSTANT Depth
ASSUME TLCSet(2, 0)
Emit ==
  \/ TLCGet("level") < Depth
  \/ /\ TLCSet(2, TLCGet(2) + 1)
     /\ ndJsonSerialize(IOEnv.VERIF_PLANDIR \o "/p" \o ToString(TLCGet(2)) \o ".ndjson",
                        [i \in 1..Len(Trace) |-> Trace[i].last])
=============================================================================
