--------------------------- MODULE PriWake_Trace ---------------------------
(* Validates step-by-step executions of the real priq.PriQueue with its    *)
(* two gate hooks.  Every step is one action of PriWake.tla followed by    *)
(* global quiescence; it carries what the real queue shows:                *)
(*   reset   {rcap}                                                        *)
(*   step    {a, r, sig, len, st}   sig = len(WaitCh()), len = Len(),      *)
(*                                  st[p] = "idle" | "gate"                *)
(*   step    {a: race, rs, ...}     a.acts issued together by distinct     *)
(*                                  goroutines, rs their replies           *)
(*   pstress {left, sig, ...}       quiescent end of a free-running run:   *)
(*                                  all consumers asleep on the channel    *)
(* WakeInv is checked by TLC on every state the real queue went through.   *)
EXTENDS PriWake, Json, IOUtils

TraceLog == ndJsonDeserialize(IOEnv.VERIF_TRACE)

VARIABLES l,
          pend,    \* race step: indices of the calls whose first half has not happened yet
          racing   \* race step: the procs of the step (they run without gates)
tvars == <<allwvars, l, pend, racing>>

Status(s) == IF s = "idle" THEN "idle" ELSE "gate"

TraceInit == l = 1 /\ pend = {} /\ racing = {} /\ InitWith(0)

TReset(e) ==
  /\ wcap' = e.rcap /\ n' = 0 /\ sig' = 0
  /\ pst' = [p \in Procs |-> "idle"] /\ tok' = [p \in Procs |-> FALSE]
  /\ last' = [a |-> [op |-> "init"], r |-> R("ok", 0)]

TStep(e) ==
  /\ Step(e.a, e.r)
  /\ e.sig = sig' /\ e.len = n'
  /\ \A p \in Procs : e.st[p] = Status(pst'[p])

(* quiescent end of a stress run: nobody is inside a call, every consumer has *)
(* followed its tokens by a Pop and sleeps on the channel: WakeInv            *)
TStress(e) ==
  /\ e.stuck = 0                      \* every producer / poller came back
  /\ e.left > 0 => e.sig = 1
  /\ e.got + e.left = e.accepted
  /\ UNCHANGED allwvars

(* A race step: the calls e.a.acts (pushx / popx / len / recv by distinct procs) are issued by  *)
(* goroutines released together, gates open.  A Push or Pop is two halves (mutex hold, then    *)
(* signal); what happened is SOME interleaving of the halves: TLC searches it.                 *)
Half(x) == CASE x.op = "pushx" -> [op |-> "push", p |-> x.p]
             [] x.op = "popx"  -> [op |-> "pop", p |-> x.p]
             [] OTHER          -> x
(* the reply of the whole call, given the reply of its first half *)
Whole(x, fr) == CASE x.op = "pushx" -> IF fr.st = "full" THEN fr ELSE R("ok", 0)
                  [] x.op = "popx"  -> IF fr.st = "empty" THEN fr ELSE R("item", 0)
                  [] OTHER          -> fr
Idx(e) == 1..Len(e.a.acts)

TRaceBegin(e) ==
  /\ pend = {} /\ racing = {}
  /\ pend' = Idx(e) /\ racing' = {e.a.acts[i].p : i \in Idx(e)}
  /\ UNCHANGED <<allwvars, l>>
TRaceHalf(e) ==
  /\ racing # {}
  /\ \E i \in pend : \E fr \in Replies(Half(e.a.acts[i])) :
       /\ e.rs[i] = Whole(e.a.acts[i], fr)
       /\ Step(Half(e.a.acts[i]), fr)
       /\ pend' = pend \ {i}
  /\ UNCHANGED <<l, racing>>
TRaceSignal ==
  /\ \E p \in racing : pst[p] # "idle" /\ \E r \in Replies([op |-> "gate", p |-> p]) : Step([op |-> "gate", p |-> p], r)
  /\ UNCHANGED <<l, pend, racing>>
TRaceEnd(e) ==
  /\ racing # {} /\ pend = {} /\ \A p \in racing : pst[p] = "idle"
  /\ e.sig = sig /\ e.len = n
  /\ \A p \in Procs : e.st[p] = Status(pst[p])
  /\ pend' = {} /\ racing' = {} /\ l' = l + 1
  /\ UNCHANGED allwvars

TraceNext ==
  \/ /\ l <= Len(TraceLog)
     /\ LET e == TraceLog[l] IN
          IF e.ev = "step" /\ e.a.op = "race"
          THEN TRaceBegin(e) \/ TRaceHalf(e) \/ TRaceEnd(e)
          ELSE /\ l' = l + 1 /\ UNCHANGED <<pend, racing>>
               /\ CASE e.ev = "reset"   -> TReset(e)
                    [] e.ev = "step"    -> TStep(e)
                    [] e.ev = "pstress" -> TStress(e)
                    [] OTHER -> FALSE
  \/ TRaceSignal

TraceSpec == TraceInit /\ [][TraceNext]_tvars

ASSUME TLCSet(1, 0)
Mark == TLCSet(1, IF l > TLCGet(1) THEN l ELSE TLCGet(1))
Accepted == PrintT(<<"MARK", TLCGet(1), Len(TraceLog)>>) /\ TLCGet(1) = Len(TraceLog) + 1
=============================================================================
