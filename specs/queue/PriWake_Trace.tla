--------------------------- MODULE PriWake_Trace ---------------------------
(* Validates step-by-step executions of the real priq.PriQueue with its    *)
(* two gate hooks.  Every step is one action of PriWake.tla followed by    *)
(* global quiescence; it carries what the real queue shows:                *)
(*   reset   {rcap}                                                        *)
(*   step    {a, r, sig, len, st}   sig = len(WaitCh()), len = Len(),      *)
(*                                  st[p] = "idle" | "gate"                *)
(*   pstress {left, sig, ...}       quiescent end of a free-running run:   *)
(*                                  all consumers asleep on the channel    *)
(* WakeInv is checked by TLC on every state the real queue went through.   *)
EXTENDS PriWake, Json, IOUtils

TraceLog == ndJsonDeserialize(IOEnv.VERIF_TRACE)

VARIABLES l
tvars == <<allwvars, l>>

Status(s) == IF s = "idle" THEN "idle" ELSE "gate"

TraceInit == l = 1 /\ InitWith(0)

TReset(e) ==
  /\ wcap' = e.rcap /\ n' = 0 /\ sig' = 0
  /\ pst' = [p \in Procs |-> "idle"] /\ tok' = [p \in Procs |-> FALSE]
  /\ last' = [a |-> [op |-> "init"], r |-> R("ok", 0)]

TStep(e) ==
  /\ Step(e.a, e.r)
  /\ e.sig = sig' /\ e.len = n'
  /\ \A p \in Procs : e.st[p] = Status(pst'[p])

(* quiescent end of a stress run: nobody is inside a call, every consumer has *)
(* followed its tokens by a Pop and sleeps on the channel: WakeInv            *)
TStress(e) ==
  /\ e.left > 0 => e.sig = 1
  /\ e.got + e.left = e.accepted
  /\ UNCHANGED allwvars

TraceNext ==
  /\ l <= Len(TraceLog) /\ l' = l + 1
  /\ LET e == TraceLog[l] IN
       CASE e.ev = "reset"   -> TReset(e)
         [] e.ev = "step"    -> TStep(e)
         [] e.ev = "pstress" -> TStress(e)
         [] OTHER -> FALSE

TraceSpec == TraceInit /\ [][TraceNext]_tvars

ASSUME TLCSet(1, 0)
Mark == TLCSet(1, IF l > TLCGet(1) THEN l ELSE TLCGet(1))
Accepted == PrintT(<<"MARK", TLCGet(1), Len(TraceLog)>>) /\ TLCGet(1) = Len(TraceLog) + 1
=============================================================================
