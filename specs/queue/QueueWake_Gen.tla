--------------------------- MODULE QueueWake_Gen ---------------------------
(* Plan generation for C13: `tlc -simulate` walks GenSpec of QueueWake     *)
(* (external calls only in stable states).  The plan lists the external    *)
(* calls; "wake" lines are internal and skipped by the executor.           *)
EXTENDS QueueWake, TLCExt, Json, IOUtils
CONSTANT Depth
ASSUME TLCSet(2, 0)
Emit ==
  \/ TLCGet("level") < Depth
  \/ /\ TLCSet(2, TLCGet(2) + 1)
     /\ ndJsonSerialize(IOEnv.VERIF_PLANDIR \o "/p" \o ToString(TLCGet(2)) \o ".ndjson",
                        [i \in 1..Len(Trace) |-> Trace[i].last])
=============================================================================
