SPECIFICATION TraceSpec
CONSTANTS
  PDeviation = "none"
  PCaps = {}
  Prios = {}
  PMaxItems = 0
INVARIANTS TypeOK Conservation CapBound
CONSTRAINT Mark
POSTCONDITION Accepted
CHECK_DEADLOCK FALSE
