SPECIFICATION TraceSpec
CONSTANTS
  Deviation = "none"
  Kinds = {}
  Caps = {}
  MaxItems = 0
  Cons = {1, 2, 3, 4}
  Prods = {1, 2, 3}
INVARIANTS TypeOK WTypeOK Conservation LanesSorted ClearedIsFinal NoStranded NoStrandedProducer NothingLeftBeside
CONSTRAINT Mark
POSTCONDITION Accepted
CHECK_DEADLOCK FALSE
