SPECIFICATION Spec
CONSTANTS
  Deviation = "none"
  Kinds = {"q", "async", "mux", "mq", "syncq"}
  Caps = {0, 1, 2, 3}
  MaxItems = 5
INVARIANTS TypeOK Conservation LanesSorted ClearedIsFinal
PROPERTIES Order Capacity CloseSem ReadOnly
VIEW QView
CHECK_DEADLOCK FALSE
