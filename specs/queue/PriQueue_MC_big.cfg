SPECIFICATION Spec
CONSTANTS
  PDeviation = "none"
  PCaps = {0, 1, 2, 4, 7}
  Prios = {1, 2, 3}
  PMaxItems = 8
INVARIANTS TypeOK Conservation CapBound
PROPERTIES PopOrder PushSem
VIEW PView
CHECK_DEADLOCK FALSE
