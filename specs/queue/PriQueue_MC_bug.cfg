SPECIFICATION Spec
CONSTANTS
  PDeviation = "no_seq"
  PCaps = {0, 1, 3, 5}
  Prios = {1, 2, 3}
  PMaxItems = 6
INVARIANTS TypeOK Conservation CapBound
PROPERTIES PopOrder PushSem
VIEW PView
CHECK_DEADLOCK FALSE
