SPECIFICATION Spec
CONSTANTS
  Procs = {1, 2, 3, 4}
  WDeviation = "none"
  WCaps = {1, 2, 3, 5}
  Depth = 22
INVARIANTS Emit
CHECK_DEADLOCK FALSE
