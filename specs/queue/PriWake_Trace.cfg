SPECIFICATION TraceSpec
CONSTANTS
  Procs = {1, 2, 3, 4}
  WDeviation = "none"
  WCaps = {}
INVARIANTS TypeOK WakeInv
CONSTRAINT Mark
POSTCONDITION Accepted
CHECK_DEADLOCK FALSE
