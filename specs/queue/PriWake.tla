------------------------------ MODULE PriWake ------------------------------
(***************************************************************************)
(* queue/priq.PriQueue and its wait channel (C13).  The queue never blocks *)
(* in Pop; consumers select on WaitCh() - a channel with a buffer of one   *)
(* token - and then Pop.  The code signals *after* unlocking, so a Push    *)
(* and a Pop have two halves:                                              *)
(*   push  (PushAdd)     under the mutex: refuse when full, else add       *)
(*   gate  (PushSignal)  non-blocking send of a token                      *)
(*   pop   (PopRemove)   under the mutex: nothing when empty, else remove; *)
(*                       a second half follows only when items remain      *)
(*   gate  (PopSignal)   non-blocking send of a token                      *)
(*   recv                a consumer takes the token (non-blocking here)    *)
(* pushx / popx are the two halves back to back (no gate); pushn / popn are *)
(* k such calls issued back to back by one goroutine (a burst); gateall     *)
(* releases every call standing at a gate at once (their signals commute);  *)
(* len is Len() (one mutex hold, changes nothing).                          *)
(* Only the length matters for wake-ups; the order of items is C12.        *)
(*                                                                         *)
(* WakeInv is the property as stated: whenever the queue is non-empty, no  *)
(* Push or Pop is between its halves and no consumer holds a token it has  *)
(* not yet followed by a Pop, the channel holds a token.                   *)
(***************************************************************************)
EXTENDS Integers, Sequences, FiniteSets, TLC

CONSTANTS Procs,
          WDeviation   \* "none" | "no_resignal" (Pop never signals) | "signal_if_empty" (Push
                       \*  signals only when the queue was empty before)

VARIABLES
  wcap,   \* configuration: capacity
  n,      \* number of entries
  sig,    \* tokens in the wait channel: 0 or 1
  pst,    \* proc -> "idle" | "pushsig" | "popsig"   (between the halves of a call)
  tok,    \* proc -> holds a token it has not yet followed by a Pop
  last

wvars == <<wcap, n, sig, pst, tok>>
allwvars == <<wvars, last>>

R(st, v) == [st |-> st, v |-> v]

S == [n |-> n, sig |-> sig, pst |-> pst, tok |-> tok]
Install(t) == n' = t.n /\ sig' = t.sig /\ pst' = t.pst /\ tok' = t.tok /\ UNCHANGED wcap

PushSignals(s) == CASE WDeviation = "signal_if_empty" -> s.n = 1      \* after the add
                    [] OTHER -> TRUE

(* first halves: state after, and whether a second half follows *)
PushAddF(s, p) ==
  IF s.n >= wcap THEN s
  ELSE [s EXCEPT !.n = s.n + 1, !.pst[p] = "pushsig"]
PopRemoveF(s, p) ==
  LET t == [s EXCEPT !.tok[p] = FALSE] IN
  IF s.n = 0 THEN t
  ELSE IF s.n - 1 > 0 /\ WDeviation # "no_resignal"
       THEN [t EXCEPT !.n = s.n - 1, !.pst[p] = "popsig"]
       ELSE [t EXCEPT !.n = s.n - 1]
(* second half *)
SignalF(s, p) ==
  [s EXCEPT !.sig = IF s.pst[p] = "pushsig" /\ ~PushSignals(s) THEN s.sig ELSE 1, !.pst[p] = "idle"]
Through(s, p) == IF s.pst[p] = "idle" THEN s ELSE SignalF(s, p)

(* bursts as function composition *)
RECURSIVE PushN(_, _, _)
PushN(s, p, k) == IF k = 0 THEN s ELSE PushN(Through(PushAddF(s, p), p), p, k - 1)
RECURSIVE PopN(_, _, _)
PopN(s, p, k) == IF k = 0 THEN s ELSE PopN(Through(PopRemoveF(s, p), p), p, k - 1)
AtGate(s) == {p \in Procs : s.pst[p] # "idle"}
RECURSIVE GateAll(_)
GateAll(s) == IF AtGate(s) = {} THEN s ELSE GateAll(SignalF(s, CHOOSE p \in AtGate(s) : TRUE))
MinOf(x, y) == IF x < y THEN x ELSE y

Replies(a) ==
  CASE a.op = "push"  -> IF n >= wcap THEN {R("full", 0)} ELSE {R("gate", 0)}
    [] a.op = "pushx" -> IF n >= wcap THEN {R("full", 0)} ELSE {R("ok", 0)}
    [] a.op = "pop"   -> IF n = 0 THEN {R("empty", 0)}
                         ELSE IF PopRemoveF(S, a.p).pst[a.p] = "popsig" THEN {R("gate", 0)} ELSE {R("item", 0)}
    [] a.op = "popx"  -> IF n = 0 THEN {R("empty", 0)} ELSE {R("item", 0)}
    [] a.op = "gate"  -> IF pst[a.p] = "pushsig" THEN {R("ok", 0)} ELSE {R("item", 0)}
    [] a.op = "recv"  -> IF sig = 1 THEN {R("true", 0)} ELSE {R("false", 0)}
    [] a.op = "pushn" -> {R("ok", IF wcap <= n THEN 0 ELSE MinOf(a.k, wcap - n))}         \* v: how many were accepted
    [] a.op = "popn"  -> {R("item", MinOf(a.k, n))}              \* v: how many items came out
    [] a.op = "gateall" -> {R("ok", Cardinality(AtGate(S)))}
    [] a.op = "len"   -> {R("len", n)}
    [] OTHER -> {}

Do(a) ==
  CASE a.op = "push"  -> pst[a.p] = "idle" /\ Install(PushAddF(S, a.p))
    [] a.op = "pushx" -> pst[a.p] = "idle" /\ Install(Through(PushAddF(S, a.p), a.p))
    [] a.op = "pop"   -> pst[a.p] = "idle" /\ Install(PopRemoveF(S, a.p))
    [] a.op = "popx"  -> pst[a.p] = "idle" /\ Install(Through(PopRemoveF(S, a.p), a.p))
    [] a.op = "gate"  -> pst[a.p] # "idle" /\ Install(SignalF(S, a.p))
    [] a.op = "pushn" -> pst[a.p] = "idle" /\ Install(PushN(S, a.p, a.k))
    [] a.op = "popn"  -> pst[a.p] = "idle" /\ Install(PopN(S, a.p, a.k))
    [] a.op = "gateall" -> Install(GateAll(S))
    [] a.op = "len"   -> pst[a.p] = "idle" /\ UNCHANGED wvars
    [] a.op = "recv"  -> /\ pst[a.p] = "idle"
                         /\ IF sig = 1 THEN Install([S EXCEPT !.sig = 0, !.tok[a.p] = TRUE])
                                       ELSE UNCHANGED wvars
    [] OTHER -> FALSE

Step(a, r) == r \in Replies(a) /\ Do(a) /\ last' = [a |-> a, r |-> r]

InitWith(c) ==
  /\ wcap = c /\ n = 0 /\ sig = 0
  /\ pst = [p \in Procs |-> "idle"] /\ tok = [p \in Procs |-> FALSE]
  /\ last = [a |-> [op |-> "init", kind |-> "priq", ccap |-> 0, rcap |-> c], r |-> R("ok", 0)]

---------------------------------------------------------------------------
CONSTANT WCaps
Acts == [op : {"push", "pushx", "pop", "popx", "gate", "recv"}, p : Procs]
   \cup [op : {"pushn", "popn"}, p : Procs, k : {2, 3}]
   \cup [op : {"gateall"}] \cup [op : {"len"}, p : Procs]
Init == \E c \in WCaps : InitWith(c)
Next == \E a \in Acts : \E r \in Replies(a) : Step(a, r)
Spec == Init /\ [][Next]_allwvars

TypeOK ==
  /\ n >= 0 /\ (n > 0 => n <= wcap) /\ sig \in {0, 1}
  /\ \A p \in Procs : pst[p] \in {"idle", "pushsig", "popsig"} /\ tok[p] \in BOOLEAN

Quiet == (\A p \in Procs : pst[p] = "idle") /\ (\A p \in Procs : ~tok[p])
WakeInv == (n > 0 /\ Quiet) => sig = 1

WView == wvars
=============================================================================
