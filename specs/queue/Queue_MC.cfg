SPECIFICATION Spec
CONSTANTS
  Deviation = "none"
  Kinds = {"async", "mq", "syncq"}
  Caps = {0, 1, 2}
  MaxItems = 4
INVARIANTS TypeOK Conservation LanesSorted ClearedIsFinal
PROPERTIES Order Capacity CloseSem ReadOnly
VIEW QView
CHECK_DEADLOCK FALSE
