----------------------------- MODULE QueueWake -----------------------------
(***************************************************************************)
(* The list queues of Queue.tla with blocking consumers (C13: no lost      *)
(* wake-ups; close releases every blocked consumer).                       *)
(*                                                                         *)
(* One action per mutex hold of the code:                                  *)
(*   PopCall(c, any)  consumer c calls Pop / PopAnyway: it takes the front *)
(*                    item or learns "closed" at once, or parks in         *)
(*                    cond.Wait (empty and open)                           *)
(*   External(a, r)   any other call of Queue.tla; an accepted add and a   *)
(*                    close notify the condition variable: Broadcast wakes *)
(*                    every parked consumer, Signal (SyncQueue.Push) one   *)
(*   Wake(c)          a notified consumer re-acquires the mutex and        *)
(*                    re-checks: takes / learns closed / parks again       *)
(* Deviation = "close_one" is the rule of the pinned SyncQueue.Close       *)
(* (Signal instead of Broadcast); it violates NoStranded and CloseReleases *)
(* and is kept as the non-vacuity witness; so is "signal_if_first" (Push    *)
(* signals only when the buffer was empty: a burst of pushes that lands     *)
(* before the first woken consumer ran wakes one consumer for k items).     *)
(***************************************************************************)
EXTENDS Queue

CONSTANTS Cons,   \* consumer ids
          Prods   \* producer ids (callers of AddAnyway, which blocks while the lane is full)

VARIABLES
  cst,     \* consumer -> "idle" | "parked" | "woken"
  cany,    \* consumer -> the blocked call is PopAnyway
  cres,    \* consumer -> reply of its latest returned Pop
  pst,     \* producer -> "idle" | "parked" (inside AddAnyway on a full, open lane)
  preq,    \* producer -> the add it is trying
  pres     \* producer -> reply of its latest returned AddAnyway

wvars == <<qvars, cst, cany, cres, pst, preq, pres>>
allwvars == <<wvars, last>>

Parked == {c \in Cons : cst[c] = "parked"}
(* a parked producer retries by itself (the code polls; a condition variable would be notified by *)
(* whoever makes room): it can proceed as soon as the queue is closed or its lane has room        *)
NoAdd == [op |-> "addw", lane |-> "req", v |-> 0, val |-> 0]
CanProceed(p) == pst[p] = "parked" /\ (closed \/ (~Full(AsAdd(preq[p])) /\ Deviation # "prod_sleeps"))
Stable == (\A c \in Cons : cst[c] # "woken") /\ (\A p \in Prods : ~CanProceed(p))

BroadcastAll == {[c \in Cons |-> IF cst[c] = "parked" THEN "woken" ELSE cst[c]]}
SignalOne    == IF Parked = {} THEN {cst} ELSE {[cst EXCEPT ![c] = "woken"] : c \in Parked}

(* the possible effects of call a on the consumers (evaluated before the call) *)
Notifies(a) ==
  CASE IsAdd(a) /\ Accepts(Norm(a))            ->
         IF kind = "syncq"
         THEN (IF Deviation = "signal_if_first" /\ ~Empty THEN {cst} ELSE SignalOne)
         ELSE BroadcastAll
    [] a.op = "close" /\ ~closed               -> IF Deviation = "close_one" THEN SignalOne ELSE BroadcastAll
    [] a.op = "tryclose" /\ ~closed /\ Empty   -> BroadcastAll
    [] OTHER                                   -> {cst}

PopAct(c, any) == [op |-> "pop", any |-> any, c |-> c]

PopCall(c, any) ==
  /\ cst[c] = "idle"
  /\ IF PopReturns
     THEN \E r \in Replies(PopAct(c, any)) :
            /\ Do(PopAct(c, any))
            /\ cres' = [cres EXCEPT ![c] = r]
            /\ last' = [a |-> PopAct(c, any), r |-> r]
            /\ UNCHANGED <<cst, cany>>
     ELSE /\ cst' = [cst EXCEPT ![c] = "parked"]
          /\ cany' = [cany EXCEPT ![c] = any]
          /\ last' = [a |-> PopAct(c, any), r |-> R("parked", 0)]
          /\ UNCHANGED <<qvars, cres>>
  /\ UNCHANGED <<pst, preq, pres>>

External(a, r) ==
  /\ a.op # "pop"
  /\ r \in Replies(a)
  /\ cst' \in Notifies(a)
  /\ Do(a)
  /\ last' = [a |-> a, r |-> r]
  /\ UNCHANGED <<cany, cres, pst, preq, pres>>

(* AddAnyway by producer p: the add (a : an "addw" record) happens at once when the queue is     *)
(* closed (refused) or the lane has room; otherwise p parks inside the call                       *)
PAct(p, a) == [op |-> "paddw", p |-> p, lane |-> a.lane, v |-> a.v, val |-> a.val]
ProdCall(p, a) ==
  /\ pst[p] = "idle"
  /\ IF closed \/ ~Full(AsAdd(a))
     THEN \E r \in Replies(a) :
            /\ cst' \in Notifies(a) /\ Do(a)
            /\ pres' = [pres EXCEPT ![p] = r]
            /\ last' = [a |-> PAct(p, a), r |-> r]
            /\ UNCHANGED <<pst, preq>>
     ELSE /\ pst' = [pst EXCEPT ![p] = "parked"] /\ preq' = [preq EXCEPT ![p] = a]
          /\ last' = [a |-> PAct(p, a), r |-> R("parked", 0)]
          /\ seq' = seq + 1                     \* the item id is taken
          /\ UNCHANGED <<kind, ccap, rcap, ctrl, req, closed, cleared, hist, out, cst, pres>>
  /\ UNCHANGED <<cany, cres>>

ProdRetry(p) ==
  /\ CanProceed(p)
  /\ \E r \in Replies(preq[p]) :
       /\ cst' \in Notifies(preq[p]) /\ Do(preq[p])
       /\ pres' = [pres EXCEPT ![p] = r]
       /\ last' = [a |-> [op |-> "pretry", p |-> p], r |-> r]
  /\ pst' = [pst EXCEPT ![p] = "idle"] /\ preq' = [preq EXCEPT ![p] = NoAdd]
  /\ UNCHANGED <<cany, cres>>

Wake(c) ==
  /\ cst[c] = "woken"
  /\ IF PopReturns
     THEN \E r \in Replies(PopAct(c, cany[c])) :
            /\ Do(PopAct(c, cany[c]))
            /\ cres' = [cres EXCEPT ![c] = r]
            /\ cst' = [cst EXCEPT ![c] = "idle"]
            /\ cany' = [cany EXCEPT ![c] = FALSE]
            /\ last' = [a |-> [op |-> "wake", c |-> c], r |-> r]
     ELSE /\ cst' = [cst EXCEPT ![c] = "parked"]
          /\ last' = [a |-> [op |-> "wake", c |-> c], r |-> R("parked", 0)]
          /\ UNCHANGED <<qvars, cany, cres>>
  /\ UNCHANGED <<pst, preq, pres>>

WInitWith(k, cc, rc) ==
  /\ InitWith(k, cc, rc)
  /\ cst = [c \in Cons |-> "idle"] /\ cany = [c \in Cons |-> FALSE]
  /\ cres = [c \in Cons |-> R("none", 0)]
  /\ pst = [p \in Prods |-> "idle"] /\ preq = [p \in Prods |-> NoAdd]
  /\ pres = [p \in Prods |-> R("none", 0)]

---------------------------------------------------------------------------
ExtActs == {a \in ActsOf(kind) : a.op # "pop"}
PopAnys == IF kind = "syncq" THEN {TRUE} ELSE BOOLEAN

ExtNext == \/ \E a \in ExtActs : \E r \in Replies(a) :
                /\ (IsAdd(a) => seq < MaxItems)
                /\ External(a, r)
           \/ \E c \in Cons, any \in PopAnys : PopCall(c, any)
           \/ \E p \in Prods, l \in Lanes(kind) :
                /\ kind # "syncq" /\ seq < MaxItems
                /\ ProdCall(p, [op |-> "addw", lane |-> l, v |-> seq + 1, val |-> seq + 1])
IntNext == (\E c \in Cons : Wake(c)) \/ (\E p \in Prods : ProdRetry(p))

WInit == \E c \in Configs : WInitWith(c.kind, c.ccap, c.rcap)
(* every interleaving: producers, closers and new consumers run while notified ones wake up *)
WNext == ExtNext \/ IntNext
WSpec == WInit /\ [][WNext]_allwvars
WFairSpec == WSpec /\ (\A c \in Cons : WF_allwvars(Wake(c))) /\ (\A p \in Prods : WF_allwvars(ProdRetry(p)))
(* plan generation: external calls only in stable states (the executor waits for quiescence) *)
GenNext == IntNext \/ (Stable /\ ExtNext)
GenSpec == WInit /\ [][GenNext]_allwvars

(* ------------------------------ properties ---------------------------- *)
WTypeOK == \A c \in Cons : cst[c] \in {"idle", "parked", "woken"}

(* no lost wake-up: once every notified consumer has run, nobody sleeps      *)
(* beside an item or in a closed queue                                      *)
NoStranded == Stable => \A c \in Cons : cst[c] = "parked" => (Empty /\ ~closed)
(* ... and no producer waits in AddAnyway beside room or in a closed queue; a producer never adds *)
(* to a closed queue (CloseSem of Queue.tla holds for every step, also for a retry)               *)
NoStrandedProducer == Stable => \A p \in Prods : pst[p] = "parked" => (~closed /\ Full(AsAdd(preq[p])))
(* ... so k adds with at least k parked consumers leave no item behind, and  *)
(* (Conservation of Queue.tla) the k returns carry k distinct items          *)
NothingLeftBeside == (Stable /\ Parked # {}) => SeqSet(out) = HistItems

(* close releases every blocked consumer *)
CloseReleases == closed ~> ((\A c \in Cons : cst[c] = "idle") /\ (\A p \in Prods : pst[p] = "idle"))
ItemsDelivered == \A c \in Cons : (cst[c] = "woken") ~> (cst[c] # "woken")

WView == <<qvars, cst, cany, pst, preq>>        \* cres, pres are output only
=============================================================================
