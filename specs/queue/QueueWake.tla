----------------------------- MODULE QueueWake -----------------------------
(***************************************************************************)
(* The list queues of Queue.tla with blocking consumers (C13: no lost      *)
(* wake-ups; close releases every blocked consumer).                       *)
(*                                                                         *)
(* One action per mutex hold of the code:                                  *)
(*   PopCall(c, any)  consumer c calls Pop / PopAnyway: it takes the front *)
(*                    item or learns "closed" at once, or parks in         *)
(*                    cond.Wait (empty and open)                           *)
(*   External(a, r)   any other call of Queue.tla; an accepted add and a   *)
(*                    close notify the condition variable: Broadcast wakes *)
(*                    every parked consumer, Signal (SyncQueue.Push) one   *)
(*   Wake(c)          a notified consumer re-acquires the mutex and        *)
(*                    re-checks: takes / learns closed / parks again       *)
(* Deviation = "close_one" is the rule of the pinned SyncQueue.Close       *)
(* (Signal instead of Broadcast); it violates NoStranded and CloseReleases *)
(* and is kept as the non-vacuity witness; so is "signal_if_first" (Push    *)
(* signals only when the buffer was empty: a burst of pushes that lands     *)
(* before the first woken consumer ran wakes one consumer for k items).     *)
(***************************************************************************)
EXTENDS Queue

CONSTANT Cons     \* consumer ids

VARIABLES
  cst,     \* consumer -> "idle" | "parked" | "woken"
  cany,    \* consumer -> the blocked call is PopAnyway
  cres     \* consumer -> reply of its latest returned Pop

wvars == <<qvars, cst, cany, cres>>
allwvars == <<wvars, last>>

Parked == {c \in Cons : cst[c] = "parked"}
Stable == \A c \in Cons : cst[c] # "woken"

BroadcastAll == {[c \in Cons |-> IF cst[c] = "parked" THEN "woken" ELSE cst[c]]}
SignalOne    == IF Parked = {} THEN {cst} ELSE {[cst EXCEPT ![c] = "woken"] : c \in Parked}

(* the possible effects of call a on the consumers (evaluated before the call) *)
Notifies(a) ==
  CASE IsAdd(a) /\ Accepts(Norm(a))            ->
         IF kind = "syncq"
         THEN (IF Deviation = "signal_if_first" /\ ~Empty THEN {cst} ELSE SignalOne)
         ELSE BroadcastAll
    [] a.op = "close" /\ ~closed               -> IF Deviation = "close_one" THEN SignalOne ELSE BroadcastAll
    [] a.op = "tryclose" /\ ~closed /\ Empty   -> BroadcastAll
    [] OTHER                                   -> {cst}

PopAct(c, any) == [op |-> "pop", any |-> any, c |-> c]

PopCall(c, any) ==
  /\ cst[c] = "idle"
  /\ IF PopReturns
     THEN \E r \in Replies(PopAct(c, any)) :
            /\ Do(PopAct(c, any))
            /\ cres' = [cres EXCEPT ![c] = r]
            /\ last' = [a |-> PopAct(c, any), r |-> r]
            /\ UNCHANGED <<cst, cany>>
     ELSE /\ cst' = [cst EXCEPT ![c] = "parked"]
          /\ cany' = [cany EXCEPT ![c] = any]
          /\ last' = [a |-> PopAct(c, any), r |-> R("parked", 0)]
          /\ UNCHANGED <<qvars, cres>>

External(a, r) ==
  /\ a.op # "pop"
  /\ r \in Replies(a)
  /\ cst' \in Notifies(a)
  /\ Do(a)
  /\ last' = [a |-> a, r |-> r]
  /\ UNCHANGED <<cany, cres>>

Wake(c) ==
  /\ cst[c] = "woken"
  /\ IF PopReturns
     THEN \E r \in Replies(PopAct(c, cany[c])) :
            /\ Do(PopAct(c, cany[c]))
            /\ cres' = [cres EXCEPT ![c] = r]
            /\ cst' = [cst EXCEPT ![c] = "idle"]
            /\ cany' = [cany EXCEPT ![c] = FALSE]
            /\ last' = [a |-> [op |-> "wake", c |-> c], r |-> r]
     ELSE /\ cst' = [cst EXCEPT ![c] = "parked"]
          /\ last' = [a |-> [op |-> "wake", c |-> c], r |-> R("parked", 0)]
          /\ UNCHANGED <<qvars, cany, cres>>

WInitWith(k, cc, rc) ==
  /\ InitWith(k, cc, rc)
  /\ cst = [c \in Cons |-> "idle"] /\ cany = [c \in Cons |-> FALSE]
  /\ cres = [c \in Cons |-> R("none", 0)]

---------------------------------------------------------------------------
ExtActs == {a \in ActsOf(kind) : a.op # "pop"}
PopAnys == IF kind = "syncq" THEN {TRUE} ELSE BOOLEAN

ExtNext == \/ \E a \in ExtActs : \E r \in Replies(a) :
                /\ (IsAdd(a) => seq < MaxItems)
                /\ External(a, r)
           \/ \E c \in Cons, any \in PopAnys : PopCall(c, any)
IntNext == \E c \in Cons : Wake(c)

WInit == \E c \in Configs : WInitWith(c.kind, c.ccap, c.rcap)
(* every interleaving: producers, closers and new consumers run while notified ones wake up *)
WNext == ExtNext \/ IntNext
WSpec == WInit /\ [][WNext]_allwvars
WFairSpec == WSpec /\ \A c \in Cons : WF_allwvars(Wake(c))
(* plan generation: external calls only in stable states (the executor waits for quiescence) *)
GenNext == IntNext \/ (Stable /\ ExtNext)
GenSpec == WInit /\ [][GenNext]_allwvars

(* ------------------------------ properties ---------------------------- *)
WTypeOK == \A c \in Cons : cst[c] \in {"idle", "parked", "woken"}

(* no lost wake-up: once every notified consumer has run, nobody sleeps      *)
(* beside an item or in a closed queue                                      *)
NoStranded == Stable => \A c \in Cons : cst[c] = "parked" => (Empty /\ ~closed)
(* ... so k adds with at least k parked consumers leave no item behind, and  *)
(* (Conservation of Queue.tla) the k returns carry k distinct items          *)
NothingLeftBeside == (Stable /\ Parked # {}) => SeqSet(out) = HistItems

(* close releases every blocked consumer *)
CloseReleases == closed ~> (\A c \in Cons : cst[c] = "idle")
ItemsDelivered == \A c \in Cons : (cst[c] = "woken") ~> (cst[c] # "woken")

WView == <<qvars, cst, cany>>        \* cres is output only
=============================================================================
