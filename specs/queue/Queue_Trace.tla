---------------------------- MODULE Queue_Trace ----------------------------
(* Validates ndjson traces recorded from the real list queues (q.Q,        *)
(* async.Q, mux.Q, mq.MQ, syncq.SyncQueue) against Queue.tla.              *)
(*   reset {kind, ccap, rcap}   new queue (also separates traces)          *)
(*   call  {a, r, obs}          one sequential call: action record, the    *)
(*                              real reply, and what the type's read-only  *)
(*                              accessors show after the call              *)
(* A call that did not return (the goroutine is parked in sync.Cond.Wait)  *)
(* is logged with reply st = "blocked"; no action of the spec has that     *)
(* reply, and a Pop is only enabled when the spec says it returns.         *)
EXTENDS Queue, Json, IOUtils

TraceLog == ndJsonDeserialize(IOEnv.VERIF_TRACE)

VARIABLES l
tvars == <<allqvars, l>>

(* what each type lets us read back after the call *)
ObsOK(o, k, cl, clr, n) ==
  CASE k = "q"               -> TRUE
    [] k \in {"async", "mux"} -> o.closed = cl
    [] k = "mq"              -> o.closed = cl /\ o.cleared = clr
    [] k = "syncq"           -> o.len = n
    [] OTHER -> FALSE

TraceInit == l = 1 /\ InitWith("q", 0, 0)

TReset(e) ==
  /\ kind' = e.kind /\ ccap' = e.ccap /\ rcap' = e.rcap
  /\ ctrl' = <<>> /\ req' = <<>> /\ closed' = FALSE /\ cleared' = FALSE
  /\ seq' = 0 /\ hist' = <<>> /\ out' = <<>>
  /\ last' = [a |-> [op |-> "init"], r |-> Ok]

TCall(e) ==
  /\ Step(e.a, e.r)
  /\ ObsOK(e.obs, kind, closed', cleared', Len(ctrl') + Len(req'))

TraceNext ==
  /\ l <= Len(TraceLog) /\ l' = l + 1
  /\ LET e == TraceLog[l] IN
       CASE e.ev = "reset" -> TReset(e)
         [] e.ev = "call"  -> TCall(e)
         [] OTHER -> FALSE

TraceSpec == TraceInit /\ [][TraceNext]_tvars

(* high-water mark of l in TLC register 1 (needs -workers 1) *)
ASSUME TLCSet(1, 0)
Mark == TLCSet(1, IF l > TLCGet(1) THEN l ELSE TLCGet(1))
Accepted == PrintT(<<"MARK", TLCGet(1), Len(TraceLog)>>) /\ TLCGet(1) = Len(TraceLog) + 1
=============================================================================
