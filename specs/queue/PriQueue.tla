------------------------------ MODULE PriQueue ------------------------------
(***************************************************************************)
(* queue/priq.PriQueue: a bounded priority queue.  Push is refused exactly *)
(* when the queue holds its capacity; Pop hands out the entry of highest   *)
(* priority, first-in-first-out among equal priorities, or nothing when    *)
(* the queue is empty (it never blocks).                                   *)
(*                                                                         *)
(* The state is kept the way the code keeps it: a binary heap in an array  *)
(* (container/heap: Push = append + up, Pop = swap(0,n-1) + down + drop    *)
(* last) ordered by (priority desc, arrival number asc).  The invariants   *)
(* relate it to the ideal: the entry handed out is the best of the         *)
(* multiset.  Replies have the shape [st |-> string, v |-> integer].       *)
(***************************************************************************)
EXTENDS Integers, Sequences, FiniteSets, TLC

CONSTANT PDeviation   \* "none" | "lifo_ties" (equal priorities served last-in-first-out)
                      \*        | "no_seq" (ties left to the heap) | "gt" (refuses when Len > capacity)

VARIABLES
  pcap,    \* configuration: capacity
  heap,    \* array of [v, pr, n]: item id, priority, arrival number
  arr,     \* arrival counter (curSeq)
  pseq,    \* number of push calls so far (bounds the exhaustive runs)
  pin,     \* history: entries accepted, in order of acceptance
  pout,    \* history: item ids handed out, in order
  last

pvars == <<pcap, heap, arr, pseq, pin, pout>>
allpvars == <<pvars, last>>

R(st, v) == [st |-> st, v |-> v]

Less(x, y) ==
  IF x.pr = y.pr
  THEN CASE PDeviation = "lifo_ties" -> x.n > y.n
         [] PDeviation = "no_seq"    -> FALSE
         [] OTHER                    -> x.n < y.n
  ELSE x.pr > y.pr

Swap(h, i, j) == [h EXCEPT ![i] = h[j], ![j] = h[i]]

(* container/heap.up, 1-based: parent of j is j \div 2 *)
RECURSIVE Up(_, _)
Up(h, j) ==
  IF j <= 1 THEN h
  ELSE LET i == j \div 2 IN
       IF ~Less(h[j], h[i]) THEN h ELSE Up(Swap(h, i, j), i)

(* container/heap.down on the first n elements, 1-based: children 2i, 2i+1 *)
RECURSIVE Down(_, _, _)
Down(h, i, n) ==
  LET j1 == 2 * i IN
  IF j1 > n THEN h
  ELSE LET j == IF j1 + 1 <= n /\ Less(h[j1 + 1], h[j1]) THEN j1 + 1 ELSE j1 IN
       IF ~Less(h[j], h[i]) THEN h ELSE Down(Swap(h, i, j), j, n)

AfterPush(e) == Up(Append(heap, e), Len(heap) + 1)
AfterPop ==     \* the heap without its root
  LET n == Len(heap) IN SubSeq(Down(Swap(heap, 1, n), 1, n - 1), 1, n - 1)

PFull == IF PDeviation = "gt" THEN Len(heap) > pcap ELSE Len(heap) >= pcap

Replies(a) ==
  CASE a.op = "push" -> IF PFull THEN {R("full", 0)} ELSE {R("ok", 0)}
    [] a.op = "pop"  -> IF heap = <<>> THEN {R("empty", 0)} ELSE {R("item", heap[1].v)}
    [] a.op = "len"  -> {R("len", Len(heap))}
    [] OTHER -> {}

Do(a) ==
  CASE a.op = "push" ->
         /\ pseq' = pseq + 1
         /\ IF PFull THEN UNCHANGED <<heap, arr, pin>>
            ELSE LET e == [v |-> a.v, pr |-> a.pr, n |-> arr + 1] IN
                 /\ arr' = arr + 1
                 /\ heap' = AfterPush(e)
                 /\ pin' = Append(pin, e)
         /\ UNCHANGED <<pcap, pout>>
    [] a.op = "pop" ->
         /\ IF heap = <<>> THEN UNCHANGED <<heap, pout>>
            ELSE heap' = AfterPop /\ pout' = Append(pout, heap[1].v)
         /\ UNCHANGED <<pcap, arr, pseq, pin>>
    [] a.op = "len" -> UNCHANGED pvars
    [] OTHER -> FALSE

Step(a, r) == r \in Replies(a) /\ Do(a) /\ last' = [a |-> a, r |-> r]

InitWith(c) ==
  /\ pcap = c /\ heap = <<>> /\ arr = 0 /\ pseq = 0 /\ pin = <<>> /\ pout = <<>>
  /\ last = [a |-> [op |-> "init", kind |-> "priq", ccap |-> 0, rcap |-> c], r |-> R("ok", 0)]

---------------------------------------------------------------------------
CONSTANTS PCaps, Prios, PMaxItems

Acts == [op : {"push"}, v : {pseq + 1}, pr : Prios] \cup [op : {"pop", "len"}]
Init == \E c \in PCaps : InitWith(c)
Next == \E a \in Acts : \E r \in Replies(a) :
          /\ (a.op = "push" => pseq < PMaxItems)
          /\ Step(a, r)
Spec == Init /\ [][Next]_allpvars

(* ------------------------------ properties ---------------------------- *)
Els == {heap[i] : i \in 1..Len(heap)}
(* the ideal order: higher priority first, earlier arrival first among equals *)
Before(x, y) == x.pr > y.pr \/ (x.pr = y.pr /\ x.n < y.n)

TypeOK == pcap \in Int /\ arr \in Nat /\ pseq \in Nat

Conservation ==
  /\ \A i, j \in 1..Len(heap) : i # j => heap[i].v # heap[j].v
  /\ \A i, j \in 1..Len(pout) : i # j => pout[i] # pout[j]
  /\ {e.v : e \in Els} \cap {pout[i] : i \in 1..Len(pout)} = {}
  /\ {e.v : e \in Els} \cup {pout[i] : i \in 1..Len(pout)} = {pin[i].v : i \in 1..Len(pin)}
  /\ \A e \in Els : \E i \in 1..Len(pin) : pin[i] = e

CapBound == pcap >= 0 => Len(heap) <= pcap

(* Pop hands out the entry that is before every other one in the ideal order *)
PopOrder ==
  [][pout' # pout =>
       \E e \in Els : /\ pout' = Append(pout, e.v)
                      /\ \A x \in Els \ {e} : Before(e, x)
                      /\ {heap'[i] : i \in 1..Len(heap')} = Els \ {e}
    ]_allpvars

PushSem ==
  [][LET a == last'.a
         r == last'.r
     IN /\ a.op = "push" =>
             /\ (r.st = "full") <=> (Len(heap) >= pcap)
             /\ (r.st = "full") <=> (pin' = pin)
             /\ (r.st = "ok") => {heap'[i] : i \in 1..Len(heap')} = Els \cup {[v |-> a.v, pr |-> a.pr, n |-> arr + 1]}
        /\ a.op = "pop" => (r.st = "empty") <=> (heap = <<>>)
        /\ a.op = "len" => UNCHANGED pvars /\ r.v = Cardinality(Els)
    ]_allpvars

PView == pvars
=============================================================================
