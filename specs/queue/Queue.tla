------------------------------- MODULE Queue -------------------------------
(***************************************************************************)
(* Sequential specification of neptune's list queues                       *)
(*   kind "q"     syncx/pipe/q.Q        one lane                           *)
(*   kind "async" syncx/pipe/async.Q    one lane (+ IsClosed)              *)
(*   kind "mux"   syncx/pipe/mux.Q      one lane (+ IsClosed)              *)
(*   kind "mq"    syncx/pipe/mq.MQ      two lanes: control before request, *)
(*                                      TryClose / TryClear                *)
(*   kind "syncq" queue/syncq.SyncQueue one lane, unbounded, an add on a   *)
(*                                      closed queue is dropped silently,  *)
(*                                      Pop/TryPop drain, then say closed  *)
(* One action per public method (= one mutex hold in the code).  An action *)
(* is described by a record `a` (the same record the Go harness logs), the *)
(* transition by Do(a), the values the method may return by Replies(a), a  *)
(* function of the state *before* the call.  Every reply has the shape     *)
(* [st |-> string, v |-> integer].                                         *)
(*                                                                         *)
(* Only calls that return are enabled here (a Pop on an empty open queue   *)
(* blocks: QueueWake.tla adds the consumers for that).                     *)
(*                                                                         *)
(* hist / out are history variables: the accepted additions in order of    *)
(* acceptance and the items handed out.  The order invariants are stated   *)
(* on them (who may overtake whom), not on list positions.                 *)
(***************************************************************************)
EXTENDS Integers, Sequences, FiniteSets, TLC

CONSTANT Deviation    \* "none", or a named deviation of the design (non-vacuity witnesses):
                      \*   "gt"            a bounded lane refuses only when Len > capacity
                      \*   "prior_bounded" a prior add honours the bound
                      \*   "pop_drains"    Pop hands out items of a closed queue
                      \*   "req_first"     the request lane is served before the control lane
                      \*   "close_one"     (QueueWake) Close wakes one blocked consumer only
                      \*   "prod_sleeps"   (QueueWake) a producer blocked in AddAnyway does not notice room
                      \*   "signal_if_first" (QueueWake) SyncQueue.Push signals only when the buffer was empty

VARIABLES
  kind,     \* configuration: which queue type
  ccap,     \* configuration: capacity of the control lane (0 = unbounded)
  rcap,     \* configuration: capacity of the request lane (0 = unbounded)
  ctrl,     \* control lane, front first
  req,      \* request lane, front first
  closed, cleared,
  seq,      \* number of add calls so far (bounds the exhaustive runs)
  hist,     \* accepted additions, in order: [v, lane, prior]
  out,      \* items handed out, in order
  last      \* [a |-> action record, r |-> reply] of the latest step (output only)

qvars   == <<kind, ccap, rcap, ctrl, req, closed, cleared, seq, hist, out>>
allqvars == <<qvars, last>>

R(st, v) == [st |-> st, v |-> v]
Ok    == R("ok", 0)
Bool(b) == IF b THEN R("true", 0) ELSE R("false", 0)

Lane(l)  == IF l = "ctrl" THEN ctrl ELSE req
CapOf(l) == IF l = "ctrl" THEN ccap ELSE rcap
Empty    == ctrl = <<>> /\ req = <<>>
SeqSet(s) == {s[i] : i \in 1..Len(s)}
Bounded(c) == c > 0                         \* zero (or a negative option) means unbounded

(* which lane is served, and what its front is *)
ServeCtrl == IF Deviation = "req_first" THEN req = <<>> ELSE ctrl # <<>>
FrontLane == IF ServeCtrl THEN "ctrl" ELSE "req"
Front     == Head(Lane(FrontLane))

Full(a) ==
  /\ Bounded(CapOf(a.lane))
  /\ IF Deviation = "gt" THEN Len(Lane(a.lane)) > CapOf(a.lane) ELSE Len(Lane(a.lane)) >= CapOf(a.lane)
  /\ (a.prior => Deviation = "prior_bounded")
Accepts(a) == ~closed /\ ~Full(a)

(* a Pop / PopAnyway / syncq.Pop call returns (instead of blocking) *)
PopReturns == closed \/ ~Empty
(* ... and hands out the front item: PopAnyway and the sync queue drain a closed queue *)
PopTakes(a) == ~Empty /\ (a.any \/ ~closed \/ Deviation = "pop_drains")

(* Items are opaque values: an add carries the item id v (fresh, the spec's bookkeeping) and the    *)
(* value class val the harness logs for it (v itself for a value unique to the item; the id of the *)
(* first owner when the same value is added again; a negative class for nil / zero values).  What  *)
(* a pop hands out is logged - and compared - by value class.                                     *)
ValOf(x) == LET i == CHOOSE i \in 1..Len(hist) : hist[i].v = x IN hist[i].val

(* AddAnyway (op "addw") is the ordinary add that sleeps and retries while the lane is full: it is  *)
(* the same action, enabled only when it returns (lane not full, or queue closed)                *)
(* The sync queue's Pop / TryPop hand out the item itself and report "closed" as a nil item: an   *)
(* untyped nil item (value class -1) that comes out is therefore read by the caller - and logged - *)
(* exactly like the closed report.  The item is consumed all the same.                            *)
ItemR(x) == IF kind = "syncq" /\ ValOf(x) = -1 THEN R("closed", 0) ELSE R("item", ValOf(x))

AsAdd(a) == [op |-> "add", lane |-> a.lane, prior |-> FALSE, v |-> a.v, val |-> a.val]
Norm(a)  == IF a.op = "addw" THEN AsAdd(a) ELSE a
IsAdd(a) == a.op \in {"add", "addw"}

AddReplies(a) ==
         \* refused on a closed queue (dropped silently by the sync queue); when the closed lane
         \* also holds its capacity the property does not say which refusal is reported
         IF closed THEN (IF kind = "syncq" THEN {Ok}
                         ELSE IF Full(a) THEN {R("closed", 0), R("full", 0)} ELSE {R("closed", 0)})
         ELSE IF Full(a) THEN {R("full", 0)} ELSE {Ok}

Replies(a) ==
  CASE a.op = "add"  -> AddReplies(a)
    [] a.op = "addw" -> AddReplies(AsAdd(a))
    [] a.op = "pop" ->
         IF PopTakes(a) THEN {ItemR(Front)} ELSE {R("closed", 0)}
    [] a.op = "trypop" ->
         IF ~Empty THEN {ItemR(Front)} ELSE IF closed THEN {R("closed", 0)} ELSE {R("empty", 0)}
    [] a.op = "close" -> {Ok}
    [] a.op = "tryclose" ->
         \* succeeds exactly when empty; already closed with residue: the property is silent
         IF closed /\ ~Empty THEN {Bool(TRUE), Bool(FALSE)} ELSE {Bool(Empty)}
    [] a.op = "tryclear" -> {Bool(closed /\ Empty)}
    [] a.op = "len" -> {R("len", Len(ctrl) + Len(req))}
    [] a.op = "isclosed" -> {Bool(closed)}
    [] a.op = "iscleared" -> {Bool(cleared)}
    [] a.op = "size" -> {R("size", IF Bounded(rcap) THEN rcap ELSE 0)}       \* async.Q.Size()
    \* WaitClose / WaitClear(ctx): with a live context (bg) it returns nil once closed / cleared (and
    \* blocks before); with a context that has already ended it may report either, but "done" only
    \* when the queue really is closed / cleared
    [] a.op = "waitclose" -> IF a.bg \/ ~closed THEN {IF a.bg THEN Ok ELSE R("canceled", 0)}
                             ELSE {Ok, R("canceled", 0)}
    [] a.op = "waitclear" -> IF a.bg \/ ~cleared THEN {IF a.bg THEN Ok ELSE R("canceled", 0)}
                             ELSE {Ok, R("canceled", 0)}
    [] OTHER -> {}

DoAdd(a) ==
         /\ seq' = seq + 1
         /\ IF Accepts(a)
            THEN /\ hist' = Append(hist, [v |-> a.v, lane |-> a.lane, prior |-> a.prior, val |-> a.val])
                 /\ IF a.lane = "ctrl"
                    THEN ctrl' = (IF a.prior THEN <<a.v>> \o ctrl ELSE Append(ctrl, a.v)) /\ UNCHANGED req
                    ELSE req' = (IF a.prior THEN <<a.v>> \o req ELSE Append(req, a.v)) /\ UNCHANGED ctrl
            ELSE UNCHANGED <<hist, ctrl, req>>
         /\ UNCHANGED <<kind, ccap, rcap, closed, cleared, out>>

Do(a) ==
  CASE a.op = "add"  -> DoAdd(a)
    [] a.op = "addw" -> (closed \/ ~Full(AsAdd(a))) /\ DoAdd(AsAdd(a))
    [] a.op = "pop" ->
         /\ PopReturns
         /\ IF PopTakes(a)
            THEN /\ out' = Append(out, Front)
                 /\ IF ServeCtrl THEN ctrl' = Tail(ctrl) /\ UNCHANGED req
                                 ELSE req' = Tail(req) /\ UNCHANGED ctrl
            ELSE UNCHANGED <<out, ctrl, req>>
         /\ UNCHANGED <<kind, ccap, rcap, closed, cleared, seq, hist>>
    [] a.op = "trypop" ->
         /\ IF ~Empty
            THEN /\ out' = Append(out, Front)
                 /\ IF ServeCtrl THEN ctrl' = Tail(ctrl) /\ UNCHANGED req
                                 ELSE req' = Tail(req) /\ UNCHANGED ctrl
            ELSE UNCHANGED <<out, ctrl, req>>
         /\ UNCHANGED <<kind, ccap, rcap, closed, cleared, seq, hist>>
    [] a.op = "close" ->
         /\ closed' = TRUE
         /\ UNCHANGED <<kind, ccap, rcap, ctrl, req, cleared, seq, hist, out>>
    [] a.op = "tryclose" ->
         /\ closed' = (closed \/ Empty)
         /\ UNCHANGED <<kind, ccap, rcap, ctrl, req, cleared, seq, hist, out>>
    [] a.op = "tryclear" ->
         /\ cleared' = (cleared \/ (closed /\ Empty))
         /\ UNCHANGED <<kind, ccap, rcap, ctrl, req, closed, seq, hist, out>>
    [] a.op \in {"len", "isclosed", "iscleared", "size"} -> UNCHANGED qvars
    [] a.op = "waitclose" -> (a.bg => closed) /\ UNCHANGED qvars
    [] a.op = "waitclear" -> (a.bg => cleared) /\ UNCHANGED qvars
    [] OTHER -> FALSE

Step(a, r) == r \in Replies(a) /\ Do(a) /\ last' = [a |-> a, r |-> r]

InitWith(k, cc, rc) ==
  /\ kind = k /\ ccap = cc /\ rcap = rc
  /\ ctrl = <<>> /\ req = <<>> /\ closed = FALSE /\ cleared = FALSE
  /\ seq = 0 /\ hist = <<>> /\ out = <<>>
  /\ last = [a |-> [op |-> "init", kind |-> k, ccap |-> cc, rcap |-> rc], r |-> Ok]

---------------------------------------------------------------------------
(* Bounded instance for exhaustive checking / plan generation *)
CONSTANTS Kinds, Caps, MaxItems

Lanes(k) == IF k = "mq" THEN {"ctrl", "req"} ELSE {"req"}
NoArg(k) ==
  CASE k = "q"     -> {"close"}
    [] k = "async" -> {"close", "isclosed", "size"}
    [] k = "mux"   -> {"close", "isclosed"}
    [] k = "mq"    -> {"close", "tryclose", "tryclear", "isclosed", "iscleared"}
    [] k = "syncq" -> {"close", "trypop", "len"}
    [] OTHER -> {}

(* the calls of the public API of the kind; item ids are fresh: 1, 2, 3 ... *)
ActsOf(k) ==
       [op : {"add"}, lane : Lanes(k), prior : IF k = "syncq" THEN {FALSE} ELSE BOOLEAN, v : {seq + 1}, val : {seq + 1}]
  \cup [op : {"pop"}, any : IF k = "syncq" THEN {TRUE} ELSE BOOLEAN]
  \cup [op : NoArg(k)]
  \cup [op : IF k = "syncq" THEN {} ELSE {"addw"}, lane : Lanes(k), v : {seq + 1}, val : {seq + 1}]
  \cup [op : CASE k \in {"mux", "mq"} -> {"waitclose"} [] OTHER -> {}, bg : BOOLEAN]
  \cup [op : IF k = "mq" THEN {"waitclear"} ELSE {}, bg : BOOLEAN]

Configs == {c \in [kind : Kinds, ccap : Caps, rcap : Caps] :
              /\ (c.kind # "mq" => c.ccap = 0)
              /\ (c.kind = "syncq" => c.rcap = 0)}

Init == \E c \in Configs : InitWith(c.kind, c.ccap, c.rcap)
Next == \E a \in ActsOf(kind) : \E r \in Replies(a) :
          /\ (IsAdd(a) => seq < MaxItems)
          /\ Step(a, r)
Spec == Init /\ [][Next]_allqvars

(* ------------------------------ properties ---------------------------- *)
NoDup(s) == \A i, j \in 1..Len(s) : i # j => s[i] # s[j]
HistItems == {hist[i].v : i \in 1..Len(hist)}
HistOf(v) == CHOOSE i \in 1..Len(hist) : hist[i].v = v
LaneOf(v) == hist[HistOf(v)].lane

TypeOK ==
  /\ closed \in BOOLEAN /\ cleared \in BOOLEAN /\ seq \in Nat
  /\ (kind # "mq" => ctrl = <<>>)

(* nothing lost, duplicated or invented: every accepted item is either still *)
(* queued in the lane it was added to, or was handed out, exactly once       *)
Conservation ==
  /\ NoDup(hist) /\ NoDup(ctrl \o req \o out)
  /\ SeqSet(ctrl) \cup SeqSet(req) \cup SeqSet(out) = HistItems
  /\ \A v \in SeqSet(ctrl) : LaneOf(v) = "ctrl"
  /\ \A v \in SeqSet(req) : LaneOf(v) = "req"

(* x is served before y (same lane): of two items the later one overtakes  *)
(* exactly when it was a prior add                                         *)
Prec(x, y) == LET ix == HistOf(x)
                  iy == HistOf(y)
              IN IF ix < iy THEN ~hist[iy].prior ELSE hist[ix].prior

(* the item handed out precedes everything left in its lane, and a request *)
(* is handed out only when no control message is queued                    *)
Order ==
  [][out' # out =>
       LET v == out'[Len(out')] IN
         /\ out' = Append(out, v)
         /\ v \in SeqSet(ctrl) \cup SeqSet(req)
         /\ \A x \in SeqSet(Lane(LaneOf(v))) \ {v} : Prec(v, x)
         /\ (LaneOf(v) = "req" => ctrl = <<>>)
    ]_allqvars
LanesSorted ==
  /\ \A i, j \in 1..Len(ctrl) : i < j => Prec(ctrl[i], ctrl[j])
  /\ \A i, j \in 1..Len(req) : i < j => Prec(req[i], req[j])

(* an ordinary add is refused as full exactly when the open lane holds its  *)
(* capacity; a prior add never; nothing else changes the lane              *)
Capacity ==
  [][LET a == Norm(last'.a)
         r == last'.r
     IN a.op = "add" =>
          /\ LET atcap == ~a.prior /\ Bounded(CapOf(a.lane)) /\ Len(Lane(a.lane)) >= CapOf(a.lane) IN
               /\ (r.st = "full") => atcap
               /\ (~closed => ((r.st = "full") <=> atcap))
          /\ (r.st = "closed") => (closed /\ kind # "syncq")
          /\ (closed /\ kind # "syncq") => r.st \in {"closed", "full"}
          /\ (hist' # hist) <=> (r.st = "ok" /\ ~closed)
          /\ (hist' # hist) => hist' = Append(hist, [v |-> a.v, lane |-> a.lane, prior |-> a.prior, val |-> a.val])
    ]_allqvars

(* close is final; a closed queue accepts nothing; Pop fails on a closed     *)
(* queue even with items; PopAnyway / syncq drain first                      *)
CloseSem ==
  [][LET a == last'.a
         r == last'.r
     IN /\ (closed => closed' /\ hist' = hist)
        /\ (cleared => cleared')
        /\ (a.op = "close" => closed')
        /\ (a.op = "pop" /\ ~a.any /\ closed => out' = out /\ r.st = "closed")
        /\ (a.op \in {"pop", "trypop"} /\ r.st = "closed" => closed /\ out' = out)
        /\ (a.op = "pop" /\ a.any /\ ~Empty => r.st = "item" /\ out' # out)
        /\ (a.op = "trypop" => (r.st = "item") = ~Empty /\ (r.st = "empty") = (Empty /\ ~closed))
        /\ (a.op = "tryclose" /\ ~closed => (r.st = "true") = Empty /\ closed' = Empty)
        /\ (a.op = "tryclear" => (r.st = "true") = (closed /\ Empty) /\ cleared' = (closed /\ Empty))
        /\ (a.op # "tryclear" => cleared' = cleared)
        /\ (a.op \notin {"close", "tryclose"} => closed' = closed)
    ]_allqvars
ClearedIsFinal == cleared => closed /\ Empty

ReadOnly ==
  [][last'.a.op \in {"len", "isclosed", "iscleared", "size", "waitclose", "waitclear", "close", "tryclose", "tryclear"}
        => UNCHANGED <<ctrl, req, hist, out>>]_allqvars

QView == qvars
=============================================================================
