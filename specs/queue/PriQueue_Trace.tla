--------------------------- MODULE PriQueue_Trace ---------------------------
(* Validates ndjson traces recorded from the real priq.PriQueue against    *)
(* PriQueue.tla.                                                           *)
(*   reset {kind: "priq", rcap}   new queue                                *)
(*   call  {a, r, obs: {len}}     one call, its reply, Len() afterwards    *)
EXTENDS PriQueue, Json, IOUtils

TraceLog == ndJsonDeserialize(IOEnv.VERIF_TRACE)

VARIABLES l
tvars == <<allpvars, l>>

TraceInit == l = 1 /\ InitWith(0)

TReset(e) ==
  /\ pcap' = e.rcap /\ heap' = <<>> /\ arr' = 0 /\ pseq' = 0 /\ pin' = <<>> /\ pout' = <<>>
  /\ last' = [a |-> [op |-> "init"], r |-> R("ok", 0)]

TCall(e) ==
  /\ Step(e.a, e.r)
  /\ e.obs.len = Len(heap')

TraceNext ==
  /\ l <= Len(TraceLog) /\ l' = l + 1
  /\ LET e == TraceLog[l] IN
       CASE e.ev = "reset" -> TReset(e)
         [] e.ev = "call"  -> TCall(e)
         [] OTHER -> FALSE

TraceSpec == TraceInit /\ [][TraceNext]_tvars

ASSUME TLCSet(1, 0)
Mark == TLCSet(1, IF l > TLCGet(1) THEN l ELSE TLCGet(1))
Accepted == PrintT(<<"MARK", TLCGet(1), Len(TraceLog)>>) /\ TLCGet(1) = Len(TraceLog) + 1
=============================================================================
