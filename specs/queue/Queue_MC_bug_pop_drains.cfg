SPECIFICATION Spec
CONSTANTS
  Deviation = "pop_drains"
  Kinds = {"mq"}
  Caps = {0, 1, 2}
  MaxItems = 4
INVARIANTS TypeOK Conservation LanesSorted ClearedIsFinal
PROPERTIES Order Capacity CloseSem ReadOnly
VIEW QView
CHECK_DEADLOCK FALSE
