SPECIFICATION Spec
CONSTANTS
  PDeviation = "none"
  PCaps = {1, 2, 3, 4, 6}
  Prios = {1, 2, 3}
  PMaxItems = 16
  Depth = 24
INVARIANTS Emit
CHECK_DEADLOCK FALSE
