------------------------------ MODULE MuxStore ------------------------------
(* The backing store behind the mux worker group, as the harness implements  *)
(* it: one value per key (positive integer, 0 = absent) and five callbacks.  *)
(* Shared by the design model (MuxCache) and the trace validator.            *)
EXTENDS Integers
Ok(v)  == [ok |-> TRUE,  v |-> v, e |-> ""]
Err(e) == [ok |-> FALSE, v |-> 0, e |-> e]

(* ----------------------------------------------------------------------- *)
(* the backing store: result and new value of store[k]                      *)
StoreF(st, fn, d, pre, inj) ==
  IF inj THEN [st |-> st, r |-> Err("inj")]
  ELSE CASE fn = "load" -> IF st = 0 THEN [st |-> st, r |-> Err("nf")] ELSE [st |-> st, r |-> Ok(st)]
         [] fn = "add"  -> IF st # 0 THEN [st |-> st, r |-> Err("sdup")] ELSE [st |-> d, r |-> Ok(d)]
         [] fn = "upd"  -> IF st = 0 THEN [st |-> st, r |-> Err("nf")] ELSE [st |-> d, r |-> Ok(d)]
         [] fn = "ups"  -> [st |-> d, r |-> Ok(IF pre = 0 THEN 0 - d ELSE d)]
         [] fn = "del"  -> [st |-> 0, r |-> Ok(0)]
=============================================================================
