SPECIFICATION TraceSpec
CONSTRAINT Mark
POSTCONDITION Accepted
CHECK_DEADLOCK FALSE
