SPECIFICATION Spec
CONSTANTS
  Keys = {1}
  NWs = {1}
  Lrus = {TRUE, FALSE}
  MaxOps = 3
  FreeFail = TRUE
  Gated = FALSE
  MaxOut = 9
  Dev = "addFast"
INVARIANTS TypeOK Coherent OneAtATime InOrder QueueSound
PROPERTIES DeleteClears AddDup DupUntouched ReplyFresh StoreByCalls
VIEW View
CHECK_DEADLOCK FALSE
