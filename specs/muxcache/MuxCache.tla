------------------------------ MODULE MuxCache ------------------------------
(***************************************************************************)
(* neptune syncx/pipe/mux: a group of workers, each with a FIFO queue, one  *)
(* goroutine and a private write-through cache in front of a backing store. *)
(* A key is routed to one worker (locHash), whose goroutine runs the seven  *)
(* handlers of worker.go one after the other.                               *)
(*                                                                          *)
(* The handlers are transcribed as ONE decision function                    *)
(*      Decide(a, hit, cv, rs)                                              *)
(* of the operation a, the result of the initial cache Peek/Get (hit, cv)   *)
(* and the results rs of the store callbacks made so far; it says either    *)
(* "call this store function next" or "finish: cache action + reply".  The  *)
(* small steps of a worker are                                              *)
(*   Start(w)   pop the queue head, read the cache                          *)
(*   Arrive(w)  (gated runs only) the store callback was entered and waits  *)
(*   Call(w)    one store callback (atomic on the store; may fail)          *)
(*   Fin(w)     cache Set / Delete and reply                                *)
(* and of a caller: Submit (DoGet reads the cache itself first: the fast    *)
(* path) and Enq (a get that missed enters the queue).                      *)
(*                                                                          *)
(* Store callbacks (StoreF) are the harness' in-memory store: a failed call *)
(* leaves the store unchanged.  Values are positive integers, 0 = absent.   *)
(* An upsert called without the existing item (pre = 0) cannot return the   *)
(* merged row: it returns the marker -d; only a load shows the real value.  *)
(*                                                                          *)
(* Dev names a deviation of the code from the design (non-vacuity):         *)
(*   "none" | "renewOnErr" (cache renewed although the callback failed)     *)
(*   | "delKeeps" (delete does not invalidate) | "utlStale" (upsert-then-   *)
(*   load caches the upsert's answer instead of the loaded row)             *)
(*   | "addBlind" (add does not look into the cache)                        *)
(*   | "addFast" (the duplicate check of add is made by the caller at       *)
(*   submission, mirroring DoGet's fast path, not by the handler)           *)
(*   | "split" (a key is routed by operation id: two workers for one key)   *)
(***************************************************************************)
EXTENDS Integers, Sequences, FiniteSets, TLC, MuxStore

CONSTANTS Keys,      \* key ids 1..n
          NWs,       \* worker counts to choose from
          Lrus,      \* facades to choose from: TRUE = LRU (a superset of the map's behaviours)
          MaxOps,    \* total number of submissions
          FreeFail,  \* TRUE: every callback fails nondeterministically (exhaustive runs)
                     \* FALSE: callback n of operation a fails iff n \in a.f   (plans)
          Gated,     \* TRUE: callbacks n \in a.g wait for an external release; external
                     \*       actions only in quiescent states (plan generation)
          MaxOut,    \* plans: at most this many unfinished operations
          Dev

VARIABLES
  nw,      \* configuration: number of workers
  lru,     \* configuration: TRUE = LRU facade (entries may vanish), FALSE = map
  store,   \* key -> value (0 = absent)
  cache,   \* worker -> key -> value (0 = none)
  q,       \* worker -> FIFO of operation ids
  h,       \* worker -> running handler, or Idle
  ops,     \* id -> [a, st]   st: "enq" | "queued" | "run" | "done"
  acck,    \* key -> unfinished ids in the order they were accepted (entered a queue)
  last     \* latest action record (output only)

vars    == <<nw, lru, store, cache, q, h, ops, acck>>
allvars == <<vars, last>>

Ws   == 1..nw
Idle == [id |-> 0]
(* ----------------------------------------------------------------------- *)
(* worker.go:140-338, the seven handlers                                    *)
CallD(fn, pre) == [t |-> "call", fn |-> fn, pre |-> pre]
FinD(c, v, r)  == [t |-> "fin", c |-> c, v |-> v, r |-> r]     \* c: "set" | "del" | "none"
FailD(a, r) == IF Dev = "renewOnErr" THEN FinD("set", a.d, r) ELSE FinD("none", 0, r)
(* the last callback decides: renew the cache with its value, or report its error *)
Renew(a, res) == IF res.ok THEN FinD("set", res.v, res) ELSE FailD(a, res)

Decide(a, hit, cv, rs) ==
  LET n == Len(rs) IN
  CASE a.op = "get" ->
         IF hit THEN FinD("none", 0, Ok(cv))
         ELSE IF n = 0 THEN CallD("load", 0) ELSE Renew(a, rs[1])
    [] a.op = "add" ->
         IF hit /\ Dev \notin {"addBlind", "addFast"} THEN FinD("none", 0, Err("dup"))
         ELSE IF n = 0 THEN CallD("add", 0) ELSE Renew(a, rs[1])
    [] a.op = "upd" ->
         IF hit THEN (IF n = 0 THEN CallD("upd", cv) ELSE Renew(a, rs[1]))
         ELSE IF n = 0 THEN CallD("load", 0)
         ELSE IF n = 1 THEN (IF rs[1].ok THEN CallD("upd", rs[1].v) ELSE FinD("none", 0, rs[1]))
         ELSE Renew(a, rs[2])
    [] a.op = "del" ->
         IF n = 0 THEN CallD("del", 0)
         ELSE IF rs[1].ok THEN FinD(IF Dev = "delKeeps" THEN "none" ELSE "del", 0, Ok(0))
         ELSE FinD("none", 0, rs[1])
    [] a.op = "uoa" ->
         IF hit THEN (IF n = 0 THEN CallD("upd", cv) ELSE Renew(a, rs[1]))
         ELSE IF n = 0 THEN CallD("load", 0)
         ELSE IF n = 1 THEN (IF rs[1].ok THEN CallD("upd", rs[1].v)
                             ELSE IF rs[1].e = "nf" THEN CallD("add", 0)
                             ELSE FinD("none", 0, rs[1]))
         ELSE Renew(a, rs[2])
    [] a.op = "utl" ->
         IF hit THEN (IF n = 0 THEN CallD("ups", cv) ELSE Renew(a, rs[1]))
         ELSE IF n = 0 THEN CallD("ups", 0)
         ELSE IF n = 1 THEN (IF rs[1].ok
                             THEN (IF Dev = "utlStale" THEN FinD("set", rs[1].v, rs[1]) ELSE CallD("load", 0))
                             ELSE FinD("none", 0, rs[1]))
         ELSE Renew(a, rs[2])
    [] a.op = "utr" ->
         IF hit THEN (IF n = 0 THEN CallD("ups", cv) ELSE Renew(a, rs[1]))
         ELSE IF n = 0 THEN CallD("ups", 0)
         ELSE FinD("none", 0, rs[1])          \* not cached: answer only
    [] OTHER -> FinD("none", 0, Err("other"))

OpNames == {"get", "add", "upd", "del", "uoa", "utl", "utr"}

(* ----------------------------------------------------------------------- *)
Route(a) == IF Dev = "split" THEN (a.id % nw) + 1 ELSE (a.k % nw) + 1   \* locHash
Active(w) == h[w].id # 0
Cur(w)    == ops[h[w].id].a
Dec(w)    == Decide(Cur(w), h[w].hit, h[w].cv, h[w].rs)
(* gate positions of an operation: 1, 2 = its first / second store callback, 3 = its cache Set/Delete *)
AtGate(w) == Gated /\ (IF Dec(w).t = "call" THEN (Len(h[w].rs) + 1) \in Cur(w).g
                       ELSE Dec(w).c # "none" /\ 3 \in Cur(w).g)
Unfinished == {i \in 1..Len(ops) : ops[i].st # "done"}

(* nothing can move by itself: the executor's global quiescence *)
Quiet ==
  /\ \A i \in 1..Len(ops) : ops[i].st # "enq"
  /\ \A w \in Ws : IF Active(w) THEN h[w].wait ELSE q[w] = <<>>

(* a finished operation keeps no history: the state does not grow with the past *)
Gone == [op |-> "gone", k |-> 0, id |-> 0, d |-> 0, f |-> {}, g |-> {}]
NewOp(a, st) == IF st = "done" THEN [a |-> Gone, st |-> st, ab |-> FALSE] ELSE [a |-> a, st |-> st, ab |-> FALSE]

Submit(a) ==
  /\ Len(ops) < MaxOps /\ a.id = Len(ops) + 1
  /\ Gated => (Quiet /\ Cardinality(Unfinished) < MaxOut)
  /\ LET w == Route(a) IN
       IF (a.op = "get" \/ (a.op = "add" /\ Dev = "addFast")) /\ cache[w][a.k] # 0   \* DoGet fast path, caller's goroutine
       THEN ops' = Append(ops, NewOp(a, "done")) /\ UNCHANGED <<q, acck>>
       ELSE IF a.op = "get"
       THEN ops' = Append(ops, NewOp(a, "enq")) /\ UNCHANGED <<q, acck>>
       ELSE /\ ops' = Append(ops, NewOp(a, "queued"))
            /\ q' = [q EXCEPT ![w] = Append(@, a.id)]
            /\ acck' = [acck EXCEPT ![a.k] = Append(@, a.id)]
  /\ UNCHANGED <<nw, lru, store, cache, h>>
  /\ last' = a

(* The caller's context ends while its operation is accepted and unfinished: the caller   *)
(* returns the context's error at once (AsyncC.R), the operation is ABANDONED but stays    *)
(* in the queue / in its handler and is applied exactly as if the caller still waited -    *)
(* nothing below looks at `ab`.  (Plans only: the flag changes no other behaviour.)        *)
Cancel(i) ==
  /\ Gated /\ Quiet
  /\ i \in 1..Len(ops) /\ ops[i].st \in {"queued", "run"} /\ ~ops[i].ab
  /\ ops' = [ops EXCEPT ![i].ab = TRUE]
  /\ UNCHANGED <<nw, lru, store, cache, q, h, acck>>
  /\ last' = [op |-> "cancel", id |-> i]

Enq(i) ==
  /\ i \in 1..Len(ops) /\ ops[i].st = "enq"
  /\ ops' = [ops EXCEPT ![i].st = "queued"]
  /\ q' = [q EXCEPT ![Route(ops[i].a)] = Append(@, i)]
  /\ acck' = [acck EXCEPT ![ops[i].a.k] = Append(@, i)]
  /\ UNCHANGED <<nw, lru, store, cache, h>>
  /\ last' = [op |-> "int"]

Start(w) ==
  /\ ~Active(w) /\ q[w] # <<>>
  /\ LET i == Head(q[w])
         k == ops[i].a.k
     IN /\ h' = [h EXCEPT ![w] = [id |-> i, hit |-> cache[w][k] # 0, cv |-> cache[w][k], rs |-> <<>>,
                                  wait |-> FALSE, anyc |-> \E v \in Ws : cache[v][k] # 0]]
        /\ ops' = [ops EXCEPT ![i].st = "run"]
  /\ q' = [q EXCEPT ![w] = Tail(@)]
  /\ UNCHANGED <<nw, lru, store, cache, acck>>
  /\ last' = [op |-> "int"]

Arrive(w) ==
  /\ Active(w) /\ AtGate(w) /\ ~h[w].wait
  /\ h' = [h EXCEPT ![w].wait = TRUE]
  /\ UNCHANGED <<nw, lru, store, cache, q, ops, acck>>
  /\ last' = [op |-> "int"]

(* a gated step happens on an external release, in an otherwise quiescent state *)
GateOK(w, ext) ==
  IF AtGate(w) THEN ext /\ h[w].wait /\ \A v \in Ws \ {w} : (IF Active(v) THEN h[v].wait ELSE q[v] = <<>>)
                    /\ \A i \in 1..Len(ops) : ops[i].st # "enq"
  ELSE ~ext

(* one store callback; ext = TRUE: the release of a gated callback (external step) *)
Call(w, ext) ==
  /\ Active(w) /\ Dec(w).t = "call"
  /\ GateOK(w, ext)
  /\ LET a == Cur(w)
         n == Len(h[w].rs) + 1
         d == Dec(w)
     IN \E inj \in (IF FreeFail THEN BOOLEAN ELSE {n \in a.f}) :
          LET res == StoreF(store[a.k], d.fn, a.d, d.pre, inj) IN
            /\ store' = [store EXCEPT ![a.k] = res.st]
            /\ h' = [h EXCEPT ![w].rs = Append(@, res.r), ![w].wait = FALSE]
            /\ UNCHANGED ops
            /\ last' = IF ext THEN [op |-> "rel", id |-> h[w].id]
                       ELSE [op |-> "call", id |-> h[w].id, k |-> a.k, fn |-> d.fn]
  /\ UNCHANGED <<nw, lru, cache, q, acck>>

Fin(w, ext) ==
  /\ Active(w) /\ Dec(w).t = "fin"
  /\ GateOK(w, ext)
  /\ LET a == Cur(w)
         d == Dec(w)
     IN /\ cache' = CASE d.c = "set" -> [cache EXCEPT ![w][a.k] = d.v]
                      [] d.c = "del" -> [cache EXCEPT ![w][a.k] = 0]
                      [] OTHER -> cache
        /\ ops' = [ops EXCEPT ![h[w].id] = NewOp(a, "done")]
        /\ acck' = [acck EXCEPT ![a.k] = SelectSeq(@, LAMBDA x : x # h[w].id)]
        /\ last' = IF ext THEN [op |-> "rel", id |-> h[w].id]
                   ELSE [op |-> "fin", id |-> h[w].id, aop |-> a.op, k |-> a.k, r |-> d.r,
                         n |-> Len(h[w].rs), hit |-> h[w].hit, cached |-> h[w].anyc]
  /\ h' = [h EXCEPT ![w] = Idle]
  /\ UNCHANGED <<nw, lru, store, q>>

(* LRU facade: an entry may be dropped (abstraction of capacity eviction) *)
Evict(w, k) ==
  /\ lru /\ ~Gated /\ cache[w][k] # 0
  /\ cache' = [cache EXCEPT ![w][k] = 0]
  /\ UNCHANGED <<nw, lru, store, q, h, ops, acck>>
  /\ last' = [op |-> "int"]

(* failure / gate patterns (repeated entries only weight the random walk of plan generation) *)
FPats == IF FreeFail THEN <<{}>> ELSE <<{}, {}, {}, {1}, {2}, {1, 2}>>
GPats == IF Gated THEN <<{}, {}, {1}, {2}, {3}, {1, 2}, {1, 3}, {2, 3}>> ELSE <<{}>>

InitWith(n, l) ==
  /\ nw = n /\ lru = l
  /\ store = [k \in Keys |-> 0]
  /\ cache = [w \in 1..n |-> [k \in Keys |-> 0]]
  /\ q = [w \in 1..n |-> <<>>]
  /\ h = [w \in 1..n |-> Idle]
  /\ ops = <<>>
  /\ acck = [k \in Keys |-> <<>>]
  /\ last = [op |-> "init", nw |-> n, lru |-> l]

Init == \E n \in NWs, l \in Lrus : InitWith(n, l)
Next ==
  \/ \E o \in OpNames, k \in Keys, fi \in DOMAIN FPats, gi \in DOMAIN GPats :
        Submit([op |-> o, k |-> k, id |-> Len(ops) + 1, d |-> Len(ops) + 1, f |-> FPats[fi], g |-> GPats[gi]])
  \/ \E i \in 1..Len(ops) : Enq(i) \/ Cancel(i)
  \/ \E w \in Ws : Start(w) \/ Arrive(w) \/ Call(w, FALSE) \/ Call(w, TRUE) \/ Fin(w, FALSE) \/ Fin(w, TRUE)
  \/ \E w \in Ws, k \in Keys : Evict(w, k)
Spec == Init /\ [][Next]_allvars

-----------------------------------------------------------------------------
Busy(k) == \E w \in Ws : Active(w) /\ Cur(w).k = k

TypeOK ==
  /\ \A k \in Keys : store[k] \in 0..MaxOps
  /\ \A w \in Ws : \A k \in Keys : cache[w][k] \in (0 - MaxOps)..MaxOps
  /\ \A i \in 1..Len(ops) : ops[i].st \in {"enq", "queued", "run", "done"}

(* whenever the cache holds a value for a key that no handler is working on, *)
(* it is the store's value                                                   *)
Coherent == \A k \in Keys : ~Busy(k) =>
              \A w \in Ws : cache[w][k] # 0 => cache[w][k] = store[k]
(* while a handler works on k the cache still shows a value the store had    *)
(* since the handler started (never a value the store did not confirm)       *)
(* one at a time per key *)
OneAtATime == \A v, w \in Ws : (v # w /\ Active(v) /\ Active(w)) => Cur(v).k # Cur(w).k
(* ... in the order of acceptance: everything accepted earlier for the key is done *)
InOrder == \A w \in Ws : Active(w) => Head(acck[Cur(w).k]) = h[w].id
(* a queue holds accepted, not yet started operations of its own keys, once *)
QueueSound == \A w \in Ws : \A i \in 1..Len(q[w]) :
                ops[q[w][i]].st = "queued" /\ \A j \in 1..Len(q[w]) : (q[w][i] = q[w][j]) => i = j

(* action properties, on the record of the step just taken *)
DeleteClears == [][LET a == last' IN (a.op = "fin" /\ a.aop = "del" /\ a.r.ok) =>
                      \A w \in Ws : cache'[w][a.k] = 0]_allvars
AddDup == [][LET a == last' IN (a.op = "fin" /\ a.aop = "add" /\ a.cached) =>
                      (a.r.e = "dup" /\ a.n = 0)]_allvars
DupUntouched == [][LET a == last' IN (a.op = "fin" /\ a.r.e = "dup") => a.n = 0]_allvars
(* what a handler answers is the stored row (an uncached upsert answers its marker) *)
ReplyFresh == [][LET a == last' IN (a.op = "fin" /\ a.r.ok /\ a.aop # "del") =>
                      a.r.v = (IF a.aop = "utr" /\ ~a.hit THEN 0 - store'[a.k] ELSE store'[a.k])]_allvars
(* only a store call changes the store, and only for the key of the running handler *)
StoreByCalls == [][store' # store => last'.op \in {"call", "rel"}]_allvars

View == vars
=============================================================================
