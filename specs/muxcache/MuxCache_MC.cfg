SPECIFICATION Spec
CONSTANTS
  Keys = {1, 2}
  NWs = {1, 2}
  Lrus = {TRUE}
  MaxOps = 3
  FreeFail = TRUE
  Gated = FALSE
  MaxOut = 9
  Dev = "none"
INVARIANTS TypeOK Coherent OneAtATime InOrder QueueSound
PROPERTIES DeleteClears AddDup DupUntouched ReplyFresh StoreByCalls
VIEW View
CHECK_DEADLOCK FALSE
