-------------------------- MODULE MuxCache_Trace --------------------------
(* Validates event streams recorded from the real mux.WorkerGrp.  The store  *)
(* callbacks and the cache facades are harness objects that log from inside  *)
(* the worker goroutines; callers log submission and return.  The validator  *)
(* is contract level: it does not prescribe which callbacks a handler makes  *)
(* or whether it fills the cache - only what the property says:              *)
(*  P1 store callbacks of one key never overlap, are made only for an        *)
(*     accepted, unreturned operation, and (serial submissions) never for an *)
(*     operation accepted before one that already called the store;          *)
(*  P2 a value put into / found in the cache for k is the store's value of   *)
(*     k; while operations on k are unfinished, a value the store held when  *)
(*     the calling operation began is tolerated; the existing item handed to *)
(*     an update/upsert callback is the store's value (or nothing, upsert);  *)
(*  P3 after a successful delete nothing is cached (= P2, the store has no   *)
(*     value);  P4 add on a cached key: duplicate, no store call; a          *)
(*     duplicate/rejected reply never comes with a store call; an add whose  *)
(*     store callback begins finds the key uncached (the duplicate check is  *)
(*     made when the add is applied, in acceptance order); no operation is   *)
(*     answered before an earlier accepted one of its key touched the store  *)
(*     (serial runs; a get may be answered from the cache at once);          *)
(*  P5 what an undisturbed call returns is the store's value (or its own     *)
(*     last callback's answer); every accepted operation returns.            *)
(* Events:                                                                   *)
(*   reset {nk, serial, ...}      new group                                  *)
(*   sub {id, op, k, d}           caller is about to call DoXxx              *)
(*   scb {id, k, fn, cached}      store callback entered (worker goroutine); *)
(*                                cached = Peek of every facade at that moment *)
(*   sce {id, k, fn, d, pre, inj, r}   ... applied to the store, result r    *)
(*   cset {k, v} / cdel {k}       facade Set / Delete (worker goroutine)     *)
(*   ret {id, r}                  DoXxx returned; r.e = "canceled": the      *)
(*                                caller's context ended, the operation is   *)
(*                                ABANDONED: accepted, still to be applied   *)
(*                                once, in order, by the owning worker       *)
(*   step {cache, store, gated}   global quiescence: Peek of every facade,   *)
(*                                ids waiting at a gate (none: every worker  *)
(*                                is idle, every abandoned operation done)   *)
(*   run {k, n, same, v, consulted}   n DoGet of a cached key by one caller,  *)
(*                                run-length encoded: all n replies are the   *)
(*                                stored row, the store is never consulted    *)
(*   exits {rounds, stopped, left}    a batch of tiny life cycles (two Stops at  *)
(*                                one instant release all parked workers):   *)
(*                                every group reports its exit, no goroutine *)
(*                                of the package is left                     *)
(*   life {what}                  Start / Stop of the group returned.  Calls  *)
(*                                made before Start wait in the queues; calls *)
(*                                accepted before Stop are still applied      *)
(*   end {}                       everything released and settled            *)
EXTENDS Integers, Sequences, FiniteSets, TLC, Json, IOUtils, MuxStore

TraceLog == ndJsonDeserialize(IOEnv.VERIF_TRACE)

VARIABLES
  l,       \* next line
  serial,  \* submissions are separated by quiescence: ids are acceptance order
  store,   \* key -> value, replayed from the store events
  base,    \* key -> store value when the operation now calling the store began
  tops,    \* id -> [op, k, d, n, solo, lr, cached, rej]
  pend,    \* ids submitted and not returned
  aband,   \* ids whose caller gave up (context ended) and that may still be queued / running
  open,    \* key -> id inside a store callback (0 = none)
  cursor,  \* key -> latest id that called the store
  seen     \* last quiescent cache observation, valid for the next line only (else <<>>)
tvars == <<l, serial, store, base, tops, pend, aband, open, cursor, seen>>

NK == Len(store)
Live == pend \cup aband
PendK(k) == {i \in Live : tops[i].k = k}
OpNames == {"get", "add", "upd", "del", "uoa", "utl", "utr"}
Errs == {"inj", "nf", "sdup", "dup", "qfull", "closed", "canceled"}
Mutators == {"add", "upd", "ups", "del"}

(* a cached value v of key k is acceptable *)
CacheOK(k, v, st, bs, pd) ==
  /\ v # 0
  /\ IF \E i \in pd : tops[i].k = k THEN v \in {st[k], bs[k]} ELSE v = st[k]

TraceInit ==
  /\ l = 1 /\ serial = TRUE /\ store = <<>> /\ base = <<>> /\ tops = <<>> /\ pend = {} /\ aband = {}
  /\ open = <<>> /\ cursor = <<>> /\ seen = <<>>

TReset(e) ==
  /\ e.gmux = e.emux /\ e.gdeep = e.edeep            \* MuxSize() / DeepSize() say what was configured
  /\ serial' = e.serial
  /\ store' = [k \in 1..e.nk |-> 0] /\ base' = [k \in 1..e.nk |-> 0]
  /\ open' = [k \in 1..e.nk |-> 0] /\ cursor' = [k \in 1..e.nk |-> 0]
  /\ tops' = <<>> /\ pend' = {} /\ aband' = {} /\ seen' = <<>>

TSub(e) ==
  /\ e.id = Len(tops) + 1 /\ e.op \in OpNames /\ e.k \in 1..NK
  /\ LET quiet == PendK(e.k) = {} IN
       /\ tops' = Append([i \in 1..Len(tops) |->
                            IF i \in PendK(e.k) THEN [tops[i] EXCEPT !.solo = FALSE] ELSE tops[i]],
                         [op |-> e.op, k |-> e.k, d |-> e.d, n |-> 0, m |-> 0, solo |-> quiet, lr |-> 0,
                          sv |-> IF quiet THEN {store[e.k]} ELSE {store[e.k], base[e.k]},     \* values of the key a reader may meet during the call
                          cached |-> (Live = {} /\ seen # <<>> /\ seen[e.k] # <<>>), rej |-> FALSE])
       /\ base' = IF quiet THEN [base EXCEPT ![e.k] = store[e.k]] ELSE base
  /\ pend' = pend \cup {e.id}
  /\ seen' = <<>>
  /\ UNCHANGED <<serial, store, open, cursor, aband>>

TScb(e) ==
  /\ e.id \in Live /\ tops[e.id].k = e.k                  \* only for an accepted, unfinished operation
  /\ open[e.k] = 0                                        \* one at a time per key
  /\ serial => e.id >= cursor[e.k]                        \* in the order of acceptance
  /\ serial => \A i \in (e.id + 1)..Len(tops) :          \* nobody accepted later was answered first
                 (tops[i].k = e.k /\ i \notin Live /\ tops[i].op # "get") => tops[i].rej
  /\ (e.fn = "add" /\ tops[e.id].op = "add") => e.cached = <<>>   \* add on a cached key never reaches the store
  /\ \A j \in 1..Len(e.cached) :                          \* what is cached when the store is consulted
        /\ e.cached[j] # 0
        /\ e.cached[j] \in (IF cursor[e.k] # e.id THEN {store[e.k]} ELSE {store[e.k], base[e.k]})
  /\ open' = [open EXCEPT ![e.k] = e.id]
  /\ cursor' = [cursor EXCEPT ![e.k] = e.id]
  /\ base' = IF cursor[e.k] # e.id THEN [base EXCEPT ![e.k] = store[e.k]] ELSE base
  /\ seen' = <<>>
  /\ UNCHANGED <<serial, store, tops, pend, aband>>

TSce(e) ==
  /\ e.id \in Live /\ tops[e.id].k = e.k /\ open[e.k] = e.id
  /\ e.fn \in {"add", "upd", "ups"} => e.d = tops[e.id].d
  /\ e.fn = "upd" => e.pre = store[e.k]                   \* the existing item is the stored one
  /\ e.fn = "ups" => e.pre \in {0, store[e.k]}
  /\ LET res == StoreF(store[e.k], e.fn, tops[e.id].d, e.pre, e.inj) IN
       /\ e.r = res.r
       /\ store' = [store EXCEPT ![e.k] = res.st]
       /\ (e.fn \in Mutators /\ res.r.ok) => tops[e.id].m = 0        \* an operation is applied at most once
       /\ tops' = [i \in 1..Len(tops) |->
                     LET t == IF i \in Live /\ tops[i].k = e.k THEN [tops[i] EXCEPT !.sv = @ \cup {res.st}] ELSE tops[i]
                     IN IF i = e.id THEN [t EXCEPT !.n = @ + 1, !.lr = res.r.v,
                                                   !.m = IF e.fn \in Mutators /\ res.r.ok THEN 1 ELSE @]
                        ELSE t]
  /\ open' = [open EXCEPT ![e.k] = 0]
  /\ seen' = <<>>
  /\ UNCHANGED <<serial, base, pend, aband, cursor>>

TCset(e) ==
  /\ e.k \in 1..NK /\ CacheOK(e.k, e.v, store, base, Live)
  /\ seen' = <<>>
  /\ UNCHANGED <<serial, store, base, tops, pend, aband, open, cursor>>

TCdel(e) ==
  /\ seen' = <<>>
  /\ UNCHANGED <<serial, store, base, tops, pend, aband, open, cursor>>

TRet(e) ==
  /\ e.id \in pend
  /\ LET o == tops[e.id]
         r == e.r
     IN /\ IF r.ok THEN r.e = "" ELSE (r.e \in Errs /\ r.v = 0)
        /\ r.e \in {"qfull", "closed", "dup"} => o.n = 0               \* rejected: store untouched
        /\ (o.op = "add" /\ o.cached /\ r.e \notin {"canceled", "qfull", "closed"}) => r.e = "dup"                   \* add on a cached key
        /\ (o.solo /\ r.e = "dup") => store[o.k] # 0                    \* duplicate: cached, hence stored
        /\ (o.solo /\ r.ok /\ o.op \in {"add", "upd", "uoa", "utl", "utr"}) => store[o.k] = o.d   \* applied
        /\ (r.ok /\ o.op # "del") =>          \* also under overlap: a value the key had during the call
              (r.v # 0 /\ (r.v \in o.sv \/ (o.n > 0 /\ r.v = o.lr)))
        /\ (o.solo /\ r.ok /\ o.op # "del") =>
              (r.v # 0 /\ (r.v = store[o.k] \/ (o.n > 0 /\ r.v = o.lr)))
        /\ (o.solo /\ r.ok /\ o.op = "del") => (r.v = 0 /\ store[o.k] = 0 /\ o.n > 0)
        /\ r.e # "canceled" => open[o.k] # e.id
  /\ pend' = pend \ {e.id}
  /\ aband' = IF e.r.e = "canceled" THEN aband \cup {e.id} ELSE aband
  /\ tops' = [tops EXCEPT ![e.id].rej = e.r.e \in {"qfull", "closed", "canceled"}]
  /\ seen' = <<>>
  /\ UNCHANGED <<serial, store, base, open, cursor>>

TStep(e) ==
  /\ e.store = store
  /\ \A k \in 1..NK : \A i \in 1..Len(e.cache[k]) : CacheOK(k, e.cache[k][i], store, base, Live)
  /\ (e.gated = <<>> /\ e.running) =>   \* every worker idle: an abandoned operation was applied, not dropped
        \A i \in aband : tops[i].op \notin {"add", "get"} => tops[i].n > 0
  /\ aband' = IF e.gated = <<>> /\ e.running THEN {} ELSE aband
  /\ seen' = IF Live = {} THEN e.cache ELSE <<>>
  /\ UNCHANGED <<serial, store, base, tops, pend, open, cursor>>

TRun(e) ==
  /\ e.k \in 1..NK /\ e.n >= 1
  /\ PendK(e.k) = {} => (e.same = e.n /\ e.v = store[e.k] /\ e.v # 0 /\ e.consulted = 0)
  /\ seen' = <<>>
  /\ UNCHANGED <<serial, store, base, tops, pend, aband, open, cursor>>

TExits(e) ==
  /\ e.stopped = e.rounds /\ e.left = 0
  /\ seen' = <<>>
  /\ UNCHANGED <<serial, store, base, tops, pend, aband, open, cursor>>

TLife(e) ==
  /\ e.what \in {"start", "stop"}
  /\ seen' = <<>>
  /\ UNCHANGED <<serial, store, base, tops, pend, aband, open, cursor>>

TEnd(e) ==
  /\ pend = {} /\ aband = {} /\ \A k \in 1..NK : open[k] = 0
  /\ seen' = <<>>
  /\ UNCHANGED <<serial, store, base, tops, pend, aband, open, cursor>>

TraceNext ==
  /\ l <= Len(TraceLog) /\ l' = l + 1
  /\ LET e == TraceLog[l] IN
       CASE e.ev = "reset" -> TReset(e)
         [] e.ev = "sub"   -> TSub(e)
         [] e.ev = "scb"   -> TScb(e)
         [] e.ev = "sce"   -> TSce(e)
         [] e.ev = "cset"  -> TCset(e)
         [] e.ev = "cdel"  -> TCdel(e)
         [] e.ev = "ret"   -> TRet(e)
         [] e.ev = "step"  -> TStep(e)
         [] e.ev = "life"  -> TLife(e)
         [] e.ev = "run"   -> TRun(e)
         [] e.ev = "exits" -> TExits(e)
         [] e.ev = "end"   -> TEnd(e)
         [] OTHER -> FALSE

TraceSpec == TraceInit /\ [][TraceNext]_tvars

ASSUME TLCSet(1, 0)
Mark == TLCSet(1, IF l > TLCGet(1) THEN l ELSE TLCGet(1))
Accepted == PrintT(<<"MARK", TLCGet(1), Len(TraceLog)>>) /\ TLCGet(1) = Len(TraceLog) + 1
=============================================================================
