SPECIFICATION Spec
CONSTANTS
  Keys = {1, 2, 3}
  NWs = {1, 2, 3}
  Lrus = {TRUE, FALSE}
  MaxOps = 16
  FreeFail = FALSE
  Gated = TRUE
  MaxOut = 4
  Dev = "none"
  Depth = 48
INVARIANTS Emit
CHECK_DEADLOCK FALSE
