--------------------------- MODULE MuxCache_Gen ---------------------------
(* Plan generation: `tlc -simulate` walks MuxCache with Gated = TRUE (the   *)
(* callbacks named in a.g wait for an external release; submissions and     *)
(* releases only in quiescent states, as the executor does).  The plan is   *)
(* the sequence of `last` records; the harness executes the external ones   *)
(* (operation records and "rel") and skips "int"/"call"/"fin".              *)
EXTENDS MuxCache, TLCExt, Json, IOUtils
CONSTANT Depth
ASSUME TLCSet(2, 0)
Emit ==
  \/ TLCGet("level") # Depth
  \/ /\ TLCSet(2, TLCGet(2) + 1)
     /\ ndJsonSerialize(IOEnv.VERIF_PLANDIR \o "/p" \o ToString(TLCGet(2)) \o ".ndjson",
                        [i \in 1..Len(Trace) |-> Trace[i].last])
=============================================================================
