SPECIFICATION Spec
CONSTANTS
  FixWriteRune = TRUE
  Alphabet = {65, 169, 195, 226}
  PayMax = 2
  ExtraPayloads = {}
  Sizes <- MCSizesBig
  Runes <- MCRunes
  MaxLen = 5
CONSTRAINT Bound
INVARIANTS TypeOK PrevOK CleanNoUnread
PROPERTIES WritesAppend WriteRuneSound ReadsConsume UnreadRestores QueriesPure PanicsKeepData WriteToDrains ReWriteExact
VIEW View
CHECK_DEADLOCK FALSE
