SPECIFICATION Spec
CONSTANTS
  FixWriteRune = TRUE
  Alphabet = {65, 169, 195, 226}
  PayMax = 2
  ExtraPayloads = {}
  Sizes <- MCSizesBig
  Runes <- MCRunes
  RErrs = {"EOF", "panic"}
  WErrs = {"nil", "boom", "panic"}
  RunLens = {}
  MaxLen = 5
CONSTRAINT Bound
INVARIANTS TypeOK PrevOK CleanNoUnread
PROPERTIES WritesAppend WriteRuneSound ReadsConsume UnreadRestores QueriesPure PanicsKeepData WriteToDrains ReWriteExact PokeExact PipeMoves RunReads
VIEW View
CHECK_DEADLOCK FALSE
