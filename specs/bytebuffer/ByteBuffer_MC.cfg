SPECIFICATION Spec
CONSTANTS
  FixWriteRune = TRUE
  Alphabet = {65, 195, 169}
  PayMax = 2
  ExtraPayloads = {}
  Sizes <- MCSizes
  Runes <- MCRunes
  RErrs = {"EOF", "panic"}
  WErrs = {"nil", "boom", "panic"}
  RunLens = {}
  MaxLen = 4
CONSTRAINT Bound
INVARIANTS TypeOK PrevOK CleanNoUnread
PROPERTIES WritesAppend WriteRuneSound ReadsConsume UnreadRestores QueriesPure PanicsKeepData WriteToDrains ReWriteExact PokeExact PipeMoves RunReads
VIEW View
CHECK_DEADLOCK FALSE
