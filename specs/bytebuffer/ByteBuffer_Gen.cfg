SPECIFICATION GenSpec
CONSTANTS
  FixWriteRune = TRUE
  Alphabet = {0, 65, 127, 128, 169, 195, 226, 255}
  PayMax = 2
  ExtraPayloads <- GenExtra
  Sizes <- GenSizes
  Runes <- GenRunes
  RErrs = {"EOF", "boom", "wrapEOF", "unexpEOF", "panic"}
  WErrs = {"nil", "boom", "EOF", "short write", "panic"}
  MaxLen = 0
  Depth = 62
INVARIANTS Emit
CHECK_DEADLOCK FALSE
