SPECIFICATION GenSpec
CONSTANTS
  FixWriteRune = TRUE
  Alphabet = {0, 65, 127, 128, 169, 195, 226, 255}
  PayMax = 2
  ExtraPayloads <- GenExtra
  Sizes <- GenSizes
  Runes <- GenRunes
  RErrs = {"EOF", "boom", "wrapEOF", "unexpEOF", "shortbuf", "noprogress", "closedpipe", "short write", "wrapShort", "toolarge", "panic"}
  WErrs = {"nil", "boom", "EOF", "wrapEOF", "unexpEOF", "short write", "wrapShort", "shortbuf", "noprogress", "closedpipe", "toolarge", "panic"}
  RunLens = {255, 256, 257}
  MaxLen = 0
  Depth = 62
INVARIANTS Emit
CHECK_DEADLOCK FALSE
