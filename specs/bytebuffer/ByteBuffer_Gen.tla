--------------------------- MODULE ByteBuffer_Gen ---------------------------
(* Plan generation: `tlc -simulate` walks the ByteBuffer spec and, at depth  *)
(* Depth, writes the action records of the behaviour as one ndjson plan.     *)
(* A step is split in two (ticket, then argument; see GenNext) so that the   *)
(* many ReadFrom scripts and payloads do not crowd out the nullary           *)
(* operations.  Payload sizes reach across the small-buffer (64), MinRead    *)
(* (512) and doubling thresholds of the implementation.                      *)
EXTENDS ByteBuffer, TLCExt, Json, IOUtils
CONSTANT Depth

Fill(n) == [i \in 1..n |-> 97 + (i % 26)]
GenExtra ==
       {Fill(n) : n \in {5, 30, 63, 64, 65, 130, 200, 512}}
  \cup { <<195, 169, 226, 130, 172, 240, 159, 152, 128>>,    \* e-acute, euro sign, U+1F600
         <<65, 226, 130>>, <<240, 159, 152>>,                  \* truncated sequences
         <<255>>, <<192, 128>>, <<237, 160, 128>>, <<244, 144, 128, 128>> }   \* invalid, overlong, surrogate, > 10FFFF
(* +-2147483647 stand for math.MaxInt / math.MinInt: the harness passes those to Next, Truncate, *)
(* ReWrite and as the writer's count; to the model they are just "larger than any length"       *)
GenSizes == {-2147483647, -1, 0, 1, 2, 3, 4, 7, 31, 64, 65, 200, 600, 2147483647}
GenRunes == {-2147483647, -191, -1, 0, 65, 127, 128, 233, 2047, 2048, 8364, 55295, 55296, 57343, 57344,
             65533, 65535, 65536, 128512, 1114111, 1114112, 2147483647}

(* The simulator draws uniformly among ALL successor states, and ReadFrom has thousands of    *)
(* scripts where Reset has one argument-less call.  So a step is split in two: draw a ticket  *)
(* (operation kind, weighted by repetition), then draw one of that kind's arguments.          *)
VARIABLE nextop
Tickets == << "write", "write", "write", "wstr", "wstr", "wbyte", "wrune", "wrune",
              "read", "read", "read", "next", "next", "rbyte", "rbyte", "rrune", "rrune", "rrune",
              "unbyte", "unbyte", "unrune", "unrune", "trunc", "reset", "grow", "grow", "growhuge",
              "readfrom", "readfrom", "writeto", "writeto", "len", "bytes", "string", "nilstr", "rewrite", "rewrite",
              "poke", "pipefrom", "pipeto", "wbyterun", "rbyterun" >>
GenInit == Init /\ nextop = 0
GenNext ==
  \/ /\ nextop = 0
     /\ \E t \in 1..Len(Tickets) : (Tickets[t] = "rewrite" => ~dirty) /\ nextop' = t
     /\ UNCHANGED allvars
  \/ /\ nextop # 0
     /\ \E a \in ActsOf(Tickets[nextop]) : Step(a)
     /\ nextop' = 0
GenSpec == GenInit /\ [][GenNext]_<<allvars, nextop>>

ASSUME TLCSet(2, 0)
Emit ==
  \/ TLCGet("level") < Depth
  \/ nextop # 1          \* Depth is even: the last step draws a ticket; TLC evaluates the invariant on
                         \* every candidate successor, the plan is written for exactly one of them
  \/ /\ TLCSet(2, TLCGet(2) + 1)
     /\ ndJsonSerialize(IOEnv.VERIF_PLANDIR \o "/p" \o ToString(TLCGet(2)) \o ".ndjson",
                        LET done == SelectSeq([i \in 1..Len(Trace) |-> Trace[i]], LAMBDA st : st.nextop = 0)
                        IN [i \in 1..Len(done) |-> done[i].last])
=============================================================================
