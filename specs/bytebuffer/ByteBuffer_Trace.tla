-------------------------- MODULE ByteBuffer_Trace --------------------------
(* Validates ndjson traces recorded from a real buffer (tex.Buffer, or the   *)
(* reference bytes.Buffer driven with the same operations) against           *)
(* ByteBuffer.  Events:                                                      *)
(*   reset {subject, ctor, init, size, cap, obs}   a new buffer              *)
(*   call  {a, r, obs, inmut}                      one method call: action,  *)
(*          reply [n, v, err, b], obs = [len |-> Len(), b |-> Bytes(),       *)
(*          cap |-> Cap()] afterwards, inmut = the slice the caller passed   *)
(*          in (Write, ReWrite) still holds what the caller put there        *)
(* A call is accepted iff some outcome the contract allows (Outs) has that   *)
(* reply and that unread content.  Everything else the harness may record    *)
(* (`hang`: a call did not return; `crash`: the process died inside the      *)
(* buffer; a constructor or observer that panicked shows as len = -1) is     *)
(* not an event of the contract and is rejected.                             *)
EXTENDS ByteBuffer, Json, IOUtils

TraceLog == ndJsonDeserialize(IOEnv.VERIF_TRACE)

VARIABLES l
tvars == <<allvars, l>>

TraceInit == l = 1 /\ InitWith("zero", <<>>, 0)

TReset(e) ==
  /\ e.ctor \in {"zero", "new", "newstr", "sized"}
  /\ data' = (IF e.ctor \in {"new", "newstr"} THEN e.init ELSE <<>>)
  /\ lr' = 0 /\ prev' = <<>> /\ ag' = FALSE /\ dirty' = FALSE
  /\ last' = [op |-> "init"] /\ rep' = Ok
  /\ e.obs.len = Len(data') /\ e.obs.b = data' /\ e.obs.cap >= e.obs.len
  /\ e.ctor = "sized" => e.cap >= e.size          \* NewSizedBuffer: empty, at least the requested capacity

TCall(e) ==
  \E o \in Outs(e.a) :
     /\ o.rep = e.r
     /\ e.obs.len = Len(o.d) /\ e.obs.b = o.d
     /\ e.obs.cap >= e.obs.len              \* Cap() is not compared, but it cannot be below the content
     /\ IF e.a.op = "grow" /\ e.r.err = "nil"  \* "After Grow(n), at least n bytes can be written ... without
          THEN e.obs.cap >= e.obs.len + e.a.n  \*  another allocation": the room is there
          ELSE TRUE
     /\ e.inmut = TRUE                      \* io.Writer: "Write must not modify the slice data, even temporarily"
     /\ Install(o) /\ last' = e.a

Consume ==
  /\ l <= Len(TraceLog) /\ l' = l + 1
  /\ LET e == TraceLog[l] IN
       CASE e.ev = "reset" -> TReset(e)
         [] e.ev = "call"  -> TCall(e)
         [] OTHER -> FALSE

TraceNext == Consume
TraceSpec == TraceInit /\ [][TraceNext]_tvars

(* high-water mark of l in TLC register 1 (needs -workers 1) *)
ASSUME TLCSet(1, 0)
Mark == TLCSet(1, IF l > TLCGet(1) THEN l ELSE TLCGet(1))
Accepted == PrintT(<<"MARK", TLCGet(1), Len(TraceLog)>>) /\ TLCGet(1) = Len(TraceLog) + 1

TView == <<vars, l>>
=============================================================================
