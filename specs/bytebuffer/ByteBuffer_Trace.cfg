SPECIFICATION TraceSpec
CONSTANTS
  FixWriteRune = TRUE
  Alphabet = {}
  PayMax = 0
  ExtraPayloads = {}
  Sizes = {}
  Runes = {}
  RErrs = {}
  WErrs = {}
  RunLens = {}
  MaxLen = 0
INVARIANTS TypeOK PrevOK CleanNoUnread
CONSTRAINT Mark
POSTCONDITION Accepted
VIEW TView
CHECK_DEADLOCK FALSE
