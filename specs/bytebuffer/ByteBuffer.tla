----------------------------- MODULE ByteBuffer -----------------------------
(***************************************************************************)
(* The observable contract of the standard library's bytes.Buffer, which   *)
(* neptune's tex.Buffer (a hand-modified copy) has to satisfy call by      *)
(* call, plus tex's two additions ReWrite and NewSizedBuffer.              *)
(*                                                                         *)
(* Abstract state: the unread bytes `data`; what the previous operation    *)
(* was as far as UnreadByte/UnreadRune care (`lr`: 0 = not a read, -1 = a  *)
(* read of >= 1 byte, 1..4 = ReadRune of that size) together with the      *)
(* bytes it consumed last (`prev`).  Storage, offsets and capacity do not  *)
(* exist here: growth (small buffer, reslice, slide down, reallocate) must *)
(* be invisible.                                                           *)
(*                                                                         *)
(* An operation is an action record `a` (the JSON object the Go harness    *)
(* logs).  Outs(a) is the SET of outcomes the contract allows in the       *)
(* current state: successor state + reply.  It is a singleton everywhere   *)
(* except where the property leaves the answer open:                       *)
(*   - UnreadByte/UnreadRune directly after a Grow that returned (`ag`):   *)
(*     bytes.Buffer's own answer depends on whether Grow resliced or moved *)
(*     the data, i.e. on the capacity policy of the Go release;            *)
(*   - ReWrite at a position outside the buffer (panic or nothing).        *)
(* Replies have one fixed shape [n, v, err, b]; a panic is the reply       *)
(* err = "panic: <message>" (run-time errors: "panic: runtime error").     *)
(* UTF-8 is specified here in full (Decode/Encode); the check validates    *)
(* traces of the real bytes.Buffer against this module as well, so a       *)
(* mistake in it shows up as a machinery error, not as a verdict.          *)
(***************************************************************************)
EXTENDS Integers, Sequences, FiniteSets, TLC

CONSTANT FixWriteRune   \* TRUE: WriteRune as bytes.Buffer.  FALSE: the named deviation found in
                        \* tex/buffer.go (signed compare r < 0x80: a negative rune is written as
                        \* the single raw byte byte(r))

VARIABLES
  data,    \* unread bytes
  lr,      \* 0 | -1 | 1..4   what Unread* may undo
  prev,    \* the bytes consumed by the last read that Unread* would give back (<<>> iff lr = 0)
  ag,      \* lr # 0 and the previous state-changing call was a Grow that returned
  dirty,   \* some byte has been consumed since construction / Reset / Truncate(0)
           \* (ReWrite positions are only unambiguous while this is FALSE)
  last,    \* action record of the latest step   (output only)
  rep      \* its reply                          (output only)

vars    == <<data, lr, prev, ag, dirty>>
allvars == <<vars, last, rep>>

Take(s, n) == SubSeq(s, 1, n)
Drop(s, n) == SubSeq(s, n + 1, Len(s))
MinOf(x, y) == IF x < y THEN x ELSE y

(* ------------------------------ UTF-8 ---------------------------------- *)
RuneError == 65533                                   \* U+FFFD
Cont(b)   == b >= 128 /\ b <= 191                    \* continuation byte
Bad       == [r |-> RuneError, n |-> 1]

(* first rune of the non-empty byte sequence s, and its width (utf8.DecodeRune) *)
Decode(s) ==
  LET b0 == s[1]
      L  == Len(s)
  IN IF b0 < 128 THEN [r |-> b0, n |-> 1]
     ELSE IF b0 < 194 THEN Bad                       \* stray continuation, overlong C0/C1
     ELSE IF b0 < 224 THEN
       IF L >= 2 /\ Cont(s[2])
       THEN [r |-> (b0 - 192) * 64 + (s[2] - 128), n |-> 2] ELSE Bad
     ELSE IF b0 < 240 THEN
       LET lo == IF b0 = 224 THEN 160 ELSE 128       \* no overlong
           hi == IF b0 = 237 THEN 159 ELSE 191       \* no surrogates
       IN IF L >= 3 /\ s[2] >= lo /\ s[2] <= hi /\ Cont(s[3])
          THEN [r |-> (b0 - 224) * 4096 + (s[2] - 128) * 64 + (s[3] - 128), n |-> 3] ELSE Bad
     ELSE IF b0 < 245 THEN
       LET lo == IF b0 = 240 THEN 144 ELSE 128       \* no overlong
           hi == IF b0 = 244 THEN 143 ELSE 191       \* <= U+10FFFF
       IN IF L >= 4 /\ s[2] >= lo /\ s[2] <= hi /\ Cont(s[3]) /\ Cont(s[4])
          THEN [r |-> (b0 - 240) * 262144 + (s[2] - 128) * 4096 + (s[3] - 128) * 64 + (s[4] - 128),
                n |-> 4]
          ELSE Bad
     ELSE Bad

IsScalar(r) == r >= 0 /\ r <= 1114111 /\ ~(r >= 55296 /\ r <= 57343)
Canon(r)    == IF IsScalar(r) THEN r ELSE RuneError

(* utf8.EncodeRune / AppendRune *)
Encode(r) ==
  LET c == Canon(r)
      Lo6(x) == 128 + (x % 64)
  IN IF c < 128 THEN <<c>>
     ELSE IF c < 2048 THEN <<192 + (c \div 64), Lo6(c)>>
     ELSE IF c < 65536 THEN <<224 + (c \div 4096), Lo6(c \div 64), Lo6(c)>>
     ELSE <<240 + (c \div 262144), Lo6(c \div 4096), Lo6(c \div 64), Lo6(c)>>

(* ------------------------------ replies -------------------------------- *)
Rp(n, v, err, b) == [n |-> n, v |-> v, err |-> err, b |-> b]
Ok            == Rp(0, 0, "nil", <<>>)
Panic(msg)    == Rp(0, 0, "panic: " \o msg, <<>>)
RuntimePanic  == Panic("runtime error")
ErrUnreadByte == "bytes.Buffer: UnreadByte: previous operation was not a successful read"
ErrUnreadRune == "bytes.Buffer: UnreadRune: previous operation was not a successful ReadRune"
MsgTruncate   == "bytes.Buffer: truncation out of range"
MsgGrowNeg    == "bytes.Buffer.Grow: negative count"
MsgTooLarge   == "bytes.Buffer: too large"
MsgNegRead    == "bytes.Buffer: reader returned negative count from Read"
MsgBadWrite   == "bytes.Buffer.WriteTo: invalid Write count"
MsgReaderBang == "reader panic"                      \* what the scripted reader / writer of the harness panic with
MsgWriterBang == "writer panic"
NilString     == <<60, 110, 105, 108, 62>>          \* "<nil>"

(* ------------------------------ outcomes ------------------------------- *)
St(d, l, p, g, y, r) == [d |-> d, lr |-> l, prev |-> p, ag |-> g, dirty |-> y, rep |-> r]
Same(r)      == St(data, lr, prev, ag, dirty, r)                 \* nothing changes
NoRead(d, r) == St(d, 0, <<>>, FALSE, dirty, r)                  \* a non-read operation

(* bytes a write-class operation appends *)
Written(a) ==
  CASE a.op \in {"write", "wstr"} -> a.p
    [] a.op = "wbyte" -> <<a.c>>
    [] a.op = "wrune" -> IF ~FixWriteRune /\ a.r < 0 THEN <<a.r % 256>> ELSE Encode(a.r)

(* ReadFrom: the reader is a script of steps [b |-> bytes, e |-> kind]; step i is what the   *)
(* i-th Read call returns.  Kinds: "nil"; "EOF" (io.EOF itself: the only error ReadFrom      *)
(* swallows); "neg" (count -1); "panic" (the reader panics instead of returning); any other  *)
(* kind is an error value handed back as it is ("boom", "wrapEOF" = an error that WRAPS      *)
(* io.EOF and therefore is not io.EOF, "unexpEOF" = io.ErrUnexpectedEOF).  The script ends   *)
(* with a step whose e # "nil".                                                              *)
StopAt(s) == CHOOSE i \in 1..Len(s) : s[i].e # "nil" /\ \A j \in 1..(i - 1) : s[j].e = "nil"
RECURSIVE Gather(_, _)
Gather(s, k) == IF k = 0 THEN <<>>
                ELSE Gather(s, k - 1) \o (IF s[k].e \in {"neg", "panic"} THEN <<>> ELSE s[k].b)

Overwrite(d, pos, p) ==
  [i \in 1..Len(d) |-> IF i > pos /\ i <= pos + Len(p) THEN p[i - pos] ELSE d[i]]

(* the three answers a bytes.Buffer may give to Unread* right after Grow: restored (Grow *)
(* resliced), silently nothing (Grow moved the data to the front), or refused            *)
AfterGrow(back, errtext) ==
  { St(back \o data, 0, <<>>, FALSE, dirty, Ok),
    St(data, 0, <<>>, FALSE, dirty, Ok),
    St(data, 0, <<>>, FALSE, dirty, Rp(0, 0, errtext, <<>>)) }

Outs(a) ==
  CASE a.op \in {"write", "wstr"} -> { NoRead(data \o a.p, Rp(Len(a.p), 0, "nil", <<>>)) }
    [] a.op = "wbyte" -> { NoRead(data \o Written(a), Ok) }
    [] a.op = "wrune" -> { NoRead(data \o Written(a), Rp(Len(Written(a)), 0, "nil", <<>>)) }
    [] a.op = "read" ->        \* Read(p) with len(p) = a.n >= 0
         IF data = <<>>
         THEN { NoRead(<<>>, Rp(0, 0, IF a.n = 0 THEN "nil" ELSE "EOF", <<>>)) }
         ELSE LET n == MinOf(a.n, Len(data))
              IN IF n = 0 THEN { NoRead(data, Rp(0, 0, "nil", <<>>)) }
                 ELSE { St(Drop(data, n), -1, <<data[n]>>, FALSE, TRUE, Rp(n, 0, "nil", Take(data, n))) }
    [] a.op = "next" ->
         IF a.n < 0 THEN { NoRead(data, RuntimePanic) }
         ELSE LET n == MinOf(a.n, Len(data))
              IN IF n = 0 THEN { NoRead(data, Rp(0, 0, "nil", <<>>)) }
                 ELSE { St(Drop(data, n), -1, <<data[n]>>, FALSE, TRUE, Rp(n, 0, "nil", Take(data, n))) }
    [] a.op = "rbyte" ->
         IF data = <<>> THEN { NoRead(<<>>, Rp(0, 0, "EOF", <<>>)) }
         ELSE { St(Tail(data), -1, <<data[1]>>, FALSE, TRUE, Rp(0, data[1], "nil", <<>>)) }
    [] a.op = "rrune" ->
         IF data = <<>> THEN { NoRead(<<>>, Rp(0, 0, "EOF", <<>>)) }
         ELSE LET dc == Decode(data)
              IN { St(Drop(data, dc.n), dc.n, Take(data, dc.n), FALSE, TRUE, Rp(dc.n, dc.r, "nil", <<>>)) }
    [] a.op = "unbyte" ->
         IF lr = 0 THEN { Same(Rp(0, 0, ErrUnreadByte, <<>>)) }
         ELSE IF ag THEN AfterGrow(<<prev[Len(prev)]>>, ErrUnreadByte)
         ELSE { NoRead(<<prev[Len(prev)]>> \o data, Ok) }
    [] a.op = "unrune" ->
         IF lr <= 0 THEN { Same(Rp(0, 0, ErrUnreadRune, <<>>)) }     \* lr = -1 stays: UnreadByte still works
         ELSE IF ag THEN AfterGrow(prev, ErrUnreadRune)
         ELSE { NoRead(prev \o data, Ok) }
    [] a.op = "trunc" ->
         IF a.n = 0 THEN { St(<<>>, 0, <<>>, FALSE, FALSE, Ok) }
         ELSE IF a.n < 0 \/ a.n > Len(data) THEN { NoRead(data, Panic(MsgTruncate)) }
         ELSE { NoRead(Take(data, a.n), Ok) }
    [] a.op = "reset" -> { St(<<>>, 0, <<>>, FALSE, FALSE, Ok) }
    [] a.op = "grow" ->
         IF a.n < 0 THEN { Same(Panic(MsgGrowNeg)) }
         ELSE IF data = <<>> THEN { NoRead(<<>>, Ok) }               \* empty: storage is recycled
         ELSE { St(data, lr, prev, lr # 0, dirty, Ok) }
    [] a.op = "growhuge" ->    \* Grow(MaxInt): cannot be satisfied
         IF data = <<>> THEN { NoRead(<<>>, Panic(MsgTooLarge)) } ELSE { Same(Panic(MsgTooLarge)) }
    [] a.op = "readfrom" ->
         LET k   == StopAt(a.s)
             got == Gather(a.s, k)
             e   == a.s[k].e
         IN { NoRead(data \o got,
                     IF e = "neg" THEN Panic(MsgNegRead)
                     ELSE IF e = "panic" THEN Panic(MsgReaderBang)
                     ELSE Rp(Len(got), k, IF e = "EOF" THEN "nil" ELSE e, <<>>)) }
    [] a.op = "writeto" ->     \* the writer reports a.k bytes written and error a.e; reply.b = what it was given
         IF data = <<>> THEN { NoRead(<<>>, Rp(0, 0, "nil", <<>>)) }    \* the writer is not called
         ELSE IF a.e = "panic" THEN { NoRead(data, Panic(MsgWriterBang)) } \* the writer panics: nothing consumed
         ELSE IF a.k > Len(data) THEN { NoRead(data, Panic(MsgBadWrite)) }
         ELSE { St(Drop(data, a.k), 0, <<>>, FALSE, dirty \/ a.k > 0,
                   Rp(a.k, 1, IF a.e # "nil" THEN a.e
                              ELSE IF a.k # Len(data) THEN "short write" ELSE "nil", data)) }
    [] a.op = "len"    -> { Same(Rp(Len(data), 0, "nil", <<>>)) }
    [] a.op \in {"bytes", "string"} -> { Same(Rp(0, 0, "nil", data)) }
    [] a.op = "nilstr" -> { Same(Rp(0, 0, "nil", NilString)) }          \* (*Buffer)(nil).String()
    [] a.op = "wbyterun" ->    \* a.n times WriteByte(a.c), logged as one event; reply.n = calls that returned nil
         IF a.n <= 0 THEN { Same(Ok) }
         ELSE { NoRead(data \o [i \in 1..a.n |-> a.c], Rp(a.n, 0, "nil", <<>>)) }
    [] a.op = "rbyterun" ->    \* a.n times ReadByte(); reply: n = calls that delivered, b = the bytes in order,
                               \* v = calls that failed, err = what the last call returned
         LET k == MinOf(a.n, Len(data))
         IN IF a.n <= 0 THEN { Same(Ok) }
            ELSE IF k < a.n THEN { St(<<>>, 0, <<>>, FALSE, dirty \/ k > 0, Rp(k, a.n - k, "EOF", Take(data, k))) }
            ELSE { St(Drop(data, k), -1, <<data[k]>>, FALSE, TRUE, Rp(k, 0, "nil", Take(data, k))) }
    [] a.op = "poke" ->        \* bs := Bytes(); bs[a.i] = a.c  -- "the slice aliases the buffer content at least
                               \* until the next buffer modification, so immediate changes to the slice will
                               \* affect the result of future reads"
         IF a.i >= Len(data) THEN { Same(Ok) }
         ELSE { St([data EXCEPT ![a.i + 1] = a.c], lr, prev, ag, dirty, Ok) }
    [] a.op = "pipefrom" ->    \* ReadFrom(another buffer of the same type holding a.p); reply.v = what is left there
         { NoRead(data \o a.p, Rp(Len(a.p), 0, "nil", <<>>)) }
    [] a.op = "pipeto" ->      \* WriteTo(another buffer of the same type holding a.p); reply.b = its content afterwards
         { St(<<>>, 0, <<>>, FALSE, dirty \/ data # <<>>, Rp(Len(data), 0, "nil", a.p \o data)) }
    [] a.op = "rewrite" ->     \* tex only; defined while nothing has been consumed
         IF dirty THEN {}
         ELSE IF a.pos < 0 \/ a.pos > Len(data) THEN { Same(RuntimePanic), Same(Ok) }
         ELSE { St(Overwrite(data, a.pos, a.p), lr, prev, ag, dirty, Ok) }
    [] OTHER -> {}

Install(o) ==
  /\ data' = o.d /\ lr' = o.lr /\ prev' = o.prev /\ ag' = o.ag /\ dirty' = o.dirty
  /\ rep' = o.rep

Step(a) == \E o \in Outs(a) : Install(o) /\ last' = a

(* constructors: "zero" (var b Buffer), "new" (NewBuffer(init)), "newstr" (NewBufferString), *)
(* "sized" (NewSizedBuffer(size): empty, capacity checked in the trace spec)                 *)
InitWith(ctor, init, size) ==
  /\ data = IF ctor \in {"new", "newstr"} THEN init ELSE <<>>
  /\ lr = 0 /\ prev = <<>> /\ ag = FALSE /\ dirty = FALSE
  /\ last = [op |-> "init", ctor |-> ctor, init |-> init, size |-> size]
  /\ rep = Ok

---------------------------------------------------------------------------
(* Bounded instance *)
CONSTANTS Alphabet,      \* bytes payloads are made of
          PayMax,        \* payloads: all sequences over Alphabet up to this length ...
          ExtraPayloads, \* ... plus these
          Sizes,         \* arguments of Read/Next/Truncate/Grow/WriteTo count/ReWrite position
          Runes,         \* arguments of WriteRune
          RErrs,         \* how a reader script ends (besides "neg")
          WErrs,         \* what the writer of WriteTo returns
          RunLens,       \* extra repetition counts of the run-length operations
          MaxLen         \* state constraint on Len(data)

(* constants TLC's cfg syntax cannot express (negative numbers) *)
MCSizes == {-1, 0, 1, 2, 3}
MCRunes == {-1, -191, 65, 233, 8364, 55296, 1114112}   \* raw bytes FF and 'A' under the deviation
MCSizesBig == {-1, 0, 1, 2, 3, 4}

RECURSIVE BSeq(_, _)
BSeq(S, n) == IF n = 0 THEN {<<>>}
              ELSE LET T == BSeq(S, n - 1) IN T \cup {Append(t, x) : t \in {u \in T : Len(u) = n - 1}, x \in S}
Payloads == BSeq(Alphabet, PayMax) \cup ExtraPayloads
Chunks   == {p \in Payloads : Len(p) <= 512}
Firsts   == {c \in Chunks : Len(c) <= 1 \/ c \in ExtraPayloads}
Seconds  == {c \in Chunks : Len(c) <= 1}
Scripts  ==
       {<<[b |-> p, e |-> e]>> : p \in Chunks, e \in RErrs}
  \cup {<<[b |-> <<>>, e |-> "neg"]>>}
  \cup {<<[b |-> p, e |-> "nil"], [b |-> q, e |-> e]>> : p \in Firsts, q \in Seconds, e \in RErrs \cup {"neg"}}

AllOps == {"write", "wstr", "wbyte", "wrune", "read", "next", "trunc", "grow", "rbyte", "rrune", "unbyte",
           "unrune", "reset", "growhuge", "len", "bytes", "string", "nilstr", "readfrom", "writeto", "rewrite",
           "poke", "pipefrom", "pipeto", "wbyterun", "rbyterun"}
Allocatable(n) == n <= 65537     \* Read(make([]byte, n)) and a Grow(n) that succeeds really allocate
ActsOf(op) ==
  CASE op \in {"write", "wstr"} -> [op : {op}, p : Payloads]
    [] op = "wbyte"    -> [op : {op}, c : Alphabet]
    [] op = "wrune"    -> [op : {op}, r : Runes]
    [] op = "read"     -> [op : {op}, n : {n \in Sizes : n >= 0 /\ Allocatable(n)}]
    [] op = "grow"     -> [op : {op}, n : {n \in Sizes : Allocatable(n)}]
    [] op \in {"next", "trunc"} -> [op : {op}, n : Sizes]
    [] op = "growhuge" -> [op : {op}, h : 0..4]          \* which unsatisfiable size (harness table); all alike here
    [] op = "wbyterun" -> [op : {op}, n : {n \in Sizes \cup RunLens : n >= 0 /\ Allocatable(n)}, c : Alphabet]
    [] op = "rbyterun" -> [op : {op}, n : {n \in Sizes \cup RunLens : n >= 0 /\ Allocatable(n)}]
    [] op = "poke"     -> [op : {op}, i : {n \in Sizes : n >= 0 /\ Allocatable(n)}, c : Alphabet]
    [] op \in {"pipefrom", "pipeto"} -> [op : {op}, p : {c \in Payloads : Len(c) <= 1 \/ c \in ExtraPayloads}]
    [] op = "readfrom" -> [op : {op}, s : Scripts]
    [] op = "writeto"  -> [op : {op}, k : {n \in Sizes : n >= 0}, e : WErrs]
    [] op = "rewrite"  -> [op : {op}, pos : Sizes, p : Payloads]
    [] OTHER           -> [op : {op}]
Acts == UNION {ActsOf(op) : op \in AllOps}

Init == \E c \in {"zero", "new", "newstr", "sized"}, p \in Payloads, z \in {n \in Sizes : n >= 0 /\ Allocatable(n)} :
          InitWith(c, IF c \in {"new", "newstr"} THEN p ELSE <<>>, IF c = "sized" THEN z ELSE 0)
Next == \E a \in Acts : Step(a)
Spec == Init /\ [][Next]_allvars

Bound == Len(data) <= MaxLen

(* ------------------------------ properties ----------------------------- *)
IsBytes(s) == \A i \in 1..Len(s) : s[i] \in 0..255

TypeOK ==
  /\ IsBytes(data) /\ IsBytes(prev)
  /\ lr \in -1..4 /\ ag \in BOOLEAN /\ dirty \in BOOLEAN

(* what Unread* would give back is exactly what the last read consumed last *)
PrevOK ==
  /\ lr = 0  => prev = <<>> /\ ~ag
  /\ lr = -1 => Len(prev) = 1
  /\ lr > 0  => Len(prev) = lr /\ Decode(prev).n = lr

(* ReWrite is only defined where no Unread* is pending *)
CleanNoUnread == ~dirty => lr = 0

WriteOps == {"write", "wstr", "wbyte", "wrune", "readfrom", "pipefrom", "wbyterun"}
ReadOps  == {"read", "next", "rbyte", "rrune"}
Queries  == {"len", "bytes", "string", "nilstr"}
IsPanic(r) == r.err \in {Panic(m).err : m \in {"runtime error", MsgTruncate, MsgGrowNeg, MsgTooLarge, MsgNegRead,
                                                MsgBadWrite, MsgReaderBang, MsgWriterBang}}

(* writes append (never touch what is already there) and invalidate Unread* *)
WritesAppend ==
  [][last'.op \in WriteOps /\ ~(last'.op = "wbyterun" /\ last'.n <= 0) =>     \* a run of no calls is no call
       /\ Len(data') >= Len(data) /\ Take(data', Len(data)) = data
       /\ lr' = 0
       /\ last'.op \in {"write", "wstr", "pipefrom"} => Drop(data', Len(data)) = last'.p /\ rep'.n = Len(last'.p)
       /\ last'.op = "wbyte" => Drop(data', Len(data)) = <<last'.c>>
    ]_allvars

(* WriteRune appends one well-formed UTF-8 sequence that decodes to the rune (U+FFFD for anything *)
(* that is not a Unicode scalar value) and returns its width; stated with Decode, not Encode      *)
WriteRuneSound ==
  [][last'.op = "wrune" =>
       LET w == Drop(data', Len(data))
       IN /\ w # <<>> /\ rep'.n = Len(w)
          /\ Decode(w) = [r |-> Canon(last'.r), n |-> Len(w)]
          /\ Len(w) = 1 => w[1] < 128
    ]_allvars

(* reads hand out a prefix of the unread bytes and consume exactly that *)
ReadsConsume ==
  [][last'.op \in ReadOps /\ ~IsPanic(rep') =>
       LET n == Len(data) - Len(data')
       IN /\ n >= 0 /\ data' = Drop(data, n)
          /\ last'.op \in {"read", "next"} => rep'.b = Take(data, n) /\ rep'.n = n /\ n <= last'.n
          /\ last'.op = "rbyte" /\ n = 1 => rep'.v = data[1]
          /\ last'.op = "rrune" /\ n > 0 => rep'.n = n /\ [r |-> rep'.v, n |-> n] = Decode(data)
          /\ rep'.err = "EOF" <=> (data = <<>> /\ ~(last'.op = "read" /\ last'.n = 0) /\ last'.op # "next")
          /\ IF n > 0 THEN lr' # 0 /\ Take(data, n) = Take(data, n - Len(prev')) \o prev'
                      ELSE lr' = 0
    ]_allvars

(* read; unread gives the bytes back (outside the excluded Grow case) *)
UnreadRestores ==
  [][last'.op \in {"unbyte", "unrune"} =>
       /\ lr' = 0 \/ (last'.op = "unrune" /\ lr = -1 /\ UNCHANGED vars)
       /\ rep'.err = "nil" /\ ~ag =>
            data' = (IF last'.op = "unbyte" THEN <<prev[Len(prev)]>> ELSE prev) \o data
       /\ rep'.err # "nil" => data' = data
       /\ ~ag => (rep'.err = "nil" <=> IF last'.op = "unbyte" THEN lr # 0 ELSE lr > 0)
    ]_allvars

QueriesPure == [][last'.op \in Queries => UNCHANGED vars]_allvars

(* a refused call leaves the unread bytes alone *)
PanicsKeepData ==
  [][IsPanic(rep') /\ last'.op # "readfrom" => data' = data]_allvars

(* WriteTo hands the whole unread content to the writer once and drops what the writer took *)
WriteToDrains ==
  [][last'.op = "writeto" /\ ~IsPanic(rep') =>
       /\ lr' = 0
       /\ data # <<>> => rep'.b = data /\ data' = Drop(data, rep'.n) /\ rep'.v = 1
       /\ rep'.err = "nil" => data' = <<>>
    ]_allvars

(* writing through the slice Bytes() returned changes exactly that byte of the unread content *)
PokeExact ==
  [][last'.op = "poke" =>
       /\ Len(data') = Len(data) /\ UNCHANGED <<lr, prev, ag, dirty>>
       /\ \A j \in 1..Len(data) : data'[j] = IF j = last'.i + 1 THEN last'.c ELSE data[j]
    ]_allvars

(* a run of ReadByte delivers a prefix, in order, and every call either delivered or failed *)
RunReads ==
  [][last'.op = "rbyterun" /\ last'.n > 0 =>
       /\ rep'.b = Take(data, rep'.n) /\ data' = Drop(data, rep'.n) /\ rep'.n + rep'.v = last'.n
       /\ rep'.v > 0 <=> last'.n > Len(data)
       /\ IF rep'.v = 0 THEN lr' = -1 /\ prev' = <<data[rep'.n]>> ELSE lr' = 0 /\ rep'.err = "EOF"
    ]_allvars

(* WriteTo into another buffer moves everything there and leaves this one empty *)
PipeMoves ==
  [][last'.op = "pipeto" => data' = <<>> /\ lr' = 0 /\ rep'.b = last'.p \o data /\ rep'.n = Len(data)]_allvars

(* ReWrite changes exactly the addressed bytes that exist *)
ReWriteExact ==
  [][last'.op = "rewrite" =>
       LET pos   == last'.pos
           inside == pos >= 0 /\ pos <= Len(data)
       IN /\ Len(data') = Len(data) /\ UNCHANGED <<lr, prev, ag, dirty>>
          /\ inside => ~IsPanic(rep')
          /\ \A i \in 1..Len(data) :
               data'[i] = IF inside /\ i > pos /\ i <= pos + Len(last'.p)
                          THEN last'.p[i - pos] ELSE data[i]
    ]_allvars

View == vars
=============================================================================
