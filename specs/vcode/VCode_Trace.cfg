SPECIFICATION TraceSpec
CONSTANTS
  Alpha <- Digits
  KeyMode = "dash"
  CountFirst = TRUE
  FixNonce = TRUE
  PairSet = {}
  LenSet = {}
  MaxCountSet = {}
  MaxVerifySet = {}
  MaxSends = 0
INVARIANTS TypeOK
CONSTRAINT Mark
POSTCONDITION Accepted
VIEW TView
CHECK_DEADLOCK FALSE
