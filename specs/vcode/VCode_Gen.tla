---------------------------- MODULE VCode_Gen ----------------------------
(* Plan generation: `tlc -simulate` walks the VCode design and writes the  *)
(* action records of each behaviour as one ndjson plan.  The harness uses  *)
(* only the external part of a record: op, p and - for verify - the        *)
(* references cref / href (which code / hash to present); codes and hashes *)
(* themselves come from the real system.  In mock mode the pick is not     *)
(* used by the design but kept so that sends are as frequent as in real    *)
(* mode.                                                                   *)
EXTENDS VCode, TLCExt, Json, IOUtils
CONSTANT Depth
ASSUME TLCSet(2, 0)

(* TLC's simulator picks an action (disjunct / constant-bound instance)      *)
(* first and then one of its successors uniformly; GenNext is kept a single *)
(* action so that the choice is uniform over all successors.  Keep sends    *)
(* about as frequent as verifications (4 picks x 2 weights against 8        *)
(* reference combinations), and do not waste steps on verifying pairs that  *)
(* never got a code except for the plain attempt.                           *)
GenPicks == {[i \in 1..cfg.len |-> Alpha[j]] : j \in 1..Len(Alpha)}
              \cup {[i \in 1..cfg.len |-> Alpha[((i - 1) % Len(Alpha)) + 1]]}
GenRefs == {<<"cur", "cur">>, <<"bad", "cur">>, <<"cur", "bad">>, <<"old", "old">>,
            <<"cur", "old">>, <<"old", "cur">>, <<"oth", "oth">>, <<"oth", "cur">>, <<"cur", "oth">>}
VARIABLE steps
GenNext ==
  \/ /\ steps < Depth - 2 /\ steps' = steps + 1
     /\ \E dummy \in {nh} : \E p \in PairSet :    \* state-dependent bound: TLC keeps this ONE action
          \/ \E pick \in GenPicks, w \in 1..2 : Step(SendAct(p, pick) @@ [w |-> w])
          \/ \E rr \in GenRefs : \E w \in 1..(IF rr = <<"cur", "cur">> THEN 3 ELSE 1) :
               /\ Sent(p) \/ rr = <<"cur", "cur">>
               /\ Step(VerifyAct(p, rr[1], rr[2]) @@ [w |-> w])
  \/ \* the simulator evaluates Emit on every successor it generates: give the last
     \* level exactly one, so that one behaviour yields one plan
     /\ steps = Depth - 2 /\ steps' = steps + 1
     /\ UNCHANGED vars /\ last' = [op |-> "end"]
GenSpec == Init /\ steps = 0 /\ [][GenNext]_<<allvars, steps>>

Emit ==
  \/ TLCGet("level") < Depth
  \/ /\ TLCSet(2, TLCGet(2) + 1)
     /\ ndJsonSerialize(IOEnv.VERIF_PLANDIR \o "/p" \o ToString(TLCGet(2)) \o ".ndjson",
                        [i \in 1..Len(Trace) |-> Trace[i].last])
=============================================================================
