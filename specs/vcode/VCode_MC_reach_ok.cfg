SPECIFICATION Spec
CONSTANTS
  Alpha <- Alpha2
  KeyMode = "dash"
  CountFirst = TRUE
  FixNonce = TRUE
  PairSet <- Pairs2
  LenSet = {2}
  MaxCountSet = {0, 1}
  MaxVerifySet = {0, 1, 2}
  MaxSends = 2
INVARIANTS TypeOK Coupled WindowBound AlphabetCovered
PROPERTIES NeverOk VerifiesWhenDue RejectsUnlessDue LimitTruthful SendsBounded RefusalsJustified SendResets
CONSTRAINT Bound
VIEW View
CHECK_DEADLOCK FALSE
