SPECIFICATION Spec
CONSTANTS
  Alpha <- Alpha2
  KeyMode = "dash"
  CountFirst = TRUE
  FixNonce = TRUE
  PairSet <- Pairs1
  LenSet = {2}
  MaxCountSet = {1}
  MaxVerifySet = {0, 1, 2}
  MaxSends = 2
INVARIANTS RunAgrees TypeOK
CONSTRAINT Bound
VIEW View
CHECK_DEADLOCK FALSE
