--------------------------- MODULE VCode_Trace ---------------------------
(* Validates ndjson traces recorded from the real vcode / idgen/random     *)
(* against the PROPERTY layer of VCode (Legal + Ghost).  The mechanism     *)
(* variables stay untouched: the real code is the mechanism here.          *)
(* Events:                                                                 *)
(*   reset {mock,len,ttl,gap,win,maxCount,maxVerify}  new VCLogic instance  *)
(*   call  {a}      one SendSMSCode / VerifySMSCode call, reply inside a:   *)
(*                  send:   a = [op, p, r, hash, sms, stable]               *)
(*                  verify: a = [op, p, code, hash, r]                      *)
(*   nonce {alpha,n,out,panic}  one direct GenNonceStr/SecGenNonceStr call  *)
(*   cover {what, alpha}    end of a sample: every character of the        *)
(*                  alphabet must have occurred among the characters seen  *)
(*                  since the reset, provided the sample is large enough   *)
(*                  that a uniform generator misses one with probability   *)
(*                  below 1e-100 (what="codes": the codes captured by the   *)
(*                  SMS sender against the spec's own alphabet;            *)
(*                  what="nonce": the outputs of the nonce events)         *)
EXTENDS VCode, Json, IOUtils

TraceLog == ndJsonDeserialize(IOEnv.VERIF_TRACE)

VARIABLES l, seen, nch
tvars == <<allvars, l, seen, nch>>

SetOf(s) == {s[i] : i \in 1..Len(s)}

(* m * (1 - 1/m)^n <= m * exp(-n/m) < 1e-100 when n >= 300 * m  (m <= 1e30) *)
Enough(m, n) == n >= 300 * m

TraceInit ==
  /\ l = 1 /\ seen = {} /\ nch = 0
  /\ InitWith([mock |-> FALSE, len |-> 0, ttl |-> TRUE, gap |-> TRUE, win |-> FALSE,
               maxCount |-> 0, maxVerify |-> 0])

TReset(e) ==
  /\ cfg' = [mock |-> e.mock, len |-> e.len, ttl |-> e.ttl, gap |-> e.gap, win |-> e.win,
             maxCount |-> e.maxCount, maxVerify |-> e.maxVerify]
  /\ gs' = <<>> /\ ent' = <<>> /\ nh' = 0 /\ last' = [op |-> "init"]
  /\ seen' = {} /\ nch' = 0

TCall(e) ==
  /\ Legal(e.a)
  /\ Ghost(e.a)
  /\ last' = e.a
  /\ UNCHANGED <<cfg, ent, nh>>
  /\ IF e.a.op = "send" /\ e.a.r = "ok" /\ ~cfg.mock
     THEN seen' = seen \cup SetOf(e.a.sms[1].code) /\ nch' = nch + Len(e.a.sms[1].code)
     ELSE UNCHANGED <<seen, nch>>

TNonce(e) ==
  /\ ~e.panic
  /\ Len(e.out) = e.n
  /\ SetOf(e.out) \subseteq SetOf(e.alpha)
  /\ seen' = seen \cup SetOf(e.out) /\ nch' = nch + Len(e.out)
  /\ UNCHANGED allvars

(* run {a, times, rle}: the same call `times` times, replies run-length encoded *)
TRun(e) ==
  /\ IF e.a.op = "verify" THEN VerifyRunLegal(e.a, e.times, e.rle)
     ELSE e.a.op = "send" /\ SendRunLegal(e.a, e.times, e.rle)
  /\ GhostRun(e.a, e.times)
  /\ last' = e.a
  /\ UNCHANGED <<cfg, ent, nh, seen, nch>>

(* alpha {what, alpha, len, n, pos, bad}: n outputs of length len were drawn; pos[i] is the    *)
(* set of characters seen at position i, bad the number of outputs of another length or with *)
(* foreign characters.  Every character must have occurred AT EVERY POSITION once n is large  *)
(* enough: a uniform generator misses one of m characters at one position with probability   *)
(* m*(1-1/m)^n <= m*exp(-45) < 1e-17 for n >= 45*m (fewer than 1e4 positions per run).        *)
TAlpha(e) ==
  /\ LET want == IF e.what = "codes" THEN AlphaSet ELSE SetOf(e.alpha) IN
       /\ e.bad = 0
       /\ Len(e.pos) = e.len
       /\ e.what = "codes" => e.len = cfg.len /\ ~cfg.mock
       /\ e.n >= 45 * Cardinality(want) => \A i \in 1..e.len : SetOf(e.pos[i]) = want
  /\ UNCHANGED <<allvars, seen, nch>>

TCover(e) ==
  /\ LET want == IF e.what = "codes" THEN AlphaSet ELSE SetOf(e.alpha) IN
       Enough(Cardinality(want), nch) => want \subseteq seen
  /\ UNCHANGED <<allvars, seen, nch>>

Consume ==
  /\ l <= Len(TraceLog) /\ l' = l + 1
  /\ LET e == TraceLog[l] IN
       CASE e.ev = "reset" -> TReset(e)
         [] e.ev = "call"  -> TCall(e)
         [] e.ev = "nonce" -> TNonce(e)
         [] e.ev = "cover" -> TCover(e)
         [] e.ev = "run"   -> TRun(e)
         [] e.ev = "alpha" -> TAlpha(e)
         [] OTHER -> FALSE

TraceNext == Consume
TraceSpec == TraceInit /\ [][TraceNext]_tvars

(* high-water mark of l in TLC register 1 (needs -workers 1) *)
ASSUME TLCSet(1, 0)
Mark == TLCSet(1, IF l > TLCGet(1) THEN l ELSE TLCGet(1))
Accepted == PrintT(<<"MARK", TLCGet(1), Len(TraceLog)>>) /\ TLCGet(1) = Len(TraceLog) + 1

TView == <<cfg, gs, l, seen, nch>>
=============================================================================
