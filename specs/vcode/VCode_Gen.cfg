SPECIFICATION GenSpec
CONSTANTS
  Alpha <- Alpha3
  KeyMode = "dash"
  CountFirst = TRUE
  FixNonce = TRUE
  PairSet <- Pairs3
  LenSet = {1, 2, 3}
  MaxCountSet = {0, 1, 2}
  MaxVerifySet = {0, 1, 2, 3}
  MaxSends = 100
  Depth = 16
INVARIANTS Emit
CHECK_DEADLOCK FALSE
