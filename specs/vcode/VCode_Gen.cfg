SPECIFICATION GenSpec
CONSTANTS
  Alpha <- Alpha3
  KeyMode = "dash"
  CountFirst = TRUE
  FixNonce = TRUE
  PairSet <- Pairs3
  LenSet = {1, 2, 3}
  MaxCountSet <- CountsX
  MaxVerifySet <- VerifiesX
  MaxSends = 100
  Depth = 16
INVARIANTS Emit
CHECK_DEADLOCK FALSE
