SPECIFICATION Spec
CONSTANTS
  Alpha <- Alpha2
  KeyMode = "dash"
  CountFirst = TRUE
  FixNonce = TRUE
  PairSet <- Pairs2
  LenSet = {1, 2}
  MaxCountSet <- CountsX
  MaxVerifySet <- VerifiesY
  MaxSends = 3
INVARIANTS TypeOK Coupled WindowBound AlphabetCovered
PROPERTIES VerifiesWhenDue RejectsUnlessDue LimitTruthful SendsBounded RefusalsJustified SendResets
CONSTRAINT Bound
VIEW View
CHECK_DEADLOCK FALSE
