SPECIFICATION Spec
CONSTANTS
  Alpha <- Alpha3
  KeyMode = "dash"
  CountFirst = TRUE
  FixNonce = TRUE
  PairSet <- Pairs3
  LenSet = {1, 2}
  MaxCountSet = {0, 1, 2}
  MaxVerifySet = {0, 1, 2}
  MaxSends = 4
INVARIANTS TypeOK Coupled WindowBound AlphabetCovered
PROPERTIES VerifiesWhenDue RejectsUnlessDue LimitTruthful SendsBounded RefusalsJustified SendResets
CONSTRAINT Bound
VIEW View
CHECK_DEADLOCK FALSE
