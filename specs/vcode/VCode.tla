------------------------------- MODULE VCode -------------------------------
(***************************************************************************)
(* neptune/vcode: verification codes sent to (area code, phone) pairs.     *)
(*                                                                         *)
(* Two layers share one action record `a` (the JSON object the Go harness  *)
(* logs for every call, reply included):                                   *)
(*                                                                         *)
(*  PROPERTY layer  (variable gs, operators SendLegal / VerifyLegal /      *)
(*      Ghost): what the statement of C19 demands of a reply, keyed by the *)
(*      pair itself, with the freedoms the statement leaves (whether the   *)
(*      per-window limit is inclusive; which error a refusal carries).     *)
(*      This layer alone judges traces recorded from the real code.        *)
(*                                                                         *)
(*  MECHANISM layer (variables ent, nh, operators Mech..): the design as    *)
(*      the code implements it -- a cache entry per formatted key with     *)
(*      code, hash, verifyCount, sendCount; checkSend (interval, window    *)
(*      refresh, count), checkVerify (count first, then code, hash,        *)
(*      lifetime); nonce generator indexing the alphabet.  The known       *)
(*      deviations of the code are named constants (KeyMode, CountFirst,   *)
(*      FixNonce).  TLC shows exhaustively that the mechanism's replies    *)
(*      are always legal for the property layer when the constants have    *)
(*      their repaired values, and produces the counterexamples otherwise. *)
(*                                                                         *)
(* Time is modelled by regimes (booleans in cfg), as the quantifier of the *)
(* property says: lifetime never/always over, minimum interval never /     *)
(* always violated by a re-send, counting window never / always renewed.   *)
(***************************************************************************)
EXTENDS Integers, Sequences, FiniteSets, TLC

CONSTANTS
  Alpha,       \* the code alphabet: a sequence of character codes
  KeyMode,     \* "dash": send and verify format the key alike, "area-phone"   (repaired)
               \* "mismatch": send "area-phone", verify "areaphone"           (the code today)
               \* "concat": both "areaphone"                                  (the wrong repair)
  CountFirst,  \* TRUE: an attempt is counted before anything is compared     (the code)
  FixNonce     \* TRUE: index drawn from 0..len-1; FALSE: 0..len-2            (the code today)

VARIABLES
  cfg,    \* [mock, len, ttl, gap, win, maxCount, maxVerify]
          \*   ttl : TRUE = a code never outlives its lifetime, FALSE = always has
          \*   gap : TRUE = minimum interval always respected,  FALSE = never (any re-send too early)
          \*   win : TRUE = one counting window for ever,       FALSE = every send opens a new one
  gs,     \* property layer: pair -> [code, hash, tries, sends, ocode, ohash]
  ent,    \* mechanism: formatted key -> [code, hash, vcnt, scnt]
  nh,     \* mechanism: number of hashes handed out (hashes are fresh)
  last    \* the action record of the latest step (output only)

vars == <<cfg, gs, ent, nh>>
allvars == <<vars, last>>

Ext(f, k, v) == [x \in DOMAIN f \cup {k} |-> IF x = k THEN v ELSE f[x]]
AlphaSet == {Alpha[i] : i \in 1..Len(Alpha)}
Least(x, y) == IF x < y THEN x ELSE y

BadCode == <<33>>          \* "!" - never a code
BadHash == <<0>>           \* never a hash

(* mock mode: the last `n` characters of the phone, left-padded with "0" *)
MockCode(phone, n) ==
  IF Len(phone) >= n THEN SubSeq(phone, Len(phone) - n + 1, Len(phone))
  ELSE [i \in 1..(n - Len(phone)) |-> 48] \o phone

CodeShape(c) == Len(c) = cfg.len /\ \A i \in 1..Len(c) : c[i] \in AlphaSet

(* ----------------------------------------------------------------------- *)
(* PROPERTY layer                                                          *)
(* ----------------------------------------------------------------------- *)
Sent(p)   == p \in DOMAIN gs
Sends(p)  == IF Sent(p) THEN gs[p].sends ELSE 0

(* a send MUST be refused / MAY be refused.  Between them: the send that   *)
(* finds exactly maxCount sends in the window (the statement "beyond the   *)
(* limit" does not say whether the limit itself is inclusive).             *)
SendMust(p) == \/ ~cfg.gap /\ Sent(p)
               \/ cfg.win /\ Sends(p) > cfg.maxCount
SendMay(p)  == \/ SendMust(p)
               \/ cfg.win /\ Sends(p) >= cfg.maxCount

(* exactly one message reached the gateway, addressed to this pair, code well-formed *)
OneSms(a) == /\ Len(a.sms) = 1
             /\ a.sms[1].area = a.p.area /\ a.sms[1].phone = a.p.phone
             /\ CodeShape(a.sms[1].code)

(* r = "gw": the send passed the limits, the message was handed to the SMS *)
(* gateway and the gateway failed (returned an error or panicked).  The    *)
(* caller sees the gateway's failure.  Such a send must not have been due  *)
(* for refusal; what it leaves behind is open (see Ghost).                 *)
SendLegal(a) ==
  /\ a.r \in {"ok", "refused", "gw"}
  /\ a.stable    \* the returned hash and the delivered code still read as when they were handed over
  /\ a.r = "ok" =>
       /\ ~SendMust(a.p)
       /\ cfg.mock \/ OneSms(a)          \* mock mode: whether an SMS leaves is left open
  /\ a.r = "gw" => ~cfg.mock /\ ~SendMust(a.p) /\ OneSms(a)
  /\ a.r = "refused" =>
       /\ SendMay(a.p)
       /\ cfg.mock \/ Len(a.sms) = 0     \* a refused send sends nothing

(* attempts are counted up to one above the limit (a negative limit admits nothing) *)
VCap == IF cfg.maxVerify < 0 THEN 0 ELSE cfg.maxVerify

(* the code a successful send has put in force *)
CodeOf(a) == IF cfg.mock THEN MockCode(a.p.phone, cfg.len) ELSE a.sms[1].code

(* Verify succeeds iff a code was sent to that pair, this attempt is within *)
(* the limit, code and hash are the ones of the latest send, lifetime ok.  *)
(* (written for `t` attempts made so far, so that runs of calls can be judged) *)
Matches(a) == Sent(a.p) /\ a.code = gs[a.p].code /\ a.hash = gs[a.p].hash /\ cfg.ttl
Tries(p)   == IF Sent(p) THEN gs[p].tries ELSE 0
DueT(a, t) == Matches(a) /\ t + 1 <= cfg.maxVerify
Due(a)     == DueT(a, Tries(a.p))

VerifyLegalT(a, r, t) ==
  /\ r \in {"ok", "limit", "fail"}
  /\ r = "ok" <=> DueT(a, t)
  /\ r = "limit" => Sent(a.p) /\ t + 1 > cfg.maxVerify
VerifyLegal(a) == VerifyLegalT(a, a.r, Tries(a.p))

(* A RUN: the same verification `times` times in a row, replies run-length  *)
(* encoded as <<[r, c], ...>>.  Closed form of `times` single steps (TLC    *)
(* checks the agreement, RunAgrees): the first Within(a) calls are within   *)
(* the limit and answer by the merits, all later ones are refused.          *)
Within(a) == IF Sent(a.p) /\ cfg.maxVerify - gs[a.p].tries > 0
             THEN cfg.maxVerify - gs[a.p].tries ELSE 0
VerifyRunLegal(a, times, rle) ==
  LET k      == Within(a)
      merit  == IF Matches(a) THEN "ok" ELSE "fail"
      beyond == IF Sent(a.p) THEN {"limit", "fail"} ELSE {"fail"}
      RECURSIVE Walk(_, _)
      Walk(i, done) ==
        IF i > Len(rle) THEN done = times
        ELSE /\ rle[i].c >= 1
             /\ done < k => rle[i].r = merit
             /\ done + rle[i].c > k => rle[i].r \in beyond
             /\ Walk(i + 1, done + rle[i].c)
  IN times >= 1 /\ Walk(1, 0)

(* a run of sends that were all refused: nothing changes, so one judgement covers all *)
SendRunLegal(a, times, rle) ==
  /\ times >= 1 /\ Len(rle) = 1 /\ rle[1].r = "refused" /\ rle[1].c = times
  /\ SendMay(a.p) /\ a.stable
  /\ cfg.mock \/ a.nsms = 0

Legal(a) ==
  CASE a.op = "send"   -> SendLegal(a)
    [] a.op = "verify" -> VerifyLegal(a)
    [] OTHER -> FALSE

(* effect on the property state: a successful send puts a new code in      *)
(* force and zeroes the attempts; a refused send changes nothing; every    *)
(* verification against a pair with a code in force is an attempt.         *)
(* (tries saturates one above the limit: larger values change nothing)     *)
InForceH(a, charged, h) ==
  Ext(gs, a.p,
      [code  |-> CodeOf(a), hash |-> h, tries |-> 0,
       sends |-> IF cfg.win THEN Sends(a.p) + (IF charged THEN 1 ELSE 0) ELSE 0,
       ocode |-> IF Sent(a.p) THEN gs[a.p].code ELSE BadCode,
       ohash |-> IF Sent(a.p) THEN gs[a.p].hash ELSE BadHash])

InForce(a, charged) == InForceH(a, charged, a.hash)
UnknownHash == <<-1>>      \* a hash the caller never got to see (no presented hash equals it)

Ghost(a) ==
  CASE a.op = "send" ->
         IF a.r = "ok" THEN gs' = InForce(a, TRUE)
         ELSE IF a.r = "gw"
         THEN \* the statement does not say what a send leaves behind whose delivery failed:
              \* nothing, or the new code in force (returned hash valid, attempts zeroed)
              \* with or without the send being charged to the window; when the gateway
              \* did not return (panic) the caller may not have been given the hash in force
              \/ gs' = gs
              \/ \E charged \in BOOLEAN, h \in {a.hash, UnknownHash} : gs' = InForceH(a, charged, h)
         ELSE gs' = gs
    [] a.op = "verify" ->
         IF Sent(a.p)
         THEN gs' = [gs EXCEPT ![a.p].tries = Least(@ + 1, VCap + 1)]
         ELSE gs' = gs
    [] OTHER -> FALSE

GhostRun(a, times) ==
  IF a.op = "verify" /\ Sent(a.p)
  THEN gs' = [gs EXCEPT ![a.p].tries = Least(@ + times, VCap + 1)]
  ELSE gs' = gs

(* ----------------------------------------------------------------------- *)
(* MECHANISM layer (vcode/vlogic.go, vcode/code.go, idgen/random/util.go)  *)
(* ----------------------------------------------------------------------- *)
Dash == <<45>>
SendKey(p)   == IF KeyMode = "concat" THEN p.area \o p.phone ELSE p.area \o Dash \o p.phone
VerifyKey(p) == IF KeyMode = "dash"   THEN p.area \o Dash \o p.phone ELSE p.area \o p.phone

NoEnt == [sent |-> FALSE, code |-> BadCode, hash |-> BadHash, vcnt |-> 0, scnt |-> 0]
EntOf(k) == IF k \in DOMAIN ent THEN ent[k] ELSE NoEnt

(* genNonceStr: index = Intn(bound) *)
GenChars == {Alpha[i + 1] : i \in 0..((IF FixNonce THEN Len(Alpha) ELSE Len(Alpha) - 1) - 1)}
GenCodes(n) == [1..n -> GenChars]

(* checkSend *)
MechSendErr(p) ==
  LET c == EntOf(SendKey(p)) IN
    IF ~cfg.gap /\ c.sent THEN "freq"
    ELSE IF ~cfg.win THEN "none"                         \* refresh(): new window, count 0
    ELSE IF c.scnt > cfg.maxCount THEN "count" ELSE "none"

MechSend(a) ==
  LET k == SendKey(a.p)
      c == EntOf(k)
  IN IF a.r = "ok"
     THEN /\ ent' = Ext(ent, k, [sent |-> TRUE, code |-> a.code, hash |-> a.hash, vcnt |-> 0,
                                 scnt |-> (IF cfg.win THEN c.scnt ELSE 0) + 1])
          /\ nh' = nh + 1
     ELSE UNCHANGED <<ent, nh>>

(* checkVerify; the reply and whether the attempt was counted *)
MechVerifyOut(p, code, hash) ==
  LET k == VerifyKey(p)
      c == EntOf(k)
      n == c.vcnt + 1
  IN IF k \notin DOMAIN ent THEN [err |-> "noexist", counted |-> FALSE]
     ELSE IF CountFirst
     THEN [counted |-> TRUE,
           err |-> IF n > cfg.maxVerify THEN "limit"
                   ELSE IF c.code # code THEN "nomatch"
                   ELSE IF c.hash # hash THEN "hash"
                   ELSE IF ~cfg.ttl THEN "timeout" ELSE "none"]
     ELSE IF c.code # code THEN [err |-> "nomatch", counted |-> FALSE]
     ELSE IF c.hash # hash THEN [err |-> "hash", counted |-> FALSE]
     ELSE IF ~cfg.ttl THEN [err |-> "timeout", counted |-> FALSE]
     ELSE [counted |-> TRUE, err |-> IF n > cfg.maxVerify THEN "limit" ELSE "none"]

MechVerify(a) ==
  LET k == VerifyKey(a.p) IN
  /\ IF MechVerifyOut(a.p, a.code, a.hash).counted
     THEN ent' = [ent EXCEPT ![k].vcnt = Least(@ + 1, VCap + 1)]
     ELSE ent' = ent
  /\ nh' = nh

(* the action records the mechanism produces *)
SendAct(p, pick) ==
  LET e    == MechSendErr(p)
      ok   == e = "none"
      code == IF cfg.mock THEN MockCode(p.phone, cfg.len) ELSE pick
  IN [op |-> "send", p |-> p, pick |-> pick, stable |-> TRUE,
      r |-> IF ok THEN "ok" ELSE "refused", err |-> e,
      code |-> IF ok THEN code ELSE BadCode,
      hash |-> IF ok THEN <<nh + 1>> ELSE <<>>,
      sms  |-> IF ok /\ ~cfg.mock THEN <<[area |-> p.area, phone |-> p.phone, code |-> code]>>
               ELSE <<>>]

(* the caller names the code / hash to try by reference:                   *)
(*   cur = in force for p, old = the one before, oth = in force for        *)
(*   another pair, bad = none of them                                      *)
Refs == {"cur", "old", "oth", "bad"}
Other(p) == IF \E q \in DOMAIN gs : q # p THEN CHOOSE q \in DOMAIN gs : q # p ELSE p
RefCode(p, ref) ==
  CASE ref = "cur" -> IF Sent(p) THEN gs[p].code ELSE BadCode
    [] ref = "old" -> IF Sent(p) THEN gs[p].ocode ELSE BadCode
    [] ref = "oth" -> IF Sent(Other(p)) /\ Other(p) # p THEN gs[Other(p)].code ELSE BadCode
    [] OTHER -> BadCode
RefHash(p, ref) ==
  CASE ref = "cur" -> IF Sent(p) THEN gs[p].hash ELSE BadHash
    [] ref = "old" -> IF Sent(p) THEN gs[p].ohash ELSE BadHash
    [] ref = "oth" -> IF Sent(Other(p)) /\ Other(p) # p THEN gs[Other(p)].hash ELSE BadHash
    [] OTHER -> BadHash

VerifyAct(p, cref, href) ==
  LET code == RefCode(p, cref)
      hash == RefHash(p, href)
      e    == MechVerifyOut(p, code, hash).err
  IN [op |-> "verify", p |-> p, cref |-> cref, href |-> href, code |-> code, hash |-> hash,
      r |-> IF e = "none" THEN "ok" ELSE IF e = "limit" THEN "limit" ELSE "fail", err |-> e]

Mech(a) ==
  CASE a.op = "send"   -> MechSend(a)
    [] a.op = "verify" -> MechVerify(a)
    [] OTHER -> FALSE

(* one step of the design: the mechanism answers, the property layer books it *)
Step(a) == Mech(a) /\ Ghost(a) /\ cfg' = cfg /\ last' = a

---------------------------------------------------------------------------
(* Bounded instance *)
CONSTANTS PairSet, LenSet, MaxCountSet, MaxVerifySet, MaxSends

P(ar, ph) == [area |-> ar, phone |-> ph]
(* ("1","23") and ("12","3") concatenate alike; ("1","3") shares area / phone with them *)
Pairs2 == {P(<<49>>, <<50, 51>>), P(<<49, 50>>, <<51>>)}
Pairs3 == Pairs2 \cup {P(<<49>>, <<51>>)}
Pairs1 == {P(<<49>>, <<50, 51>>)}
(* limits including a negative one (cfg files cannot hold negative literals) *)
CountsX   == {-1, 0, 1, 2}
VerifiesX == {-1, 0, 1, 2, 3}
VerifiesY == {-1, 0, 1, 2}
Alpha2 == <<48, 49>>
Alpha3 == <<48, 49, 50>>
Digits == <<48, 49, 50, 51, 52, 53, 54, 55, 56, 57>>

InitWith(c) ==
  /\ cfg = c /\ gs = <<>> /\ ent = <<>> /\ nh = 0
  /\ last = [op |-> "init", mock |-> c.mock, len |-> c.len, ttl |-> c.ttl, gap |-> c.gap,
             win |-> c.win, maxCount |-> c.maxCount, maxVerify |-> c.maxVerify]

Init == \E m, t, g, w \in BOOLEAN, n \in LenSet, mc \in MaxCountSet, mv \in MaxVerifySet :
          InitWith([mock |-> m, len |-> n, ttl |-> t, gap |-> g, win |-> w,
                    maxCount |-> mc, maxVerify |-> mv])

(* mock mode draws nothing *)
Picks == IF cfg.mock THEN {[i \in 1..cfg.len |-> Alpha[1]]} ELSE GenCodes(cfg.len)

Next ==
  \E p \in PairSet :
    \/ \E pick \in Picks : Step(SendAct(p, pick))
    \/ \E cref, href \in Refs : Step(VerifyAct(p, cref, href))

Spec == Init /\ [][Next]_allvars

Bound == nh <= MaxSends

(* ------------------------------ properties ----------------------------- *)
TypeOK ==
  /\ nh \in Nat
  /\ \A p \in DOMAIN gs : gs[p].tries \in 0..(VCap + 1) /\ gs[p].sends \in Nat

(* every reply of the mechanism is one the property allows *)
VerifiesWhenDue == [][LET a == last' IN (a.op = "verify" /\ Due(a)) => a.r = "ok"]_allvars
RejectsUnlessDue == [][LET a == last' IN (a.op = "verify" /\ a.r = "ok") => Due(a)]_allvars
LimitTruthful   == [][LET a == last' IN (a.op = "verify" /\ a.r = "limit") => VerifyLegal(a)]_allvars
SendsBounded    == [][LET a == last' IN (a.op = "send" /\ a.r = "ok") => SendLegal(a)]_allvars
RefusalsJustified == [][LET a == last' IN (a.op = "send" /\ a.r = "refused") => SendLegal(a)]_allvars

(* a new send resets the attempts; a refused one does not touch them *)
SendResets == [][LET a == last' IN a.op = "send" =>
                   IF a.r = "ok" THEN gs'[a.p].tries = 0 /\ ent'[SendKey(a.p)].vcnt = 0
                   ELSE UNCHANGED <<gs, ent>>]_allvars

(* the mechanism's entry of a pair is the property's state of that pair   *)
(* (only claimed for the repaired design)                                 *)
Coupled ==
  (KeyMode = "dash" /\ CountFirst) =>
    /\ DOMAIN ent = {SendKey(p) : p \in DOMAIN gs}
    /\ \A p \in DOMAIN gs :
         LET c == ent[SendKey(p)] IN
           /\ c.code = gs[p].code /\ c.hash = gs[p].hash /\ c.vcnt = gs[p].tries
           /\ cfg.win => c.scnt = gs[p].sends

(* the closed form for runs says what the single steps say (runs of 1..3, unit segments) *)
RunAgrees ==
  \A p \in PairSet, cref \in {"cur", "bad"}, href \in {"cur", "old"}, n \in 1..3 :
    LET a == [p |-> p, code |-> RefCode(p, cref), hash |-> RefHash(p, href)] IN
    \A rs \in [1..n -> {"ok", "limit", "fail"}] :
      (\A i \in 1..n : VerifyLegalT(a, rs[i], Least(Tries(p) + i - 1, VCap + 1)))
        <=> VerifyRunLegal(a, n, [i \in 1..n |-> [r |-> rs[i], c |-> 1]])

(* per window at most maxCount+1 codes go out to one pair; with the       *)
(* interval never respected, one                                          *)
WindowBound == \A p \in DOMAIN gs :
                 /\ cfg.win => gs[p].sends <= cfg.maxCount + 1
                 /\ (~cfg.gap /\ cfg.win) => gs[p].sends <= 1

(* every well-formed code - hence every character of the alphabet - can be generated *)
AlphabetCovered == GenCodes(cfg.len) = [1..cfg.len -> AlphaSet]

(* reachability witnesses (meant to be violated).  Action properties, not  *)
(* invariants: `last` is outside the VIEW, and a refused send or a failed  *)
(* verification may leave the viewed state unchanged.                      *)
NeverOk      == [][last'.op = "verify" => last'.r # "ok"]_allvars
NeverLimit   == [][last'.op = "verify" => last'.r # "limit"]_allvars
NeverRefused == [][last'.op = "send"   => last'.r # "refused"]_allvars

View == vars
=============================================================================
