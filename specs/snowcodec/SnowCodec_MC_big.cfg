SPECIFICATION Spec
CONSTANTS
  LB = 3
  NL = 3
  SB = 2
  SEC = 2
  Deviation = "none"
  NodeBitsSet = {1, 2, 3}
  Ops = {"id", "pair", "range"}
  Epochs = {0, 1, 2, 3}
INVARIANTS IdInv PairInv RangeInv
CHECK_DEADLOCK FALSE
