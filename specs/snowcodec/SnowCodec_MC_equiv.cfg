SPECIFICATION Spec
CONSTANTS
  LB = 2
  NL = 3
  SB = 2
  SEC = 2
  Deviation = "none"
  NodeBitsSet = {1}
  Ops = {"equiv"}
  Epochs = {0}
INVARIANTS EquivInv
CHECK_DEADLOCK FALSE
