SPECIFICATION Spec
CONSTANTS
  LB = 1
  NL = 7
  SB = 2
  SEC = 2
  Deviation = "none"
  NodeBitsSet = {1, 2}
  Ops = {"equiv"}
  Epochs = {0}
INVARIANTS EquivInv
CHECK_DEADLOCK FALSE
