SPECIFICATION TraceSpec
CONSTANTS
  LB = 16
  NL = 4
  SB = 12
  SEC = 1000
  Deviation = "none"
  NodeBitsSet = {}
  Ops = {}
  Epochs = {}
CONSTRAINT Mark
POSTCONDITION Accepted
CHECK_DEADLOCK FALSE
