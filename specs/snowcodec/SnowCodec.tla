----------------------------- MODULE SnowCodec -----------------------------
(***************************************************************************)
(* The snowflake id codec of neptune (idgen/snowflake/snowflake.go) as an  *)
(* executable denotation.                                                  *)
(*                                                                         *)
(* CONTRACT (on numbers written as NL limbs of LB bits, two's complement,  *)
(* most significant first: 4 x 16 in traces of the real code):             *)
(*   FieldsOK   the (timestamp, node, step) triple returned for an id is   *)
(*              in range and recombines to the id                          *)
(*   OrderOK    two ids order as their (timestamp, remaining bits) pairs   *)
(*   RangeOK    the id interval returned for a time interval, stated on    *)
(*              the boundary ids of the three classes of the property      *)
(*              (inside / before the first second / after the last second) *)
(*   DateOK     the date form is 24 decimal characters and converts back   *)
(* ALGORITHM (integers, scaled widths only): figureShift / IDFields /      *)
(* TimeBetweenID as the code computes them.                                *)
(* The exhaustive runs show, over every id / pair / interval of a scaled   *)
(* layout: ALGORITHM satisfies CONTRACT; the triple satisfying FieldsOK is *)
(* unique; RangeOK is equivalent to the property's two sentences           *)
(* quantified over all ids; the limb operators agree with integer          *)
(* arithmetic.                                                             *)
(***************************************************************************)
EXTENDS Integers, Sequences, FiniteSets, TLC

CONSTANTS
  LB,         \* bits per limb
  NL,         \* limbs per number
  SB,         \* width of the step field (12 in neptune)
  SEC,        \* milliseconds per second (1000; 2 in the scaled model)
  Deviation   \* "none", or a named way of getting the algorithm wrong

B == 2^LB
W == LB * NL

(* ------------------------- numbers as limbs --------------------------- *)
Zero == [i \in 1..NL |-> 0]
MaxNum == [i \in 1..NL |-> IF i = 1 THEN B \div 2 - 1 ELSE B - 1]
IsNum(a) == DOMAIN a = 1..NL /\ \A i \in 1..NL : a[i] \in 0..(B - 1)
Neg(a) == a[1] >= B \div 2

RECURSIVE LexLess(_, _, _)
LexLess(a, b, i) ==
  IF i > NL THEN FALSE
  ELSE IF a[i] # b[i] THEN a[i] < b[i] ELSE LexLess(a, b, i + 1)
Flip(a) == [a EXCEPT ![1] = (a[1] + B \div 2) % B]
Less(a, b) == LexLess(Flip(a), Flip(b), 1)        \* signed a < b

(* arithmetic shift right / shift left (bits shifted out are lost) by s bits *)
Shr(a, s) ==
  LET q == s \div LB
      r == s % LB
      fill == IF Neg(a) THEN B - 1 ELSE 0
      at(k) == IF k < 1 THEN fill ELSE a[k]
  IN [i \in 1..NL |-> ((at(i - q - 1) % 2^r) * 2^(LB - r)) + (at(i - q) \div 2^r)]
Shl(a, s) ==
  LET q == s \div LB
      r == s % LB
      at(k) == IF k > NL THEN 0 ELSE a[k]
  IN [i \in 1..NL |-> ((at(i + q) * 2^r) % B) + (at(i + q + 1) \div 2^(LB - r))]

RECURSIVE LowFrom(_, _, _)
LowFrom(a, w, i) ==
  IF w <= 0 THEN 0
  ELSE IF w >= LB THEN a[i] + B * LowFrom(a, w - LB, i - 1)
  ELSE a[i] % 2^w
LowBits(a, w) == LowFrom(a, w, NL)                \* lowest w bits as an integer (w <= 30)

RECURSIVE S2L(_, _)
S2L(n, k) == IF k = 0 THEN <<>> ELSE Append(S2L(n \div B, k - 1), n % B)
FromSmall(n) == S2L(n, NL)                        \* a non-negative integer < 2^31 as a number

RECURSIVE AddFrom(_, _, _, _)
AddFrom(a, b, i, c) ==
  IF i = 0 THEN <<>>
  ELSE LET s == a[i] + b[i] + c IN Append(AddFrom(a, b, i - 1, s \div B), s % B)
Add(a, b) == AddFrom(a, b, NL, 0)                 \* modulo 2^W
Negate(a) == Add([i \in 1..NL |-> B - 1 - a[i]], FromSmall(1))
Sub(a, b) == Add(a, Negate(b))

RECURSIVE MulFrom(_, _, _, _)
MulFrom(a, k, i, c) ==
  IF i = 0 THEN <<>>
  ELSE LET p == a[i] * k + c IN Append(MulFrom(a, k, i - 1, p \div B), p % B)
MulSmall(a, k) == MulFrom(a, k, NL, 0)            \* a * k modulo 2^W, 0 <= k < 2^14

(* integer <-> limbs; only evaluated in the scaled model *)
ToLimbs(n) == S2L(IF n < 0 THEN n + 2^W ELSE n, NL)
FromLimbs(a) ==
  LET RECURSIVE V(_)
      V(i) == IF i = 0 THEN 0 ELSE V(i - 1) * B + a[i]
  IN IF Neg(a) THEN V(NL) - 2^W ELSE V(NL)

(* ------------------------------ layout -------------------------------- *)
(* c = [nb (node bits), low (node at lowest)]                             *)
TShift(c) == c.nb + SB
NShift(c) == IF c.low THEN 0 ELSE SB
SShift(c) == IF c.low THEN c.nb ELSE 0
Rest(c, node, step) == node * 2^NShift(c) + step * 2^SShift(c)

(* ============================= CONTRACT =============================== *)
Combine(c, ts, node, step) == Add(Shl(ts, TShift(c)), FromSmall(Rest(c, node, step)))

FieldsOK(c, id, ts, node, step) ==
  /\ IsNum(ts) /\ ~Neg(ts)
  /\ Shr(Shl(ts, TShift(c)), TShift(c)) = ts         \* the timestamp fits its width
  /\ node \in 0..(2^(c.nb) - 1) /\ step \in 0..(2^SB - 1)
  /\ Combine(c, ts, node, step) = id

(* f = [ts, node, step] *)
OrderOK(c, a, fa, b, fb) ==
  Less(a, b) <=> \/ Less(fa.ts, fb.ts)
                 \/ fa.ts = fb.ts /\ Rest(c, fa.node, fa.step) < Rest(c, fb.node, fb.step)

(* IDParse / IDParseEx: the timestamp as an absolute instant *)
AbsOK(ts, epoch, ms) == ms = Add(ts, epoch)

(* second-truncated instant (unix seconds) as a millisecond offset from the epoch *)
Offset(sec, epoch) == Sub(MulSmall(sec, SEC), epoch)

(* [mn, mx] for the interval whose second-truncated endpoints are bs <= es.                *)
(* Ids are the non-negative numbers; their timestamps are 0..tmax.  Stated on the boundary *)
(* ids: the lowest / highest id to contain, the highest id before the first second, the    *)
(* lowest id after the last second.  (Equivalent to the quantified sentences: EquivInv.)   *)
RangeOK(c, bs, es, mn, mx) ==
  LET s     == TShift(c)
      tmn   == Shr(mn, s)
      tmx   == Shr(mx, s)
      tmax  == Shr(MaxNum, s)
      lo    == IF Neg(bs) THEN Zero ELSE bs
      hi    == IF Less(tmax, es) THEN tmax ELSE es
      aft   == LET y == Add(es, FromSmall(SEC)) IN IF Neg(y) THEN Zero ELSE y
      empty == Less(mx, mn)
  IN /\ ~Less(hi, lo) =>                                   \* there are ids to contain
          /\ Less(tmn, lo) \/ (tmn = lo /\ LowBits(mn, s) = 0)
          /\ Less(hi, tmx) \/ (tmx = hi /\ LowBits(mx, s) = 2^s - 1)
     /\ (~Neg(bs) /\ bs # Zero) => (empty \/ Neg(mx) \/ ~Less(tmn, bs))
     /\ empty \/ Less(tmx, aft)

Digit(ch) == ch \in 48..57
DateOK(id, cn, back, err) ==
  /\ Len(cn) = 24 /\ \A i \in 1..24 : Digit(cn[i])
  /\ ~err /\ back = id

(* ============================= ALGORITHM ============================== *)
(* figureShift *)
ANShift(c) == IF c.low THEN (IF Deviation = "lowshift" THEN SB ELSE 0) ELSE SB
ASShift(c) == IF c.low THEN c.nb ELSE 0
(* IDFields on a non-negative integer *)
AlgFields(c, v) ==
  [ts   |-> v \div 2^(c.nb + SB),
   node |-> (v \div 2^ANShift(c)) % 2^(c.nb),
   step |-> (v \div 2^ASShift(c)) % 2^SB]
(* TimeBetweenID for instants bms <= ems (milliseconds since 1970), epoch e *)
AlgBetween(c, e, bms, ems) ==
  LET s    == c.nb + SB
      bsec == bms \div SEC
      esec == ems \div SEC
      b    == IF Deviation = "untrunc" THEN bms - e ELSE bsec * SEC - e
  IN [min |-> b * 2^s,
      max |-> (esec * SEC - e) * 2^s + (IF Deviation = "maxnolow" THEN 0 ELSE 2^s - 1)]

(* ---------------------- the property's sentences ---------------------- *)
(* on integers, quantified over every id of the scaled layout             *)
IdInts == 0..(2^(W - 1) - 1)
Sentences(c, bs, es, mn, mx) ==
  LET ts(v) == v \div 2^TShift(c)
      In(v) == mn <= v /\ v <= mx
  IN /\ \A v \in IdInts : (bs <= ts(v) /\ ts(v) <= es) => In(v)
     /\ \A v \in IdInts : (ts(v) < bs \/ ts(v) >= es + SEC) => ~In(v)

---------------------------------------------------------------------------
VARIABLES cfg, q       \* layout; the query under examination
vars == <<cfg, q>>

CONSTANTS NodeBitsSet, Ops, Epochs

TMaxInt(c) == 2^(W - 1 - TShift(c)) - 1
Nums == (-(2^(W - 1)))..(2^(W - 1) - 1)

Queries(c) ==
       (IF "id" \in Ops THEN [op : {"id"}, a : IdInts] ELSE {})
  \cup (IF "pair" \in Ops THEN [op : {"pair"}, a : IdInts, b : IdInts] ELSE {})
  \cup (IF "range" \in Ops
        THEN {r \in [op : {"range"}, e : Epochs, bms : 0..(TMaxInt(c) + SEC), ems : 0..(TMaxInt(c) + SEC)] :
                r.bms <= r.ems /\ r.e <= r.bms /\ r.ems - r.e <= TMaxInt(c)}
        ELSE {})
  \cup (IF "equiv" \in Ops
        THEN {r \in [op : {"equiv"}, bs : (-SEC)..(TMaxInt(c) + SEC), es : (-SEC)..(TMaxInt(c) + SEC),
                     mn : Nums, mx : Nums] : r.bs <= r.es}
        ELSE {})

Init == \E nb \in NodeBitsSet, low \in BOOLEAN :
          /\ cfg = [nb |-> nb, low |-> low]
          /\ q \in Queries(cfg)
Next == UNCHANGED vars
Spec == Init /\ [][Next]_vars

F2L(f) == [ts |-> ToLimbs(f.ts), node |-> f.node, step |-> f.step]

IdInv == q.op = "id" =>
  LET f == AlgFields(cfg, q.a)
      id == ToLimbs(q.a)
  IN /\ FieldsOK(cfg, id, ToLimbs(f.ts), f.node, f.step)
     (* the contract determines the triple *)
     /\ \A ts \in 0..(2 * TMaxInt(cfg) + 1), node \in 0..(2^(cfg.nb) - 1), step \in 0..(2^SB - 1) :
          FieldsOK(cfg, id, ToLimbs(ts), node, step) => (ts = f.ts /\ node = f.node /\ step = f.step)
     (* and it is what the bit slices say *)
     /\ f.ts = FromLimbs(Shr(id, TShift(cfg)))
     /\ Rest(cfg, f.node, f.step) = LowBits(id, TShift(cfg))
     /\ FromLimbs(id) = q.a

PairInv == q.op = "pair" =>
  LET fa == AlgFields(cfg, q.a)
      fb == AlgFields(cfg, q.b)
  IN /\ OrderOK(cfg, ToLimbs(q.a), F2L(fa), ToLimbs(q.b), F2L(fb))
     /\ Less(ToLimbs(q.a), ToLimbs(q.b)) <=> q.a < q.b
     /\ FromLimbs(Add(ToLimbs(q.a), ToLimbs(q.b))) = ((q.a + q.b + 2^(W - 1)) % 2^W) - 2^(W - 1)
     /\ FromLimbs(Sub(ToLimbs(q.a), ToLimbs(q.b))) = q.a - q.b
     /\ FromLimbs(MulSmall(ToLimbs(q.a), SEC)) = ((q.a * SEC + 2^(W - 1)) % 2^W) - 2^(W - 1)

RangeInv == q.op = "range" =>
  LET r  == AlgBetween(cfg, q.e, q.bms, q.ems)
      bs == Offset(ToLimbs(q.bms \div SEC), ToLimbs(q.e))
      es == Offset(ToLimbs(q.ems \div SEC), ToLimbs(q.e))
  IN /\ FromLimbs(bs) = (q.bms \div SEC) * SEC - q.e
     /\ RangeOK(cfg, bs, es, ToLimbs(r.min), ToLimbs(r.max))
     /\ Sentences(cfg, FromLimbs(bs), FromLimbs(es), r.min, r.max)

EquivInv == q.op = "equiv" =>
  (RangeOK(cfg, ToLimbs(q.bs), ToLimbs(q.es), ToLimbs(q.mn), ToLimbs(q.mx))
     <=> Sentences(cfg, q.bs, q.es, q.mn, q.mx))
=============================================================================
