SPECIFICATION Spec
CONSTANTS
  LB = 2
  NL = 4
  SB = 2
  SEC = 2
  Deviation = "maxnolow"
  NodeBitsSet = {1}
  Ops = {"id", "pair", "range"}
  Epochs = {0, 1, 2, 3}
INVARIANTS IdInv PairInv RangeInv
CHECK_DEADLOCK FALSE
