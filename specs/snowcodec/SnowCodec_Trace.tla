------------------------- MODULE SnowCodec_Trace -------------------------
(* Validates results of the real codec functions against the CONTRACT of   *)
(* SnowCodec.  All 64-bit values are 4 limbs of 16 bits.                   *)
(*   reset {nb, low, epoch}         layout installed (hook or Setup); also *)
(*                                  separates traces                       *)
(*   layout {nb, low, epoch}        the layout is changed inside a trace:  *)
(*                                  every result is judged under the       *)
(*                                  layout in force when it was computed   *)
(*   id    {id, ts, node, step,     IDFields(id); IDParse(id) (absolute    *)
(*          pms, pnode, pstep,      ms); IDParseEx(id) (time.Time as       *)
(*          xms, xnode, xstep}      absolute ms)                           *)
(*   pair  {a, b, fa, fb}           two ids and their IDFields triples     *)
(*   date  {id, cn, back, err,      CnStyle(id) as character codes,        *)
(*          back2, err2, cn2}       FromChStyle(CnStyle(id)) and error     *)
(*                                  flag, twice on the same string;        *)
(*                                  CnStyle(id) asked a second time        *)
(*   range {fn, bsec, esec, min, max}                                      *)
(*         TimeBetweenID(begin, end) / TimeIDRange(t): t.Unix() of the     *)
(*         arguments (second truncation) and the returned interval         *)
(* Ids are non-negative (the property's domain); anything else (panic,     *)
(* crash) is inexplicable.                                                 *)
EXTENDS SnowCodec, Json, IOUtils

TraceLog == ndJsonDeserialize(IOEnv.VERIF_TRACE)

VARIABLES epoch, l
tvars == <<vars, epoch, l>>

TraceInit == l = 1 /\ cfg = [nb |-> 10, low |-> FALSE] /\ epoch = Zero /\ q = [op |-> "init"]

TReset(e) ==
  /\ e.nb \in {8, 9, 10} /\ IsNum(e.epoch)
  /\ cfg' = [nb |-> e.nb, low |-> e.low] /\ epoch' = e.epoch

TId(e) ==
  /\ IsNum(e.id) /\ ~Neg(e.id)
  /\ FieldsOK(cfg, e.id, e.ts, e.node, e.step)
  /\ AbsOK(e.ts, epoch, e.pms) /\ e.pnode = e.node /\ e.pstep = e.step
  /\ AbsOK(e.ts, epoch, e.xms) /\ e.xnode = e.node /\ e.xstep = e.step
  /\ UNCHANGED <<cfg, epoch>>

TPair(e) ==
  /\ IsNum(e.a) /\ IsNum(e.b) /\ ~Neg(e.a) /\ ~Neg(e.b)
  /\ FieldsOK(cfg, e.a, e.fa.ts, e.fa.node, e.fa.step)
  /\ FieldsOK(cfg, e.b, e.fb.ts, e.fb.node, e.fb.step)
  /\ OrderOK(cfg, e.a, e.fa, e.b, e.fb)
  /\ UNCHANGED <<cfg, epoch>>

TDate(e) ==
  /\ IsNum(e.id) /\ ~Neg(e.id) /\ IsNum(e.back)
  /\ DateOK(e.id, e.cn, e.back, e.err)
  /\ IsNum(e.back2) /\ DateOK(e.id, e.cn, e.back2, e.err2)     \* the same string decoded again
  /\ e.cn2 = e.cn                                              \* the same id rendered again
  /\ UNCHANGED <<cfg, epoch>>

TRange(e) ==
  /\ IsNum(e.bsec) /\ IsNum(e.esec) /\ IsNum(e.min) /\ IsNum(e.max)
  /\ LET bs == Offset(e.bsec, epoch)
         es == Offset(e.esec, epoch)
     IN /\ ~Less(es, bs)                       \* begin <= end: the harness's obligation
        /\ RangeOK(cfg, bs, es, e.min, e.max)
  /\ UNCHANGED <<cfg, epoch>>

TraceNext ==
  /\ l <= Len(TraceLog) /\ l' = l + 1
  /\ q' = [op |-> "ev"]
  /\ LET e == TraceLog[l] IN
       CASE e.ev = "reset" -> TReset(e)
         [] e.ev = "layout" -> TReset(e)     \* the layout is changed in the middle of a history
         [] e.ev = "id"    -> TId(e)
         [] e.ev = "pair"  -> TPair(e)
         [] e.ev = "date"  -> TDate(e)
         [] e.ev = "range" -> TRange(e)
         [] OTHER -> FALSE

TraceSpec == TraceInit /\ [][TraceNext]_tvars

(* 7 decimal digits hold the bits below the timestamp in every layout *)
ASSUME \A nb \in {8, 9, 10} : 2^(nb + 12) <= 10000000

ASSUME TLCSet(1, 0)
Mark == TLCSet(1, IF l > TLCGet(1) THEN l ELSE TLCGet(1))
Accepted == PrintT(<<"MARK", TLCGet(1), Len(TraceLog)>>) /\ TLCGet(1) = Len(TraceLog) + 1
=============================================================================
