---------------------------- MODULE Tokens_Trace ----------------------------
(* Validates results recorded from the real strvali / idgen/random / randx code.  Events:       *)
(*   reset  {kind}                  new trace                                                    *)
(*   email  {s, r}                  IsValidEmail(bytes s) = r                                    *)
(*   phone  {ac, ph, r}             IsValidPhoneNum(bytes ac, bytes ph) = r; p = "panic: .." or "" *)
(*   splits {d, acc}                one digit string d, acc[k] = IsValidPhoneNum("+"d[1..k], rest)*)
(*   nonce  {a, r, out}             a = [fn, base, n, full]; GenNonceStr / SecGenNonceStr        *)
(*   hex    {fn, out}               MD5UUID / SHA256UUID                                         *)
(*   uniq   {fn, g, n, distinct}    n calls by g goroutines, number of distinct results          *)
(* Freedoms: which bytes of the base, which hex digits, the verdict on well-formed international *)
(* numbers that satisfy the necessary conditions, everything about an empty base.                *)
EXTENDS Tokens, Json, IOUtils

TraceLog == ndJsonDeserialize(IOEnv.VERIF_TRACE)

VARIABLES l
tvars == <<s, l>>

TraceInit == l = 1 /\ s = <<>>

Consume ==
  /\ l <= Len(TraceLog) /\ l' = l + 1 /\ UNCHANGED s
  /\ LET e == TraceLog[l] IN
       CASE e.ev = "reset"  -> TRUE
         [] e.ev = "email"  -> (e.p = "" /\ EmailOK(e.s, e.r)) = TRUE
         [] e.ev = "phone"  -> (e.p = "" /\ PhoneOK(e.ac, e.ph, e.r)) = TRUE
         [] e.ev = "splits" -> (e.p = "" /\ SplitsOK(e.acc)) = TRUE
         [] e.ev = "nonce"  -> NonceOK(e.a, e.r, e.out) = TRUE
         [] e.ev = "hex"    -> HexOK(e.fn, e.out) = TRUE
         [] e.ev = "uniq"   -> UniqOK(e.n, e.distinct) = TRUE
         [] OTHER -> FALSE

TraceSpec == TraceInit /\ [][Consume]_tvars

ASSUME TLCSet(1, 0)
Mark == TLCSet(1, IF l > TLCGet(1) THEN l ELSE TLCGet(1))
Accepted == PrintT(<<"MARK", TLCGet(1), Len(TraceLog)>>) /\ TLCGet(1) = Len(TraceLog) + 1
=============================================================================
