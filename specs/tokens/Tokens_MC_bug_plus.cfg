SPECIFICATION Spec
CONSTANTS
  MaxLen = 7
  TldMin = 2
  TldMax = 3
  Dev = "noplus"
INVARIANTS Agree
CHECK_DEADLOCK FALSE
