------------------------------- MODULE Tokens -------------------------------
(***************************************************************************)
(* X07: the small validators and token generators of neptune.              *)
(*                                                                         *)
(*   X07-E  strvali.IsValidEmail accepts exactly the strings               *)
(*          local "@" label "." ... label "." tld   (structural denotation *)
(*          Email below, over character classes).                          *)
(*   X07-P  strvali.IsValidPhoneNum(area, phone): accepted only for        *)
(*          area = "+" digits, phone = digits; "+86" exactly the mainland  *)
(*          mobile plan; other areas: calling code of 1..3 digits, not 0.., *)
(*          NANP shape under "+1";                                         *)
(*          calling codes are prefix-free, so of all ways to cut one digit *)
(*          string into (area, phone) at most one may be accepted.         *)
(*   X07-N  GenNonceStr / SecGenNonceStr: exactly `length` bytes, each a   *)
(*          byte of the base string, every byte of a small base occurs.    *)
(*   X07-U  MD5UUID / SHA256UUID: 32 / 64 lower-case hex digits; tokens of *)
(*          at least 64 bits never repeat within a run, whatever the       *)
(*          number of concurrent callers.                                  *)
(*                                                                         *)
(* Characters are classes: L letter, D digit, U underscore, "-", ".", "+", *)
(* "@", O anything else (space, control, every byte >= 128).               *)
(* The exhaustive run compares the structural denotation of X07-E with a   *)
(* one-pass scanner (the design a matcher implements) on every class       *)
(* string up to MaxLen; deviation constant Dev names classic regex slips.  *)
(***************************************************************************)
EXTENDS Integers, Sequences, FiniteSets, TLC

CONSTANTS MaxLen, TldMin, TldMax, Dev

Classes == {"L", "D", "U", "-", ".", "+", "@", "O"}
Word    == {"L", "D", "U"}
Alnum   == {"L", "D"}

(* ---- X07-E, structural: cut at the only "@", cut the domain at every "." ---- *)
AllIn(s, S) == \A i \in 1..Len(s) : s[i] \in S
LocalOK(s)  == Len(s) >= 1 /\ s[1] \in Word /\ AllIn(s, Word \cup {"-", ".", "+"})
LabelOK(s)  == Len(s) >= 1 /\ s[1] \in Alnum /\ AllIn(s, Alnum \cup {"-", "U"})
TldOK(s)    == Len(s) >= TldMin /\ Len(s) <= TldMax /\ AllIn(s, {"L"})
(* positions of "." in s, plus both ends: piece k is between cut k and cut k+1 *)
DomOK(s) ==
  LET dots == {i \in 1..Len(s) : s[i] = "."}
      Piece(i, j) == SubSeq(s, i + 1, j - 1)          \* between two cuts (exclusive)
      cuts == dots \cup {0, Len(s) + 1}
      Next(i) == CHOOSE j \in cuts : j > i /\ \A k \in cuts : k > i => k >= j
  IN /\ dots # {}
     /\ \A i \in cuts \ {Len(s) + 1} :
          IF Next(i) = Len(s) + 1 THEN TldOK(Piece(i, Next(i))) ELSE LabelOK(Piece(i, Next(i)))
Email(s) ==
  LET ats == {i \in 1..Len(s) : s[i] = "@"}
  IN IF Cardinality(ats) # 1 THEN FALSE
     ELSE LET i == CHOOSE k \in ats : TRUE
          IN LocalOK(SubSeq(s, 1, i - 1)) /\ DomOK(SubSeq(s, i + 1, Len(s)))

(* ---- X07-E, the scanner: one pass, constant memory ---- *)
(* q = [st, dots, n, let]: st in start/local/dom/dead, dots = a "." was seen in the domain,    *)
(* n = length of the current domain piece (capped at TldMax+1), let = that piece is all letters *)
Q0 == [st |-> "start", dots |-> FALSE, n |-> 0, let |-> TRUE]
Dead == [st |-> "dead", dots |-> FALSE, n |-> 0, let |-> TRUE]
Cap(n) == IF n > TldMax THEN TldMax + 1 ELSE n
LabelFirst == IF Dev = "labelstart" THEN Alnum \cup {"-", "U"} ELSE Alnum
LocalRest  == IF Dev = "noplus" THEN Word \cup {"-", "."} ELSE Word \cup {"-", ".", "+"}
StepQ(q, c) ==
  CASE q.st = "start" -> IF c \in Word THEN [q EXCEPT !.st = "local"] ELSE Dead
    [] q.st = "local" -> IF c = "@" THEN [q EXCEPT !.st = "dom"]
                         ELSE IF c \in LocalRest THEN q ELSE Dead
    [] q.st = "dom"   -> IF c = "." THEN (IF q.n >= 1 THEN [q EXCEPT !.dots = TRUE, !.n = 0, !.let = TRUE] ELSE Dead)
                         ELSE IF q.n = 0 THEN (IF c \in LabelFirst THEN [q EXCEPT !.n = 1, !.let = (c = "L")] ELSE Dead)
                         ELSE IF c \in Alnum \cup {"-", "U"} THEN [q EXCEPT !.n = Cap(q.n + 1), !.let = (q.let /\ c = "L")]
                         ELSE Dead
    [] OTHER -> Dead
AcceptQ(q) == q.st = "dom" /\ q.dots /\ q.let /\ q.n <= TldMax
              /\ q.n >= (IF Dev = "tld1" THEN 1 ELSE TldMin)
RECURSIVE Scan(_, _)
Scan(q, s) == IF s = <<>> THEN q ELSE Scan(StepQ(q, Head(s)), Tail(s))
Scanner(s) == AcceptQ(Scan(Q0, s))

(* ---- bytes -> classes ---- *)
Class(b) == IF (b >= 65 /\ b <= 90) \/ (b >= 97 /\ b <= 122) THEN "L"
            ELSE IF b >= 48 /\ b <= 57 THEN "D"
            ELSE IF b = 95 THEN "U" ELSE IF b = 45 THEN "-" ELSE IF b = 46 THEN "."
            ELSE IF b = 43 THEN "+" ELSE IF b = 64 THEN "@" ELSE "O"
Classes_(bs) == [i \in 1..Len(bs) |-> Class(bs[i])]
EmailOK(bs, r) == r = Email(Classes_(bs))

(* ---- X07-P ---- *)
IsDig(b) == b >= 48 /\ b <= 57
Digits(s) == \A i \in 1..Len(s) : IsDig(s[i])
WellFormed(ac, ph) == Len(ac) >= 2 /\ ac[1] = 43 /\ Digits(Tail(ac)) /\ Len(ph) >= 1 /\ Digits(ph)
CNMobile(ph) == Len(ph) = 11 /\ ph[1] = 49 /\ ph[2] >= 51 /\ ph[2] <= 57 /\ Digits(ph)
(* what every accepted international number satisfies (ITU E.164; NANP for calling code 1) *)
Necessary(cc, ph) ==
  /\ Len(cc) <= 3 /\ cc[1] # 48
  /\ cc = <<49>> => LET k == Len(ph) - 10                     \* NXX-NXX-XXXX, trunk prefix 1 allowed
                     IN (k = 0 \/ (k = 1 /\ ph[1] = 49)) /\ ph[k + 1] >= 50 /\ ph[k + 4] >= 50
PhoneOK(ac, ph, r) ==
  IF ~WellFormed(ac, ph) THEN r = FALSE
  ELSE IF ac = <<43, 56, 54>> THEN r = CNMobile(ph)
  ELSE r => Necessary(Tail(ac), ph)
(* acc[k] = verdict for area = "+" first k digits, phone = the rest: calling codes are prefix-free *)
SplitsOK(acc) == Cardinality({k \in 1..Len(acc) : acc[k]}) <= 1

(* ---- X07-N ---- *)
Bytes(s) == {s[i] : i \in 1..Len(s)}
(* a = [fn, base, n, full], r = "ok" / "panic...", out = bytes *)
NonceOK(a, r, out) ==
  IF a.n <= 0 THEN r = "ok" /\ out = <<>>
  ELSE IF a.base = <<>> THEN TRUE                      \* nothing to draw from: left open
  ELSE /\ r = "ok" /\ Len(out) = a.n /\ Bytes(out) \subseteq Bytes(a.base)
       /\ a.full => Bytes(out) = Bytes(a.base)

(* ---- X07-U ---- *)
IsHexLower(b) == IsDig(b) \/ (b >= 97 /\ b <= 102)
HexLen(fn) == IF fn = "md5" THEN 32 ELSE 64
HexOK(fn, out) == Len(out) = HexLen(fn) /\ \A i \in 1..Len(out) : IsHexLower(out[i])
UniqOK(n, distinct) == distinct = n

----------------------------------------------------------------------------
(* exhaustive comparison of the two denotations *)
VARIABLES s
Init == s = <<>>
Next == Len(s) < MaxLen /\ \E c \in Classes : s' = Append(s, c)
Spec == Init /\ [][Next]_s
Agree == Email(s) = Scanner(s)
(* non-emptiness: some string is accepted (checked as a violated invariant in the witness cfg) *)
NoneAccepted == ~Email(s)
=============================================================================
