SPECIFICATION Spec
CONSTANTS
  MaxLen = 6
  TldMin = 2
  TldMax = 3
  Dev = "none"
INVARIANTS Agree
CHECK_DEADLOCK FALSE
