SPECIFICATION Spec
CONSTANTS
  MaxLen = 6
  TldMin = 2
  TldMax = 3
  Dev = "tld1"
INVARIANTS Agree
CHECK_DEADLOCK FALSE
