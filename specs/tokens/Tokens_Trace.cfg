SPECIFICATION TraceSpec
CONSTANTS
  MaxLen = 0
  TldMin = 2
  TldMax = 14
  Dev = "none"
CONSTRAINT Mark
POSTCONDITION Accepted
CHECK_DEADLOCK FALSE
