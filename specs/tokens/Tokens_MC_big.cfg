SPECIFICATION Spec
CONSTANTS
  MaxLen = 8
  TldMin = 2
  TldMax = 3
  Dev = "none"
INVARIANTS Agree
CHECK_DEADLOCK FALSE
