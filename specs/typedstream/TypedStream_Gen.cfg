SPECIFICATION GenSpec
CONSTANTS
  FullRead = TRUE
  ZeroLenOK = TRUE
  Pfx = 4
  ScalarTypes = {"bool", "u8", "u16", "i16", "u32", "i32", "u64", "i64", "f64", "vu64", "vi64", "vu32", "vi32"}
  ScalarIdx = {0, 1, 2, 3}
  ByteToks <- GenByteToks
  Lims = {0, 1, 3, 100}
  MaxItems = 7
  MaxRW = 2
  ChunkSets <- GenChunkSets
  URems = {0, 1, 2}
  Depth = 26
  MinItems = 3
  Thin = 8
INVARIANTS Emit
CHECK_DEADLOCK FALSE
