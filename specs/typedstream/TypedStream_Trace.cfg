SPECIFICATION TraceSpec
CONSTANTS
  FullRead = TRUE
  ZeroLenOK = TRUE
  Pfx = 4
  ScalarTypes = {}
  ScalarIdx = {}
  ByteToks = {}
  Lims = {}
  MaxItems = 0
  MaxRW = 0
  ChunkSets = {}
  URems = {}
INVARIANTS TypeOK RoundTrip EmptyAtEnd
CONSTRAINT Mark
POSTCONDITION Accepted
VIEW TView
CHECK_DEADLOCK FALSE
