------------------------- MODULE TypedStream_Trace -------------------------
(* Validates ndjson traces recorded from bytex.BufferX / bytex.ReaderX.     *)
(* Events:                                                                  *)
(*   reset {arb, total}   new buffer (arb: `total` arbitrary bytes instead  *)
(*                        of a written stream); separates traces            *)
(*   call  {a, r}         one call: action record and what the real code    *)
(*                        answered.  a.op = "w" | "rw" | "open" | "rd"      *)
(*   crash                the process died inside neptune (appended by vlib)*)
(* A read whose outcome the written items determine must equal the reply of *)
(* the specification (buffer reader and every stream reader); any other     *)
(* read is held to UStep: no panic, all readers agree.                      *)
EXTENDS TypedStream, Json, IOUtils

TraceLog == ndJsonDeserialize(IOEnv.VERIF_TRACE)

VARIABLES l
tvars == <<allvars, l>>

TraceInit == l = 1 /\ InitWith(FALSE, 0)

TReset(e) ==
  /\ items' = <<>> /\ total' = e.total /\ arb' = e.arb /\ phase' = "w" /\ avail' = 0 /\ hd' = 1
  /\ off' = 0 /\ sync' = FALSE /\ ks' = <<>> /\ midrw' = FALSE /\ got' = <<>>
  /\ e.total >= 0 /\ (~e.arb => e.total = 0)
  /\ last' = [a |-> [op |-> "init"], r |-> [pan |-> 0]]

WMatch(r, x) == r.pan = 0 /\ r.ok = x.ok /\ r.len = x.len

AnsMatch(r, x) == r.pan = 0 /\ r.ok = x.ok /\ (x.ok => r.v = x.v)
RdMatch(r, x) ==
  /\ AnsMatch(r.b, x.b) /\ (x.b.ok => r.b.rem = x.b.rem)
  /\ Len(r.x) = Len(x.x)
  /\ \A i \in 1..Len(x.x) : AnsMatch(r.x[i], x.x[i])

TCall(e) ==
  CASE e.a.op = "w" ->
         Step(e.a) /\ WMatch(e.r, ReplyW(e.a)) /\ ~e.r.inmut      \* the input is the caller's
    [] e.a.op = "rw" ->
         /\ Step(e.a)
         /\ e.r.pan = 0 /\ ~e.r.inmut
         /\ e.a.plen = Len(e.a.p) /\ (e.a.kind = "p" => e.a.tok = e.a.p)
         /\ Len(e.r.before) = ULen
         /\ FrameOK(e.r.before, e.r.after, e.a.pos, e.a.p)
    [] e.a.op = "open" ->
         Step(e.a) /\ e.r.pan = 0 /\ e.r.len = e.a.c
    [] e.a.op = "rd" ->
         /\ ~e.r.srcmut                      \* decoding leaves the bytes it decodes from alone
         /\ IF Known(e.a)
            THEN IF LimRef(e.a) THEN LStep(e.a, e.r)
                 ELSE Step(e.a) /\ RdMatch(e.r, ReplyRd(e.a))
            ELSE UStep(e.a, e.r)
    [] OTHER -> FALSE

Consume ==
  /\ l <= Len(TraceLog) /\ l' = l + 1
  /\ LET e == TraceLog[l] IN
       CASE e.ev = "reset" -> TReset(e)
         [] e.ev = "call"  -> TCall(e)
         [] OTHER -> FALSE

TraceNext == Consume
TraceSpec == TraceInit /\ [][TraceNext]_tvars

(* high-water mark of l in TLC register 1 (needs -workers 1) *)
ASSUME TLCSet(1, 0)
Mark == TLCSet(1, IF l > TLCGet(1) THEN l ELSE TLCGet(1))
Accepted == PrintT(<<"MARK", TLCGet(1), Len(TraceLog)>>) /\ TLCGet(1) = Len(TraceLog) + 1

TView == <<vars, l>>
=============================================================================
