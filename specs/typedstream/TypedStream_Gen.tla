-------------------------- MODULE TypedStream_Gen --------------------------
(* Plan generation: `tlc -simulate` walks TypedStream and writes, at depth  *)
(* Depth, the sequence of [a, r] records of the behaviour as one ndjson     *)
(* plan.  The Go harness executes the action records `a` on the real code.  *)
(* GenNext takes the same actions as Next but thins out the large action    *)
(* sets (the simulator picks uniformly among successor states, so hundreds  *)
(* of rewrites / opens would starve the reads).                             *)
EXTENDS TypedStream, TLCExt, Json, IOUtils
CONSTANTS Depth, MinItems, Thin
(* <<-1, n, id>>: a payload of n bytes (pattern id) - sizes at and around internal block sizes *)
GenByteToks  == {<<>>, <<65>>, <<0, 255, 10>>, <<104, 101, 108, 108, 111>>,
                 <<-1, 8192, 1>>, <<-1, 1025, 2>>, <<-1, 4095, 3>>}
GenChunkSets == {<<1, 0>>, <<2, 3, -1>>, <<1, 4, 7, 0>>, <<5, -2>>, <<-3, -4>>, <<-5, 1, -6>>,
                 <<-7, -9, -13>>, <<-12, -25, -11>>, <<-8, -10, -36>>}
GenLateW     == {a \in WActs : IF a.lim = 3 THEN TRUE ELSE a.lim = -1 /\ a.tok # <<>> /\ a.tok[1] = 1}

Starts == {StartOf(items, i) - UOff : i \in hd..Len(items) + 1}
GenPos == (Starts \cup {1, ULen}) \cap 0..ULen
GenRW  ==
       {[op |-> "rw", kind |-> "p", pos |-> p, plen |-> Len(s), tok |-> s] :
            p \in GenPos, s \in {x \in ByteToks : x # <<>> /\ x[1] > 0}}
  \cup {[op |-> "rw", kind |-> "u32", pos |-> p, plen |-> 4, tok |-> <<i>>] :
            p \in GenPos, i \in ScalarIdx \ {0}}
(* truncation points: all of them for short streams, around the item boundaries for long ones *)
GenCuts  == IF total <= 80 THEN 0..total
            ELSE {StartOf(items, i) + d : i \in 1..Len(items) + 1, d \in {-1, 0, 1, 3}} \cap 0..total
GenOpens == {[op |-> "open", c |-> c, ks |-> k] : c \in GenCuts, k \in ChunkSets}

GenNext ==
  \/ phase = "w" /\ Len(items) < MaxItems /\ \E a \in WActs : Step(a)
  \/ phase = "w" /\ Len(items) >= 2 /\ NRW < MaxRW /\ \E a \in GenRW : Step(a)
  \/ phase = "w" /\ Len(items) >= MinItems /\ \E a \in GenOpens : Step(a)
  \/ phase = "r" /\ \E a \in RdActs : Step(a)
  \/ phase = "r" /\ ~AtEnd /\ \E a \in RdActs : LStep(a, LReply(Min2(Pfx, HeadIt.n)))
  \/ phase = "r" /\ sync /\ hd = 3 /\ \E a \in {x \in GenRW : x.pos <= 4} : Step(a)
  \/ phase = "r" /\ hd \in {2, 4} /\ Len(items) < MaxItems + 2 /\ \E a \in GenLateW : Step(a)
  \/ phase = "r" /\ ~AtEnd /\ \E a \in RdActs : \E r \in UReplies(a) : UStep(a, r)
  \/ phase = "r" /\ AtEnd /\ ~midrw /\ \E a \in GenOpens : Step(a)
  \/ phase = "end" /\ \E a \in RdActs : \E r \in UReplies(a) : ~r.b.ok /\ UStep(a, r)
  \/ phase = "end" /\ ~midrw /\ \E a \in {x \in GenOpens : x.c % 3 = 0 \/ x.c = total} : Step(a)
GenSpec == Init /\ [][GenNext]_allvars

ASSUME TLCSet(2, 0)
Emit ==
  \/ TLCGet("level") < Depth
  \/ RandomElement(1..Thin) # 1
  \/ /\ TLCSet(2, TLCGet(2) + 1)
     /\ ndJsonSerialize(IOEnv.VERIF_PLANDIR \o "/p" \o ToString(TLCGet(2)) \o ".ndjson",
                        [i \in 1..Len(Trace) |-> Trace[i].last])
=============================================================================
