-------------------------- MODULE TypedStream_Gen --------------------------
(* Plan generation: `tlc -simulate` walks TypedStream and writes, at depth  *)
(* Depth, the sequence of [a, r] records of the behaviour as one ndjson     *)
(* plan.  The Go harness executes the action records `a` on the real code.  *)
(* GenNext takes the same actions as Next but thins out the large action    *)
(* sets (the simulator picks uniformly among successor states, so hundreds  *)
(* of rewrites / opens would starve the reads).                             *)
EXTENDS TypedStream, TLCExt, Json, IOUtils
CONSTANTS Depth, MinItems, Thin
GenByteToks  == {<<>>, <<65>>, <<0, 255, 10>>, <<104, 101, 108, 108, 111>>}
GenChunkSets == {<<1, 0>>, <<2, 3, -1>>, <<1, 4, 7, 0>>, <<5, -2>>, <<-3, -4>>, <<-5, 1, -6>>}
GenLateW     == {a \in WActs : IF a.lim = 3 THEN TRUE ELSE a.lim = -1 /\ a.tok # <<>> /\ a.tok[1] = 1}

Starts == {StartOf(items, i) - UOff : i \in hd..Len(items) + 1}
GenRW  == {a \in RWActs : a.pos \in Starts \cup {1, ULen} /\ a.plen > 0 /\ a.tok[1] # 0}

GenNext ==
  \/ phase = "w" /\ Len(items) < MaxItems /\ \E a \in WActs : Step(a)
  \/ phase = "w" /\ Len(items) >= 2 /\ NRW < MaxRW /\ \E a \in GenRW : Step(a)
  \/ phase = "w" /\ Len(items) >= MinItems /\ \E a \in OpenActs : Step(a)
  \/ phase = "r" /\ \E a \in RdActs : Step(a)
  \/ phase = "r" /\ sync /\ hd = 3 /\ \E a \in {x \in GenRW : x.pos <= 4} : Step(a)
  \/ phase = "r" /\ hd \in {2, 4} /\ Len(items) < MaxItems + 2 /\ \E a \in GenLateW : Step(a)
  \/ phase = "r" /\ ~AtEnd /\ \E a \in RdActs : \E r \in UReplies(a) : UStep(a, r)
  \/ phase = "r" /\ AtEnd /\ ~midrw /\ \E a \in OpenActs : Step(a)
  \/ phase = "end" /\ \E a \in RdActs : \E r \in UReplies(a) : ~r.b.ok /\ UStep(a, r)
  \/ phase = "end" /\ ~midrw /\ \E a \in {x \in OpenActs : x.c % 3 = 0 \/ x.c = total} : Step(a)
GenSpec == Init /\ [][GenNext]_allvars

ASSUME TLCSet(2, 0)
Emit ==
  \/ TLCGet("level") < Depth
  \/ RandomElement(1..Thin) # 1
  \/ /\ TLCSet(2, TLCGet(2) + 1)
     /\ ndJsonSerialize(IOEnv.VERIF_PLANDIR \o "/p" \o ToString(TLCGet(2)) \o ".ndjson",
                        [i \in 1..Len(Trace) |-> Trace[i].last])
=============================================================================
