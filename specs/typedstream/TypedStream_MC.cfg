SPECIFICATION Spec
CONSTANTS
  FullRead = TRUE
  ZeroLenOK = TRUE
  Pfx = 2
  ScalarTypes = {"u32"}
  ScalarIdx = {0, 1}
  ByteToks <- MCByteSmall
  Lims = {0, 1}
  MaxItems = 3
  MaxRW = 1
  ChunkSets <- MCChunkSets
  URems = {0, 1}
INVARIANTS TypeOK RoundTrip EmptyAtEnd
PROPERTIES NoValueFromShort ValueFromWhole Agreement RefusedWrite
VIEW View
CHECK_DEADLOCK FALSE
