---------------------------- MODULE TypedStream ----------------------------
(***************************************************************************)
(* bytex: typed stream codec (BufferX) and its two decoders (BufferX as a  *)
(* reader over bytes, ReaderX over an io.Reader that fragments its data).  *)
(*                                                                         *)
(* The stream is a sequence of *items* [t, tok, n, dirty]:                 *)
(*   t    type of the typed write that produced it                          *)
(*   tok  the value as an opaque token (a tuple of small integers)          *)
(*   n    number of bytes the item occupies (in traces: observed from the  *)
(*        Len() delta of the write; the wire format itself is NOT          *)
(*        specified -- the property is a round trip)                       *)
(*   dirty  an in-place rewrite overlapped it without replacing it exactly *)
(*                                                                         *)
(* Life of one buffer:  phase "w": typed writes and rewrites;  open(c):    *)
(* readers are put on the first c bytes (c = total: the round trip,        *)
(* c < total: truncation) -- one buffer reader `b` and one stream reader   *)
(* per chunking in `ks`;  phase "r": typed reads, each answered by every   *)
(* reader;  the first error ends the specified part ("end").               *)
(*                                                                         *)
(* A call is an action record `a`; Reply(a) is what the design answers in  *)
(* the state before the call, Do(a) the transition.  Where the content of  *)
(* the stream is not known at item level (arbitrary bytes, a dirty item)   *)
(* the reply is not a function of the state: UStep(a, r) accepts every     *)
(* reply in which nobody panics and all readers agree.                     *)
(*                                                                         *)
(* Named deviations of bytex.ReaderX (TRUE = the design):                  *)
(*   FullRead   Read(p) keeps reading the source until p is full           *)
(*              (FALSE: one source Read, short count = "empty")            *)
(*   ZeroLenOK  a zero-length string body is read as "", as in BufferX     *)
(*              (FALSE: rejected with ErrReadWrongNum)                     *)
(***************************************************************************)
EXTENDS Integers, Sequences, FiniteSets, TLC

CONSTANTS FullRead, ZeroLenOK, Pfx     \* Pfx: bytes of a string's length prefix (stream reader stages)

VARIABLES
  items,   \* the written stream
  total,   \* bytes written
  arb,     \* configuration: TRUE = content unknown at item level (arbitrary bytes)
  phase,   \* "w" | "r" | "end"
  avail,   \* bytes given to the readers (truncation point)
  hd,      \* index of the next item to read
  off,     \* bytes consumed by the buffer reader since open
  sync,    \* readers are at an item boundary of known content
  ks,      \* chunk sizes of the live stream readers (0 = everything at once, <0 = irregular)
  midrw,   \* a rewrite happened after open (the opened bytes are no longer the written ones)
  got,     \* tokens read back since open while in sync (ghost)
  last     \* [a |-> action record, r |-> reply] of the latest step (output only)

vars    == <<items, total, arb, phase, avail, hd, off, sync, ks, midrw, got>>
allvars == <<vars, last>>

Min2(x, y) == IF x <= y THEN x ELSE y

RECURSIVE StartOf(_, _)
StartOf(its, i) == IF i <= 1 THEN 0 ELSE StartOf(its, i - 1) + its[i - 1].n    \* byte offset of item i

StrTypes == {"str"}
HasX(t)  == t \notin {"vu64", "vi64", "vu32", "vi32"}      \* ReaderX has no varint readers

Err    == [ok |-> FALSE, v |-> <<>>]
Val(v) == [ok |-> TRUE, v |-> v]

---------------------------------------------------------------------------
(* typed write:  a = [op |-> "w", t, tok, n, lim]   (lim >= 0: WriteLimitString) *)
(* A string / raw token is the tuple of its bytes or, for long payloads,    *)
(* a reference <<-1, length, digest..., first and last bytes>> (bytes are   *)
(* never negative, so the two forms cannot be confused; the harness uses    *)
(* the reference form for every payload above 256 bytes, written or read).  *)
TokLen(tok) == IF Len(tok) > 1 /\ tok[1] = -1 THEN tok[2] ELSE Len(tok)
WriteOK(a) == ~(a.lim >= 0 /\ TokLen(a.tok) > a.lim)
ULen == IF phase = "w" THEN total ELSE avail - off           \* length of the unread region
UOff == IF phase = "w" THEN 0 ELSE off
ReplyW(a)  == [ok |-> WriteOK(a), len |-> IF WriteOK(a) THEN ULen + a.n ELSE ULen, pan |-> 0]
(* The stream is a FIFO: a buffer that is being read back (all of it was    *)
(* opened, the reader stands at an item boundary) may be written to again;  *)
(* the item queues behind the unread ones.  The stream readers were given   *)
(* the old bytes and are dropped, and nothing is opened again (as after a   *)
(* rewrite in phase "r").                                                   *)
DoW(a) ==
  /\ ~arb /\ a.n >= 0
  /\ phase = "w" \/ (phase = "r" /\ sync /\ avail = total)
  /\ IF WriteOK(a)
     THEN /\ items' = Append(items, [t |-> a.t, tok |-> a.tok, n |-> a.n, dirty |-> FALSE])
          /\ total' = total + a.n
          /\ avail' = IF phase = "r" THEN avail + a.n ELSE avail
     ELSE UNCHANGED <<items, total, avail>>
  /\ IF phase = "r" THEN midrw' = TRUE /\ ks' = <<>> ELSE UNCHANGED <<midrw, ks>>
  /\ UNCHANGED <<arb, phase, hd, off, sync, got>>

---------------------------------------------------------------------------
(* in-place rewrite of the unread region:                                  *)
(*   a = [op |-> "rw", kind |-> "p" | "u32", pos, plen, tok]               *)
(* kind "p": ReWrite(pos, p), tok = p;  kind "u32": ReWriteU32(pos, v),    *)
(* tok = token of v, plen = width of an encoded u32.                       *)

(* bytes of the unread region addressed by the call, 1-based *)
Window(pos, plen, ulen) == {i \in 1..ulen : pos < i /\ i <= pos + plen}

(* The property: the images before/after differ exactly on the addressed   *)
(* bytes, which receive p (clipped at the end of the buffer).              *)
FrameOK(before, after, pos, p) ==
  /\ Len(after) = Len(before)
  /\ \A i \in 1..Len(before) :
        after[i] = IF pos < i /\ i <= pos + Len(p) THEN p[i - pos] ELSE before[i]

Rewritten(it, s, a, ulen) ==       \* s = offset of the item inside the unread region
  LET w     == Window(a.pos, a.plen, ulen)
      mine  == {i \in w : s < i /\ i <= s + it.n}
      exact == a.pos = s /\ a.plen = it.n /\ it.n > 0 /\ ~it.dirty /\ s + it.n <= ulen
               /\ ((a.kind = "u32" /\ it.t = "u32") \/ (a.kind = "p" /\ it.t = "raw"))
  IN IF mine = {} THEN it
     ELSE IF exact THEN [it EXCEPT !.tok = a.tok]
     ELSE [it EXCEPT !.dirty = TRUE]

DoRW(a) ==
  /\ phase \in {"w", "r"} /\ ~arb
  /\ a.pos >= 0 /\ a.pos <= ULen /\ a.plen >= 0
  /\ phase = "r" => sync
  /\ items' = [i \in 1..Len(items) |->
                 IF i < hd /\ phase = "r" THEN items[i]
                 ELSE Rewritten(items[i], StartOf(items, i) - UOff, a, ULen)]
  /\ IF phase = "r" THEN midrw' = TRUE /\ ks' = <<>> ELSE UNCHANGED <<midrw, ks>>
  /\ UNCHANGED <<total, arb, phase, avail, hd, off, sync, got>>

---------------------------------------------------------------------------
(* open:  a = [op |-> "open", c, ks]                                       *)
DoOpen(a) ==
  /\ ~midrw /\ a.c >= 0 /\ a.c <= total
  /\ phase' = "r" /\ avail' = a.c /\ hd' = 1 /\ off' = 0 /\ sync' = ~arb /\ ks' = a.ks /\ got' = <<>>
  /\ UNCHANGED <<items, total, arb, midrw>>
ReplyOpen(a) == [len |-> a.c, pan |-> 0]

---------------------------------------------------------------------------
(* typed read:  a = [op |-> "rd", t, lim, n, via]                          *)
(*   lim >= 0: ReadLimitString(lim);  t = "raw": n bytes via ReadN ("n"),  *)
(*   ZReadN ("z") or Read(p) ("p")                                         *)
AtEnd  == hd > Len(items)
HeadIt == items[hd]
Left   == avail - off

(* "the same sequence of typed reads": the read matches the item at the    *)
(* head; past the last item any read of at least one byte is in scope.     *)
(* ReadN(0) / ZReadN(0) are argument validation, not decoding: BufferX and *)
(* ReaderX may refuse or accept them as they like (a zero-length raw item  *)
(* is read back with Read(p), len(p) = 0).                                 *)
InScope(a) ==
  IF AtEnd THEN (a.t = "raw" => a.n >= 1)
  ELSE /\ HeadIt.t = a.t
       /\ a.t = "raw" => (a.n = HeadIt.n /\ (a.via \in {"n", "z"} => a.n >= 1))

(* (IF, not \/: inside an action TLC explores both sides of a disjunction) *)
Known(a) == phase = "r" /\ sync /\ InScope(a) /\ (IF AtEnd THEN TRUE ELSE ~HeadIt.dirty)
DirtyHead(a) == IF AtEnd THEN FALSE ELSE InScope(a) /\ HeadIt.dirty

Over(a) == a.lim >= 0 /\ TokLen(HeadIt.tok) > a.lim
Fits    == off + HeadIt.n <= avail

(* the buffer reader *)
BReply(a) ==
  IF ~AtEnd /\ Fits /\ ~Over(a)
  THEN [ok |-> TRUE, v |-> HeadIt.tok, rem |-> Left - HeadIt.n, pan |-> 0]
  ELSE [ok |-> FALSE, v |-> <<>>, rem |-> 0, pan |-> 0]

(* the stream reader over a source that hands out at most k bytes per call *)
(* (k <= 0: no bound).  One request of n bytes collects:                   *)
Collected(n, left, k) ==
  IF FullRead \/ k <= 0 THEN Min2(n, left) ELSE Min2(Min2(n, left), k)
(* zlen: the request is a string body, which the deviating reader refuses  *)
(* when n = 0                                                              *)
StageOK(n, left, k, zlen) ==
  IF n = 0 THEN (zlen => ZeroLenOK) ELSE Collected(n, left, k) = n

XReply(a, k) ==
  IF AtEnd THEN [ok |-> FALSE, v |-> <<>>, pan |-> 0]
  ELSE
  LET n  == HeadIt.n
      ok == IF a.t \in StrTypes
            THEN LET p == Min2(Pfx, n) IN
                 /\ StageOK(p, Left, k, FALSE)
                 /\ ~Over(a)
                 /\ StageOK(n - p, Left - p, k, TRUE)
            ELSE StageOK(n, Left, k, FALSE)
  IN IF ok THEN [ok |-> TRUE, v |-> HeadIt.tok, pan |-> 0] ELSE [ok |-> FALSE, v |-> <<>>, pan |-> 0]

ReplyRd(a) ==
  [b |-> BReply(a),
   x |-> IF HasX(a.t) THEN [i \in 1..Len(ks) |-> XReply(a, ks[i])] ELSE <<>>]

(* A whole string that is refused only because of the caller's limit: the   *)
(* refusal is a decision on the announced length, taken by the buffer       *)
(* reader and by every stream reader at the same place.  What it leaves     *)
(* consumed is not specified (the wire format is not), but reading goes on  *)
(* from there and the readers must go on agreeing: see LStep.               *)
LimRef(a) == IF AtEnd THEN FALSE ELSE Fits /\ Over(a)

DoRd(a) ==
  /\ Known(a) /\ ~LimRef(a)
  /\ IF BReply(a).ok
     THEN /\ hd' = hd + 1 /\ off' = off + HeadIt.n /\ got' = Append(got, HeadIt.tok)
          /\ UNCHANGED phase
     ELSE phase' = "end" /\ UNCHANGED <<hd, off, got>>
  /\ UNCHANGED <<items, total, arb, avail, sync, ks, midrw>>

---------------------------------------------------------------------------
(* reads the item-level stream cannot predict: arbitrary bytes, a dirty    *)
(* item, anything after the first error.  What remains of the property:    *)
(* nobody panics, every live stream reader answers as the buffer reader    *)
(* does, and the buffer only shrinks.                                      *)
SameAnswer(x, b) == x.ok = b.ok /\ (b.ok => x.v = b.v)
NoPanic(r) == r.b.pan = 0 /\ \A i \in 1..Len(r.x) : r.x[i].pan = 0

UOK(a, r) ==
  /\ NoPanic(r)
  /\ phase = "r" =>
       /\ Len(r.x) = IF HasX(a.t) THEN Len(ks) ELSE 0
       /\ \A i \in 1..Len(r.x) : SameAnswer(r.x[i], r.b)
       /\ r.b.ok => (r.b.rem >= 0 /\ r.b.rem <= Left)
       /\ (Left = 0 /\ (a.t = "raw" => a.n >= 1)) => ~r.b.ok      \* no value out of no bytes

LStep(a, r) ==
  /\ Known(a) /\ LimRef(a)
  /\ NoPanic(r) /\ ~r.b.ok
  /\ Len(r.x) = Len(ks) /\ \A i \in 1..Len(r.x) : ~r.x[i].ok
  /\ r.b.rem >= Left - HeadIt.n /\ r.b.rem <= Left          \* somewhere inside the refused item
  /\ off' = avail - r.b.rem /\ sync' = FALSE
  /\ UNCHANGED <<items, total, arb, phase, avail, hd, ks, midrw, got>>
  /\ last' = [a |-> a, r |-> r]

LReply(c) == [b |-> [ok |-> FALSE, v |-> <<>>, rem |-> Left - c, pan |-> 0],
              x |-> [i \in 1..Len(ks) |-> [ok |-> FALSE, v |-> <<>>, pan |-> 0]]]

UStep(a, r) ==
  /\ phase \in {"r", "end"} /\ ~Known(a)
  /\ IF phase = "end" \/ arb \/ ~sync THEN TRUE ELSE DirtyHead(a)
  /\ UOK(a, r)
  /\ IF phase = "r" /\ r.b.ok
     THEN off' = avail - r.b.rem /\ sync' = FALSE /\ UNCHANGED phase
     ELSE phase' = "end" /\ UNCHANGED <<off, sync>>
  /\ UNCHANGED <<items, total, arb, avail, hd, ks, midrw, got>>
  /\ last' = [a |-> a, r |-> r]

---------------------------------------------------------------------------
Reply(a) ==
  CASE a.op = "w"    -> ReplyW(a)
    [] a.op = "rw"   -> [pan |-> 0]
    [] a.op = "open" -> ReplyOpen(a)
    [] a.op = "rd"   -> ReplyRd(a)
    [] OTHER         -> [pan |-> 1]

Do(a) ==
  CASE a.op = "w"    -> DoW(a)
    [] a.op = "rw"   -> DoRW(a)
    [] a.op = "open" -> DoOpen(a)
    [] a.op = "rd"   -> DoRd(a)
    [] OTHER         -> FALSE

Step(a) == Do(a) /\ last' = [a |-> a, r |-> Reply(a)]

InitWith(isArb, tot) ==
  /\ items = <<>> /\ total = tot /\ arb = isArb /\ phase = "w" /\ avail = 0 /\ hd = 1 /\ off = 0
  /\ sync = FALSE /\ ks = <<>> /\ midrw = FALSE /\ got = <<>>
  /\ last = [a |-> [op |-> "init", arb |-> isArb, total |-> tot], r |-> [pan |-> 0]]

---------------------------------------------------------------------------
(* Model widths: the real ones (the plans then address real byte offsets). *)
(* Tokens of the model are <<i>> (an index into the harness's table of     *)
(* boundary values) for scalars and the bytes themselves for str / raw.    *)
ModelN(t, tok) ==
  CASE t \in {"bool", "u8"}          -> 1
    [] t \in {"u16", "i16"}          -> 2
    [] t \in {"u32", "i32"}          -> 4
    [] t \in {"u64", "i64", "f64"}   -> 8
    [] t \in {"vu64", "vi64"}        -> <<1, 2, 5, 10>>[tok[1] + 1]
    [] t \in {"vu32", "vi32"}        -> <<1, 2, 3, 5>>[tok[1] + 1]
    [] t = "str"                     -> Pfx + TokLen(tok)
    [] t = "raw"                     -> TokLen(tok)
    [] OTHER                         -> 0

CONSTANTS ScalarTypes, ScalarIdx, ByteToks, Lims, MaxItems, MaxRW, ChunkSets, URems

WActs ==
       {[op |-> "w", t |-> t, tok |-> <<i>>, n |-> ModelN(t, <<i>>), lim |-> -1] :
            t \in ScalarTypes, i \in ScalarIdx}
  \cup {[op |-> "w", t |-> "str", tok |-> s, n |-> ModelN("str", s), lim |-> l] :
            s \in ByteToks, l \in Lims \cup {-1}}
  \cup {[op |-> "w", t |-> "raw", tok |-> s, n |-> TokLen(s), lim |-> -1] : s \in ByteToks}

RWActs ==
       {[op |-> "rw", kind |-> "p", pos |-> p, plen |-> Len(s), tok |-> s] :
            p \in 0..ULen, s \in ByteToks}
  \cup {[op |-> "rw", kind |-> "u32", pos |-> p, plen |-> 4, tok |-> <<i>>] :
            p \in 0..ULen, i \in ScalarIdx}

OpenActs == {[op |-> "open", c |-> c, ks |-> k] : c \in 0..total, k \in ChunkSets}

RdFor(it) ==
  IF it.t = "str" THEN {[op |-> "rd", t |-> "str", lim |-> l, n |-> 0, via |-> "-"] : l \in Lims \cup {-1}}
  ELSE IF it.t = "raw"
  THEN {[op |-> "rd", t |-> "raw", lim |-> -1, n |-> it.n, via |-> v] :
            v \in IF it.n = 0 THEN {"p"} ELSE {"n", "z", "p"}}
  ELSE {[op |-> "rd", t |-> it.t, lim |-> -1, n |-> 0, via |-> "-"]}

PastEnd == {[t |-> "u8", tok |-> <<0>>, n |-> 1], [t |-> "u32", tok |-> <<0>>, n |-> 4],
            [t |-> "str", tok |-> <<>>, n |-> Pfx], [t |-> "raw", tok |-> <<1>>, n |-> 1]}
RdActs == IF AtEnd THEN UNION {RdFor(it) : it \in PastEnd} ELSE RdFor(HeadIt)

(* replies the model offers for a read it cannot predict *)
UReplies(a) ==
  LET xs(ans) == IF HasX(a.t) THEN [i \in 1..Len(ks) |-> [ok |-> ans.ok, v |-> ans.v, pan |-> 0]] ELSE <<>>
  IN {[b |-> [ok |-> FALSE, v |-> <<>>, rem |-> 0, pan |-> 0], x |-> xs(Err)]}
     \cup {[b |-> [ok |-> TRUE, v |-> <<9>>, rem |-> m, pan |-> 0], x |-> xs(Val(<<9>>))] :
              m \in {m \in URems : m <= Left}}

NRW == Cardinality({i \in 1..Len(items) : items[i].dirty})

Init == InitWith(FALSE, 0)
Next ==
  \/ Len(items) < MaxItems /\ \E a \in WActs : Step(a)
  \/ NRW < MaxRW /\ \E a \in RWActs : Step(a)
  \/ \E a \in OpenActs : Step(a)
  \/ phase = "r" /\ \E a \in RdActs : Step(a)
  \/ phase = "r" /\ ~AtEnd /\ \E a \in RdActs :
        \E c \in {0, Min2(Pfx, HeadIt.n), HeadIt.n} : LStep(a, LReply(c))
  \/ phase \in {"r", "end"} /\ \E a \in RdActs : \E r \in UReplies(a) : UStep(a, r)
Spec == Init /\ [][Next]_allvars

---------------------------------------------------------------------------
(* properties *)
TypeOK ==
  /\ phase \in {"w", "r", "end"} /\ (arb \/ total = StartOf(items, Len(items) + 1))
  /\ 0 <= off /\ off <= avail /\ avail <= total
  /\ hd \in 1..Len(items) + 1

(* what was read back is what was written, in order, and the reader stands *)
(* exactly behind it *)
RoundTrip ==
  (phase = "r" /\ sync) =>
     /\ Len(got) = hd - 1
     /\ \A i \in 1..Len(got) : got[i] = items[i].tok
     /\ off = StartOf(items, hd)

(* reading the whole sequence back leaves the buffer empty *)
EmptyAtEnd == (phase = "r" /\ sync /\ AtEnd) => (off = total /\ Left = 0)

(* an item that is not wholly inside the available bytes (or nothing at    *)
(* all) is never answered with a value, by any reader                      *)
NoValueFromShort ==
  [][LET a == last'.a
         r == last'.r
     IN (a.op = "rd" /\ Known(a) /\ (IF AtEnd THEN TRUE ELSE ~Fits)) =>
           /\ ~r.b.ok
           /\ \A i \in 1..Len(r.x) : ~r.x[i].ok]_allvars

(* a complete item within its limit is answered with its value *)
ValueFromWhole ==
  [][LET a == last'.a
         r == last'.r
     IN (a.op = "rd" /\ Known(a) /\ ~AtEnd /\ Fits /\ ~Over(a)) =>
           r.b.ok /\ r.b.v = HeadIt.tok /\ r.b.rem = Left - HeadIt.n]_allvars

(* the stream readers decode exactly what the buffer reader decodes,       *)
(* whatever the chunking *)
Agreement ==
  [][LET a == last'.a
         r == last'.r
     IN a.op = "rd" => \A i \in 1..Len(r.x) : SameAnswer(r.x[i], r.b)]_allvars

(* a refused write leaves the stream untouched *)
RefusedWrite ==
  [][LET a == last'.a
         r == last'.r
     IN (a.op = "w" /\ ~r.ok) => UNCHANGED <<items, total, arb, phase, avail, hd, off, sync, got>>]_allvars

View == vars
=============================================================================
