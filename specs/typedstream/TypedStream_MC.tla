--------------------------- MODULE TypedStream_MC ---------------------------
(* structured constants of the exhaustive runs (cfg files cannot hold tuples) *)
EXTENDS TypedStream

MCByteToks  == {<<>>, <<7>>, <<7, 8>>}
MCByteSmall == {<<>>, <<7>>}
MCChunkSets == {<<1, 2, 0>>}
MCChunkBig  == {<<1, 3, 0>>, <<2>>}

(* FrameOK is a pure predicate on logged byte images: pin it down on examples *)
ASSUME FrameOK(<<1, 2, 3, 4>>, <<1, 9, 8, 4>>, 1, <<9, 8>>)
ASSUME FrameOK(<<1, 2, 3, 4>>, <<1, 2, 3, 9>>, 3, <<9, 8>>)          \* clipped at the end
ASSUME FrameOK(<<1, 2, 3, 4>>, <<1, 2, 3, 4>>, 4, <<9, 8>>)          \* pos = len: nothing addressed
ASSUME FrameOK(<<1, 2>>, <<1, 2>>, 1, <<>>)
ASSUME ~FrameOK(<<1, 2, 3, 4>>, <<1, 9, 8, 7>>, 1, <<9, 8>>)         \* one byte too many
ASSUME ~FrameOK(<<1, 2, 3, 4>>, <<9, 8, 3, 4>>, 1, <<9, 8>>)         \* wrong origin
ASSUME ~FrameOK(<<1, 2, 3, 4>>, <<1, 9, 3, 4>>, 1, <<9, 8>>)         \* one byte too few
ASSUME ~FrameOK(<<1, 2, 3, 4>>, <<1, 9, 8, 4, 0>>, 1, <<9, 8>>)      \* length changed
=============================================================================
