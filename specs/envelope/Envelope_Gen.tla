--------------------------- MODULE Envelope_Gen ---------------------------
(* Plan generation: `tlc -simulate` walks Envelope.tla and writes, at      *)
(* depth Depth, the action records of the behaviour as one ndjson plan.    *)
(* The unm actions are thinned (payloads that make sense for the tag, plus *)
(* garbage), otherwise they would be 85 % of every plan.  Payloads and     *)
(* contents in a plan are the abstract ones of the bounded model; the      *)
(* harness turns them into real protobuf bytes with protobuf-go.           *)
EXTENDS Envelope, TLCExt, Json, IOUtils
CONSTANT Depth

GTagPl ==
       {<<ErrTag, pl>> : pl \in {<<50, 5>>, <<50, 0>>, <<99>>}}
  \cup {<<EmptyTag, pl>> : pl \in {<<>>, <<99>>}}
  \cup {<<LE(FpTable[i]), pl>> : i \in FpIdx, pl \in {<<99>>} \cup {MEnc(t, v) : t \in Types, v \in {<<>>, <<1>>}}}
  \cup {<<<<7, 7, 7, 7>>, <<>>>>, <<<<>>, <<>>>>, <<<<1, 0>>, <<>>>>}
GTagPlE == {tp \in GTagPl : tp[2] \in {<<>>, <<99>>, <<50, 5>>, <<50, 0>>, <<11, 1>>}}
(* `w` only multiplies the registrations (simulation picks successors      *)
(* uniformly); the specification and the harness ignore it                  *)
GActs ==
  ErrActs
  \cup [op : {"reg"}, p : Packers, ty : Types, gk : {"good"}, w : 1..8]
  \cup [op : {"reg"}, p : Packers, ty : {1}, gk : {"nil", "nilptr", "nofp"}, w : {1}]
  \cup [op : {"mar"}, p : Packers, ty : Types \cup {EMPTY, NOFP}, v : MVals]
  \cup [op : {"mempty"}] \cup [op : {"merr"}, s : Slots, w : 1..8]
  \cup {UnmAct(p, api, tp[1], tp[2]) : p \in Packers, api \in {"msg", "resp", "rpc"}, tp \in GTagPl}
  \cup {UnmAct(1, api, tp[1], tp[2]) : api \in {"eresp", "erpc"}, tp \in GTagPlE}
  \cup [op : {"tor"}, hm : BOOLEAN, he : BOOLEAN, hs : BOOLEAN]
  \cup [op : {"toe"}, he : BOOLEAN, hs : BOOLEAN]
GNext == \E a \in GActs : Step(a)
GSpec == Init /\ [][GNext]_allvars

ASSUME TLCSet(2, 0)
Emit ==
  \/ TLCGet("level") < Depth
  \/ /\ TLCSet(2, TLCGet(2) + 1)
     /\ ndJsonSerialize(IOEnv.VERIF_PLANDIR \o "/p" \o ToString(TLCGet(2)) \o ".ndjson",
                        [i \in 1..Len(Trace) |-> Trace[i].last])
=============================================================================
