SPECIFICATION Spec
CONSTANTS
  RefuseReserved = TRUE
  DedupStack = TRUE
  NPk = 1
  NTy = 1
  NSl = 2
  FpIdx = {3}
  MaxLen = 3
  MaxId = 4
  Parts = {"err"}
INVARIANTS TypeOK TableInjective NoReserved MsgRoundTrip ErrRoundTrip SingleStack
PROPERTIES PackersIndependent RefusedRegChangesNothing WrapTransparent OthersUntouched
CONSTRAINT Bound
VIEW View
CHECK_DEADLOCK FALSE
