SPECIFICATION Spec
CONSTANTS
  RefuseReserved = TRUE
  DedupStack = TRUE
  NPk = 2
  NTy = 2
  NSl = 2
  FpIdx = {1, 2, 3, 4}
  MaxLen = 3
  MaxId = 5
  PureOps = TRUE
INVARIANTS TypeOK TableInjective NoReserved MsgRoundTrip ErrRoundTrip SingleStack
PROPERTIES PackersIndependent RefusedRegChangesNothing WrapTransparent OthersUntouched
CONSTRAINT Bound
VIEW View
CHECK_DEADLOCK FALSE
