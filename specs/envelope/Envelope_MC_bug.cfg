SPECIFICATION Spec
CONSTANTS
  RefuseReserved = FALSE
  DedupStack = TRUE
  NPk = 1
  NTy = 2
  NSl = 1
  FpIdx = {1, 2, 3}
  MaxLen = 2
  MaxId = 3
  Parts = {"reg"}
INVARIANTS TypeOK TableInjective MsgRoundTrip
CONSTRAINT Bound
VIEW View
CHECK_DEADLOCK FALSE
