SPECIFICATION Spec
CONSTANTS
  RefuseReserved = TRUE
  DedupStack = TRUE
  NPk = 2
  NTy = 4
  NSl = 1
  FpIdx = {1, 2, 3, 4, 5, 6}
  MaxLen = 3
  MaxId = 5
  Parts = {"reg", "pure"}
INVARIANTS TypeOK TableInjective NoReserved MsgRoundTrip ErrRoundTrip SingleStack
PROPERTIES PackersIndependent RefusedRegChangesNothing WrapTransparent OthersUntouched
CONSTRAINT Bound
VIEW View
CHECK_DEADLOCK FALSE
