SPECIFICATION Spec
CONSTANTS
  RefuseReserved = TRUE
  DedupStack = FALSE
  NPk = 1
  NTy = 1
  NSl = 1
  FpIdx = {3}
  MaxLen = 3
  MaxId = 4
  Parts = {"err"}
INVARIANTS TypeOK SingleStack
CONSTRAINT Bound
VIEW View
CHECK_DEADLOCK FALSE
