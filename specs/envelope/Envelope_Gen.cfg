SPECIFICATION GSpec
CONSTANTS
  RefuseReserved = TRUE
  DedupStack = TRUE
  NPk = 2
  NTy = 3
  NSl = 3
  FpIdx = {3, 4, 5, 6}
  MaxLen = 0
  MaxId = 0
  Parts = {}
  Depth = 24
INVARIANTS Emit
CHECK_DEADLOCK FALSE
