-------------------------- MODULE Envelope_Trace --------------------------
(* Validates ndjson traces recorded from the real mpb / errorx code.       *)
(* Events:                                                                 *)
(*   reset  {np, ns, fps}   fresh packers 1..np (in the `global` trace     *)
(*                          packer 1 is the package-level default packer), *)
(*                          ns empty error slots, fingerprint of each type *)
(*   call   {a, r}          one mpb call: action record, reply             *)
(*   ecall  {a, obs}        one errorx call: action record, everything     *)
(*                          observable about the value it returned         *)
(*   stable {ok}            end of trace: every frame handed out earlier   *)
(*                          still holds the bytes it was returned with     *)
(* Anything else (a `crash` appended by vlib) is rejected.                 *)
EXTENDS Envelope, Json, IOUtils

TraceLog == ndJsonDeserialize(IOEnv.VERIF_TRACE)

VARIABLES l
tvars == <<allvars, l>>

TraceInit ==
  /\ l = 1
  /\ InitWith(<<>>, 0, 0)

TReset(e) ==
  /\ fps' = e.fps /\ tab' = [p \in 1..e.np |-> {}] /\ errs' = [s \in 1..e.ns |-> <<>>] /\ nid' = 1
  /\ last' = [op |-> "init"]

TCall(e) ==
  /\ Step(e.a)
  /\ (ReplyOK(e.a, e.r)) = TRUE

TECall(e) ==
  /\ Step(e.a)
  /\ (ObsOK(e.obs, errs'[e.a.d], Same(e.a), errs')) = TRUE

TStable(e) == e.ok = TRUE /\ UNCHANGED allvars

Consume ==
  /\ l <= Len(TraceLog) /\ l' = l + 1
  /\ LET e == TraceLog[l] IN
       CASE e.ev = "reset"  -> TReset(e)
         [] e.ev = "call"   -> TCall(e)
         [] e.ev = "ecall"  -> TECall(e)
         [] e.ev = "stable" -> TStable(e)
         [] OTHER -> FALSE

TraceNext == Consume
TraceSpec == TraceInit /\ [][TraceNext]_tvars

(* high-water mark of l in TLC register 1 (needs -workers 1) *)
ASSUME TLCSet(1, 0)
Mark == TLCSet(1, IF l > TLCGet(1) THEN l ELSE TLCGet(1))
Accepted == PrintT(<<"MARK", TLCGet(1), Len(TraceLog)>>) /\ TLCGet(1) = Len(TraceLog) + 1

TView == <<vars, l>>
=============================================================================
