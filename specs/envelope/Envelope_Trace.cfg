SPECIFICATION TraceSpec
CONSTANTS
  RefuseReserved = TRUE
  DedupStack = TRUE
  NPk = 0
  NTy = 0
  NSl = 0
  FpIdx = {}
  MaxLen = 0
  MaxId = 0
  Parts = {}
INVARIANTS TypeOK TableInjective NoReserved SingleStack
CONSTRAINT Mark
POSTCONDITION Accepted
VIEW TView
CHECK_DEADLOCK FALSE
