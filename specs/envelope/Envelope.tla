------------------------------ MODULE Envelope ------------------------------
(***************************************************************************)
(* X05 - neptune's message envelope: mpb (4-byte little-endian type tag in  *)
(* front of a protobuf payload, reserved tags 0 = error Status and 1 =      *)
(* Empty) and errorx (error values built by New*/Wrap*/WithStack, which     *)
(* are what mpb.MarshalError puts into an envelope).                        *)
(*                                                                         *)
(* One action per public call, driven by an action record `a` (the JSON    *)
(* object the Go harness logs).  Do(a) is the transition, ReplyOK(a, r)    *)
(* says which replies the contract admits in the state before the call     *)
(* (a relation, because the contract leaves some answers open), ObsErr(x)  *)
(* is everything observable about an error value.                          *)
(*                                                                         *)
(* What is NOT modelled: the protobuf wire format.  Wherever the contract  *)
(* speaks about "the payload decodes to ..." the action record carries the *)
(* facts: pd[t] = what protobuf-go makes of the payload as type t,         *)
(* sd = what it makes of it as a google.rpc.Status.  They are produced by  *)
(* the protobuf library itself (trusted), never by neptune.  In the        *)
(* bounded model payloads are abstract (MPD / MSD below).                  *)
(*                                                                         *)
(* Deliberate freedoms (the property leaves them open, so does the spec):  *)
(*  - MarshalMsg of an unregistered type whose fingerprint is registered   *)
(*    for ANOTHER type of the same packer (a collision the README sends    *)
(*    to separate packers): any answer but a panic.                        *)
(*  - MarshalError(nil), and reading an error frame whose Status is OK     *)
(*    through the response API: any answer but a panic.                    *)
(*  - bytes after an Empty tag: Empty or a refusal.                        *)
(*  - UnmarshalEmpty* on a frame that is neither Empty nor an error: some  *)
(*    error, in either position.                                           *)
(*  - %q and exotic verbs: anything that is not a panic; error texts of    *)
(*    refusals; whether a refused Marshal returns bytes.                   *)
(***************************************************************************)
EXTENDS Integers, Sequences, FiniteSets, TLC

CONSTANTS
  RefuseReserved,   \* design: registering fingerprint 0 / 1 is refused (neptune today: FALSE)
  DedupStack        \* design: a chain carries at most one stack (WithStack on a stacked error is the identity)

VARIABLES
  fps,    \* configuration: type index -> fingerprint, 4 base-256 digits, most significant first
  tab,    \* packer -> set of registered type indices
  errs,   \* slot -> error value: <<>> = nil, else sequence of nodes, outermost first
  nid,    \* next object identity
  last    \* action record of the latest step (output only)

vars    == <<fps, tab, errs, nid>>
allvars == <<vars, last>>

STATUS == 100     \* *spb.Status
EMPTY  == 101     \* *emptypb.Empty
NOFP   == 102     \* a proto message without Fingerprint()

(* ------------------------------ framing ------------------------------ *)
LE(d)     == <<d[4], d[3], d[2], d[1]>>          \* wire order of a fingerprint
ErrTag    == <<0, 0, 0, 0>>
EmptyTag  == <<1, 0, 0, 0>>
Reserved(d) == LE(d) \in {ErrTag, EmptyTag}

Lookup(p, tag) == {t \in tab[p] : LE(fps[t]) = tag}

RegOK(a) ==
  /\ a.gk = "good"
  /\ RefuseReserved => ~Reserved(fps[a.ty])
  /\ a.ty \notin tab[a.p]
  /\ \A t \in tab[a.p] : fps[t] # fps[a.ty]

(* what a frame means to packer p: decided by the tag alone, then by the   *)
(* payload's decoding as the type the tag names                            *)
Out(k) == [k |-> k, ty |-> -1, v |-> <<>>, code |-> 0, m |-> <<>>]
Dispatch(a) ==
  IF Len(a.tag) < 4 THEN Out("sys")
  ELSE IF a.tag = ErrTag THEN
         IF a.sd.ok THEN [k |-> "errf", ty |-> STATUS, v |-> a.sd.v, code |-> a.sd.code, m |-> a.sd.m]
         ELSE Out("sys")
  ELSE IF a.tag = EmptyTag THEN (IF a.pl = <<>> THEN Out("empty") ELSE Out("emptyx"))
  ELSE LET ts == Lookup(a.p, a.tag) IN
       IF ts = {} THEN Out("sys")
       ELSE LET t == CHOOSE x \in ts : TRUE IN
            IF a.pd[t].ok THEN [k |-> "msg", ty |-> t, v |-> a.pd[t].v, code |-> 0, m |-> <<>>]
            ELSE Out("sys")

(* the same for the Empty-expecting readers, which know no packer *)
DispatchE(a) ==
  IF Len(a.tag) < 4 THEN Out("sys")
  ELSE IF a.tag = ErrTag THEN
         IF a.sd.ok THEN [k |-> "errf", ty |-> STATUS, v |-> a.sd.v, code |-> a.sd.code, m |-> a.sd.m]
         ELSE Out("sys")
  ELSE IF a.tag = EmptyTag THEN (IF a.pl = <<>> THEN Out("empty") ELSE Out("emptyx"))
  ELSE Out("other")

RMsg(r, ty, v)  == r.k = "msg" /\ r.ty = ty /\ r.v = v
RErr(r, c, m)   == r.k = "err" /\ r.code = c /\ r.m = m
RSys(r)         == r.k = "sys"

UnmOK(a, r) ==
  IF a.api = "msg" THEN                       \* UnmarshalMsg
    LET o == Dispatch(a) IN
    CASE o.k = "sys"    -> RSys(r)
      [] o.k = "errf"   -> RMsg(r, STATUS, o.v)
      [] o.k = "empty"  -> RMsg(r, EMPTY, <<>>)
      [] o.k = "emptyx" -> RMsg(r, EMPTY, <<>>) \/ RSys(r)
      [] o.k = "msg"    -> RMsg(r, o.ty, o.v)
      [] OTHER -> FALSE
  ELSE IF a.api \in {"resp", "rpc"} THEN      \* UnmarshalResponse / UnmarshalRPC
    LET o == Dispatch(a) IN
    CASE o.k = "sys"    -> RSys(r)
      [] o.k = "errf"   -> IF o.code # 0 THEN RErr(r, o.code, o.m) ELSE TRUE
      [] o.k = "empty"  -> RMsg(r, EMPTY, <<>>)
      [] o.k = "emptyx" -> RMsg(r, EMPTY, <<>>) \/ RSys(r)
      [] o.k = "msg"    -> RMsg(r, o.ty, o.v)
      [] OTHER -> FALSE
  ELSE IF a.api \in {"eresp", "erpc"} THEN    \* UnmarshalEmptyResponse / UnmarshalEmptyRPC
    LET o == DispatchE(a) IN
    CASE o.k = "sys"    -> RSys(r)
      [] o.k = "errf"   -> IF o.code # 0 THEN RErr(r, o.code, o.m) ELSE TRUE
      [] o.k = "empty"  -> r.k = "nil"
      [] o.k = "emptyx" -> r.k = "nil" \/ RSys(r)
      [] o.k = "other"  -> r.k \in {"err", "sys"}
      [] OTHER -> FALSE
  ELSE FALSE

(* --------------------------- error values ---------------------------- *)
(* node = [k, id, m, sm, code, site]                                       *)
(*   k = "plain"  errorx.New/Newf           m = message                    *)
(*       "fund"   errorx.New(f)WithStack    m = message, site = creator    *)
(*       "status" grpc status error         m = its Error() text, sm =     *)
(*                                          status message, code           *)
(*       "typed"  a foreign error type      m = its Error() text, code =   *)
(*                                          its payload (for As)           *)
(*       "msg"    Wrap*/…  annotation       m = message                    *)
(*       "stk"    stack annotation          site = creator                 *)
Bases    == {"plain", "fund", "status", "typed"}
Stacked  == {"fund", "stk"}
Node(k, id, m, sm, code, site) == [k |-> k, id |-> id, m |-> m, sm |-> sm, code |-> code, site |-> site]

SEP == <<58, 32>>                                 \* ": "
RECURSIVE ErrorStr(_)
ErrorStr(ch) ==
  IF ch[1].k = "msg" THEN ch[1].m \o SEP \o ErrorStr(Tail(ch))
  ELSE IF ch[1].k = "stk" THEN ErrorStr(Tail(ch))
  ELSE ch[1].m

StackIdx(ch)  == {i \in 1..Len(ch) : ch[i].k \in Stacked}
HasStack(ch)  == StackIdx(ch) # {}
FirstWhere(ch, S) == LET I == {i \in 1..Len(ch) : ch[i].k \in S} IN
                     IF I = {} THEN 0 ELSE CHOOSE i \in I : \A j \in I : i <= j
SiteOf(ch)    == LET i == FirstWhere(ch, Stacked) IN IF i = 0 THEN 0 ELSE ch[i].site
CodeOf(ch)    == LET i == FirstWhere(ch, {"status"}) IN IF i = 0 THEN 2 ELSE ch[i].code    \* 2 = Unknown
StatusMsg(ch) == IF ch[1].k = "status" THEN ch[1].sm ELSE ErrorStr(ch)
AsStatus(ch)  == LET i == FirstWhere(ch, {"status"}) IN IF i = 0 THEN -1 ELSE ch[i].code
AsTyped(ch)   == LET i == FirstWhere(ch, {"typed"}) IN IF i = 0 THEN -1 ELSE ch[i].code

(* errors.Is over the Unwrap chain: object identity, and value equality   *)
(* for grpc status errors (their own Is method)                           *)
IsF(x, y) ==
  IF y = <<>> THEN x = <<>>
  ELSE IF x = <<>> THEN FALSE
  ELSE \E i \in 1..Len(x) :
         \/ x[i].id = y[1].id
         \/ x[i].k = "status" /\ y[1].k = "status" /\ x[i].code = y[1].code /\ x[i].sm = y[1].sm

(* "%+v": every message innermost first, one per line; the stack is        *)
(* printed right behind the text of the value it was attached to           *)
RECURSIVE PlusV(_)
PlusV(ch) ==
  IF ch[1].k = "msg" THEN PlusV(Tail(ch)) \o <<[m |-> ch[1].m, st |-> 0]>>
  ELSE IF ch[1].k = "stk" THEN
         LET q == PlusV(Tail(ch)) IN [q EXCEPT ![Len(q)].st = @ + 1]
  ELSE <<[m |-> ch[1].m, st |-> IF ch[1].k = "fund" THEN 1 ELSE 0]>>

(* everything the harness observes about one error value x; E = all slots  *)
(* (for the Is row), same = whether the call must have returned its        *)
(* argument itself                                                         *)
ObsOK(o, x, same, E) ==
  IF x = <<>> THEN
    /\ o.nil /\ o.str = <<>> /\ o.chain = <<>> /\ o.cause = <<>> /\ o.cb
    /\ ~o.hs /\ o.site = 0 /\ o.pvsite = 0 /\ o.stsite = 0 /\ o.pv = <<>>
    /\ o.is = [j \in 1..Len(E) |-> E[j] = <<>>]
    /\ o.asc = -1 /\ o.asty = -1 /\ o.fs = <<>> /\ o.fv = <<>> /\ ~o.fbad /\ o.same = same
  ELSE
    /\ ~o.nil
    /\ o.str = ErrorStr(x)                                       \* Error()
    /\ o.chain = [i \in 1..Len(x) |-> ErrorStr(SubSeq(x, i, Len(x)))]   \* Unwrap, step by step
    /\ o.cause = x[Len(x)].m /\ o.cb                             \* Cause() is the innermost error itself
    /\ o.hs = HasStack(x)                                        \* GetFullStack non-empty
    /\ o.site = SiteOf(x) /\ o.pvsite = SiteOf(x) /\ o.stsite = SiteOf(x)   \* the stack starts where it was attached
    /\ o.pv = PlusV(x)
    /\ o.is = [j \in 1..Len(E) |-> IsF(x, E[j])]
    /\ o.asc = AsStatus(x) /\ o.asty = AsTyped(x)
    /\ o.fs = ErrorStr(x) /\ o.fv = ErrorStr(x) /\ ~o.fbad
    /\ o.same = same

Created(a) ==
  IF a.kind = "nil" THEN <<>>
  ELSE <<Node(a.kind, nid, a.m, IF a.kind = "status" THEN a.sm ELSE <<>>,
              IF a.kind \in {"status", "typed"} THEN a.code ELSE 0,
              IF a.kind = "fund" THEN a.site ELSE 0)>>

MsgN(id, m)   == Node("msg", id, m, <<>>, 0, 0)
StkN(id, s)   == Node("stk", id, <<>>, <<>>, 0, s)
Wrapped(a) ==
  LET src == errs[a.s]
      keep == DedupStack /\ HasStack(src) IN
  IF src = <<>> THEN [x |-> <<>>, n |-> 0, same |-> TRUE]
  ELSE CASE a.kind = "msg"    -> [x |-> <<MsgN(nid, a.m)>> \o src, n |-> 1, same |-> FALSE]
         [] a.kind = "msgstk" -> IF keep THEN [x |-> <<MsgN(nid, a.m)>> \o src, n |-> 1, same |-> FALSE]
                                 ELSE [x |-> <<StkN(nid + 1, a.site), MsgN(nid, a.m)>> \o src,
                                       n |-> 2, same |-> FALSE]
         [] a.kind = "stk"    -> IF keep THEN [x |-> src, n |-> 0, same |-> TRUE]
                                 ELSE [x |-> <<StkN(nid, a.site)>> \o src, n |-> 1, same |-> FALSE]

Same(a) == IF a.op = "ewrap" THEN Wrapped(a).same ELSE FALSE

Do(a) ==
  CASE a.op = "reg" ->
         /\ tab' = IF RegOK(a) THEN [tab EXCEPT ![a.p] = @ \cup {a.ty}] ELSE tab
         /\ UNCHANGED <<fps, errs, nid>>
    [] a.op \in {"mar", "mempty", "merr", "unm", "tor", "toe", "scrib"} -> UNCHANGED vars
    [] a.op = "enew" ->
         /\ errs' = [errs EXCEPT ![a.d] = Created(a)]
         /\ nid' = nid + 1 /\ UNCHANGED <<fps, tab>>
    [] a.op = "ewrap" ->
         /\ errs' = [errs EXCEPT ![a.d] = Wrapped(a).x]
         /\ nid' = nid + Wrapped(a).n /\ UNCHANGED <<fps, tab>>
    [] OTHER -> FALSE

Step(a) == Do(a) /\ last' = a

(* which replies the contract admits (evaluated in the state before)      *)
ReplyOK(a, r) ==
  CASE a.op = "reg" -> r = IF RegOK(a) THEN "ok" ELSE "panic"
    [] a.op = "mar" ->
         /\ ~r.pan
         /\ IF a.ty = EMPTY THEN r.ok /\ r.tag = EmptyTag /\ r.pl = <<>>
            ELSE IF a.ty = NOFP THEN ~r.ok
            ELSE IF a.ty \in tab[a.p]
                 THEN r.ok /\ r.tag = LE(fps[a.ty]) /\ r.pd[a.ty] = [ok |-> TRUE, v |-> a.v]
            ELSE IF Lookup(a.p, LE(fps[a.ty])) = {} THEN ~r.ok
            ELSE TRUE
    [] a.op = "mempty" -> ~r.pan /\ r.ok /\ r.tag = EmptyTag /\ r.pl = <<>>
    [] a.op = "merr" ->
         /\ ~r.pan
         /\ IF errs[a.s] = <<>> THEN TRUE
            ELSE /\ r.ok /\ r.tag = ErrTag /\ r.sd.ok
                 /\ r.sd.code = CodeOf(errs[a.s]) /\ r.sd.m = StatusMsg(errs[a.s])
    [] a.op = "unm" -> ~r.pan /\ UnmOK(a, r)
    [] a.op = "tor" -> r = IF a.hs THEN "sys" ELSE IF a.he THEN "err" ELSE IF a.hm THEN "msg" ELSE "nil"
    [] a.op = "toe" -> r = IF a.hs THEN "sys" ELSE IF a.he THEN "err" ELSE "nil"
    [] a.op = "scrib" -> TRUE
    [] OTHER -> FALSE

InitWith(f, np, ns) ==
  /\ fps = f /\ tab = [p \in 1..np |-> {}] /\ errs = [s \in 1..ns |-> <<>>] /\ nid = 1
  /\ last = [op |-> "init", np |-> np, ns |-> ns, fps |-> f]

---------------------------------------------------------------------------
(* Bounded instance.  Payloads are abstract: <<>> (the zero message of     *)
(* every type), <<10 + t, x>> (content x of type t), <<50, c>> (a Status   *)
(* with code c), <<99>> (not protobuf at all).                             *)
CONSTANTS NPk, NTy, NSl, FpIdx, MaxLen, MaxId, Parts     \* Parts \subseteq {"err", "reg", "pure"}

FpTable == << <<0, 0, 0, 0>>, <<0, 0, 0, 1>>, <<0, 0, 0, 2>>, <<0, 0, 1, 0>>, <<2, 0, 0, 0>>, <<255, 255, 255, 255>> >>
Packers == 1..NPk
Types   == 1..NTy
Slots   == 1..NSl
MVals   == {<<>>, <<1>>, <<2>>}
MEnc(t, v) == IF v = <<>> THEN <<>> ELSE <<10 + t, v[1]>>
MPls    == {<<>>, <<99>>, <<50, 0>>, <<50, 5>>} \cup {MEnc(t, v) : t \in Types, v \in MVals}
MPD(pl) == [t \in Types |-> IF pl = <<>> THEN [ok |-> TRUE, v |-> <<>>]
                            ELSE IF pl[1] = 10 + t THEN [ok |-> TRUE, v |-> <<pl[2]>>]
                            ELSE [ok |-> FALSE, v |-> <<>>]]
MSD(pl) == IF pl = <<>> THEN [ok |-> TRUE, code |-> 0, m |-> <<>>, v |-> <<>>]
           ELSE IF pl[1] = 50 THEN [ok |-> TRUE, code |-> pl[2], m |-> <<109>>, v |-> pl]
           ELSE [ok |-> FALSE, code |-> 0, m |-> <<>>, v |-> <<>>]
MTags   == {LE(FpTable[i]) : i \in FpIdx} \cup {ErrTag, EmptyTag, <<7, 7, 7, 7>>, <<>>, <<1, 0>>}
MMsgs   == {<<97>>, <<98, 99>>}
Sites   == {1, 2}
Apis    == {"msg", "resp", "rpc", "eresp", "erpc"}
UnmAct(p, api, tag, pl) ==
  [op |-> "unm", p |-> p, api |-> api, tag |-> tag, pl |-> IF Len(tag) < 4 THEN <<>> ELSE pl,
   pd |-> MPD(IF Len(tag) < 4 THEN <<>> ELSE pl), sd |-> MSD(IF Len(tag) < 4 THEN <<>> ELSE pl)]

ErrActs ==
       [op : {"enew"}, d : Slots, kind : {"nil"}, m : {<<>>}, sm : {<<>>}, code : {0}, site : {0}]
  \cup [op : {"enew"}, d : Slots, kind : {"plain"}, m : MMsgs, sm : {<<>>}, code : {0}, site : {0}]
  \cup [op : {"enew"}, d : Slots, kind : {"typed"}, m : {<<116>>}, sm : {<<>>}, code : {7}, site : {0}]
  \cup [op : {"enew"}, d : Slots, kind : {"fund"}, m : MMsgs, sm : {<<>>}, code : {0}, site : Sites]
  \cup [op : {"enew"}, d : Slots, kind : {"status"}, m : {<<35, 97>>}, sm : {<<97>>}, code : {5, 13}, site : {0}]
  \cup [op : {"ewrap"}, s : Slots, d : Slots, kind : {"msg"}, m : MMsgs, site : {0}]
  \cup [op : {"ewrap"}, s : Slots, d : Slots, kind : {"msgstk"}, m : MMsgs, site : Sites]
  \cup [op : {"ewrap"}, s : Slots, d : Slots, kind : {"stk"}, m : {<<>>}, site : Sites]
RegActs ==
       [op : {"reg"}, p : Packers, ty : Types, gk : {"good"}]
  \cup [op : {"reg"}, p : Packers, ty : {1}, gk : {"nil", "nilptr", "nofp"}]
PureActs ==
       [op : {"mar"}, p : Packers, ty : Types \cup {EMPTY, NOFP}, v : MVals]
  \cup [op : {"mempty"}] \cup [op : {"merr"}, s : Slots]
  \cup {UnmAct(p, api, tag, pl) : p \in Packers, api \in Apis, tag \in MTags, pl \in MPls}
  \cup [op : {"tor"}, hm : BOOLEAN, he : BOOLEAN, hs : BOOLEAN]
  \cup [op : {"toe"}, he : BOOLEAN, hs : BOOLEAN]
Acts == (IF "err" \in Parts THEN ErrActs ELSE {}) \cup (IF "reg" \in Parts THEN RegActs ELSE {})
        \cup (IF "pure" \in Parts THEN PureActs ELSE {})

Init == \E f \in [Types -> FpIdx] : InitWith([t \in Types |-> FpTable[f[t]]], NPk, NSl)
Next == \E a \in Acts : Step(a)
Spec == Init /\ [][Next]_allvars
Bound == nid <= MaxId /\ \A s \in Slots : Len(errs[s]) <= MaxLen

(* ----------------------------- properties ----------------------------- *)
WellFormed(ch) ==
  /\ ch[Len(ch)].k \in Bases
  /\ \A i \in 1..(Len(ch) - 1) : ch[i].k \in {"msg", "stk"}
  /\ \A i, j \in 1..Len(ch) : i # j => ch[i].id # ch[j].id
TypeOK ==
  /\ nid \in Nat
  /\ \A p \in DOMAIN tab : tab[p] \subseteq DOMAIN fps
  /\ \A s \in DOMAIN errs : errs[s] = <<>> \/ (WellFormed(errs[s]) /\ \A i \in 1..Len(errs[s]) : errs[s][i].id < nid)

(* one tag names one type and one type has one tag, per packer; the two    *)
(* reserved tags name no registered type                                   *)
TableInjective == \A p \in DOMAIN tab : \A t1, t2 \in tab[p] : t1 # t2 => fps[t1] # fps[t2]
NoReserved     == \A p \in DOMAIN tab : \A t \in tab[p] : ~Reserved(fps[t])

(* THE round trip: the frame the Marshal contract prescribes for a        *)
(* registered type reads back, by the Unmarshal contract, as that type    *)
(* with that content - through every reading API                          *)
MsgReply(t, v) == [pan |-> FALSE, k |-> "msg", ty |-> t, v |-> v, code |-> 0, m |-> <<>>]
MsgRoundTrip ==
  \A p \in DOMAIN tab : \A t \in tab[p] : \A v \in MVals : \A api \in {"msg", "resp", "rpc"} :
    LET a == UnmAct(p, api, LE(fps[t]), MEnc(t, v)) IN
      /\ UnmOK(a, MsgReply(t, v))
      /\ \A t2 \in (DOMAIN fps \cup {STATUS, EMPTY}) \ {t} : ~UnmOK(a, MsgReply(t2, v))
      /\ ~UnmOK(a, [pan |-> FALSE, k |-> "sys", ty |-> -1, v |-> <<>>, code |-> 0, m |-> <<>>])

(* an enveloped error reads back as an error with the code of the first   *)
(* status error in its chain, however it was wrapped and whatever is      *)
(* registered                                                             *)
ErrRoundTrip ==
  \A s \in DOMAIN errs : errs[s] # <<>> =>
    \A p \in DOMAIN tab : \A api \in {"resp", "rpc", "eresp", "erpc"} :
      LET x  == errs[s]
          sd == [ok |-> TRUE, code |-> CodeOf(x), m |-> StatusMsg(x), v |-> <<50>>]
          a  == [op |-> "unm", p |-> p, api |-> api, tag |-> ErrTag, pl |-> <<50>>,
                 pd |-> MPD(<<50>>), sd |-> sd] IN
        /\ CodeOf(x) # 0
        /\ UnmOK(a, [pan |-> FALSE, k |-> "err", ty |-> -1, v |-> <<>>, code |-> CodeOf(x), m |-> StatusMsg(x)])
        /\ ~UnmOK(a, MsgReply(EMPTY, <<>>))

SingleStack == \A s \in DOMAIN errs : Cardinality(StackIdx(errs[s])) <= 1

(* action properties, on the latest action record *)
PackersIndependent ==
  [][LET a == last' IN a.op = "reg" => \A q \in DOMAIN tab : q # a.p => tab'[q] = tab[q]]_allvars
RefusedRegChangesNothing ==
  [][LET a == last' IN (a.op = "reg" /\ ~RegOK(a)) => tab' = tab]_allvars
(* wrappers are transparent: nil stays nil; Is / As / Cause / code of the  *)
(* wrapped error are those of the error; its text is a suffix; a stack     *)
(* once attached stays, and *WithStack always leaves one                   *)
IsSuffix(u, w) == Len(u) <= Len(w) /\ SubSeq(w, Len(w) - Len(u) + 1, Len(w)) = u
WrapTransparent ==
  [][LET a == last' IN a.op = "ewrap" =>
       LET x == errs[a.s]
           y == errs'[a.d] IN
       IF x = <<>> THEN y = <<>>
       ELSE /\ y # <<>>
            /\ \A j \in DOMAIN errs : IsF(y, errs[j]) = IsF(x, errs[j])
            /\ IsF(y, x)
            /\ CodeOf(y) = CodeOf(x) /\ AsStatus(y) = AsStatus(x) /\ AsTyped(y) = AsTyped(x)
            /\ y[Len(y)] = x[Len(x)]
            /\ IsSuffix(ErrorStr(x), ErrorStr(y))
            /\ HasStack(x) => (HasStack(y) /\ SiteOf(y) = SiteOf(x))
            /\ a.kind \in {"msgstk", "stk"} => HasStack(y)
            /\ a.kind = "stk" => ErrorStr(y) = ErrorStr(x)
  ]_allvars
OthersUntouched ==
  [][LET a == last' IN a.op \in {"enew", "ewrap"} =>
       \A j \in DOMAIN errs : j # a.d => errs'[j] = errs[j]]_allvars

View == vars
=============================================================================
