SPECIFICATION Spec
CONSTANTS
  RefuseReserved = TRUE
  DedupStack = TRUE
  NPk = 1
  NTy = 2
  NSl = 1
  FpIdx = {1, 3, 4}
  MaxLen = 2
  MaxId = 3
  Parts = {"err", "reg", "pure"}
INVARIANTS TypeOK TableInjective NoReserved MsgRoundTrip ErrRoundTrip SingleStack
PROPERTIES PackersIndependent RefusedRegChangesNothing WrapTransparent OthersUntouched
CONSTRAINT Bound
VIEW View
CHECK_DEADLOCK FALSE
