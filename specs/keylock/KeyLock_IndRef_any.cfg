SPECIFICATION Spec
CONSTANTS
  Procs = {1, 2, 3}
  Keys = {1, 2}
  NShards = 2
  Policy = "Any"
  FreeIgnoresWriters = FALSE
  Budget = 1
  Lists <- SmallLists
INVARIANTS IndInvRef
PROPERTIES StepRef InitRef
VIEW View
CHECK_DEADLOCK TRUE
