--------------------------- MODULE KeyLock_IndRef ---------------------------
(***************************************************************************)
(* Refinement mapping KeyLock.tla -> KeyLock_Ind.tla, checked by TLC on    *)
(* the constants of KeyLock_MC_small.cfg (and _MC.cfg, _MC_any.cfg in the  *)
(* thorough tier):                                                         *)
(*   InitRef    every initial state of KeyLock is one of KeyLock_Ind;      *)
(*   StepRef    every step of KeyLock!Next is the step of the same action  *)
(*              of KeyLock_Ind!Next;                                       *)
(*   IndInvRef  IndInv holds in every reachable state of KeyLock!Spec.     *)
(***************************************************************************)
EXTENDS KeyLock_MC

PosIn(s, k) == IF \E i \in 1..Len(s) : s[i] = k THEN CHOOSE i \in 1..Len(s) : s[i] = k ELSE 0

I == INSTANCE KeyLock_Ind WITH Ents <- Ents,
       shard <- [k \in Keys |-> Shard(k)],
       cm <- [p \in Procs |-> call[p].m],
       kp <- [x \in Procs \X Keys |-> PosIn(call[x[1]].ks, x[2])],
       me <- [x \in Procs \X Keys |->
                LET i == PosIn(call[x[1]].ks, x[2]) IN IF i # 0 /\ i <= Len(mine[x[1]]) THEN mine[x[1]][i] ELSE 0]

PF == [Keys -> 0..Cardinality(Keys)]
IndInvRef == I!IndInv
InitRef   == I!Init
StepRef   == [][LET a == last' IN
                  CASE a.op = "call"     -> I!Call(a.p, PF)
                    [] a.op = "reg"      -> I!Register(a.p)
                    [] a.op = "announce" -> I!Announce(a.p)
                    [] a.op = "acquire"  -> I!Acquire(a.p)
                    [] a.op = "unlock"   -> I!StartUnlock(a.p)
                    [] a.op = "unl"      -> I!Unlock(a.p)
                    [] OTHER -> FALSE]_vars
=============================================================================
