SPECIFICATION Spec
CONSTANTS
  Procs = {1, 2}
  Keys = {1, 2}
  NShards = 1
  Policy = "GoRW"
  FreeIgnoresWriters = FALSE
  Budget = 1
  Lists <- RotatedLists
INVARIANTS TypeOK Exclusion Reclaim Counts NoCrash StaleFree Independent
VIEW View
CHECK_DEADLOCK TRUE
