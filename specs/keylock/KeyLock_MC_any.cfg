SPECIFICATION Spec
CONSTANTS
  Procs = {1, 2, 3}
  Keys = {1, 2, 3}
  NShards = 2
  Policy = "Any"
  FreeIgnoresWriters = FALSE
  Budget = 1
  Lists <- OrderedLists
INVARIANTS TypeOK Exclusion Reclaim Counts NoCrash StaleFree Independent
VIEW View
CHECK_DEADLOCK TRUE
