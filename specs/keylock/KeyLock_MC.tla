---------------------------- MODULE KeyLock_MC ----------------------------
EXTENDS KeyLock
(* all duplicate-free sub-lists of 1..3 that respect the global order 1<2<3 *)
OrderedLists == {<<1>>, <<2>>, <<3>>, <<1, 2>>, <<1, 3>>, <<2, 3>>, <<1, 2, 3>>}
(* lists that break the global order: the README's warning *)
RotatedLists == {<<1, 2>>, <<2, 1>>}
SmallLists == {<<1>>, <<2>>, <<1, 2>>}
=============================================================================
