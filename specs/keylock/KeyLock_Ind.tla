---------------------------- MODULE KeyLock_Ind ----------------------------
(***************************************************************************)
(* Inductive invariant of the design in KeyLock.tla, typed for Apalache,   *)
(* for ANY number of calls per process (KeyLock_MC*.cfg: Budget = 1).      *)
(*                                                                         *)
(* KeyLock.tla is not typable (recursive SortByShard / RegFold / UnlFold / *)
(* GroupEnd, heterogeneous `last`, CASE over action records) and keeps a   *)
(* call's key list and remembered entries as sequences.  The transition    *)
(* relation is RESTATED here on a sequence-free representation:            *)
(*    ent, rc, wc, rdrs, wmu, wact, pc, idx, left, crashed  as in KeyLock  *)
(*    cm[p]        call[p].m                                               *)
(*    kp[<<p,k>>]  index of key k in call[p].ks, 0 = not in the call       *)
(*                 (duplicate-free lists, as all Lists of the MC configs)  *)
(*    me[<<p,k>>]  mine[p][i] for the i with call[p].ks[i] = k, else 0     *)
(*                 (functions over pairs: with nested functions p -> k ->  *)
(*                 the solver did not get through a single action)         *)
(*    shard[k]     Shard(k) = k % NShards, as a constant function          *)
(* with the same six actions: Call, Register, Announce, Acquire,           *)
(* StartUnlock, Unlock (+ the AllDone stutter).  Left out: `last`, Budget  *)
(* (left[p] starts anywhere in Nat), ENABLED-based Independent.            *)
(* Generalised: Call takes ANY duplicate-free shard-sorted list (KeyLock:  *)
(* Order(c.ks), c.ks \in Lists); Register gives new keys ANY pairwise      *)
(* distinct unused entry ids (KeyLock: the smallest unused ones), so every *)
(* step of KeyLock is a step here but not vice versa (entry ids are        *)
(* interchangeable).  The folds RegFold / UnlFold over a shard group are   *)
(* replaced by their closed forms, which coincide with the folds when      *)
(* distinct keys have distinct entries (EntInj, part of the invariant).    *)
(* KeyLock_IndRef.tla is the refinement mapping, checked by TLC.           *)
(***************************************************************************)
EXTENDS Integers, FiniteSets, Apalache

CONSTANTS
  \* @type: Set(Int);
  Procs,
  \* @type: Set(Int);
  Keys,
  \* @type: Set(Int);
  Ents,
  \* @type: Int -> Int;
  shard,
  \* @type: Str;
  Policy,
  \* @type: Bool;
  FreeIgnoresWriters

VARIABLES
  \* @type: Int -> Int;
  ent,
  \* @type: Int -> Int;
  rc,
  \* @type: Int -> Int;
  wc,
  \* @type: Int -> Set(Int);
  rdrs,
  \* @type: Int -> Int;
  wmu,
  \* @type: Int -> Bool;
  wact,
  \* @type: Int -> Str;
  pc,
  \* @type: Int -> Str;
  cm,
  \* @type: <<Int, Int>> -> Int;
  kp,
  \* @type: Int -> Int;
  idx,
  \* @type: <<Int, Int>> -> Int;
  me,
  \* @type: Int -> Int;
  left,
  \* @type: Bool;
  crashed

vars == <<ent, rc, wc, rdrs, wmu, wact, pc, cm, kp, idx, me, left, crashed>>

CInit    == /\ Procs = 1..3 /\ Keys = 1..2 /\ Ents = 1..6 /\ shard = [k \in 1..2 |-> k % 2]
            /\ Policy = "GoRW" /\ FreeIgnoresWriters = FALSE
CInit2   == /\ Procs = 1..2 /\ Keys = 1..2 /\ Ents = 1..4 /\ shard = [k \in 1..2 |-> k % 2]
            /\ Policy = "GoRW" /\ FreeIgnoresWriters = FALSE
CInitAny == /\ Procs = 1..3 /\ Keys = 1..2 /\ Ents = 1..6 /\ shard = [k \in 1..2 |-> k % 2]
            /\ Policy = "Any" /\ FreeIgnoresWriters = FALSE
(* the witness needs no third process: 2 procs keep it to a few minutes *)
CInitDev == /\ Procs = 1..2 /\ Keys = 1..2 /\ Ents = 1..4 /\ shard = [k \in 1..2 |-> k % 2]
            /\ Policy = "GoRW" /\ FreeIgnoresWriters = TRUE

\* @type: Set(Int) => Int;
Count(T) == LET \* @type: (Int, Int) => Int;
                Inc(acc, x) == acc + 1
            IN ApaFoldSet(Inc, 0, T)

ZeroK == [k \in Keys |-> 0]
K(p, k) == kp[<<p, k>>]          \* K(p, k)
E(p, k) == me[<<p, k>>]          \* E(p, k)
\* @type: (<<Int, Int>> -> Int, Int, Int -> Int) => (<<Int, Int>> -> Int);
SetRow(f2, p, g) == [x \in Procs \X Keys |-> IF x[1] = p THEN g[x[2]] ELSE f2[x]]
InCall(p, k) == K(p, k) # 0
(* a duplicate-free, non-empty, shard-sorted key list as a position function *)
\* @type: (Int -> Int) => Bool;
ValidList(f) ==
  /\ \E k \in Keys : f[k] = 1
  /\ \A k \in Keys : f[k] > 1 => \E j \in Keys : f[j] = f[k] - 1
  /\ \A j, k \in Keys : (f[j] # 0 /\ f[j] = f[k]) => j = k
  /\ \A j, k \in Keys : (f[j] # 0 /\ f[j] < f[k]) => shard[j] <= shard[k]

(* the shard group that starts at idx[p]: keys idx[p]..GroupEnd *)
Group(p) == {k \in Keys : K(p, k) >= idx[p] /\ \E k0 \in Keys : K(p, k0) = idx[p] /\ shard[k] = shard[k0]}
LastGroup(p) == \A k \in Keys : K(p, k) >= idx[p] => k \in Group(p)

(* k is the first key behind the group G that starts at idx[p] (its index is GroupEnd + 1) *)
\* @type: (Int, Set(Int), Int) => Bool;
AfterGroup(p, G, k) ==
  /\ K(p, k) > idx[p] /\ k \notin G
  /\ \A k2 \in Keys : (K(p, k2) >= idx[p] /\ K(p, k2) < K(p, k)) => k2 \in G

InUse == ({ent[k] : k \in Keys} \cup {me[x] : x \in Procs \X Keys}) \ {0}

\* @type: (Int, Set(Int -> Int)) => Bool;
Call(p, PF) ==
  /\ pc[p] = "idle" /\ left[p] > 0
  /\ \E f \in PF : \E m \in {"r", "w"} :
       /\ ValidList(f)
       /\ kp' = SetRow(kp, p, f) /\ cm' = [cm EXCEPT ![p] = m]
  /\ pc' = [pc EXCEPT ![p] = "reg"] /\ idx' = [idx EXCEPT ![p] = 1]
  /\ me' = SetRow(me, p, ZeroK)
  /\ left' = [left EXCEPT ![p] = @ - 1]
  /\ UNCHANGED <<ent, rc, wc, rdrs, wmu, wact, crashed>>

Register(p) ==
  /\ pc[p] = "reg"
  /\ LET G == Group(p) IN
     \E fe \in [Keys -> Ents] :
       /\ \A k \in G : IF ent[k] # 0 THEN fe[k] = ent[k] ELSE fe[k] \notin InUse
       /\ \A j, k \in G : (ent[j] = 0 /\ ent[k] = 0 /\ fe[j] = fe[k]) => j = k
       /\ ent' = [k \in Keys |-> IF k \in G THEN fe[k] ELSE ent[k]]
       /\ rc' = [e \in Ents |-> IF \E k \in G : fe[k] = e
                                THEN (IF \E k \in G : fe[k] = e /\ ent[k] = 0 THEN 0 ELSE rc[e])
                                     + (IF cm[p] = "r" THEN 1 ELSE 0)
                                ELSE rc[e]]
       /\ wc' = [e \in Ents |-> IF \E k \in G : fe[k] = e
                                THEN (IF \E k \in G : fe[k] = e /\ ent[k] = 0 THEN 0 ELSE wc[e])
                                     + (IF cm[p] = "w" THEN 1 ELSE 0)
                                ELSE wc[e]]
       /\ me' = SetRow(me, p, [k \in Keys |-> IF k \in G THEN fe[k] ELSE E(p, k)])
       /\ IF LastGroup(p)
          THEN pc' = [pc EXCEPT ![p] = "lock"] /\ idx' = [idx EXCEPT ![p] = 1]
          ELSE pc' = pc /\ \E k \in Keys : AfterGroup(p, G, k) /\ idx' = [idx EXCEPT ![p] = K(p, k)]
  /\ UNCHANGED <<rdrs, wmu, wact, cm, kp, left, crashed>>

Advance(p) ==
  IF \A k \in Keys : K(p, k) <= idx[p]          \* idx[p] = Len(call[p].ks)
  THEN pc' = [pc EXCEPT ![p] = "held"] /\ idx' = [idx EXCEPT ![p] = 1]
  ELSE pc' = pc /\ idx' = [idx EXCEPT ![p] = @ + 1]

Announce(p) ==
  /\ Policy = "GoRW" /\ pc[p] = "lock" /\ cm[p] = "w"
  /\ \E k \in Keys :
       /\ K(p, k) = idx[p]
       /\ wmu[E(p, k)] = 0
       /\ wmu' = [wmu EXCEPT ![E(p, k)] = p]
  /\ UNCHANGED <<ent, rc, wc, rdrs, wact, pc, cm, kp, idx, me, left, crashed>>

Acquire(p) ==
  /\ pc[p] = "lock"
  /\ \E k \in Keys :
       /\ K(p, k) = idx[p]
       /\ LET e == E(p, k) IN
            IF cm[p] = "r"
            THEN /\ ~(wmu[e] # 0 /\ wact[e])
                 /\ (Policy = "Any" \/ wmu[e] = 0)
                 /\ rdrs' = [rdrs EXCEPT ![e] = @ \cup {p}]
                 /\ UNCHANGED <<wmu, wact>>
            ELSE /\ rdrs[e] = {}
                 /\ IF Policy = "GoRW" THEN wmu[e] = p /\ ~wact[e] ELSE wmu[e] = 0
                 /\ wmu' = [wmu EXCEPT ![e] = p] /\ wact' = [wact EXCEPT ![e] = TRUE]
                 /\ UNCHANGED rdrs
  /\ Advance(p)
  /\ UNCHANGED <<ent, rc, wc, cm, kp, me, left, crashed>>

StartUnlock(p) ==
  /\ pc[p] = "held"
  /\ pc' = [pc EXCEPT ![p] = "unl"] /\ idx' = [idx EXCEPT ![p] = 1]
  /\ UNCHANGED <<ent, rc, wc, rdrs, wmu, wact, cm, kp, me, left, crashed>>

Unlock(p) ==
  /\ pc[p] = "unl"
  /\ LET G == Group(p)
         r == cm[p] = "r"
         w == cm[p] = "w"
         \* @type: Int => Bool;
         Bad(k) == \/ ent[k] = 0
                   \/ (r /\ p \notin rdrs[ent[k]])
                   \/ (w /\ ~(wmu[ent[k]] = p /\ wact[ent[k]]))
         bad == \E k \in G : Bad(k)
         \* the keys handled before the first bad one
         Done == {k \in G : \A k2 \in G : K(p, k2) <= K(p, k) => ~Bad(k2)}
         \* @type: Int => Bool;
         Hit(e) == \E k \in Done : ent[k] = e
         \* @type: Int => Bool;
         Free(k) == /\ rc[ent[k]] - (IF r THEN 1 ELSE 0) = 0
                    /\ (wc[ent[k]] - (IF w THEN 1 ELSE 0) = 0 \/ FreeIgnoresWriters)
     IN /\ ent' = [k \in Keys |-> IF k \in Done /\ Free(k) THEN 0 ELSE ent[k]]
        /\ rc' = [e \in Ents |-> IF Hit(e) /\ r THEN rc[e] - 1 ELSE rc[e]]
        /\ wc' = [e \in Ents |-> IF Hit(e) /\ w THEN wc[e] - 1 ELSE wc[e]]
        /\ rdrs' = [e \in Ents |-> IF Hit(e) /\ r THEN rdrs[e] \ {p} ELSE rdrs[e]]
        /\ wmu' = [e \in Ents |-> IF Hit(e) /\ w THEN 0 ELSE wmu[e]]
        /\ wact' = [e \in Ents |-> IF Hit(e) /\ w THEN FALSE ELSE wact[e]]
        /\ crashed' = (crashed \/ bad)
        /\ IF LastGroup(p) \/ bad
           THEN /\ pc' = [pc EXCEPT ![p] = "idle"] /\ idx' = [idx EXCEPT ![p] = 1]
                /\ cm' = [cm EXCEPT ![p] = "r"] /\ kp' = SetRow(kp, p, ZeroK)
                /\ me' = SetRow(me, p, ZeroK)
           ELSE /\ pc' = pc /\ UNCHANGED <<cm, kp, me>>
                /\ \E k \in Keys : AfterGroup(p, G, k) /\ idx' = [idx EXCEPT ![p] = K(p, k)]
  /\ UNCHANGED left

Init ==
  /\ ent = [k \in Keys |-> 0]
  /\ rc = [e \in Ents |-> 0] /\ wc = [e \in Ents |-> 0]
  /\ rdrs = [e \in Ents |-> {}] /\ wmu = [e \in Ents |-> 0] /\ wact = [e \in Ents |-> FALSE]
  /\ pc = [p \in Procs |-> "idle"] /\ cm = [p \in Procs |-> "r"]
  /\ kp = [x \in Procs \X Keys |-> 0] /\ idx = [p \in Procs |-> 1] /\ me = [x \in Procs \X Keys |-> 0]
  /\ left \in [Procs -> Nat] /\ crashed = FALSE

AllDone == \A p \in Procs : pc[p] = "idle" /\ left[p] = 0
(* PF: [Keys -> Nat] for Apalache; TLC (KeyLock_IndRef) uses [Keys -> 0..|Keys|] *)
\* @type: Set(Int -> Int) => Bool;
NextC(PF) ==
  \/ \E p \in Procs : Call(p, PF) \/ Register(p) \/ Announce(p) \/ Acquire(p) \/ StartUnlock(p) \/ Unlock(p)
  \/ (AllDone /\ UNCHANGED vars)
Next == NextC([Keys -> Nat])

(* one action at a time (development / timing) *)
NCall == \E p \in Procs : Call(p, [Keys -> Nat])
NRegister == \E p \in Procs : Register(p)
NAnnounce == \E p \in Procs : Announce(p)
NAcquire == \E p \in Procs : Acquire(p)
NStartUnlock == \E p \in Procs : StartUnlock(p)
NUnlock == \E p \in Procs : Unlock(p)

-----------------------------------------------------------------------------
(* p passed the blocking point of k and has not unlocked it / p is counted on k's entry *)
Holds(p, k) ==
  /\ InCall(p, k)
  /\ \/ pc[p] = "lock" /\ K(p, k) < idx[p]
     \/ pc[p] = "held"
     \/ pc[p] = "unl" /\ K(p, k) >= idx[p]
Registered(p, k) ==
  /\ InCall(p, k)
  /\ \/ pc[p] = "reg" /\ K(p, k) < idx[p]
     \/ pc[p] \in {"lock", "held"}
     \/ pc[p] = "unl" /\ K(p, k) >= idx[p]

TypeOK ==
  /\ ent \in [Keys -> Ents \cup {0}]
  /\ rc \in [Ents -> Nat] /\ wc \in [Ents -> Nat]
  /\ rdrs \in [Ents -> SUBSET Procs]
  /\ wmu \in [Ents -> Procs \cup {0}]
  /\ wact \in [Ents -> BOOLEAN]
  /\ pc \in [Procs -> {"idle", "reg", "lock", "held", "unl"}]
  /\ cm \in [Procs -> {"r", "w"}]
  /\ kp \in [Procs \X Keys -> Nat]
  /\ idx \in [Procs -> Nat]
  /\ me \in [Procs \X Keys -> Ents \cup {0}]
  /\ left \in [Procs -> Nat]
  /\ crashed \in BOOLEAN

(* the invariants of KeyLock.tla (same names) ... *)
Exclusion == \A k \in Keys : \A p, q \in Procs :
               (Holds(p, k) /\ Holds(q, k) /\ p # q) => (cm[p] = "r" /\ cm[q] = "r")
Reclaim == \A k \in Keys : (ent[k] # 0) <=> (\E p \in Procs : Registered(p, k))
Counts  == \A k \in Keys : ent[k] # 0 =>
             /\ rc[ent[k]] = Count({p \in Procs : Registered(p, k) /\ cm[p] = "r"})
             /\ wc[ent[k]] = Count({p \in Procs : Registered(p, k) /\ cm[p] = "w"})
NoCrash == ~crashed
StaleFree == \A p \in Procs : \A k \in Keys :
  (E(p, k) # 0 /\ (pc[p] = "unl" => K(p, k) >= idx[p])) => ent[k] = E(p, k)

(* ... and what has to be added to make their conjunction inductive *)
CallShape == \A p \in Procs :
  IF pc[p] = "idle"
  THEN idx[p] = 1 /\ \A k \in Keys : K(p, k) = 0 /\ E(p, k) = 0
  ELSE /\ ValidList([k \in Keys |-> K(p, k)]) /\ 1 <= idx[p] /\ \E k \in Keys : K(p, k) = idx[p]
       \* the caller remembers an entry for exactly the keys it has registered so far
       /\ \A k \in Keys : (E(p, k) # 0) <=> (InCall(p, k) /\ (pc[p] = "reg" => K(p, k) < idx[p]))
       \* registration and unlocking stand at the first key of a shard group
       /\ pc[p] \in {"reg", "unl"} =>
            \A j, k \in Keys : (InCall(p, j) /\ K(p, j) < idx[p] /\ idx[p] <= K(p, k)) => shard[j] # shard[k]
EntInj == \A j, k \in Keys : (ent[j] # 0 /\ ent[j] = ent[k]) => j = k
(* the reader set and the writer mutex of an entry say who holds its key *)
RdrsOK == \A e \in Ents : \A p \in Procs :
  (p \in rdrs[e]) <=> (cm[p] = "r" /\ \E k \in Keys : ent[k] = e /\ Holds(p, k))
WmuOK ==
  /\ \A e \in Ents : wact[e] => wmu[e] # 0
  /\ \A e \in Ents : wmu[e] # 0 =>
       LET p == wmu[e] IN
         /\ cm[p] = "w"
         /\ \E k \in Keys : /\ ent[k] = e /\ InCall(p, k)
                            /\ IF wact[e] THEN Holds(p, k)
                               ELSE Policy = "GoRW" /\ pc[p] = "lock" /\ K(p, k) = idx[p]
  /\ \A p \in Procs : \A k \in Keys :
       (cm[p] = "w" /\ Holds(p, k)) => (wmu[ent[k]] = p /\ wact[ent[k]])

IndInv ==
  /\ TypeOK /\ CallShape /\ EntInj /\ StaleFree /\ RdrsOK /\ WmuOK
  /\ Reclaim /\ Counts /\ NoCrash /\ Exclusion
IndInit == IndInv
=============================================================================
