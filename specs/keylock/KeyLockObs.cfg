SPECIFICATION TraceSpec
CONSTANTS
  NProcs = 5
  Keys = {1, 2, 3, 4}
CONSTRAINT Mark
POSTCONDITION Accepted
CHECK_DEADLOCK FALSE
