SPECIFICATION TraceSpec
CONSTANTS
  NProcs = 5
  MaxKey = 40
CONSTRAINT Mark
POSTCONDITION Accepted
CHECK_DEADLOCK FALSE
