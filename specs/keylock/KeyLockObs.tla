---------------------------- MODULE KeyLockObs ----------------------------
(***************************************************************************)
(* Contract-level trace specification for the key lockers (C02).           *)
(* A trace is a sequence of external steps (a caller enters a lock call,   *)
(* a holder unlocks), each followed by global quiescence and the observed  *)
(* status of every worker: "idle", "held" (its call returned: it holds ALL *)
(* listed keys) or "parked" (blocked inside its call).                     *)
(*                                                                         *)
(* The contract is policy free: it does not say which waiter is admitted   *)
(* first.  An observation is acceptable iff there is an assignment `got`   *)
(* (for every parked multi-key caller, the subset of its keys it already   *)
(* holds - a subset, not a prefix: the internal order is not part of the   *)
(* property) such that                                                     *)
(*   Compat  per key, holders are one writer or only readers               *)
(*   Mono    a parked caller never gives back what it already holds        *)
(*   Just    every parked caller is justifiably blocked on one of its      *)
(*           remaining keys: a writer needs another holder of that key; a  *)
(*           reader needs a writer holding it, or a writer waiting on it   *)
(*           while it is held (writer preference).  Anything else is a     *)
(*           lost wake-up, cross-key interference or a deadlock.           *)
(* TLC searches for the assignment (got is a nondeterministic variable).   *)
(***************************************************************************)
EXTENDS Integers, Sequences, FiniteSets, TLC, Json, IOUtils

CONSTANTS NProcs, MaxKey
Keys == 1..MaxKey
Procs == 1..NProcs

TraceLog == ndJsonDeserialize(IOEnv.VERIF_TRACE)

VARIABLES st, ks, md, got, l
vars == <<st, ks, md, got, l>>

SetOf(s) == {s[i] : i \in 1..Len(s)}
Parked(s) == {p \in Procs : s[p] = "parked"}

H(k, s, kk, g)  == {p \in Procs : s[p] = "held" /\ k \in kk[p]} \cup {p \in Parked(s) : k \in g[p]}
Compat(s, kk, m, g) == \A k \in Keys :
  LET hs == H(k, s, kk, g) IN (\A p \in hs : m[p] = "r") \/ Cardinality(hs) <= 1
Just(p, s, kk, m, g) == \E k \in kk[p] \ g[p] :
  LET hs == H(k, s, kk, g) IN
  IF m[p] = "w" THEN hs \ {p} # {}
  ELSE \/ \E q \in hs : m[q] = "w"
       \/ (hs # {} /\ \E q \in Parked(s) \ {p} : m[q] = "w" /\ k \in kk[q] \ g[q])
Accept(s, kk, m, g) ==
  /\ Compat(s, kk, m, g)
  /\ \A p \in Parked(s) : Just(p, s, kk, m, g)

Init == /\ st = [p \in Procs |-> "idle"] /\ ks = [p \in Procs |-> {}] /\ md = [p \in Procs |-> "r"]
        /\ got = [p \in Procs |-> {}] /\ l = 1

TReset(e) ==
  /\ st' = [p \in Procs |-> "idle"] /\ ks' = [p \in Procs |-> {}] /\ md' = [p \in Procs |-> "r"]
  /\ got' = [p \in Procs |-> {}]

NewSt(e) == [p \in Procs |-> IF p <= Len(e.st) THEN e.st[p] ELSE "idle"]

(* status changes the harness can legitimately report *)
StOK(a, old, new) == \A p \in Procs :
  IF a.op = "call" /\ a.p = p THEN old[p] = "idle" /\ new[p] \in {"held", "parked"}
  ELSE IF a.op = "unlock" /\ a.p = p THEN old[p] = "held" /\ new[p] = "idle"
  ELSE \/ new[p] = old[p]
       \/ old[p] = "parked" /\ new[p] = "held"

TStep(e) ==
  LET a == e.a
      ns == NewSt(e)
      nks == IF a.op = "call" THEN [ks EXCEPT ![a.p] = SetOf(a.ks)]
             ELSE [ks EXCEPT ![a.p] = {}]
      nmd == IF a.op = "call" THEN [md EXCEPT ![a.p] = a.m] ELSE md
  IN /\ a.op \in {"call", "unlock"}
     /\ StOK(a, st, ns)
     /\ st' = ns /\ ks' = nks /\ md' = nmd
     /\ LET \* Candidate sets per parked proc.  Only *contended* keys (listed by another worker
            \* too) matter: a key nobody else lists cannot violate Compat, cannot justify anybody's
            \* blocking, and - left out of `got` - can still be added later, so Mono is unaffected.
            \* What a proc already held while parked stays (Mono).
            Base(p) == IF st[p] = "parked" THEN got[p] ELSE {}
            Cont(p) == {k \in nks[p] : \E q \in Procs \ {p} : k \in nks[q]}
            Opts(p) == IF ns[p] = "parked"
                       THEN {Base(p) \cup y : y \in SUBSET (Cont(p) \ Base(p))}
                       ELSE {{}}
            RECURSIVE Prod(_)
            Prod(n) == IF n = 0 THEN {<<>>} ELSE {Append(g, o) : g \in Prod(n - 1), o \in Opts(n)}
        IN \E g \in Prod(NProcs) :
             \* IF: Accept is a pure predicate; as a conjunct of the action TLC would fork a
             \* successor computation at every disjunction inside it (2^|Keys| duplicates)
             IF Accept(ns, nks, nmd, g) THEN got' = g ELSE FALSE
     \* reclaim: with nobody in a call the locker keeps nothing
     /\ (\A p \in Procs : ns[p] = "idle") => e.entries = 0

(* A run {a, n, ok, nest, st, entries}: n repetitions of one lock call by an idle worker, issued   *)
(* only where no repetition can be made to wait - were the worker parked in it, nothing would      *)
(* justify that (checked here: Just is false for it) - so all n must have gone through (ok = n).   *)
(*   nest = FALSE  n cycles of the call and its unlock: the worker is idle again, nothing changed  *)
(*   nest = TRUE   n nested read locks of the call by one goroutine, all still held: the step of   *)
(*                 that call with the worker holding (its unlock step gives all of them back)      *)
TRun(e) ==
  LET a   == e.a
      s2  == [st EXCEPT ![a.p] = "parked"]
      ks2 == [ks EXCEPT ![a.p] = SetOf(a.ks)]
      md2 == [md EXCEPT ![a.p] = a.m]
      g2  == [got EXCEPT ![a.p] = {}]
  IN /\ a.op = "call" /\ st[a.p] = "idle" /\ e.n >= 1
     /\ Just(a.p, s2, ks2, md2, g2) = FALSE
     /\ e.ok = e.n
     /\ IF e.nest
        THEN a.m = "r" /\ NewSt(e)[a.p] = "held" /\ TStep(e)
        ELSE /\ NewSt(e) = st
             /\ Compat([st EXCEPT ![a.p] = "held"], ks2, md2, got) = TRUE
             /\ ((\A p \in Procs : st[p] = "idle") => e.entries = 0)
             /\ UNCHANGED <<st, ks, md, got>>

(* free-running stress: monitor events inside the critical sections *)
TMon(e) ==
  /\ IF e.kind = "in"
     THEN /\ st[e.p] = "idle"
          /\ st' = [st EXCEPT ![e.p] = "held"] /\ ks' = [ks EXCEPT ![e.p] = SetOf(e.ks)]
          /\ md' = [md EXCEPT ![e.p] = e.m]
          /\ Compat(st', ks', md', got) = TRUE
     ELSE /\ st' = [st EXCEPT ![e.p] = "idle"] /\ ks' = [ks EXCEPT ![e.p] = {}] /\ md' = md
  /\ got' = got

TEnd(e) ==   \* a run ends: everybody returned, nothing retained, no goroutine left inside the locker
  /\ \A p \in Procs : st[p] = "idle"
  /\ e.entries = 0 /\ e.stuck = 0
  /\ UNCHANGED <<st, ks, md, got>>

(* retention probe: one goroutine locked and unlocked e.n distinct keys one after the other and     *)
(* kept none of them; e.per1k = bytes the heap kept per 1000 keys (after collections, the smaller  *)
(* of two rounds).  "Retains no per-key state": the tables are empty and what is kept does not     *)
(* grow with the number of keys - less than RetainBound bytes per 1000 keys (8 bytes a key would   *)
(* be 8000; the measuring noise is a few hundred bytes per 1000 keys at n = 40000).               *)
RetainBound == 4000
TRetain(e) ==
  /\ \A p \in Procs : st[p] = "idle"
  /\ e.n >= 1000 /\ e.entries = 0
  /\ e.per1k >= 0 /\ e.per1k < RetainBound
  /\ UNCHANGED <<st, ks, md, got>>

TraceNext ==
  /\ l <= Len(TraceLog) /\ l' = l + 1
  /\ LET e == TraceLog[l] IN
       CASE e.ev = "reset" -> TReset(e)
         [] e.ev = "step"  -> TStep(e)
         [] e.ev = "run"   -> TRun(e)
         [] e.ev = "mon"   -> TMon(e)
         [] e.ev = "end"   -> TEnd(e)
         [] e.ev = "retain" -> TRetain(e)
         [] OTHER -> FALSE
TraceSpec == Init /\ [][TraceNext]_vars

ASSUME TLCSet(1, 0)
Mark == TLCSet(1, IF l > TLCGet(1) THEN l ELSE TLCGet(1))
Accepted == PrintT(<<"MARK", TLCGet(1), Len(TraceLog)>>) /\ TLCGet(1) = Len(TraceLog) + 1
=============================================================================
