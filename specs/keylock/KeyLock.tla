------------------------------ MODULE KeyLock ------------------------------
(***************************************************************************)
(* neptune syncx/keylock: a table  key -> (sync.RWMutex, readCount,        *)
(* writeCount); single lockers and sharded groups, single- and multi-key   *)
(* calls.                                                                  *)
(*                                                                         *)
(* One action per critical section / blocking point of the code:           *)
(*   Call(p,c)     the caller enters Lock/RLock/Locks/RLocks               *)
(*   Register(p)   one hold of one shard's table mutex: lookup-or-create   *)
(*                 and count++ for every key of the call in that shard     *)
(*                 (the caller remembers the entries, as the code does)    *)
(*   Announce(p)   sync.RWMutex.Lock, first half: take the writer mutex -  *)
(*                 from now on new readers of that entry block (GoRW only) *)
(*   Acquire(p)    the blocking point: reader admitted / writer sees no    *)
(*                 readers; the call proceeds to its next key              *)
(*   Unlock(p)     one hold of one shard's table mutex: for each key of    *)
(*                 the shard: unlock the entry FOUND IN THE TABLE NOW,     *)
(*                 count--, free at 0/0                                    *)
(* Policy "GoRW" models Go's writer-pending rule, "Any" only compatibility.*)
(* FreeIgnoresWriters = TRUE is a deviation kept as non-vacuity witness.   *)
(***************************************************************************)
EXTENDS Integers, Sequences, FiniteSets, TLC

CONSTANTS Procs, Keys, NShards, Policy, FreeIgnoresWriters, Budget, Lists

MaxEnt == 2 * Cardinality(Keys) + 2
Ents   == 1..MaxEnt
Shard(k) == k % NShards

VARIABLES
  ent,     \* key -> entry id in the table (0 = none)
  rc, wc,  \* entry -> registered readers / writers (waiting or holding)
  rdrs,    \* entry -> set of procs holding it for reading
  wmu,     \* entry -> proc that owns the writer mutex (announced or holding), 0 = free
  wact,    \* entry -> TRUE when wmu's owner has the lock (readers drained)
  pc,      \* proc -> "idle" | "reg" | "lock" | "held" | "unl"
  call,    \* proc -> [ks : sequence of keys in acquisition order, m : "r" | "w"]
  idx,     \* proc -> position in call.ks (meaning depends on pc)
  mine,    \* proc -> sequence of remembered entry ids (parallel to call.ks)
  left,    \* proc -> calls it may still start
  crashed, \* a nil entry was dereferenced / an unlocked mutex unlocked
  last

vars    == <<ent, rc, wc, rdrs, wmu, wact, pc, call, idx, mine, left, crashed>>
allvars == <<vars, last>>

NoCall == [ks |-> <<>>, m |-> "r"]

(* acquisition order of a caller's list: by shard, then list order (stable) *)
RECURSIVE SortByShard(_, _)
SortByShard(ks, sh) ==
  IF sh = NShards THEN <<>>
  ELSE SelectSeq(ks, LAMBDA k : Shard(k) = sh) \o SortByShard(ks, sh + 1)
Order(ks) == SortByShard(ks, 0)

InUse == ({ent[k] : k \in Keys} \cup UNION {{mine[p][i] : i \in 1..Len(mine[p])} : p \in Procs}) \ {0}
Fresh(used) == CHOOSE e \in Ents \ used : \A f \in Ents \ used : e <= f

GroupEnd(ks, i) ==   \* last index of the shard group starting at i
  LET RECURSIVE G(_)
      G(j) == IF j < Len(ks) /\ Shard(ks[j + 1]) = Shard(ks[i]) THEN G(j + 1) ELSE j
  IN G(i)

Call(p, c) ==
  /\ pc[p] = "idle" /\ left[p] > 0
  /\ call' = [call EXCEPT ![p] = [ks |-> Order(c.ks), m |-> c.m]]
  /\ pc' = [pc EXCEPT ![p] = "reg"] /\ idx' = [idx EXCEPT ![p] = 1]
  /\ mine' = [mine EXCEPT ![p] = <<>>]
  /\ left' = [left EXCEPT ![p] = @ - 1]
  /\ UNCHANGED <<ent, rc, wc, rdrs, wmu, wact, crashed>>

(* register keys i..j one after the other under one mutex hold *)
RECURSIVE RegFold(_, _, _, _, _, _, _, _)
RegFold(ks, i, j, m, en, r, w, mi) ==
  IF i > j THEN [ent |-> en, rc |-> r, wc |-> w, mine |-> mi]
  ELSE LET k == ks[i]
           fresh == en[k] = 0
           used == ({en[x] : x \in Keys} \cup {mi[y] : y \in 1..Len(mi)} \cup InUse) \ {0}
           e == IF fresh THEN Fresh(used) ELSE en[k]
       IN RegFold(ks, i + 1, j, m,
                  [en EXCEPT ![k] = e],
                  [r EXCEPT ![e] = (IF fresh THEN 0 ELSE @) + (IF m = "r" THEN 1 ELSE 0)],
                  [w EXCEPT ![e] = (IF fresh THEN 0 ELSE @) + (IF m = "w" THEN 1 ELSE 0)],
                  Append(mi, e))

Register(p) ==
  /\ pc[p] = "reg"
  /\ LET ks == call[p].ks
         j == GroupEnd(ks, idx[p])
         t == RegFold(ks, idx[p], j, call[p].m, ent, rc, wc, mine[p])
     IN /\ ent' = t.ent /\ rc' = t.rc /\ wc' = t.wc /\ mine' = [mine EXCEPT ![p] = t.mine]
        /\ IF j = Len(ks)
           THEN pc' = [pc EXCEPT ![p] = "lock"] /\ idx' = [idx EXCEPT ![p] = 1]
           ELSE pc' = pc /\ idx' = [idx EXCEPT ![p] = j + 1]
  /\ UNCHANGED <<rdrs, wmu, wact, call, left, crashed>>

Advance(p) ==
  IF idx[p] = Len(call[p].ks)
  THEN pc' = [pc EXCEPT ![p] = "held"] /\ idx' = [idx EXCEPT ![p] = 1]
  ELSE pc' = pc /\ idx' = [idx EXCEPT ![p] = @ + 1]

Announce(p) ==
  /\ Policy = "GoRW" /\ pc[p] = "lock" /\ call[p].m = "w"
  /\ LET e == mine[p][idx[p]] IN
       /\ wmu[e] = 0
       /\ wmu' = [wmu EXCEPT ![e] = p]
  /\ UNCHANGED <<ent, rc, wc, rdrs, wact, pc, call, idx, mine, left, crashed>>

Acquire(p) ==
  /\ pc[p] = "lock"
  /\ LET e == mine[p][idx[p]] IN
       IF call[p].m = "r"
       THEN /\ ~(wmu[e] # 0 /\ wact[e])                      \* no writer holds
            /\ (Policy = "Any" \/ wmu[e] = 0)                 \* GoRW: no writer announced either
            /\ rdrs' = [rdrs EXCEPT ![e] = @ \cup {p}]
            /\ UNCHANGED <<wmu, wact>>
       ELSE /\ rdrs[e] = {}
            /\ IF Policy = "GoRW" THEN wmu[e] = p /\ ~wact[e] ELSE wmu[e] = 0
            /\ wmu' = [wmu EXCEPT ![e] = p] /\ wact' = [wact EXCEPT ![e] = TRUE]
            /\ UNCHANGED rdrs
  /\ Advance(p)
  /\ UNCHANGED <<ent, rc, wc, call, mine, left, crashed>>

(* unlock keys i..j under one table-mutex hold; the entry is looked up by key *)
RECURSIVE UnlFold(_, _, _, _, _, _, _, _, _, _, _)
UnlFold(p, ks, i, j, m, en, r, w, rd, wm, wa) ==
  IF i > j THEN [ent |-> en, rc |-> r, wc |-> w, rdrs |-> rd, wmu |-> wm, wact |-> wa, bad |-> FALSE]
  ELSE LET k == ks[i]
           e == en[k]
       IN IF e = 0 \/ (m = "r" /\ p \notin rd[e]) \/ (m = "w" /\ ~(wm[e] = p /\ wa[e]))
          THEN [ent |-> en, rc |-> r, wc |-> w, rdrs |-> rd, wmu |-> wm, wact |-> wa, bad |-> TRUE]
          ELSE LET r2 == [r EXCEPT ![e] = @ - (IF m = "r" THEN 1 ELSE 0)]
                   w2 == [w EXCEPT ![e] = @ - (IF m = "w" THEN 1 ELSE 0)]
                   free == r2[e] = 0 /\ (w2[e] = 0 \/ FreeIgnoresWriters)
               IN UnlFold(p, ks, i + 1, j, m,
                          IF free THEN [en EXCEPT ![k] = 0] ELSE en, r2, w2,
                          IF m = "r" THEN [rd EXCEPT ![e] = @ \ {p}] ELSE rd,
                          IF m = "w" THEN [wm EXCEPT ![e] = 0] ELSE wm,
                          IF m = "w" THEN [wa EXCEPT ![e] = FALSE] ELSE wa)

StartUnlock(p) ==
  /\ pc[p] = "held"
  /\ pc' = [pc EXCEPT ![p] = "unl"] /\ idx' = [idx EXCEPT ![p] = 1]
  /\ UNCHANGED <<ent, rc, wc, rdrs, wmu, wact, call, mine, left, crashed>>

Unlock(p) ==
  /\ pc[p] = "unl"
  /\ LET ks == call[p].ks
         j == GroupEnd(ks, idx[p])
         t == UnlFold(p, ks, idx[p], j, call[p].m, ent, rc, wc, rdrs, wmu, wact)
     IN /\ ent' = t.ent /\ rc' = t.rc /\ wc' = t.wc /\ rdrs' = t.rdrs /\ wmu' = t.wmu /\ wact' = t.wact
        /\ crashed' = (crashed \/ t.bad)
        /\ IF j = Len(ks) \/ t.bad
           THEN /\ pc' = [pc EXCEPT ![p] = "idle"] /\ idx' = [idx EXCEPT ![p] = 1]
                /\ call' = [call EXCEPT ![p] = NoCall] /\ mine' = [mine EXCEPT ![p] = <<>>]
           ELSE pc' = pc /\ idx' = [idx EXCEPT ![p] = j + 1] /\ UNCHANGED <<call, mine>>
  /\ UNCHANGED left

Do(a) ==
  CASE a.op = "call"     -> Call(a.p, [ks |-> a.ks, m |-> a.m])
    [] a.op = "reg"      -> Register(a.p)
    [] a.op = "announce" -> Announce(a.p)
    [] a.op = "acquire"  -> Acquire(a.p)
    [] a.op = "unlock"   -> StartUnlock(a.p)
    [] a.op = "unl"      -> Unlock(a.p)
    [] OTHER -> FALSE
Step(a) == Do(a) /\ last' = a

Calls == [ks : Lists, m : {"r", "w"}]
Acts == {[op |-> "call", p |-> p, ks |-> c.ks, m |-> c.m] : p \in Procs, c \in Calls}
   \cup [op : {"reg", "announce", "acquire", "unlock", "unl"}, p : Procs]

Init ==
  /\ ent = [k \in Keys |-> 0]
  /\ rc = [e \in Ents |-> 0] /\ wc = [e \in Ents |-> 0]
  /\ rdrs = [e \in Ents |-> {}] /\ wmu = [e \in Ents |-> 0] /\ wact = [e \in Ents |-> FALSE]
  /\ pc = [p \in Procs |-> "idle"] /\ call = [p \in Procs |-> NoCall]
  /\ idx = [p \in Procs |-> 1] /\ mine = [p \in Procs |-> <<>>]
  /\ left = [p \in Procs |-> Budget] /\ crashed = FALSE
  /\ last = [op |-> "init", shards |-> NShards]

AllDone == \A p \in Procs : pc[p] = "idle" /\ left[p] = 0
Next == (\E a \in Acts : Step(a)) \/ (AllDone /\ UNCHANGED allvars)
Spec == Init /\ [][Next]_allvars

-----------------------------------------------------------------------------
(* p holds key k: it passed the blocking point of k and has not unlocked it *)
HeldIdx(p) ==
  CASE pc[p] = "lock" -> 1..(idx[p] - 1)
    [] pc[p] = "held" -> 1..Len(call[p].ks)
    [] pc[p] = "unl"  -> idx[p]..Len(call[p].ks)
    [] OTHER -> {}
Holds(p, k) == \E i \in HeldIdx(p) : call[p].ks[i] = k
Registered(p, k) ==
  \/ pc[p] = "reg" /\ \E i \in 1..(idx[p] - 1) : call[p].ks[i] = k
  \/ pc[p] \in {"lock", "held"} /\ \E i \in 1..Len(call[p].ks) : call[p].ks[i] = k
  \/ pc[p] = "unl" /\ \E i \in idx[p]..Len(call[p].ks) : call[p].ks[i] = k

TypeOK == \A p \in Procs : pc[p] \in {"idle", "reg", "lock", "held", "unl"}

Exclusion == \A k \in Keys :
  LET H == {p \in Procs : Holds(p, k)} IN
    \/ \A p \in H : call[p].m = "r"
    \/ Cardinality(H) <= 1

Reclaim == \A k \in Keys : (ent[k] # 0) <=> (\E p \in Procs : Registered(p, k))
Counts  == \A k \in Keys : ent[k] # 0 =>
             /\ rc[ent[k]] = Cardinality({p \in Procs : Registered(p, k) /\ call[p].m = "r"})
             /\ wc[ent[k]] = Cardinality({p \in Procs : Registered(p, k) /\ call[p].m = "w"})
NoCrash == ~crashed
StaleFree == \A p \in Procs : \A i \in 1..Len(mine[p]) :
  (pc[p] = "unl" => i >= idx[p]) => ent[call[p].ks[i]] = mine[p][i]

(* key independence: a caller is never refused at the blocking point of k  *)
(* because of what happens on other keys: if nobody else is registered on  *)
(* k, its Acquire (after Announce) is enabled.                             *)
Independent == \A p \in Procs : pc[p] = "lock" =>
  LET k == call[p].ks[idx[p]] IN
    (\A q \in Procs \ {p} : ~Registered(q, k)) =>
       (ENABLED Acquire(p) \/ ENABLED Announce(p))

View == vars
=============================================================================
