---------------------------- MODULE KeyLock_Gen ----------------------------
EXTENDS KeyLock_MC, TLCExt, Json, IOUtils
CONSTANT Depth
ASSUME TLCSet(2, 0)
Emit ==
  \/ TLCGet("level") < Depth
  \/ /\ TLCSet(2, TLCGet(2) + 1)
     /\ ndJsonSerialize(IOEnv.VERIF_PLANDIR \o "/p" \o ToString(TLCGet(2)) \o ".ndjson",
                        [i \in 1..Len(Trace) |-> Trace[i].last])
=============================================================================
