SPECIFICATION Spec
CONSTANTS
  Procs = {1, 2, 3, 4}
  Keys = {1, 2, 3}
  NShards = 2
  Policy = "GoRW"
  FreeIgnoresWriters = FALSE
  Budget = 3
  Lists <- OrderedLists
  Depth = 40
INVARIANTS Emit
CHECK_DEADLOCK FALSE
