---------------------------- MODULE TTL_Trace ----------------------------
(* Validates ndjson traces recorded from the real ttl caches against the   *)
(* CONTRACT of TTL.tla (the algorithm models of TTL.tla play no part).     *)
(* Events:                                                                 *)
(*   reset {size, dttl, nk, now, threads, impl}   new cache(s)             *)
(*   call  {a, r}          one sequential call on the in-memory cache, or  *)
(*                         a clock tick (a.op = "tick")                    *)
(*   call2 {a, r, rr}      the same call on the in-memory cache (r) and on *)
(*                         the redis-backed cache over the fake server (rr)*)
(*                         - the history must stay inside the comparison   *)
(*                         region and the two replies must be equal        *)
(*   inv {t, a} / res {t, r}   overlapping calls of goroutine t: the       *)
(*                         effect is an internal step between the two      *)
(*   call {.., inj}        the store refused the call's first command /    *)
(*                         the caller's context had ended: failure reply,  *)
(*                         no effect (also inv {.., inj})                  *)
(*   call {.., inmut}      the value slice passed to Set was not written to*)
(*   end {inmut, stuck}    end of a history: retained results rendered,    *)
(*                         all inputs intact, no call stuck                *)
(*   run {a, n, segs}      the same call n times (255..65537), replies     *)
(*                         run-length encoded                              *)
(*   burst {a, ra, g, rs}  a stored value read with remove-after-get by    *)
(*                         several callers at one instant, one event       *)
(*   (a `stuck` / `crash` event has no explanation: rejected)              *)
(* A reply is explained iff the set of compatible contract states stays    *)
(* non-empty (TTL!Post).                                                   *)
EXTENDS TTL, Json, IOUtils

TraceLog == ndJsonDeserialize(IOEnv.VERIF_TRACE)

VARIABLES l, pend
tvars == <<allvars, l, pend>>

Idle == [st |-> "idle"]

TraceInit ==
  /\ l = 1 /\ pend = <<>>
  /\ InitWith(0, 0, 0, 0)

TReset(e) ==
  /\ now' = e.now /\ size' = e.size /\ dttl' = e.dttl /\ nk' = e.nk
  /\ cset' = {[k \in 1..e.nk |-> Absent]} /\ seen' = {}
  /\ pend' = [t \in 1..e.threads |-> Idle]
  /\ last' = [a |-> [op |-> "init"], r |-> ROk, rr |-> ROk]
  /\ UNCHANGED <<mem, rds, reg>>

Quiet == \A t \in DOMAIN pend : pend[t] = Idle

(* optional observations: the slice handed to Set is unchanged after the call *)
InputKept(e) == IF "inmut" \in DOMAIN e THEN e.inmut = TRUE ELSE TRUE
Failed(e)    == "inj" \in DOMAIN e

(* a call whose first command the store refused, or whose context had already ended, reports *)
(* a failure (Clear has no result) and changes nothing                                       *)
TFail(e) ==
  /\ Quiet
  /\ e.a.op \in {"set", "get", "rem", "clear"}
  /\ e.r = IF e.a.op = "clear" THEN ROk ELSE Rp("fault", 0)
  /\ last' = [a |-> e.a, r |-> e.r, rr |-> e.r]
  /\ UNCHANGED <<now, cset, seen, size, dttl, nk, mem, rds, reg, pend>>

TCall(e) ==
  /\ Quiet
  /\ InputKept(e)
  /\ IF e.a.op = "tick"
     THEN /\ e.a.d >= 0 /\ e.r = ROk
          /\ now' = now + e.a.d
          /\ cset' = {NormAt(S, now + e.a.d) : S \in cset}
          /\ UNCHANGED seen
     ELSE LET W == Post(World, e.a, e.r) IN
          /\ W.cs # {}
          /\ cset' = W.cs /\ seen' = W.sn
          /\ UNCHANGED now
  /\ last' = [a |-> e.a, r |-> e.r, rr |-> e.r]
  /\ UNCHANGED <<size, dttl, nk, mem, rds, reg, pend>>

(* run {a, n, segs}: the same call n times back to back; segs = run-length-encoded replies.  A   *)
(* reply repeated more than 3 times must have become a no-op for the contract by the 3rd.       *)
EmptyW(W) == [cs |-> {}, sn |-> W.sn]
RECURSIVE Rep(_, _, _, _)
Rep(W, a, r, j) == IF j = 0 \/ W.cs = {} THEN W ELSE Rep(Post(W, a, r), a, r, j - 1)
Seg(W, a, sg) ==
  LET m  == IF sg.n < 3 THEN sg.n ELSE 3
      W3 == Rep(W, a, sg.r, m)
  IN IF sg.n > 3 /\ W3.cs # {} /\ Post(W3, a, sg.r) # W3 THEN EmptyW(W3) ELSE W3
RECURSIVE Segs(_, _, _, _)
Segs(W, a, sgs, i) == IF i > Len(sgs) \/ W.cs = {} THEN W ELSE Segs(Seg(W, a, sgs[i]), a, sgs, i + 1)
RECURSIVE SumN(_, _)
SumN(sgs, i) == IF i > Len(sgs) THEN 0 ELSE sgs[i].n + SumN(sgs, i + 1)

TRun(e) ==
  /\ Quiet
  /\ InputKept(e)
  /\ e.a.op \in {"set", "get", "rem", "clear"}
  /\ e.n >= 1 /\ SumN(e.segs, 1) = e.n
  /\ \A i \in 1..Len(e.segs) : e.segs[i].n >= 1
  /\ LET W == Segs(World, e.a, e.segs, 1) IN
       /\ W.cs # {}
       /\ cset' = W.cs /\ seen' = W.sn
  /\ last' = [a |-> e.a, r |-> e.segs[Len(e.segs)].r, rr |-> e.segs[Len(e.segs)].r]
  /\ UNCHANGED <<now, size, dttl, nk, mem, rds, reg, pend>>

(* burst {a, ra, g, rs}: the call a (reply ra), then the call g by Len(rs) callers at the same   *)
(* instant; rs lists their replies, hits first.  Overlapping calls may take effect in any order, *)
(* so the replies are explained iff they are explained in that order.                            *)
RECURSIVE Fold(_, _, _, _)
Fold(W, g, rs, i) == IF i > Len(rs) \/ W.cs = {} THEN W ELSE Fold(Post(W, g, rs[i]), g, rs, i + 1)
HitsFirst(rs) == \A i, j \in 1..Len(rs) : (i < j /\ rs[j].c = "hit") => rs[i].c = "hit"
TBurst(e) ==
  /\ Quiet
  /\ e.a.op \in {"set", "get", "rem"} /\ e.g.op \in {"set", "get", "rem"}
  /\ HitsFirst(e.rs)
  /\ LET W == Fold(Post(World, e.a, e.ra), e.g, e.rs, 1) IN
       /\ W.cs # {}
       /\ cset' = W.cs /\ seen' = W.sn
  /\ last' = [a |-> e.g, r |-> e.ra, rr |-> e.ra]
  /\ UNCHANGED <<now, size, dttl, nk, mem, rds, reg, pend>>

TCall2(e) ==
  /\ InRegion(e.a)
  /\ e.rr = e.r
  /\ TCall(e)

TInv(e) ==
  /\ pend[e.t] = Idle
  /\ e.a.op \in {"set", "get", "rem", "clear"}
  /\ pend' = [pend EXCEPT ![e.t] =
                IF Failed(e) THEN [st |-> "done", r |-> IF e.a.op = "clear" THEN ROk ELSE Rp("fault", 0)]
                ELSE [st |-> "called", a |-> e.a]]
  /\ UNCHANGED allvars

(* end of a history: retained results were rendered, no input slice was written to, nobody stuck *)
TEnd(e) ==
  /\ Quiet
  /\ e.inmut = TRUE /\ e.stuck = 0
  /\ UNCHANGED <<allvars, pend>>

TRes(e) ==
  /\ pend[e.t].st = "done" /\ pend[e.t].r = e.r
  /\ pend' = [pend EXCEPT ![e.t] = Idle]
  /\ UNCHANGED allvars

Consume ==
  /\ l <= Len(TraceLog) /\ l' = l + 1
  /\ LET e == TraceLog[l] IN
       CASE e.ev = "reset" -> TReset(e)
         [] e.ev = "call"  -> IF Failed(e) THEN TFail(e) ELSE TCall(e)
         [] e.ev = "end"   -> TEnd(e)
         [] e.ev = "run"   -> TRun(e)
         [] e.ev = "burst" -> TBurst(e)
         [] e.ev = "call2" -> TCall2(e)
         [] e.ev = "inv"   -> TInv(e)
         [] e.ev = "res"   -> TRes(e)
         [] OTHER -> FALSE

(* linearization point of a pending call: any reply the contract can explain *)
Lin == \E t \in DOMAIN pend :
  /\ pend[t].st = "called"
  /\ \E r \in (IF pend[t].a.op = "clear" THEN {ROk} ELSE Replies(World, pend[t].a)) :
       LET W == Post(World, pend[t].a, r) IN
       /\ W.cs # {}
       /\ cset' = W.cs /\ seen' = W.sn
       /\ pend' = [pend EXCEPT ![t] = [st |-> "done", r |-> r]]
       /\ last' = [a |-> pend[t].a, r |-> r, rr |-> r]
  /\ UNCHANGED <<l, now, size, dttl, nk, mem, rds, reg>>

TraceNext == Consume \/ Lin
TraceSpec == TraceInit /\ [][TraceNext]_tvars

(* high-water mark of l in TLC register 1 (needs -workers 1) *)
ASSUME TLCSet(1, 0)
Mark == TLCSet(1, IF l > TLCGet(1) THEN l ELSE TLCGet(1))
Accepted == PrintT(<<"MARK", TLCGet(1), Len(TraceLog)>>) /\ TLCGet(1) = Len(TraceLog) + 1

TView == <<now, size, dttl, nk, cset, seen, l, pend>>
=============================================================================
