SPECIFICATION Spec
CONSTANTS
  FixExpiredSet = TRUE
  FixZeroSize = TRUE
  RdsUnit = "sec"
  NK = 3
  ValSet = {1}
  TTLSet = {}
  SizeSet = {2}
  DTTLSet = {2}
  TickSet = {1}
INVARIANTS TypeOK Conforms Sane ContractShape MemShape ExpiredAsAbsent Agree
PROPERTIES Consumed
VIEW View
CHECK_DEADLOCK FALSE
