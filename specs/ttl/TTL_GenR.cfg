SPECIFICATION GSpec
CONSTANTS
  FixExpiredSet = TRUE
  FixZeroSize = TRUE
  RdsUnit = "sec"
  NK = 4
  ValSet = {}
  TTLSet = {0, 1, 2, 4}
  SizeSet = {4}
  DTTLSet = {0, 3}
  TickSet = {1, 2}
  Depth = 18
  Region = TRUE
INVARIANTS Emit
CHECK_DEADLOCK FALSE
