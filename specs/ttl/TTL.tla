------------------------------- MODULE TTL -------------------------------
(***************************************************************************)
(* neptune cache.TTLCache (cache/ttlmem.go, cache/ttlrds.go).              *)
(*                                                                         *)
(* Three layers over one virtual clock `now` (seconds):                    *)
(*                                                                         *)
(*  1. the CONTRACT - what the property demands of any implementation.     *)
(*     A contract state S maps every key to [live, val, dl, thr]; `thr` is *)
(*     the set of other distinct keys touched since the key's own last     *)
(*     touch.  A key is live until removed / cleared / consumed by a       *)
(*     remove-after-get read / its deadline has passed (Tick makes it      *)
(*     absent *eagerly*: an expired key IS a key that was never set).  The *)
(*     implementation is free to drop a live key exactly when              *)
(*       - it is not protected (>= size other keys touched since), or      *)
(*       - the clock stands exactly on its deadline;                       *)
(*     nothing else is left open.  Because the drop is invisible, the      *)
(*     contract is run as a subset construction: `cset` is the set of      *)
(*     contract states compatible with every reply seen so far; a reply is *)
(*     explained iff cset stays non-empty (Post).                          *)
(*     `seen` = keys observed retrievable (hit / already-exists) since the *)
(*     last successful Set: the retrievable set only grows by Set, so all  *)
(*     of them were retrievable at one instant: |seen| <= size, and        *)
(*     together with the keys that still must hit (Room).                  *)
(*                                                                         *)
(*  2. MEM - the algorithm of ttlmem.go (recency list + index, lazy        *)
(*     expiry).  FixExpiredSet / FixZeroSize = FALSE are the rules the     *)
(*     pinned code implements (named deviations).                          *)
(*                                                                         *)
(*  3. RDS - the redis commands ttlrds.go issues, with redis' expiry rule  *)
(*     (gone AT the deadline).  RdsUnit = "ns" is the pinned conversion    *)
(*     time.Duration(ttl) (nanoseconds; go-redis rounds up to 1 ms / 1 s). *)
(*                                                                         *)
(* The exhaustive run drives MEM and RDS with every action and checks that *)
(* the contract explains MEM's replies (Conforms) and that RDS agrees with *)
(* MEM inside the comparison region (Agree).  Trace validation uses the    *)
(* contract only, on replies recorded from the real code.                  *)
(*                                                                         *)
(* Action records (the JSON the harness logs):                             *)
(*   [op "set",  k, v, ht, ttl, nx, keep]  ht: WithTTL(ttl) given          *)
(*   [op "get",  k, rm, upd, ttl]          upd: WithUpdateTTL(ttl)         *)
(*   [op "rem",  k]   [op "clear"]   [op "tick", d]                        *)
(*   [op "probe", ks]                      plain Get of every key in ks    *)
(* Replies: [c, v] with c in "ok" "exists" "hit" "miss" (probe: sequence). *)
(***************************************************************************)
EXTENDS Integers, Sequences, FiniteSets, TLC

CONSTANTS FixExpiredSet, FixZeroSize, RdsUnit

VARIABLES
  now,     \* virtual clock, seconds
  size,    \* configured bound
  dttl,    \* default ttl (<= 0: no expiry)
  nk,      \* keys are 1..nk
  cset,    \* contract: set of states compatible with the replies so far
  seen,    \* contract: keys observed retrievable since the last successful Set
  mem,     \* model of ttlmem.go: [lst, node]
  rds,     \* model of the redis key space written by ttlrds.go
  reg,     \* the history so far lies inside the mem/redis comparison region
  last     \* [a, r, rr]: latest action, MEM's reply, RDS's reply (output only)

vars    == <<now, size, dttl, nk, cset, seen, mem, rds, reg>>
allvars == <<vars, last>>

Never == 2000000000
Deadline(t, ttl) == IF ttl <= 0 THEN Never ELSE t + ttl

K == 1..nk
Rp(c, v) == [c |-> c, v |-> v]
ROk      == Rp("ok", 0)
RMiss    == Rp("miss", 0)
RExists  == Rp("exists", 0)
RHit(v)  == Rp("hit", v)

SetTTL(a) == IF a.ht THEN a.ttl ELSE dttl          \* WithTTL overrides the default
GetTTL(a) == IF a.ttl # 0 THEN a.ttl ELSE dttl     \* WithUpdateTTL(0) means the default
PlainGet(k) == [op |-> "get", k |-> k, rm |-> FALSE, upd |-> FALSE, ttl |-> 0]

Ext(f, k, v) == [x \in DOMAIN f \cup {k} |-> IF x = k THEN v ELSE f[x]]
Rem(f, k)    == [x \in DOMAIN f \ {k} |-> f[x]]
Without(s, k) == SelectSeq(s, LAMBDA x : x # k)
Elems(s)      == {s[i] : i \in 1..Len(s)}
\* container/list.MoveToFront is a no-op for an element that is not in the list
Front(s, k)   == IF k \in Elems(s) THEN <<k>> \o Without(s, k) ELSE s

(* ======================= 1. the contract ============================== *)
Absent == [live |-> FALSE, val |-> 0, dl |-> 0, thr |-> {}]
EmptyS == [k \in K |-> Absent]

Prot(S, k)    == Cardinality(S[k].thr) < size
MustHit(S, k) == S[k].live /\ now < S[k].dl /\ Prot(S, k)
MustSet(S)    == {k \in K : MustHit(S, k)}
Drop(S, k)    == [S EXCEPT ![k] = Absent]
(* what the implementation may have done to k unseen *)
Cands(S, k)   == IF S[k].live /\ ~MustHit(S, k) THEN {S, Drop(S, k)} ELSE {S}
(* a call that finds k (or stores it) is a touch of k for every other live key *)
Touch(S, k)   == [j \in K |-> IF j # k /\ S[j].live
                              THEN [S[j] EXCEPT !.thr = @ \cup {k}] ELSE S[j]]
(* k may be observed retrievable only if the bound survives it *)
Room(S, k, sn) == Cardinality(sn \cup {k} \cup MustSet(S)) <= size

CReply(S, a) ==
  CASE a.op = "set" -> IF a.nx /\ S[a.k].live THEN RExists ELSE ROk
    [] a.op = "get" -> IF S[a.k].live THEN RHit(S[a.k].val) ELSE RMiss
    [] OTHER        -> ROk

CAllowed(S, a, sn) ==
  CASE a.op = "set" -> (a.nx /\ S[a.k].live) => Room(S, a.k, sn)
    [] a.op = "get" -> S[a.k].live => Room(S, a.k, sn)
    [] OTHER        -> TRUE

CDo(S, a) ==
  CASE a.op = "set" ->
         IF a.nx /\ S[a.k].live THEN Touch(S, a.k)
         ELSE Touch([S EXCEPT ![a.k] =
                       [live |-> TRUE, val |-> a.v,
                        dl   |-> IF a.keep /\ S[a.k].live THEN S[a.k].dl
                                 ELSE Deadline(now, SetTTL(a)),
                        thr  |-> {}]], a.k)
    [] a.op = "get" ->
         IF ~S[a.k].live THEN S
         ELSE IF a.rm THEN Touch(Drop(S, a.k), a.k)
         ELSE Touch([S EXCEPT ![a.k] =
                       [@ EXCEPT !.thr = {},
                                 !.dl  = IF a.upd THEN Deadline(now, GetTTL(a)) ELSE @]], a.k)
    [] a.op = "rem" -> Drop(S, a.k)
    [] OTHER        -> S

SeenAfter(sn, a, r) ==
  CASE a.op = "set" -> IF r.c = "ok" THEN {} ELSE sn \cup {a.k}
    [] a.op = "get" -> IF r.c = "hit" THEN sn \cup {a.k} ELSE sn
    [] OTHER        -> sn

(* worlds: W = [cs |-> set of contract states, sn |-> seen] *)
Before(W, k) == UNION {Cands(S, k) : S \in W.cs}

PostKey(W, a, r) ==
  LET ok == {S \in Before(W, a.k) : CAllowed(S, a, W.sn) /\ CReply(S, a) = r}
  IN [cs |-> {CDo(S, a) : S \in ok}, sn |-> SeenAfter(W.sn, a, r)]

RECURSIVE PostProbe(_, _, _, _)
PostProbe(W, ks, rs, i) ==
  IF i > Len(ks) THEN W
  ELSE PostProbe(PostKey(W, PlainGet(ks[i]), rs[i]), ks, rs, i + 1)

Post(W, a, r) ==
  CASE a.op \in {"set", "get", "rem"} -> PostKey(W, a, r)
    [] a.op = "clear" -> [cs |-> IF r = ROk /\ W.cs # {} THEN {EmptyS} ELSE {}, sn |-> W.sn]
    [] a.op = "probe" -> IF Len(r) = Len(a.ks) THEN PostProbe(W, a.ks, r, 1)
                         ELSE [cs |-> {}, sn |-> W.sn]
    [] OTHER          -> [cs |-> {}, sn |-> W.sn]

(* replies the contract can explain for a keyed call (linearization search) *)
Replies(W, a) == {CReply(S, a) : S \in {T \in Before(W, a.k) : CAllowed(T, a, W.sn)}}

NormAt(S, t) == [k \in K |-> IF S[k].live /\ t > S[k].dl THEN Absent ELSE S[k]]

World == [cs |-> cset, sn |-> seen]

(* the region in which the redis-backed cache is compared with the in-memory one:    *)
(* below the size bound, positive ttls, keep-ttl on live keys, clock off every deadline *)
InRegion(a) ==
  /\ nk <= size
  /\ CASE a.op = "set"  -> /\ SetTTL(a) > 0
                           /\ a.keep => \A S \in cset : S[a.k].live /\ now < S[a.k].dl
       [] a.op = "get"  -> a.upd => GetTTL(a) > 0
       [] a.op = "tick" -> \A S \in cset : \A k \in K : S[k].live => S[k].dl # now + a.d
       [] OTHER         -> TRUE

(* ======================= 2. ttlmem.go ================================= *)
MHas(M, k)    == k \in DOMAIN M.node
MRemove(M, k) == [lst |-> Without(M.lst, k), node |-> Rem(M.node, k)]
MExpired(M, k) == MHas(M, k) /\ now > M.node[k].dl

MSet(M, a) ==
  LET k  == a.k
      M0 == IF FixExpiredSet /\ MExpired(M, k) THEN MRemove(M, k) ELSE M
  IN IF MHas(M0, k)
     THEN IF a.nx THEN [m |-> M0, r |-> RExists]
          ELSE [m |-> [lst  |-> Front(M0.lst, k),
                       node |-> Ext(M0.node, k,
                                    [val |-> a.v,
                                     dl  |-> IF a.keep THEN M0.node[k].dl
                                             ELSE Deadline(now, SetTTL(a))])],
                r |-> ROk]
     ELSE LET nd == [val |-> a.v, dl |-> Deadline(now, SetTTL(a))]
              l1 == <<k>> \o M0.lst
          IN IF Len(l1) > size
             THEN LET t  == l1[Len(l1)]
                      l2 == SubSeq(l1, 1, Len(l1) - 1)
                  IN IF FixZeroSize
                     THEN [m |-> [lst |-> l2, node |-> Rem(Ext(M0.node, k, nd), t)], r |-> ROk]
                     ELSE \* pinned: the index entry is written after the tail removal
                          [m |-> [lst |-> l2, node |-> Ext(Rem(M0.node, t), k, nd)], r |-> ROk]
             ELSE [m |-> [lst |-> l1, node |-> Ext(M0.node, k, nd)], r |-> ROk]

MGet(M, a) ==
  LET k == a.k IN
  IF ~MHas(M, k) THEN [m |-> M, r |-> RMiss]
  ELSE IF now > M.node[k].dl THEN [m |-> MRemove(M, k), r |-> RMiss]
  ELSE IF a.rm THEN [m |-> MRemove(M, k), r |-> RHit(M.node[k].val)]
  ELSE [m |-> [lst  |-> Front(M.lst, k),
               node |-> IF a.upd
                        THEN Ext(M.node, k, [val |-> M.node[k].val, dl |-> Deadline(now, GetTTL(a))])
                        ELSE M.node],
        r |-> RHit(M.node[k].val)]

RECURSIVE MProbe(_, _, _, _)
MProbe(M, ks, i, acc) ==
  IF i > Len(ks) THEN [m |-> M, r |-> acc]
  ELSE LET g == MGet(M, PlainGet(ks[i])) IN MProbe(g.m, ks, i + 1, Append(acc, g.r))

MEmpty == [lst |-> <<>>, node |-> <<>>]
MStep(M, a) ==
  CASE a.op = "set"   -> MSet(M, a)
    [] a.op = "get"   -> MGet(M, a)
    [] a.op = "rem"   -> [m |-> IF MHas(M, a.k) THEN MRemove(M, a.k) ELSE M, r |-> ROk]
    [] a.op = "clear" -> [m |-> MEmpty, r |-> ROk]
    [] a.op = "probe" -> MProbe(M, a.ks, 1, <<>>)
    [] OTHER          -> [m |-> M, r |-> ROk]

(* ======================= 3. ttlrds.go over redis ====================== *)
(* key -> [val, ex]; redis removes a key when the clock reaches ex.        *)
EffDur(ttl)  == IF RdsUnit = "sec" THEN ttl ELSE 1    \* "ns": rounded up to the next instant
RLive(D, k)  == k \in DOMAIN D /\ now < D[k].ex
RSetEx(ttl)  == IF ttl > 0 THEN now + EffDur(ttl) ELSE Never

RSet(D, a) ==
  LET k == a.k IN
  IF a.nx
  THEN IF RLive(D, k) THEN [m |-> D, r |-> RExists]
       ELSE [m |-> Ext(D, k, [val |-> a.v, ex |-> RSetEx(SetTTL(a))]), r |-> ROk]
  ELSE [m |-> Ext(D, k, [val |-> a.v,
                         ex  |-> IF a.keep THEN (IF RLive(D, k) THEN D[k].ex ELSE Never)
                                 ELSE RSetEx(SetTTL(a))]),
        r |-> ROk]

RGet(D, a) ==
  LET k == a.k IN
  IF ~RLive(D, k) THEN [m |-> Rem(D, k), r |-> RMiss]
  ELSE IF a.rm THEN [m |-> Rem(D, k), r |-> RHit(D[k].val)]
  ELSE [m |-> IF a.upd
              THEN IF GetTTL(a) > 0
                   THEN Ext(D, k, [val |-> D[k].val, ex |-> now + EffDur(GetTTL(a))])
                   ELSE Rem(D, k)             \* EXPIRE key 0 deletes
              ELSE D,
        r |-> RHit(D[k].val)]

RECURSIVE RProbe(_, _, _, _)
RProbe(D, ks, i, acc) ==
  IF i > Len(ks) THEN [m |-> D, r |-> acc]
  ELSE LET g == RGet(D, PlainGet(ks[i])) IN RProbe(g.m, ks, i + 1, Append(acc, g.r))

RStep(D, a) ==
  CASE a.op = "set"   -> RSet(D, a)
    [] a.op = "get"   -> RGet(D, a)
    [] a.op = "rem"   -> [m |-> Rem(D, a.k), r |-> ROk]
    [] a.op = "clear" -> [m |-> <<>>, r |-> ROk]
    [] a.op = "probe" -> RProbe(D, a.ks, 1, <<>>)
    [] OTHER          -> [m |-> D, r |-> ROk]

(* ======================= transitions ================================== *)
InitWith(n, sz, dt, t0) ==
  /\ now = t0 /\ size = sz /\ dttl = dt /\ nk = n
  /\ cset = {[k \in 1..n |-> Absent]} /\ seen = {}
  /\ mem = MEmpty /\ rds = <<>> /\ reg = TRUE
  /\ last = [a |-> [op |-> "init", size |-> sz, dttl |-> dt, nk |-> n, now |-> t0],
             r |-> ROk, rr |-> ROk]

Call(a) ==
  /\ a.op # "tick"
  /\ LET ms == MStep(mem, a)
         rs == RStep(rds, a)
         W  == Post(World, a, ms.r)
     IN /\ mem' = ms.m
        /\ rds' = IF reg /\ InRegion(a) THEN rs.m ELSE <<>>   \* not tracked outside the region
        /\ cset' = W.cs /\ seen' = W.sn
        /\ last' = [a |-> a, r |-> ms.r, rr |-> rs.r]
  /\ reg' = (reg /\ InRegion(a))
  /\ UNCHANGED <<now, size, dttl, nk>>

Tick(a) ==
  /\ a.op = "tick"
  /\ now' = now + a.d
  /\ cset' = {NormAt(S, now + a.d) : S \in cset}
  /\ reg' = (reg /\ InRegion(a))
  /\ last' = [a |-> a, r |-> ROk, rr |-> ROk]
  /\ UNCHANGED <<size, dttl, nk, seen, mem, rds>>

Step(a) == Call(a) \/ Tick(a)

---------------------------------------------------------------------------
(* Bounded instance *)
CONSTANTS NK, ValSet, TTLSet, SizeSet, DTTLSet, TickSet

SetActs(VS) == [op : {"set"}, k : K, v : VS, ht : {TRUE}, ttl : TTLSet, nx : BOOLEAN, keep : BOOLEAN]
          \cup [op : {"set"}, k : K, v : VS, ht : {FALSE}, ttl : {0}, nx : BOOLEAN, keep : BOOLEAN]
GetActs  == [op : {"get"}, k : K, rm : BOOLEAN, upd : {TRUE}, ttl : TTLSet \cup {0}]
       \cup [op : {"get"}, k : K, rm : BOOLEAN, upd : {FALSE}, ttl : {0}]
RemActs  == [op : {"rem"}, k : K]
MiscActs == {[op |-> "clear"], [op |-> "probe", ks |-> [i \in K |-> i]]}
TickActs == [op : {"tick"}, d : TickSet]
Acts     == SetActs(ValSet) \cup GetActs \cup RemActs \cup MiscActs \cup TickActs

Init == \E sz \in SizeSet, dt \in DTTLSet : InitWith(NK, sz, dt, 0)
(* bound: a Set always stores a value different from the one the key holds (so that a stale *)
(* read is visible) - the smallest such value (a one-element ValSet switches this off)     *)
FreshVal(a) == a.op = "set" =>
                 a.v = IF 2 \in ValSet /\ MHas(mem, a.k) /\ ~MExpired(mem, a.k) /\ mem.node[a.k].val = 1
                       THEN 2 ELSE 1
Next == \E a \in Acts : FreshVal(a) /\ Step(a)
Spec == Init /\ [][Next]_allvars

(* ------------------------- properties -------------------------------- *)
TypeOK ==
  /\ now \in Nat /\ size \in Nat /\ dttl \in Int /\ seen \subseteq K
  /\ \A S \in cset : DOMAIN S = K /\ \A k \in K : ~S[k].live => S[k] = Absent

(* the contract explains everything the (repaired) in-memory algorithm does *)
Conforms == cset # {}

(* the contract never demands more hits than the bound allows (no dead end) *)
Sane == \A S \in cset : Cardinality(seen \cup MustSet(S)) <= size

(* eager expiry in the contract: nothing live is past its deadline, every   *)
(* key that must hit is live, at most `size` keys must hit                  *)
ContractShape ==
  \A S \in cset : /\ \A k \in K : S[k].live => now <= S[k].dl
                  /\ Cardinality(MustSet(S)) <= size

(* the algorithm: index and list hold the same keys, never more than size  *)
MemShape ==
  /\ DOMAIN mem.node = Elems(mem.lst)
  /\ Cardinality(DOMAIN mem.node) <= size
  /\ \A i, j \in 1..Len(mem.lst) : i # j => mem.lst[i] # mem.lst[j]

(* an expired key answers Set/Get exactly like a key that is not there *)
ExpiredAsAbsent ==
  \A a \in SetActs(ValSet) \cup GetActs :
     MExpired(mem, a.k) =>
        LET x == MStep(mem, a)
            y == MStep(MRemove(mem, a.k), a)
        IN x.r = y.r /\ (MHas(x.m, a.k) <=> MHas(y.m, a.k))
           /\ (MHas(x.m, a.k) => x.m.node[a.k] = y.m.node[a.k])

(* redis-backed and in-memory agree inside the comparison region *)
Agree == reg => last.rr = last.r

(* a remove-after-get hit consumes the key in every compatible state *)
Consumed ==
  [][LET a == last'.a IN
       (a.op = "get" /\ last'.r.c = "hit") =>
          IF a.rm THEN \A S \in cset' : ~S[a.k].live
          ELSE \A S \in cset' : S[a.k].live /\ S[a.k].val = last'.r.v]_allvars

(* Only the distance of a deadline from the clock matters, and nothing of a node whose    *)
(* deadline has passed except its place in the list: the view forgets the absolute clock, *)
(* which makes the reachable set finite without bounding the clock.                       *)
RelDl(d)  == IF d = Never THEN Never ELSE IF d < now THEN 0 - 1 ELSE d - now
RelS(S)   == [k \in K |-> IF S[k].live THEN [S[k] EXCEPT !.dl = RelDl(@)] ELSE S[k]]
RelN(n)   == IF n.dl < now THEN [val |-> 0, dl |-> 0 - 1] ELSE [val |-> n.val, dl |-> RelDl(n.dl)]
View == <<size, dttl, nk, {RelS(S) : S \in cset}, seen,
          mem.lst, [k \in DOMAIN mem.node |-> RelN(mem.node[k])],
          [k \in DOMAIN rds |-> [val |-> rds[k].val, ex |-> RelDl(rds[k].ex)]], reg>>
=============================================================================
