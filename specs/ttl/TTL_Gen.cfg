SPECIFICATION GSpec
CONSTANTS
  FixExpiredSet = TRUE
  FixZeroSize = TRUE
  RdsUnit = "sec"
  NK = 4
  ValSet = {}
  TTLSet = {0, 1, 2, 4}
  SizeSet = {0, 1, 2, 3}
  DTTLSet = {0, 3}
  TickSet = {1, 2}
  Depth = 18
  Region = FALSE
INVARIANTS Emit
CHECK_DEADLOCK FALSE
