----------------------------- MODULE TTL_Gen -----------------------------
(* Plan generation: `tlc -simulate` walks TTL (contract + both algorithm   *)
(* models) and writes, at depth Depth, the behaviour's [a, r, rr] records  *)
(* as one ndjson plan.  The harness executes the `a`s on the real caches.  *)
(* Region = TRUE restricts the walk to the mem/redis comparison region.    *)
(* Every Set stores a value never used before in the plan (the level).     *)
(* The action classes are separate disjuncts so that clock ticks are not   *)
(* drowned by the many option combinations of Set.                         *)
EXTENDS TTL, TLCExt, Json, IOUtils
CONSTANTS Depth, Region
ASSUME TLCSet(2, 0)

G(a) == (Region => InRegion(a)) /\ Step(a)
(* tlc -simulate first picks one of the disjuncts below uniformly, then one of its       *)
(* successors: repeating a disjunct is a weight (set 3, get 3, tick 2, remove 1, misc 1). *)
GSet  == \E a \in SetActs({TLCGet("level")}) : G(a)
GGet  == \E a \in GetActs : G(a)
GTick == \E a \in {x \in TickActs : now >= 0} : G(a)      \* (not a constant set: not split by d)
GNext ==
  \/ GSet \/ GSet \/ GSet
  \/ GGet \/ GGet \/ GGet
  \/ GTick \/ GTick
  \/ \E a \in RemActs : G(a)
  \/ \E a \in MiscActs : G(a)
GInit == \E sz \in SizeSet, dt \in DTTLSet : (Region => sz >= NK) /\ InitWith(NK, sz, dt, 100)
GSpec == GInit /\ [][GNext]_allvars

(* The simulator evaluates the invariant on every successor of the chosen disjunct; a plan *)
(* is written when the behaviour is at least Depth long and ends with the probe of all keys *)
(* (one successor), so every plan ends with the final probe.                                *)
Emit ==
  \/ TLCGet("level") < Depth
  \/ last.a.op # "probe"
  \/ /\ TLCSet(2, TLCGet(2) + 1)
     /\ ndJsonSerialize(IOEnv.VERIF_PLANDIR \o "/p" \o ToString(TLCGet(2)) \o ".ndjson",
                        [i \in 1..Len(Trace) |-> Trace[i].last])
=============================================================================
