SPECIFICATION Spec
CONSTANTS
  FixExpiredSet = TRUE
  FixZeroSize = TRUE
  RdsUnit = "ns"
  NK = 2
  ValSet = {1, 2}
  TTLSet = {1}
  SizeSet = {0, 1, 2}
  DTTLSet = {0, 2}
  TickSet = {1, 2}
INVARIANTS Agree
VIEW View
CHECK_DEADLOCK FALSE
