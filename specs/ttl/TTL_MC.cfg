SPECIFICATION Spec
CONSTANTS
  FixExpiredSet = TRUE
  FixZeroSize = TRUE
  RdsUnit = "sec"
  NK = 2
  ValSet = {1, 2}
  TTLSet = {1}
  SizeSet = {0, 1, 2}
  DTTLSet = {2}
  TickSet = {1, 2}
INVARIANTS TypeOK Conforms Sane ContractShape MemShape ExpiredAsAbsent Agree
PROPERTIES Consumed
VIEW View
CHECK_DEADLOCK FALSE
