SPECIFICATION TraceSpec
CONSTANTS
  FixExpiredSet = TRUE
  FixZeroSize = TRUE
  RdsUnit = "sec"
  NK = 0
  ValSet = {}
  TTLSet = {}
  SizeSet = {}
  DTTLSet = {}
  TickSet = {}
INVARIANTS Conforms
CONSTRAINT Mark
POSTCONDITION Accepted
VIEW TView
CHECK_DEADLOCK FALSE
