SPECIFICATION Spec
CONSTANTS
  FixExpiredSet = FALSE
  FixZeroSize = TRUE
  RdsUnit = "sec"
  NK = 2
  ValSet = {1, 2}
  TTLSet = {1}
  SizeSet = {0, 1, 2}
  DTTLSet = {0, 2}
  TickSet = {1, 2}
INVARIANTS Conforms
VIEW View
CHECK_DEADLOCK FALSE
