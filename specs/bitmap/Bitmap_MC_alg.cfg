SPECIFICATION SpecAlg
CONSTANTS
  WBits = 4
  Deviation = "none"
  UnivSet = {4, 8}
  NH = 2
  IdxSet = {}
  WSet = {}
  ThrSet = {}
  PosSet = {}
INVARIANTS TypeOK
PROPERTIES Algebra EqualOK ReadOnly
VIEW View
CHECK_DEADLOCK FALSE
