SPECIFICATION Spec
CONSTANTS
  WBits = 4
  Deviation = "chainleft"
  UnivSet = {4, 8}
  NH = 1
  IdxSet <- MCIdx
  WSet = {"t4", "t22"}
  ThrSet = {0, 1, 2, 4}
  PosSet = {2}
INVARIANTS TypeOK
PROPERTIES SetExact RunExact Counts Algebra EqualOK ReadOnly IterMeaning IterRefines
VIEW View
CHECK_DEADLOCK FALSE
