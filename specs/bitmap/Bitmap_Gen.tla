---------------------------- MODULE Bitmap_Gen ----------------------------
(* Plan generation: `tlc -simulate` walks Bitmap.tla with the real geometry  *)
(* (64-bit words, universes 64 and 1024, three handles) and writes the       *)
(* action records of each behaviour as one ndjson plan.  Mutations use       *)
(* boundary indices and patterned fills (popcounts around the sparse         *)
(* threshold); for an iterator call the plan fixes handle, direction and n   *)
(* (relative to the current Len) and draws width / pos / add at random, so   *)
(* that mutations and reads stay balanced.                                   *)
EXTENDS Bitmap, TLCExt, Json, IOUtils
CONSTANT Depth

GenIdx == {-32768, -1025, -1024, -65, -64, -1, 0, 1, 9, 62, 63, 64, 65, 127, 128, 255, 256,
           959, 1022, 1023, 1024, 1025, 1087, 32767}

Asc(S) == SetToSortSeq(S, LAMBDA x, y : x < y)
FillSets ==
  {0..8, 0..9, 0..10, 55..63, 54..63, {x \in U : x % 2 = 0}, {x \in U : x % 7 = 3},
   {x \in U : x % 64 = 63}, {x \in U : x % 64 = 0}, U, U \ {0}, U \ {univ - 1}, {univ - 1}}

GenIter ==
  UNION {UNION {UNION {UNION {
    {[op |-> "iter", h |-> h, w |-> w, dir |-> d, n |-> n, pos |-> p, add |-> ad,
      len |-> p + Count(bm[h], n) + (n % 3), sent |-> [i \in 1..WidthTab[w].nl |-> WidthTab[w].base - 7]]
        : d \in {"f", "r"}, n \in NSet(bm[h])}
    : ad \in {RandomElement(AddSet(w))}} : p \in {RandomElement(PosSet)}} : w \in {RandomElement(Widths)}}
    : h \in Hs}

GenGetN ==
  UNION {UNION {{[op |-> "getn", h |-> h, w |-> w, dir |-> d, n |-> n]
                   : d \in {"f", "r"}, n \in {x \in NSet(bm[h]) : x >= 0}}
                : w \in {RandomElement(Widths)}} : h \in Hs}

GenActs ==
       [op : {"set", "unset"}, h : Hs, i : Idx]
  \cup {[op |-> o, h |-> h,
          lo |-> RandomElement(IF univ = WBits THEN {0, 3, 60} ELSE {0, -5, 60, 900, 1000}),
          cnt |-> RandomElement(IF univ = WBits THEN {0, 1, 63, 64, 65} ELSE {0, 1, 64, 65, 255, 256, 257, 1030}),
          step |-> RandomElement({1, 2, 3})] : o \in {"setrun", "unsetrun"}, h \in Hs}
  \cup {[op |-> "fill", h |-> h, ms |-> Asc(S)] : h \in Hs, S \in FillSets}
  \cup [op : {"len", "nlen"}, h : Hs]
  \cup [op : {"rev"}, h : Hs, d : Hs]
  \cup [op : {"and", "or", "orrev"}, h : Hs, g : Hs, d : Hs]
  \cup [op : {"equal"}, h : Hs, g : Hs]
  \cup GenIter \cup GenGetN

GenNext == \E a \in GenActs : Step(a)
GenSpec == Init /\ [][GenNext]_allvars

(* Invariants are evaluated on every candidate successor during simulation; one plan per   *)
(* behaviour is wanted, so the first candidate seen at level Depth of each behaviour emits  *)
(* the path leading to it (without the candidate itself, whose choice is not random).       *)
ASSUME TLCSet(2, 0) /\ TLCSet(3, 1)
Emit ==
  IF TLCGet("level") < Depth THEN TLCSet(3, 1)            \* (re-)arm while the behaviour grows
  ELSE \/ TLCGet(3) = 0                                   \* this behaviour has been written
       \/ /\ TLCSet(3, 0)
          /\ TLCSet(2, TLCGet(2) + 1)
          /\ ndJsonSerialize(IOEnv.VERIF_PLANDIR \o "/p" \o ToString(TLCGet(2)) \o ".ndjson",
                             [i \in 1..(Len(Trace) - 1) |-> Trace[i].last])
=============================================================================
