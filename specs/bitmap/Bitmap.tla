------------------------------- MODULE Bitmap -------------------------------
(***************************************************************************)
(* neptune bitmap1024: Bit1024 (16 words of 64 bits) and Bit64 (one word)  *)
(* as a set of integers in [0, univ).                                      *)
(*                                                                         *)
(* The state is what the PROPERTY talks about: one set of members per      *)
(* bitmap handle.  One action per public method, described by an action    *)
(* record `a` (the record the Go harness logs): Do(a) is the transition,   *)
(* Reply(a) the value the method returns -- a function of the state before *)
(* the call.  Integers written by the iterators live in a fixed width and  *)
(* wrap around; a value of a width is its two's-complement bit pattern cut *)
(* into `nl` limbs of `base` (least significant limb first), so that int8, *)
(* int16, int32, uint32 and int64 are handled by one definition (and TLC's *)
(* 32-bit integers are never exceeded).                                    *)
(*                                                                         *)
(* The second half is a model of how the CODE keeps and walks a bitmap     *)
(* (words of WBits bits, truncated division in the Set guard, a dense and  *)
(* a sparse traversal selected by popcount > threshold, the cursor/left    *)
(* book-keeping that chains the words).  The exhaustive run proves that    *)
(* this algorithm refines the property for every set, every n/pos/add and  *)
(* every threshold within the scaled-down constants; named deviations      *)
(* (Deviation # "none") show that the check is not vacuous.                *)
(***************************************************************************)
EXTENDS Integers, Sequences, FiniteSets, SequencesExt, TLC

CONSTANTS
  WBits,      \* bits per word: 64 in the code, 4 in the exhaustive runs
  Deviation   \* "none" | "setguard" | "chainleft" | "revstart" | "nocursor"

VARIABLES
  bm,     \* handle -> set of members
  univ,   \* size of the universe: WBits (word layer, Bit64) or 16*WBits (Bit1024)
  last    \* action record of the latest step (output only)

vars == <<bm, univ>>
allvars == <<vars, last>>

Hs      == DOMAIN bm
U       == 0..(univ - 1)
InU(i)  == i >= 0 /\ i < univ

(* ----------------------------- widths ---------------------------------- *)
WidthTab ==
  [i8  |-> [nl |-> 1, base |-> 256],
   i16 |-> [nl |-> 1, base |-> 65536],
   i32 |-> [nl |-> 2, base |-> 65536],
   u32 |-> [nl |-> 2, base |-> 65536],
   i64 |-> [nl |-> 4, base |-> 65536],
   t4  |-> [nl |-> 1, base |-> 16],      \* scaled-down widths of the exhaustive runs:
   t22 |-> [nl |-> 2, base |-> 4]]       \* 4 bits in one limb / in two limbs (carry)

(* v + m in the width of v (wrap-around: the carry out of the last limb is dropped) *)
RECURSIVE AddV(_, _, _)
AddV(v, m, base) ==
  IF v = <<>> THEN <<>>
  ELSE <<(v[1] + m) % base>> \o AddV(Tail(v), (v[1] + m) \div base, base)

Zero(w) == [i \in 1..WidthTab[w].nl |-> 0]

(* ------------------------ the property: denotation --------------------- *)
Card(S) == Cardinality(S)
Ordered(S, dir) == IF dir = "f" THEN SetToSortSeq(S, LAMBDA x, y : x < y)
                                ELSE SetToSortSeq(S, LAMBDA x, y : x > y)
Count(S, n) == IF n <= 0 THEN 0 ELSE IF n < Card(S) THEN n ELSE Card(S)

(* the values an iterator writes: the first Count members in direction order, each + add *)
IterVals(S, w, dir, n, add) ==
  LET o == Ordered(S, dir) IN
  [j \in 1..Count(S, n) |-> AddV(add, o[j], WidthTab[w].base)]

(* the slice after the call, flattened limb by limb: [pos, pos+count) holds the values,     *)
(* every other element still holds what it held before (the harness pre-fills with a.sent; *)
(* a caller that accumulates several calls in one slice logs the slice before as a.pre)     *)
SliceAfter(a, vals) ==
  LET nl == WidthTab[a.w].nl IN
  [x \in 1..(a.len * nl) |->
     LET j == (x - 1) \div nl
         li == ((x - 1) % nl) + 1
     IN IF j >= a.pos /\ j < a.pos + Len(vals) THEN vals[j - a.pos + 1][li]
        ELSE IF "pre" \in DOMAIN a THEN a.pre[x]      \* an accumulating caller: what the slice held
        ELSE a.sent[li]]

FlatVals(w, vals) ==
  LET nl == WidthTab[w].nl IN
  [x \in 1..(Len(vals) * nl) |-> vals[((x - 1) \div nl) + 1][((x - 1) % nl) + 1]]

Compl(S) == U \ S

(* the in-range indices of the run lo, lo+step, ..., lo+(cnt-1)*step *)
InRun(a) == {i \in U : i >= a.lo /\ (i - a.lo) % a.step = 0 /\ (i - a.lo) \div a.step < a.cnt}

Reply(a) ==
  CASE a.op \in {"set", "unset", "setrun", "unsetrun", "fill", "and", "or", "orrev", "rev"} -> 0
    [] a.op = "len"   -> Card(bm[a.h])
    [] a.op = "nlen"  -> univ - Card(bm[a.h])
    [] a.op = "equal" -> bm[a.h] = bm[a.g]
    [] a.op = "iter"  -> LET vals == IterVals(bm[a.h], a.w, a.dir, a.n, a.add)
                         IN [c |-> Len(vals), out |-> SliceAfter(a, vals)]
    [] a.op = "getn"  -> FlatVals(a.w, IterVals(bm[a.h], a.w, a.dir, a.n, Zero(a.w)))
    [] OTHER          -> 0

Put(h, S) == bm' = [bm EXCEPT ![h] = S] /\ UNCHANGED univ

Do(a) ==
  CASE a.op = "set"   -> Put(a.h, IF InU(a.i) THEN bm[a.h] \cup {a.i} ELSE bm[a.h])
    [] a.op = "unset" -> Put(a.h, bm[a.h] \ {a.i})
    \* a run of cnt calls Set / Unset(lo), (lo+step), ..., logged as one run-length-encoded event
    [] a.op = "setrun"   -> a.step >= 1 /\ a.cnt >= 0 /\ Put(a.h, bm[a.h] \cup InRun(a))
    [] a.op = "unsetrun" -> a.step >= 1 /\ a.cnt >= 0 /\ Put(a.h, bm[a.h] \ InRun(a))
    [] a.op = "fill"  -> \* the harness stores raw words: bit j of word k <=> member WBits*k+j
                         /\ \A i \in 1..Len(a.ms) : InU(a.ms[i])
                         /\ Put(a.h, {a.ms[i] : i \in 1..Len(a.ms)})
    [] a.op = "and"   -> Put(a.d, bm[a.h] \cap bm[a.g])
    [] a.op = "or"    -> Put(a.d, bm[a.h] \cup bm[a.g])
    [] a.op = "rev"   -> Put(a.d, Compl(bm[a.h]))
    [] a.op = "orrev" -> Put(a.d, Compl(bm[a.h] \cup bm[a.g]))
    [] a.op \in {"len", "nlen", "equal"} -> UNCHANGED vars
    [] a.op = "iter"  -> \* the caller must provide room; the property is silent otherwise
                         /\ a.pos >= 0 /\ a.pos + Count(bm[a.h], a.n) <= a.len
                         /\ ("pre" \in DOMAIN a) => Len(a.pre) = a.len * WidthTab[a.w].nl
                         /\ UNCHANGED vars
    [] a.op = "getn"  -> a.n >= 0 /\ UNCHANGED vars      \* make([]T, n) with n < 0 is not in the property
    [] OTHER -> FALSE

Step(a) == Do(a) /\ last' = a

InitWith(u, nh) ==
  /\ univ = u /\ bm = [h \in 1..nh |-> {}]
  /\ last = [op |-> "init", univ |-> u, nh |-> nh]

(* ======================================================================= *)
(* Model of the code (bitmap1024/internal/bit64.go, bitmap1024/bit1024.go) *)
(* ======================================================================= *)
K == univ \div WBits
Word(S, k) == {m - WBits * k : m \in {x \in S : x \div WBits = k}}
OfWords(f) == UNION {{WBits * k + j : j \in f[k]} : k \in DOMAIN f}
FullWord == 0..(WBits - 1)

TDiv(i, d) == IF i >= 0 THEN i \div d ELSE -((-i) \div d)     \* Go: truncated towards zero
TRem(i, d) == i - d * TDiv(i, d)
ByteOf(x)  == x % 256                                          \* byte(x)

Limit == IF Deviation = "setguard" THEN WBits - 2 ELSE WBits - 1

(* Bit64.Set(i byte): if i <= 63;  Bit1024.SetI32/SetI16: index := i/64 in [0,16), mod := byte(i%64) *)
ImplSet(S, i, on) ==
  LET upd(m) == IF on THEN S \cup {m} ELSE S \ {m} IN
  IF univ = WBits
  THEN IF i <= Limit THEN upd(i) ELSE S
  ELSE LET idx == TDiv(i, WBits) IN
       IF idx >= 0 /\ idx < K
       THEN LET mod == ByteOf(TRem(i, WBits)) IN
            IF mod <= Limit THEN upd(WBits * idx + mod) ELSE S
       ELSE S

MinOf(S) == CHOOSE x \in S : \A y \in S : x <= y
MaxOf(S) == CHOOSE x \in S : \A y \in S : x >= y

(* dense branch: test every bit position in direction order *)
RECURSIVE Dense(_, _, _, _, _, _)
Dense(i, w, c, n, l, dir) ==
  IF i < 0 \/ i >= WBits THEN <<>>
  ELSE LET nx == IF dir = "f" THEN i + 1 ELSE i - 1 IN
       IF i \in w
       THEN IF c >= n \/ c >= l THEN <<>>
            ELSE IF w \ {i} = {} THEN <<i>>
                 ELSE <<i>> \o Dense(nx, w \ {i}, c + 1, n, l, dir)
       ELSE Dense(nx, w, c, n, l, dir)

(* sparse branch: TrailingZeros64 / Len64-1 of what is left *)
RECURSIVE Sparse(_, _, _, _, _)
Sparse(w, c, n, l, dir) ==
  IF w = {} THEN <<>>
  ELSE LET i == IF dir = "f" THEN MinOf(w) ELSE MaxOf(w) IN
       IF c >= n \/ c >= l THEN <<>>
       ELSE <<i>> \o Sparse(w \ {i}, c + 1, n, l, dir)

(* bit positions one word hands out *)
WordIter(w, dir, thr, n) ==
  LET l == Card(w) IN
  IF l = 0 THEN <<>>
  ELSE IF l > thr THEN Dense(IF dir = "f" THEN 0 ELSE WBits - 1, w, 0, n, l, dir)
       ELSE Sparse(w, 0, n, l, dir)

WriteAt(s, cursor, vals) ==
  [j \in 1..Len(s) |-> IF j > cursor /\ j <= cursor + Len(vals) THEN vals[j - cursor] ELSE s[j]]

(* Bit1024.IterAsXX / RIterAsXX: iterN, left, cursor over the words *)
RECURSIVE Chain(_, _, _, _, _, _, _)
Chain(ks, st, S, w, dir, thr, a) ==
  IF ks = <<>> \/ st.iterN >= a.n THEN st
  ELSE LET k    == ks[1]
           base == WidthTab[w].base
           wadd == AddV(a.add, WBits * k, base)                       \* B64*i + add, in the width
           e    == WordIter(Word(S, k), dir, thr, st.left)
           vals == [j \in 1..Len(e) |-> AddV(wadd, e[j], base)]       \* i + add
           it   == st.iterN + Len(e)
       IN Chain(Tail(ks),
                [bad    |-> st.bad \/ st.cursor + Len(e) > Len(st.s),   \* s[cursor]: index out of range
                 iterN  |-> it,
                 left   |-> IF Deviation = "chainleft" THEN a.n ELSE a.n - it,
                 cursor |-> IF Deviation = "nocursor" THEN st.cursor ELSE st.cursor + Len(e),
                 s      |-> WriteAt(st.s, st.cursor, vals)],
                S, w, dir, thr, a)

WordOrder(dir) ==
  IF dir = "f" THEN [i \in 1..K |-> i - 1]
  ELSE IF Deviation = "revstart" /\ K > 1 THEN [i \in 1..(K - 1) |-> K - 1 - i]
       ELSE [i \in 1..K |-> K - i]

(* the slice is a sequence of values here; a.len elements pre-filled with a.sent *)
ImplIterSt(S, a, thr) ==
  LET s0 == [j \in 1..a.len |-> a.sent] IN
  IF univ = WBits
  THEN LET e    == WordIter(S, a.dir, thr, a.n)
           vals == [j \in 1..Len(e) |-> AddV(a.add, e[j], WidthTab[a.w].base)]
       IN [bad |-> a.pos + Len(e) > a.len, iterN |-> Len(e), s |-> WriteAt(s0, a.pos, vals)]
  ELSE Chain(WordOrder(a.dir), [bad |-> FALSE, iterN |-> 0, left |-> a.n, cursor |-> a.pos, s |-> s0],
             S, a.w, a.dir, thr, a)

ImplIter(S, a, thr) ==
  LET st == ImplIterSt(S, a, thr) IN
  IF st.bad THEN [c |-> -1, out |-> <<>>]             \* the code would panic
  ELSE [c |-> st.iterN, out |-> FlatVals(a.w, st.s)]

(* GetNAsXX(n): s := make([]T, n); c := Iter(s, 0, 0, n); s[:c] *)
ImplGetN(S, a, thr) ==
  LET b  == [w |-> a.w, dir |-> a.dir, n |-> a.n, pos |-> 0, add |-> Zero(a.w),
             len |-> a.n, sent |-> Zero(a.w)]
      st == ImplIterSt(S, b, thr)
  IN IF st.bad THEN <<-1>> ELSE FlatVals(a.w, SubSeq(st.s, 1, st.iterN))

(* word-wise algebra and counting *)
ImplWords(S)     == [k \in 0..(K - 1) |-> Word(S, k)]
ImplAnd(S, T)    == OfWords([k \in 0..(K - 1) |-> Word(S, k) \cap Word(T, k)])
ImplOr(S, T)     == OfWords([k \in 0..(K - 1) |-> Word(S, k) \cup Word(T, k)])
ImplRev(S)       == OfWords([k \in 0..(K - 1) |-> FullWord \ Word(S, k)])
ImplOrRev(S, T)  == OfWords([k \in 0..(K - 1) |-> FullWord \ (Word(S, k) \cup Word(T, k))])
ImplEqual(S, T)  == \A k \in 0..(K - 1) : Word(S, k) = Word(T, k)
RECURSIVE ImplLenFrom(_, _)
ImplLenFrom(S, k) == IF k >= K THEN 0 ELSE Card(Word(S, k)) + ImplLenFrom(S, k + 1)

---------------------------------------------------------------------------
(* Bounded instance for exhaustive checking *)
CONSTANTS
  UnivSet,   \* universes, multiples of WBits
  NH,        \* number of handles
  IdxSet,    \* indices offered to Set/Unset (in and out of range)
  WSet,      \* widths
  ThrSet,    \* sparse thresholds the refinement is checked under
  PosSet     \* slice positions

AddSet(w) ==
  LET t == WidthTab[w] IN
  IF t.nl = 1 THEN {<<0>>, <<1>>, <<t.base - 3>>, <<(t.base \div 2) - 2>>}
  ELSE {[i \in 1..t.nl |-> 0], [i \in 1..t.nl |-> t.base - 1],                  \* 0, -1
        [i \in 1..t.nl |-> IF i = 1 THEN t.base - 2 ELSE 1],                    \* carry into limb 2
        [i \in 1..t.nl |-> IF i = t.nl THEN (t.base \div 2) - 1 ELSE t.base - 1]} \* largest signed value

(* int8 exists on the word layer only *)
Widths == IF univ = WBits THEN WSet ELSE WSet \ {"i8"}

NSet(S) == {-1, 0, 1, Card(S) - 1, Card(S), Card(S) + 1, 3 * WBits * 16}

IterActs(hs) ==
  UNION {{[op |-> "iter", h |-> h, w |-> w, dir |-> d, n |-> n, pos |-> p, add |-> ad,
           len |-> p + Count(bm[h], n) + 1, sent |-> [i \in 1..WidthTab[w].nl |-> WidthTab[w].base - 1]]
            : h \in hs, d \in {"f", "r"}, n \in UNION {NSet(bm[x]) : x \in hs}, p \in PosSet, ad \in AddSet(w)}
         : w \in Widths}

GetNActs(hs) ==
  {[op |-> "getn", h |-> h, w |-> w, dir |-> d, n |-> n]
     : h \in hs, w \in Widths, d \in {"f", "r"}, n \in {x \in UNION {NSet(bm[y]) : y \in hs} : x >= 0}}

(* the word layer takes a byte *)
Idx == IF univ = WBits THEN {i \in IdxSet : i >= 0 /\ i <= 255} ELSE IdxSet

Acts ==
       [op : {"set", "unset"}, h : Hs, i : Idx]
  \cup [op : {"setrun", "unsetrun"}, h : Hs, lo : IF univ = WBits THEN {0, 3} ELSE {-2, 0, 3},
        cnt : IF univ = WBits THEN {0, 1, 3, 80} ELSE {0, 1, 3, 300}, step : {1, 3}]      \* word layer: bytes
  \cup [op : {"len", "nlen"}, h : Hs]
  \cup [op : {"rev"}, h : Hs, d : Hs]
  \cup [op : {"and", "or", "orrev"}, h : Hs, g : Hs, d : Hs]
  \cup [op : {"equal"}, h : Hs, g : Hs]
  \cup IterActs({1}) \cup GetNActs({1})        \* handles are interchangeable: iterate handle 1

Init == \E u \in UnivSet : InitWith(u, NH)
Next == \E a \in Acts : Step(a)
Spec == Init /\ [][Next]_allvars

(* algebra on every ordered pair of sets: start anywhere, one binary / unary step *)
AlgActs ==
       [op : {"and", "or", "orrev"}, h : {1}, g : {NH}, d : Hs]
  \cup [op : {"rev"}, h : {1}, d : Hs]
  \cup [op : {"equal"}, h : {1}, g : {NH}]
InitAny == \E u \in UnivSet : \E f \in [1..NH -> SUBSET (0..(u - 1))] :
             univ = u /\ bm = f /\ last = [op |-> "init", univ |-> u, nh |-> NH]
SpecAlg == InitAny /\ [][\E a \in AlgActs : Step(a)]_allvars

(* ------------------------------ properties ----------------------------- *)
TypeOK == \A h \in Hs : bm[h] \subseteq U

Others(h) == \A x \in Hs \ {h} : bm'[x] = bm[x]

(* setting / clearing an in-range index changes membership of exactly that index;  *)
(* out-of-range indices are ignored; the code's guard arithmetic does just that    *)
SetExact ==
  [][LET a == last' IN a.op \in {"set", "unset"} =>
       /\ \A m \in U : (m \in bm'[a.h]) = (IF m = a.i THEN a.op = "set" ELSE m \in bm[a.h])
       /\ bm'[a.h] \subseteq U
       /\ Others(a.h)
       /\ ImplSet(bm[a.h], a.i, a.op = "set") = bm'[a.h]
  ]_allvars

(* a run is the same as its single calls one after the other (through the code's guard) *)
RECURSIVE RunFrom(_, _, _, _)
RunFrom(S, a, k, on) ==
  IF k >= a.cnt \/ a.lo + k * a.step > univ + 2 * WBits THEN S      \* nothing beyond changes anything
  ELSE RunFrom(ImplSet(S, a.lo + k * a.step, on), a, k + 1, on)
RunExact ==
  [][LET a == last' IN a.op \in {"setrun", "unsetrun"} =>
       /\ bm'[a.h] = RunFrom(bm[a.h], a, 0, a.op = "setrun")
       /\ bm'[a.h] \subseteq U
       /\ Others(a.h)
  ]_allvars

Counts ==
  [][LET a == last' IN a.op \in {"len", "nlen"} =>
       /\ Reply(a) = IF a.op = "len" THEN Card({m \in U : m \in bm[a.h]})
                                     ELSE Card({m \in U : m \notin bm[a.h]})
       /\ ImplLenFrom(bm[a.h], 0) = Card(bm[a.h])
  ]_allvars

Algebra ==
  [][LET a == last' IN a.op \in {"and", "or", "rev", "orrev"} =>
       /\ Others(a.d)
       /\ \A m \in U : (m \in bm'[a.d]) =
            CASE a.op = "and"   -> m \in bm[a.h] /\ m \in bm[a.g]
              [] a.op = "or"    -> m \in bm[a.h] \/ m \in bm[a.g]
              [] a.op = "rev"   -> m \notin bm[a.h]
              [] a.op = "orrev" -> ~(m \in bm[a.h] \/ m \in bm[a.g])
       /\ bm'[a.d] \subseteq U
       /\ bm'[a.d] = CASE a.op = "and"   -> ImplAnd(bm[a.h], bm[a.g])
                       [] a.op = "or"    -> ImplOr(bm[a.h], bm[a.g])
                       [] a.op = "rev"   -> ImplRev(bm[a.h])
                       [] a.op = "orrev" -> ImplOrRev(bm[a.h], bm[a.g])
  ]_allvars

EqualOK ==
  [][LET a == last' IN a.op = "equal" =>
       /\ Reply(a) = (\A m \in U : (m \in bm[a.h]) = (m \in bm[a.g]))
       /\ Reply(a) = ImplEqual(bm[a.h], bm[a.g])
  ]_allvars

ReadOnly ==
  [][last'.op \in {"len", "nlen", "equal", "iter", "getn"} => UNCHANGED vars]_allvars

(* what an iterator returns, said without sorting: the j-th value written is add + the    *)
(* member that has exactly j-1 members before it in direction order; count = min(n, Len) *)
Before(S, m, dir) == IF dir = "f" THEN {x \in S : x < m} ELSE {x \in S : x > m}
IterMeaning ==
  [][LET a == last' IN a.op = "iter" =>
       LET S == bm[a.h]
           r == Reply(a)
           nl == WidthTab[a.w].nl
           el(j) == SubSeq(r.out, j * nl + 1, j * nl + nl)            \* element j (0-based)
       IN /\ r.c = IF a.n <= 0 THEN 0 ELSE IF a.n < Card(S) THEN a.n ELSE Card(S)
          /\ Len(r.out) = a.len * nl
          /\ \A j \in 0..(a.len - 1) :
               IF j >= a.pos /\ j < a.pos + r.c
               THEN \E m \in S : /\ Card(Before(S, m, a.dir)) = j - a.pos
                                 /\ el(j) = AddV(a.add, m, WidthTab[a.w].base)
               ELSE el(j) = a.sent
  ]_allvars

(* the code's traversal (both branches, any threshold, word chaining) yields exactly that *)
IterRefines ==
  [][LET a == last' IN
       /\ a.op = "iter" => LET r == Reply(a) IN \A thr \in ThrSet : ImplIter(bm[a.h], a, thr) = r
       /\ a.op = "getn" => LET r == Reply(a) IN \A thr \in ThrSet : ImplGetN(bm[a.h], a, thr) = r
  ]_allvars

(* the same as state invariants (reads do not change the state, so they can be quantified *)
(* over in place; TLC evaluates invariants in parallel, action properties it does not)    *)
IterRefinesInv ==
  /\ \A a \in IterActs({1}) : a.pos + Count(bm[a.h], a.n) <= a.len =>
        LET r == Reply(a) IN \A thr \in ThrSet : ImplIter(bm[a.h], a, thr) = r
  /\ \A a \in GetNActs({1}) : LET r == Reply(a) IN \A thr \in ThrSet : ImplGetN(bm[a.h], a, thr) = r

View == vars

(* structured constants for the .cfg files (negative numbers cannot be written there) *)
MCIdx == (-9..12) \cup {100, 255}
MCIdxBig == (-13..17) \cup {100, 255, 256, 259}
=============================================================================
