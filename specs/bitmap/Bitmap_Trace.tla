--------------------------- MODULE Bitmap_Trace ---------------------------
(* Validates ndjson traces recorded from bitmap1024.Bit1024 / Bit64 against *)
(* Bitmap.tla.  Events:                                                     *)
(*   reset {univ, nh}        fresh (empty) bitmaps 1..nh; separates traces  *)
(*   call  {a, r, obs}       one method call: action record, reply, and the *)
(*                           delta of the real state: for every handle      *)
(*                           whose raw words differ from before the call,   *)
(*                           {h, ms} with the members read off the words    *)
(*   panic {a, msg}          the call panicked: no action explains it       *)
(* TLC integers are 32 bit: an iterator budget n beyond +-2^30 is logged    *)
(* clamped to +-2^30 (the property uses n only through min(max(n,0), Len),  *)
(* Len <= 1024, so the meaning is the same); the real 64-bit argument the   *)
(* call received is kept in a.nreal / a.ncls for the reader of a replay.    *)
(* The sparse threshold in force is logged inside `a` (field thr) but no    *)
(* definition reads it: a reply that depends on it is rejected.             *)
EXTENDS Bitmap, Json, IOUtils

TraceLog == ndJsonDeserialize(IOEnv.VERIF_TRACE)

VARIABLES l
tvars == <<allvars, l>>

AsSet(s) == {s[i] : i \in 1..Len(s)}

(* bm1 is bm0 overwritten by the logged deltas *)
ObsOK(obs, bm0, bm1) ==
  LET ch == {obs[i].h : i \in 1..Len(obs)} IN
  /\ ch \subseteq DOMAIN bm0
  /\ \A i \in 1..Len(obs) : bm1[obs[i].h] = AsSet(obs[i].ms)
  /\ \A h \in DOMAIN bm0 \ ch : bm1[h] = bm0[h]

TraceInit == l = 1 /\ InitWith(WBits, 1)

TReset(e) ==
  /\ univ' = e.univ /\ bm' = [h \in 1..e.nh |-> {}]
  /\ last' = [op |-> "init"]

TCall(e) ==
  /\ Step(e.a)
  /\ e.r = Reply(e.a)
  /\ ObsOK(e.obs, bm, bm')

Consume ==
  /\ l <= Len(TraceLog) /\ l' = l + 1
  /\ LET e == TraceLog[l] IN
       CASE e.ev = "reset" -> TReset(e)
         [] e.ev = "call"  -> TCall(e)
         [] OTHER -> FALSE          \* panic, crash

TraceNext == Consume
TraceSpec == TraceInit /\ [][TraceNext]_tvars

(* high-water mark of l in TLC register 1 (needs -workers 1) *)
ASSUME TLCSet(1, 0)
Mark == TLCSet(1, IF l > TLCGet(1) THEN l ELSE TLCGet(1))
Accepted == PrintT(<<"MARK", TLCGet(1), Len(TraceLog)>>) /\ TLCGet(1) = Len(TraceLog) + 1

TView == <<bm, univ, l>>
=============================================================================
