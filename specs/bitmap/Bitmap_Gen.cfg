SPECIFICATION GenSpec
CONSTANTS
  WBits = 64
  Deviation = "none"
  UnivSet = {64, 1024}
  NH = 3
  IdxSet <- GenIdx
  WSet = {"i8", "i16", "i32", "u32", "i64"}
  ThrSet = {}
  PosSet = {0, 1, 5}
  Depth = 15
INVARIANTS Emit
CHECK_DEADLOCK FALSE
