SPECIFICATION Spec
CONSTANTS
  WBits = 4
  Deviation = "none"
  UnivSet = {4, 8, 12}
  NH = 1
  IdxSet <- MCIdxBig
  WSet = {"t4", "t22"}
  ThrSet = {0, 1, 2, 3, 4}
  PosSet = {1}
INVARIANTS TypeOK IterRefinesInv
PROPERTIES SetExact RunExact Counts Algebra EqualOK ReadOnly IterMeaning
VIEW View
CHECK_DEADLOCK FALSE
