SPECIFICATION TraceSpec
CONSTANTS
  WBits = 64
  Deviation = "none"
  UnivSet = {}
  NH = 1
  IdxSet = {}
  WSet = {}
  ThrSet = {}
  PosSet = {}
INVARIANTS TypeOK
CONSTRAINT Mark
POSTCONDITION Accepted
VIEW TView
CHECK_DEADLOCK FALSE
