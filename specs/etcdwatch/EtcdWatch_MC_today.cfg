SPECIFICATION Spec
CONSTANTS
  Keys = {1, 2}
  Vals = {1}
  MaxHist = 3
  MaxSess = 2
  Judge = FALSE
  DUseStartRev = FALSE
  DCumulative = TRUE
  DSnapDeletes = FALSE
  DTolerant = TRUE
INVARIANTS TypeOK Clean
VIEW View
CHECK_DEADLOCK FALSE
