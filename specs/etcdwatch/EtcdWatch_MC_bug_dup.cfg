SPECIFICATION Spec
CONSTANTS
  Keys = {1}
  Vals = {1}
  MaxHist = 3
  MaxSess = 2
  Judge = FALSE
  DUseStartRev = TRUE
  DCumulative = TRUE
  DSnapDeletes = TRUE
  DTolerant = FALSE
INVARIANTS TypeOK NoDup
VIEW View
CHECK_DEADLOCK FALSE
