--------------------------- MODULE EtcdWatch_Gen ---------------------------
(* Plan generation for X04: `tlc -simulate` walks EtcdWatch with the model of  *)
(* the client; a plan is the sequence of action records.  The executor plays   *)
(* the environment records (start, write, flush, kill, serveget, servewatch,   *)
(* recv, cancel, stop, end) and ignores the client's (getcall, watchcall, ret, *)
(* stopret, nop): what the real client does is what gets logged.               *)
EXTENDS EtcdWatch, TLCExt, Json, IOUtils
CONSTANT Depth
GenNext == Next \/ (ended = "over" /\ last' = [op |-> "nop"] /\ UNCHANGED <<svars, bad, design>>)
GenSpec == Init /\ [][GenNext]_allvars
ASSUME TLCSet(2, 0)
BehaviourId == TLCGet("stats").behavior.id
Emit ==
  \/ TLCGet("level") < Depth
  \/ TLCGet(2) = BehaviourId
  \/ /\ TLCSet(2, BehaviourId)
     /\ ndJsonSerialize(IOEnv.VERIF_PLANDIR \o "/p" \o ToString(BehaviourId) \o ".ndjson",
                        [i \in 1..Len(Trace) |-> Trace[i].last])
=============================================================================
