SPECIFICATION Spec
CONSTANTS
  Keys = {1, 2}
  Vals = {1, 2}
  MaxHist = 3
  MaxSess = 2
  Judge = FALSE
  DUseStartRev = TRUE
  DCumulative = FALSE
  DSnapDeletes = TRUE
  DTolerant = FALSE
INVARIANTS TypeOK Clean Converged
VIEW View
CHECK_DEADLOCK FALSE
