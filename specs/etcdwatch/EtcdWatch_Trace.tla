-------------------------- MODULE EtcdWatch_Trace --------------------------
(* Validates step-by-step executions of the real WatchDir / Watcher against    *)
(* EtcdWatch (Judge = TRUE).  The harness plays etcd (a scripted fake of the   *)
(* clientv3 KV / Watcher interfaces) and the consumer; after every step it     *)
(* waits for global quiescence.                                                *)
(*   reset {mode, ign, dev}   new store + client (also separates traces)       *)
(*   step  {a}                one action record: environment steps the harness *)
(*                            made, calls the fake received from the client    *)
(*                            (getcall, watchcall), and what the user side     *)
(*                            observed (ret, recv, stop, stopret, end)         *)
(* A Go panic / fatal error inside neptune ends the file with {"ev":"crash"}.  *)
EXTENDS EtcdWatch, Json, IOUtils

TraceLog == ndJsonDeserialize(IOEnv.VERIF_TRACE)

VARIABLES l
tvars == <<allvars, l>>

TraceInit == l = 1 /\ InitWith("dir", FALSE, <<>>)

TReset(e) ==
  /\ mode' = e.mode /\ ign' = e.ign /\ dev' = e.dev
  /\ hist' = <<>> /\ compact' = 0
  /\ gst' = "none" /\ gres' = "none" /\ wst' = "none" /\ wrev' = 0 /\ sent' = 0 /\ snapR' = 0
  /\ snapQ' = <<>> /\ nsess' = 0
  /\ cursor' = 0 /\ prevI' = 0 /\ lastRev' = 0
  /\ began' = FALSE /\ chOpen' = FALSE /\ ended' = "no" /\ stopping' = FALSE /\ closed' = FALSE
  /\ bad' = "" /\ last' = [op |-> "init"]
  /\ UNCHANGED design

TStep(e) == Do(e.a) /\ last' = e.a /\ UNCHANGED design

TraceNext ==
  /\ l <= Len(TraceLog) /\ l' = l + 1
  /\ LET e == TraceLog[l] IN
       CASE e.ev = "reset" -> TReset(e)
         [] e.ev = "step"  -> TStep(e)
         [] OTHER -> FALSE

TraceSpec == TraceInit /\ [][TraceNext]_tvars

(* high-water mark of l in TLC register 1 (needs -workers 1) *)
ASSUME TLCSet(1, 0)
Mark == TLCSet(1, IF l > TLCGet(1) THEN l ELSE TLCGet(1))
Accepted == PrintT(<<"MARK", TLCGet(1), Len(TraceLog)>>) /\ TLCGet(1) = Len(TraceLog) + 1
TView == <<svars, l>>
=============================================================================
