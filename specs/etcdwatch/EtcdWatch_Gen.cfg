SPECIFICATION GenSpec
CONSTANTS
  Keys = {1, 2, 3}
  Vals = {1, 2}
  MaxHist = 7
  MaxSess = 3
  Judge = FALSE
  DUseStartRev = FALSE
  DCumulative = TRUE
  DSnapDeletes = FALSE
  DTolerant = TRUE
  Depth = 26
INVARIANTS Emit
CHECK_DEADLOCK FALSE
