SPECIFICATION Spec
CONSTANTS
  Keys = {1}
  Vals = {1}
  MaxHist = 3
  MaxSess = 2
  Judge = FALSE
  DUseStartRev = TRUE
  DCumulative = FALSE
  DSnapDeletes = FALSE
  DTolerant = FALSE
INVARIANTS TypeOK NoStale
VIEW View
CHECK_DEADLOCK FALSE
