SPECIFICATION TraceSpec
CONSTANTS
  Keys = {}
  Vals = {}
  MaxHist = 0
  MaxSess = 0
  Judge = TRUE
  DUseStartRev = TRUE
  DCumulative = FALSE
  DSnapDeletes = TRUE
  DTolerant = FALSE
INVARIANTS TypeOK
CONSTRAINT Mark
POSTCONDITION Accepted
VIEW TView
CHECK_DEADLOCK FALSE
