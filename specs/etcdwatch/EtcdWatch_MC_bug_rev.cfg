SPECIFICATION Spec
CONSTANTS
  Keys = {1}
  Vals = {1}
  MaxHist = 3
  MaxSess = 2
  Judge = FALSE
  DUseStartRev = FALSE
  DCumulative = FALSE
  DSnapDeletes = TRUE
  DTolerant = FALSE
INVARIANTS TypeOK NoLoss
VIEW View
CHECK_DEADLOCK FALSE
