----------------------------- MODULE EtcdWatch -----------------------------
(* X04 - neptune store/etcd: WatchDir (one watch session: first read + watch      *)
(* channel) and Watcher (keeps a subscription alive across sessions).              *)
(*                                                                                 *)
(* The environment is an etcd store restricted to one directory: every write is    *)
(* one revision with one event, hist[i] has mod-revision i+1 (an empty store is    *)
(* at revision 1).  The server side of a watch sends hist[sent+1 ..] in batches    *)
(* (flush n), may die (compaction of a slow watcher, leader loss, client closed).  *)
(* The client under test is seen only at its two interfaces:                       *)
(*   towards etcd : getcall / watchcall(rev)   (what it asks the KV / Watcher)     *)
(*   towards user : ret (WatchDir's first result), recv (what one receive on the   *)
(*                  channel yields at global quiescence), stop / cancel, end       *)
(* What is required (Judge = TRUE: a step that breaks it is not a step):           *)
(*   P1 continuity   the consumer's knowledge is a prefix of the history: every    *)
(*                   item continues exactly at cursor+1, or is an accurate         *)
(*                   snapshot of a served read; at quiescence on a live session    *)
(*                   nothing the server sent is withheld (no loss, no duplicate)   *)
(*   P2 snapshot     after a snapshot the consumer's fold equals the directory     *)
(*   P3 revisions    item.rev is >= the mod-revision of its last event, <= the     *)
(*                   store revision, and never decreases                           *)
(*   P4 termination  error / close only with a cause; after the cause the channel  *)
(*                   closes, Stop returns, no goroutine of the package stays       *)
(*   P5 resilience   Watcher: a dead session is followed by a new read             *)
(* Freedoms: how responses are cut into items; shape of a snapshot item (any       *)
(* event list that is consistent with the read and whose fold gives the            *)
(* directory); whether the snapshot is delivered before or after the watch is up;  *)
(* what is delivered after cancel/stop; error codes other than not-found.          *)
(*                                                                                 *)
(* Judge = FALSE (exhaustive runs): a model of the client design (cph, pipe,       *)
(* cview) produces the client-side records; a failed requirement is recorded in    *)
(* `bad`.  Design switches: DUseStartRev (watch opened at read revision + 1),      *)
(* DCumulative (one item per event carrying the response's prefix - code today),   *)
(* DSnapDeletes (snapshot item also deletes what vanished).                        *)
(* dev: deviations tolerated for a trace whose input class matches a known         *)
(* finding: "R" events between read and watch skipped, "D" cumulative prefix       *)
(* re-delivered, "G" keys deleted in a gap stay, "L" goroutine left after Stop.    *)
EXTENDS Naturals, Sequences, FiniteSets, TLC

CONSTANTS Keys, Vals, MaxHist, MaxSess, Judge,
          DUseStartRev, DCumulative, DSnapDeletes, DTolerant

VARIABLES mode, ign, dev,                           \* configuration
          hist, compact,                            \* store
          gst, gres, wst, wrev, sent, snapR, snapQ, nsess,  \* etcd side of the client
          cursor, prevI, lastRev,                   \* consumer
          began, chOpen, ended, stopping, closed,   \* life cycle
          bad, last,
          cph, pipe, cview, sil                     \* client design model (Judge = FALSE only)

cfgv   == <<mode, ign, dev>>
store  == <<hist, compact>>
srv    == <<gst, gres, wst, wrev, sent, snapR, snapQ, nsess>>
cons   == <<cursor, prevI, lastRev>>
life   == <<began, chOpen, ended, stopping, closed>>
design == <<cph, pipe, cview, sil>>
svars  == <<cfgv, store, srv, cons, life>>
allvars == <<svars, bad, last, design>>

NotFound == 5                     \* etcd.NodeNotFound
Min2(x, y) == IF x < y THEN x ELSE y
Max2(x, y) == IF x > y THEN x ELSE y
Has(d) == \E i \in DOMAIN dev : dev[i] = d

Rev == Len(hist) + 1
Apply(c, e) == IF e.t = "put"
               THEN [x \in (DOMAIN c) \cup {e.k} |-> IF x = e.k THEN e.v ELSE c[x]]
               ELSE [x \in (DOMAIN c) \ {e.k} |-> c[x]]
RECURSIVE Fold(_, _)
Fold(c, es) == IF es = <<>> THEN c ELSE Fold(Apply(c, Head(es)), Tail(es))
At(i) == Fold(<<>>, SubSeq(hist, 1, i))         \* directory after hist[1..i] = at revision i+1
RECURSIVE Asc(_)
Asc(S) == IF S = {} THEN <<>>
          ELSE LET m == CHOOSE x \in S : \A y \in S : x <= y IN <<m>> \o Asc(S \ {m})
Puts(c) == LET ks == Asc(DOMAIN c) IN [i \in 1..Len(ks) |-> [t |-> "put", k |-> ks[i], v |-> c[ks[i]]]]
Dels(S) == LET ks == Asc(S) IN [i \in 1..Len(ks) |-> [t |-> "del", k |-> ks[i], v |-> 0]]
Kvs(c)  == LET ks == Asc(DOMAIN c) IN [i \in 1..Len(ks) |-> [k |-> ks[i], v |-> c[ks[i]]]]
SameDir(c, d) == DOMAIN c = DOMAIN d /\ \A x \in DOMAIN c : c[x] = d[x]

(* a requirement failed: no step when judging a trace, recorded when model checking *)
Fail(why) == IF Judge THEN FALSE ELSE bad' = why /\ UNCHANGED <<svars, design>>
Pass == bad' = ""

InitWith(m, ig, dv) ==
  /\ mode = m /\ ign = ig /\ dev = dv
  /\ hist = <<>> /\ compact = 0
  /\ gst = "none" /\ gres = "none" /\ wst = "none" /\ wrev = 0 /\ sent = 0 /\ snapR = 0
  /\ snapQ = <<>> /\ nsess = 0
  /\ cursor = 0 /\ prevI = 0 /\ lastRev = 0
  /\ began = FALSE /\ chOpen = FALSE /\ ended = "no" /\ stopping = FALSE /\ closed = FALSE
  /\ bad = "" /\ last = [op |-> "init", mode |-> m, ign |-> ig]
  /\ cph = "idle" /\ pipe = <<>> /\ cview = <<>> /\ sil = 0

-----------------------------------------------------------------------------
(* environment: the store and the server side of the watch                    *)
Write(a) ==
  /\ a.t \in {"put", "del"}
  /\ (a.t = "del") => (a.k \in DOMAIN At(Len(hist)) /\ a.v = 0)
  /\ hist' = Append(hist, [t |-> a.t, k |-> a.k, v |-> a.v])
  /\ UNCHANGED <<cfgv, compact, srv, cons, life>> /\ Pass

Flush(a) ==
  /\ wst = "live" /\ a.n >= 1 /\ sent + a.n <= Len(hist)
  /\ sent' = sent + a.n
  /\ UNCHANGED <<cfgv, store, gst, gres, wst, wrev, snapR, snapQ, nsess, cons, life>> /\ Pass

Kill(a) ==
  /\ wst = "live" /\ a.why \in {"compact", "noleader", "closed"}
  /\ (a.why = "compact") => sent < Len(hist)          \* only a watcher that is behind is compacted
  /\ wst' = "dead"
  /\ compact' = IF a.why = "compact" THEN Rev ELSE compact
  /\ UNCHANGED <<cfgv, hist, gst, gres, wrev, sent, snapR, snapQ, nsess, cons, life>> /\ Pass

Start(a) ==
  /\ ~began /\ began' = TRUE
  /\ UNCHANGED <<cfgv, store, srv, cons, chOpen, ended, stopping, closed>> /\ Pass

ServeGet(a) ==
  /\ gst = "pend" /\ gst' = "none"
  /\ gres' = IF ~a.ok THEN "fail" ELSE IF DOMAIN At(Len(hist)) = {} THEN "empty" ELSE "full"
  /\ snapR' = IF a.ok THEN Rev ELSE snapR
  /\ UNCHANGED <<cfgv, store, wst, wrev, sent, snapQ, nsess, cons, life>> /\ Pass

(* the watch is registered: from revision wrev, or (wrev = 0) from now on *)
ServeWatch(a) ==
  /\ wst = "pend"
  /\ LET s == IF wrev = 0 THEN Len(hist) ELSE Max2(wrev, 2) - 2 IN
       /\ sent' = s
       /\ wst' = IF wrev # 0 /\ wrev < compact THEN "dead" ELSE "live"
       /\ snapQ' = CASE gres = "full"  -> Append(snapQ, [R |-> snapR, base |-> s, silent |-> FALSE])
                     [] gres = "empty" -> Append(snapQ, [R |-> snapR, base |-> s, silent |-> TRUE])
                     [] OTHER -> snapQ
  /\ gres' = "none" /\ nsess' = nsess + 1
  /\ UNCHANGED <<cfgv, store, gst, wrev, snapR, cons, life>> /\ Pass

-----------------------------------------------------------------------------
(* client towards etcd (observed by the fake)                                 *)
GetCall(a) ==
  IF gst # "none" THEN Fail("other")
  ELSE gst' = "pend" /\ UNCHANGED <<cfgv, store, gres, wst, wrev, sent, snapR, snapQ, nsess, cons, life>> /\ Pass

WatchCall(a) ==
  IF wst = "pend" THEN Fail("other")
  ELSE wst' = "pend" /\ wrev' = a.rev
       /\ UNCHANGED <<cfgv, store, gst, gres, sent, snapR, snapQ, nsess, cons, life>> /\ Pass

(* where the consumer stands after applying the snapshot q *)
SnapBase(q) == IF Has("R") /\ q.base > q.R - 1 THEN q.base ELSE q.R - 1

(* A read that found nothing is not reported on a Watcher's channel (silent entry): the *)
(* consumer is up to date only if it holds nothing.  Old items may still be in flight  *)
(* in front of the entry, so every prefix of absorbed silent entries is a candidate.   *)
RECURSIVE Cands(_, _, _)
Cands(c, q, p) ==
  {[c |-> c, q |-> q, p |-> p]} \cup
  IF q # <<>> /\ Head(q).silent /\ mode = "watcher" /\ (DOMAIN At(c) = {} \/ Has("G"))
  THEN Cands(Max2(c, SnapBase(Head(q))), Tail(q), 0)
  ELSE {}
Drained == CHOOSE x \in Cands(cursor, snapQ, prevI) :
             \A y \in Cands(cursor, snapQ, prevI) : Len(x.q) <= Len(y.q)

(* is evs an acceptable report of the read q for a consumer standing at c ? *)
SnapShape(evs, q) ==
  LET d == At(q.R - 1) IN
  /\ \A i \in DOMAIN evs : IF evs[i].t = "put" THEN evs[i].k \in DOMAIN d /\ d[evs[i].k] = evs[i].v
                                              ELSE evs[i].t = "del" /\ evs[i].k \notin DOMAIN d
  /\ \A k \in DOMAIN d : \E i \in DOMAIN evs : evs[i].t = "put" /\ evs[i].k = k
SnapFresh(evs, q, c) == DOMAIN Fold(At(c), evs) = DOMAIN At(q.R - 1)

-----------------------------------------------------------------------------
(* client towards the user                                                    *)

(* WatchDir returned: first read, channel or not *)
Ret(a) ==
  IF mode # "dir" \/ ~began \/ chOpen \/ closed THEN Fail("other")
  ELSE IF snapQ # <<>> THEN                      \* a session was established
    LET q == Head(snapQ) IN
    IF a.ch /\ a.rev = q.R /\
       (IF q.silent THEN ign /\ a.code = NotFound /\ a.kvs = <<>>
                    ELSE a.code = 0 /\ a.kvs = Kvs(At(q.R - 1)))
    THEN /\ cursor' = SnapBase(q) /\ prevI' = 0 /\ lastRev' = q.R /\ snapQ' = Tail(snapQ)
         /\ chOpen' = TRUE
         /\ UNCHANGED <<cfgv, store, gst, gres, wst, wrev, sent, snapR, nsess, began, ended, stopping, closed>>
         /\ Pass
    ELSE Fail("ret")
  ELSE                                            \* no session: the read failed or found nothing
    IF ~a.ch /\ a.kvs = <<>> /\
       (CASE gres = "fail"  -> a.code \notin {0, NotFound}
          [] gres = "empty" -> ~ign /\ a.code = NotFound /\ a.rev = snapR
          [] OTHER -> FALSE)
    THEN /\ closed' = TRUE /\ ended' = "done"
         /\ UNCHANGED <<cfgv, store, srv, cons, began, chOpen, stopping>> /\ Pass
    ELSE Fail("ret")

(* alternatives that explain an item [evs, rev] *)
ItemAlts(r) ==
  LET n == Len(r.evs)
      cs == Cands(cursor, snapQ, prevI)
      cont == {[c |-> x.c + n, q |-> x.q, p |-> x.c + 1, g |-> gres] : x \in
                 {x \in cs : (Judge \/ (r.h = "c" /\ r.i = x.c + 1 /\ r.na = Len(snapQ) - Len(x.q))) /\ n >= 1 /\ x.c + n <= Len(hist) /\ r.rev >= x.c + n + 1
                             /\ r.evs = SubSeq(hist, x.c + 1, x.c + n)}}
      dupp == IF (Judge \/ (r.h = "c" /\ r.i = prevI)) /\ Has("D") /\ prevI >= 1 /\ cursor + 1 <= Len(hist) /\ r.rev >= cursor + 2
                 /\ r.evs = SubSeq(hist, prevI, cursor + 1)
              THEN {[c |-> cursor + 1, q |-> snapQ, p |-> prevI, g |-> gres]} ELSE {}
      snap == {[c |-> Max2(x.c, SnapBase(Head(x.q))), q |-> Tail(x.q), p |-> 0, g |-> gres] : x \in
                 {x \in cs : (Judge \/ (r.h = "s" /\ r.na = Len(snapQ) - Len(x.q))) /\ mode = "watcher" /\ x.q # <<>> /\ r.rev = Head(x.q).R
                             /\ SnapShape(r.evs, Head(x.q))
                             /\ (Has("G") \/ SnapFresh(r.evs, Head(x.q), x.c))}}
      early == IF (Judge \/ r.h = "s") /\ mode = "watcher" /\ snapQ = <<>> /\ gres = "full" /\ r.rev = snapR
                  /\ SnapShape(r.evs, [R |-> snapR]) /\ (Has("G") \/ SnapFresh(r.evs, [R |-> snapR], cursor))
               THEN {[c |-> Max2(cursor, snapR - 1), q |-> snapQ, p |-> 0, g |-> "given"]} ELSE {}
  IN IF r.rev <= Rev /\ r.rev >= lastRev THEN cont \cup dupp \cup snap \cup early ELSE {}

ItemWhy(r) ==
  LET n == Len(r.evs) IN
  IF ~(r.rev <= Rev /\ r.rev >= lastRev) THEN "rev"
  ELSE IF n >= 1 /\ \E i \in 1..cursor : i + n - 1 <= Len(hist) /\ r.evs = SubSeq(hist, i, i + n - 1) THEN "dup"
  ELSE IF n >= 1 /\ \E i \in (cursor + 2)..Len(hist) : i + n - 1 <= Len(hist) /\ r.evs = SubSeq(hist, i, i + n - 1) THEN "lost"
  ELSE IF snapQ # <<>> /\ SnapShape(r.evs, Head(snapQ)) THEN "stale"
  ELSE "other"

Recv(a) ==
  IF ~began \/ (mode = "dir" /\ ~chOpen) \/ closed THEN Fail("other")
  ELSE CASE a.r.k = "item" ->
         IF ItemAlts(a.r) = {} THEN Fail(ItemWhy(a.r))
         ELSE \E alt \in ItemAlts(a.r) :
                /\ cursor' = alt.c /\ snapQ' = alt.q /\ prevI' = alt.p /\ gres' = alt.g
                /\ lastRev' = a.r.rev
                /\ UNCHANGED <<cfgv, store, gst, wst, wrev, sent, snapR, nsess, life>> /\ Pass
       [] a.r.k = "empty" ->
         LET f == Drained IN
         IF ended # "no" \/ stopping \/ (mode = "dir" /\ wst = "dead") THEN Fail("term")
         ELSE IF f.q # <<>> /\ Head(f.q).silent THEN Fail("stale")
         ELSE IF f.q # <<>> \/ (wst = "live" /\ f.c < Min2(sent, Len(hist))) THEN Fail("lost")
         ELSE IF mode = "watcher" /\ wst \in {"none", "dead"} /\ gst # "pend" THEN Fail("resil")
         ELSE /\ cursor' = f.c /\ snapQ' = f.q /\ prevI' = f.p
              /\ UNCHANGED <<cfgv, store, gst, gres, wst, wrev, sent, snapR, nsess, lastRev, life>> /\ Pass
       [] a.r.k = "closed" ->
         IF ended = "no" /\ ~(mode = "dir" /\ wst = "dead") THEN Fail("term")
         ELSE IF ended = "no" /\ cursor < Min2(sent, Len(hist)) THEN Fail("lost")
         ELSE closed' = TRUE /\ UNCHANGED <<cfgv, store, srv, cons, began, chOpen, ended, stopping>> /\ Pass
       [] a.r.k = "err" ->
         IF ended = "no" /\ wst # "dead" THEN Fail("term")
         ELSE UNCHANGED svars /\ Pass
       [] OTHER -> FALSE

Cancel(a) ==
  /\ mode = "dir" /\ chOpen /\ ended = "no" /\ ended' = "cancel"
  /\ UNCHANGED <<cfgv, store, srv, cons, began, chOpen, stopping, closed>> /\ Pass

(* Stop() drains the channel itself; it may only hang while etcd owes the client a read *)
Stop(a) ==
  IF mode # "watcher" \/ ~began \/ ended # "no" THEN Fail("other")
  ELSE IF a.r = "ret" THEN
         /\ ended' = "stop" /\ closed' = TRUE
         /\ UNCHANGED <<cfgv, store, srv, cons, began, chOpen, stopping>> /\ Pass
  ELSE IF a.r = "blocked" /\ gst = "pend" THEN
         /\ ended' = "stop" /\ stopping' = TRUE
         /\ UNCHANGED <<cfgv, store, srv, cons, began, chOpen, closed>> /\ Pass
  ELSE Fail("term")

StopRet(a) ==
  /\ stopping /\ stopping' = FALSE /\ closed' = TRUE
  /\ UNCHANGED <<cfgv, store, srv, cons, began, chOpen, ended>> /\ Pass

(* end of the life time: everything was shut down; a.leaked = goroutines still inside the package *)
End(a) ==
  IF ended = "over" THEN Fail("other")
  ELSE IF began /\ (~closed \/ stopping) THEN Fail("term")
  ELSE IF a.leaked # 0 /\ ~(Has("L") /\ mode = "watcher") THEN Fail("leak")
  ELSE ended' = "over" /\ UNCHANGED <<cfgv, store, srv, cons, began, chOpen, stopping, closed>> /\ Pass

Do(a) ==
  CASE a.op = "write"      -> Write(a)
    [] a.op = "flush"      -> Flush(a)
    [] a.op = "kill"       -> Kill(a)
    [] a.op = "start"      -> Start(a)
    [] a.op = "serveget"   -> ServeGet(a)
    [] a.op = "servewatch" -> ServeWatch(a)
    [] a.op = "getcall"    -> GetCall(a)
    [] a.op = "watchcall"  -> WatchCall(a)
    [] a.op = "ret"        -> Ret(a)
    [] a.op = "recv"       -> Recv(a)
    [] a.op = "cancel"     -> Cancel(a)
    [] a.op = "stop"       -> Stop(a)
    [] a.op = "stopret"    -> StopRet(a)
    [] a.op = "end"        -> End(a)
    [] OTHER -> FALSE

-----------------------------------------------------------------------------
(* Model of the client design (exhaustive runs and plan generation only).     *)
(* cph: where the client's control is; pipe: everything on its way to the     *)
(* consumer (all buffers collapsed into one FIFO); cview: the client's own    *)
(* record of what it has reported.                                            *)
ErrI == [k |-> "err", code |-> 1]
ClosedI == [k |-> "closed"]
EmptyI == [k |-> "empty"]
Item(evs, rv, h, i, na) == [k |-> "item", evs |-> evs, rev |-> rv, h |-> h, i |-> i, na |-> na]
   \* h, i, na: what the design meant (kind, first index, unreported empty reads in front of it)

RespItems(lo, n) ==      \* one watch response carrying hist[lo+1 .. lo+n]
  IF DCumulative THEN [i \in 1..n |-> Item(SubSeq(hist, lo + 1, lo + i), Rev, "c", lo + 1, IF i = 1 THEN sil ELSE 0)]
  ELSE <<Item(SubSeq(hist, lo + 1, lo + n), Rev, "c", lo + 1, sil)>>

SnapItems(d) ==          \* how the read d (at snapR) is reported on a Watcher's channel
  LET gone == IF DSnapDeletes THEN Dels(DOMAIN cview \ DOMAIN d) ELSE <<>> IN
  IF gone \o Puts(d) = <<>> THEN <<>> ELSE <<Item(gone \o Puts(d), snapR, "s", 0, sil)>>

RetRec == [op |-> "ret",
           code |-> IF cph = "retfail" THEN (IF gres = "empty" THEN NotFound ELSE 1)
                    ELSE IF Head(snapQ).silent THEN NotFound ELSE 0,
           kvs |-> IF cph = "retfail" \/ Head(snapQ).silent THEN <<>> ELSE Kvs(At(Head(snapQ).R - 1)),
           rev |-> IF cph = "retfail" THEN snapR ELSE Head(snapQ).R,
           ch |-> cph = "retok"]

ClientActs ==
  (IF cph = "needget" /\ ended = "no" THEN {[op |-> "getcall"]} ELSE {}) \cup
  (IF cph = "needwatch" THEN {[op |-> "watchcall", rev |-> IF DUseStartRev THEN snapR + 1 ELSE 0]} ELSE {}) \cup
  (IF cph \in {"retok", "retfail"} THEN {RetRec} ELSE {})

EnvActs ==
  (IF ~began THEN {[op |-> "start"]} ELSE {}) \cup
  (IF Len(hist) < MaxHist
   THEN {[op |-> "write", t |-> "put", k |-> k, v |-> v] : k \in Keys, v \in Vals} \cup
        {[op |-> "write", t |-> "del", k |-> k, v |-> 0] : k \in DOMAIN At(Len(hist))}
   ELSE {}) \cup
  (IF wst = "live" THEN {[op |-> "flush", n |-> n] : n \in 1..(Len(hist) - sent)} ELSE {}) \cup
  (IF wst = "live" /\ nsess < MaxSess
   THEN {[op |-> "kill", why |-> w] : w \in {"noleader", "closed"} \cup (IF sent < Len(hist) THEN {"compact"} ELSE {})}
   ELSE {}) \cup
  (IF gst = "pend" THEN {[op |-> "serveget", ok |-> b] : b \in BOOLEAN} ELSE {}) \cup
  (IF wst = "pend" /\ cph = "inwatch" THEN {[op |-> "servewatch"]} ELSE {}) \cup
  (IF began /\ (mode = "watcher" \/ chOpen) /\ ended \in {"no", "cancel"} /\ ~closed
   THEN {[op |-> "recv", r |-> IF pipe = <<>> THEN EmptyI ELSE Head(pipe)]} ELSE {}) \cup
  (IF mode = "dir" /\ chOpen /\ ended = "no" THEN {[op |-> "cancel"]} ELSE {}) \cup
  (IF mode = "watcher" /\ began /\ ended = "no"
   THEN {[op |-> "stop", r |-> IF gst = "pend" THEN "blocked" ELSE "ret"]} ELSE {}) \cup
  (IF stopping /\ gst # "pend" THEN {[op |-> "stopret"]} ELSE {}) \cup
  (IF began /\ closed /\ ~stopping /\ ended # "over" THEN {[op |-> "end", leaked |-> 0]} ELSE {})

(* the environment moves only when the client has come to rest (global quiescence) *)
MCActs == IF ClientActs # {} THEN ClientActs ELSE EnvActs

DesignEff(a) ==
  CASE a.op = "start" -> cph' = "needget" /\ UNCHANGED <<pipe, cview, sil>>
    [] a.op = "getcall" -> cph' = "inget" /\ UNCHANGED <<pipe, cview, sil>>
    [] a.op = "serveget" ->
         /\ cph' = IF ended # "no" THEN "over"
                   ELSE IF gres' = "full" \/ (gres' = "empty" /\ ign) THEN "needwatch"
                   ELSE IF mode = "dir" THEN "retfail" ELSE "needget"
         /\ UNCHANGED <<pipe, cview, sil>>
    [] a.op = "watchcall" -> cph' = "inwatch" /\ UNCHANGED <<pipe, cview, sil>>
    [] a.op = "servewatch" ->
         IF mode = "dir"
         THEN /\ cph' = "retok" /\ cview' = cview /\ sil' = sil
              /\ pipe' = IF wst' = "dead" THEN <<ErrI, ClosedI>> ELSE pipe
         ELSE LET d == At(snapR - 1) IN
              /\ cph' = IF wst' = "dead" THEN "needget" ELSE "run"
              /\ pipe' = pipe \o SnapItems(d)
              /\ sil' = IF SnapItems(d) = <<>> THEN sil + 1 ELSE 0
              /\ cview' = IF DSnapDeletes THEN d ELSE Fold(cview, Puts(d))
    [] a.op = "ret" -> cph' = (IF cph = "retok" /\ wst # "dead" THEN "run" ELSE "over") /\ UNCHANGED <<pipe, cview, sil>>
    [] a.op = "flush" ->
         /\ pipe' = pipe \o RespItems(sent, a.n)
         /\ cview' = Fold(cview, SubSeq(hist, sent + 1, sent + a.n))
         /\ cph' = cph /\ sil' = 0
    [] a.op = "kill" ->
         IF mode = "dir" THEN cph' = "over" /\ pipe' = pipe \o <<ErrI, ClosedI>> /\ cview' = cview /\ sil' = sil
         ELSE cph' = "needget" /\ UNCHANGED <<pipe, cview, sil>>
    [] a.op = "recv" ->
         /\ pipe' = IF pipe # <<>> /\ Head(pipe).k # "closed" THEN Tail(pipe) ELSE pipe
         /\ sil' = (IF pipe = <<>> THEN 0 ELSE sil) /\ UNCHANGED <<cph, cview>>
    [] a.op = "cancel" ->
         /\ pipe' = IF cph = "over" THEN pipe ELSE pipe \o <<ErrI, ClosedI>>
         /\ cph' = "over" /\ cview' = cview /\ sil' = sil
    [] a.op = "stop" ->
         /\ pipe' = <<ClosedI>> /\ cview' = cview /\ sil' = sil
         /\ cph' = IF a.r = "blocked" THEN cph ELSE "over"
    [] OTHER -> UNCHANGED design

Step(a) == Do(a) /\ last' = a /\ (IF bad' = "" THEN DesignEff(a) ELSE TRUE)

MCDev == IF DTolerant THEN <<"R", "D", "G", "L">> ELSE <<>>
Init == \E m \in {"dir", "watcher"}, ig \in BOOLEAN : InitWith(m, ig, MCDev)
Next == bad = "" /\ \E a \in MCActs : Step(a)
Spec == Init /\ [][Next]_allvars

(* invariants of the exhaustive runs *)
Clean   == bad = ""
NoLoss  == bad # "lost"
NoDup   == bad # "dup"
NoStale == bad # "stale"
TypeOK ==
  /\ mode \in {"dir", "watcher"} /\ ign \in BOOLEAN
  /\ gst \in {"none", "pend"} /\ gres \in {"none", "fail", "empty", "full", "given"}
  /\ wst \in {"none", "pend", "live", "dead"}
  /\ cursor \in 0..Len(hist) /\ prevI \in 0..Len(hist) /\ lastRev \in 0..Rev
  /\ ended \in {"no", "cancel", "stop", "done", "over"}
(* nothing in flight on a live session: the consumer's fold is the directory *)
Converged ==
  (bad = "" /\ began /\ ended = "no" /\ wst = "live" /\ pipe = <<>> /\ sent = Len(hist) /\ snapQ = <<>>
     /\ (mode = "watcher" \/ chOpen))
  => SameDir(At(cursor), At(Len(hist)))
View == <<svars, bad, design>>
=============================================================================
