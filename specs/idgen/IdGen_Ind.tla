----------------------------- MODULE IdGen_Ind -----------------------------
(***************************************************************************)
(* Inductive invariant of the design in IdGen.tla (ALGORITHM => CONTRACT), *)
(* typed for Apalache, on unbounded integers.                              *)
(*                                                                         *)
(* IdGen.tla is not typable (recursive limb operators, heterogeneous       *)
(* `last`, CASE on action records) and computes on limbs of a scaled       *)
(* two's-complement layout.  Here the same machine is RESTATED on the      *)
(* integer fields of an id: an id is the pair <<t, s>> (timestamp field,   *)
(* step field, 0 <= s < M) and ids are compared lexicographically, which   *)
(* is the order of the packed ids because the node field is constant and   *)
(* the timestamp is the most significant field in both layouts.            *)
(*   restated, same names: Tick, Inv, Lin (HardF, mono and nano arms),     *)
(*     Res (with the contract bookkeeping CRes: NewMax, SlowestCall,       *)
(*     StillPossible), Restart; variables                                  *)
(*       kind                 cfg.kind                                     *)
(*       now                  clock as an integer                          *)
(*       mdh, mdt, mds        maxdone.has, fields of maxdone.id            *)
(*       issued               set of pairs                                 *)
(*       pst, phas, pft, pfs, plo   pend[t].st, .has, fields of .floor, .lo*)
(*       time, step           as in IdGen.tla                              *)
(*       odone, ot, os        out[t].done, fields of out[t].id             *)
(*   left out: `last`, `calls` (only bounds the TLC run), the node / layout*)
(*     part of cfg and of the contract (NodeOf(id) = cfg.node is a codec   *)
(*     matter, checked by TLC on limbs), the two-step "nomutex" deviation  *)
(*     (out.rd/tm/sp), overflow of the timestamp into the sign bit (the    *)
(*     integers here are unbounded; NonNeg is TLC's business).             *)
(*   (st + 1) % M is written  IF st + 1 = M THEN 0 ELSE st + 1  (same      *)
(*     value for 0 <= st < M, which is part of the invariant; M symbolic). *)
(* IdGen_IndRef.tla is the refinement mapping (limbs -> fields); TLC       *)
(* checks on the constants of IdGen_MC.cfg / IdGen_MC_conc.cfg that every  *)
(* step of IdGen!Next is a step of Next here and that IndInv holds in      *)
(* every reachable state of IdGen!Spec.                                    *)
(***************************************************************************)
EXTENDS Integers, FiniteSets, Apalache

CONSTANTS
  \* @type: Set(Int);
  Threads,
  \* @type: Int;
  M,
  \* @type: Str;
  Deviation

VARIABLES
  \* @type: Str;
  kind,
  \* @type: Int;
  now,
  \* @type: Bool;
  mdh,
  \* @type: Int;
  mdt,
  \* @type: Int;
  mds,
  \* @type: Set(<<Int, Int>>);
  issued,
  \* @type: Int -> Str;
  pst,
  \* @type: Int -> Bool;
  phas,
  \* @type: Int -> Int;
  pft,
  \* @type: Int -> Int;
  pfs,
  \* @type: Int -> Int;
  plo,
  \* @type: Int;
  time,
  \* @type: Int;
  step,
  \* @type: Int -> Bool;
  odone,
  \* @type: Int -> Int;
  ot,
  \* @type: Int -> Int;
  os

vars == <<kind, now, mdh, mdt, mds, issued, pst, phas, pft, pfs, plo, time, step, odone, ot, os>>

(* M = 2^SB is symbolic: any width of the step field; 3 threads *)
CInit         == Threads = 1..3 /\ M \in Nat \ {0} /\ Deviation = "none"
CInitGe       == Threads = 1..3 /\ M \in Nat \ {0} /\ Deviation = "ge"
CInitNoCarry  == Threads = 1..3 /\ M \in Nat \ {0} /\ Deviation = "nocarry"
CInitSeedTime == Threads = 1..3 /\ M \in Nat \ {0} /\ Deviation = "seedtime"
CInitNanoGe   == Threads = 1..3 /\ M \in Nat \ {0} /\ Deviation = "nanoge"

(* a < b for ids <<t, s>> *)
\* @type: (Int, Int, Int, Int) => Bool;
Less(at, as, bt, bs) == at < bt \/ (at = bt /\ as < bs)
\* @type: (Int, Int, Int, Int) => Bool;
Leq(at, as, bt, bs) == ~Less(bt, bs, at, as)

Quiet == \A t \in Threads : pst[t] = "idle"

(* ============================= CONTRACT =============================== *)
\* @type: (Int, Int, Bool, Int, Int, Int) => Bool;
Meets(it, is, fhas, ft, fs, lo) ==
  /\ fhas => Less(ft, fs, it, is)
  /\ kind = "hard" => ~(it < lo)

\* @type: (Int, Int, Int) => Bool;
ResOK(t, it, is) ==
  /\ pst[t] = "called"
  /\ Meets(it, is, phas[t], pft[t], pfs[t], plo[t])
  /\ <<it, is>> \notin issued

\* @type: (Int, <<Int, Int>>) => Bool;
StillPossible(t, x) ==
  \E u \in Threads :
    u # t /\ pst[u] = "called" /\ (~phas[u] \/ Less(pft[u], pfs[u], x[1], x[2]))

\* @type: Int => Bool;
SlowestCall(t) ==
  \A u \in Threads :
    (u # t /\ pst[u] = "called") =>
       (~phas[t] \/ (phas[u] /\ ~Less(pft[u], pfs[u], pft[t], pfs[t])))

CTick(c) ==
  /\ now' = c
  /\ plo' = [t \in Threads |-> IF pst[t] = "called" /\ c < plo[t] THEN c ELSE plo[t]]
  /\ UNCHANGED <<kind, mdh, mdt, mds, issued, pst, phas, pft, pfs>>

CInv(t) ==
  /\ pst[t] = "idle"
  /\ pst' = [pst EXCEPT ![t] = "called"]
  /\ phas' = [phas EXCEPT ![t] = mdh]
  /\ pft' = [pft EXCEPT ![t] = mdt]
  /\ pfs' = [pfs EXCEPT ![t] = mds]
  /\ plo' = [plo EXCEPT ![t] = now]
  /\ UNCHANGED <<kind, now, mdh, mdt, mds, issued>>

CRes(t, it, is) ==
  /\ pst[t] = "called"
  /\ pst' = [pst EXCEPT ![t] = "idle"]
  /\ phas' = [phas EXCEPT ![t] = FALSE]
  /\ pft' = [pft EXCEPT ![t] = 0]
  /\ pfs' = [pfs EXCEPT ![t] = 0]
  /\ plo' = [plo EXCEPT ![t] = 0]
  /\ LET newmax == ~mdh \/ Less(mdt, mds, it, is)
     IN /\ mdh' = TRUE
        /\ mdt' = IF newmax THEN it ELSE mdt
        /\ mds' = IF newmax THEN is ELSE mds
  /\ issued' = IF SlowestCall(t)
               THEN {x \in issued \cup {<<it, is>>} : StillPossible(t, x)}
               ELSE IF StillPossible(t, <<it, is>>) THEN issued \cup {<<it, is>>} ELSE issued
  /\ UNCHANGED <<kind, now>>

CRestart ==
  /\ Quiet /\ mdh
  /\ issued' = {}
  /\ UNCHANGED <<kind, now, mdh, mdt, mds, pst, phas, pft, pfs, plo>>

(* ============================= ALGORITHM ============================== *)
Inc(st) == IF st + 1 = M THEN 0 ELSE st + 1           \* (st + 1) % M for 0 <= st < M

(* HardNode.Generate under the node mutex: the new <<time, step>> *)
\* @type: (Int, Int, Int) => <<Int, Int>>;
HardF(nw, tm, st) ==
  IF (IF Deviation = "ge" THEN nw >= tm ELSE nw > tm)
  THEN <<nw, 0>>
  ELSE LET s2 == Inc(st)
       IN <<IF s2 = 0 /\ Deviation # "nocarry" THEN tm + 1 ELSE tm, s2>>

\* @type: (Int, Int, Int) => Bool;
SetOut(t, it, is) ==
  /\ odone' = [odone EXCEPT ![t] = TRUE]
  /\ ot' = [ot EXCEPT ![t] = it]
  /\ os' = [os EXCEPT ![t] = is]

Lin(t) ==
  /\ pst[t] = "called" /\ ~odone[t]
  /\ \/ /\ kind = "hard"
        /\ LET n == HardF(now, time, step)
           IN time' = n[1] /\ step' = n[2] /\ SetOut(t, n[1], n[2])
     \/ /\ kind = "mono"
        /\ IF now = time
           THEN /\ Inc(step) # 0            \* on wrap the code spins until the clock moves
                /\ step' = step + 1 /\ time' = time /\ SetOut(t, time, step + 1)
           ELSE /\ step' = 0 /\ time' = now /\ SetOut(t, now, 0)
     \/ /\ kind = "nano"
        /\ LET v == IF (IF Deviation = "nanoge" THEN now >= time ELSE now > time) THEN now ELSE time + 1
           IN time' = v /\ step' = 0 /\ SetOut(t, v, 0)
  /\ UNCHANGED <<kind, now, mdh, mdt, mds, issued, pst, phas, pft, pfs, plo>>

Tick(c) ==
  /\ kind = "mono" => c >= now           \* a monotonic clock does not go back
  /\ c # now
  /\ CTick(c)
  /\ UNCHANGED <<time, step, odone, ot, os>>

Inv(t) == CInv(t) /\ UNCHANGED <<time, step, odone, ot, os>>

Res(t) ==
  /\ odone[t]
  /\ CRes(t, ot[t], os[t])
  /\ odone' = [odone EXCEPT ![t] = FALSE]
  /\ ot' = [ot EXCEPT ![t] = 0]
  /\ os' = [os EXCEPT ![t] = 0]
  /\ UNCHANGED <<time, step>>

Restart ==
  /\ kind = "hard"
  /\ CRestart
  /\ time' = mdt
  /\ step' = IF Deviation = "seedtime" THEN 0 ELSE mds
  /\ UNCHANGED <<odone, ot, os>>

(* every initial state of IdGen!Init (seeded / unseeded hard, mono, nano) and more *)
Init ==
  /\ kind \in {"hard", "mono", "nano"}
  /\ now \in Int /\ time \in Int /\ step \in Int /\ 0 <= step /\ step < M
  /\ mdh \in BOOLEAN
  /\ mdt = (IF mdh THEN time ELSE 0) /\ mds = (IF mdh THEN step ELSE 0)
  /\ kind = "mono" => time <= now
  /\ issued = {}
  /\ pst = [t \in Threads |-> "idle"]
  /\ phas = [t \in Threads |-> FALSE]
  /\ pft = [t \in Threads |-> 0] /\ pfs = [t \in Threads |-> 0] /\ plo = [t \in Threads |-> 0]
  /\ odone = [t \in Threads |-> FALSE]
  /\ ot = [t \in Threads |-> 0] /\ os = [t \in Threads |-> 0]

\* @type: Set(Int) => Bool;
NextC(Clk) ==
  \/ \E c \in Clk : Tick(c)
  \/ \E t \in Threads : Inv(t) \/ Lin(t) \/ Res(t)
  \/ Restart
Next == NextC(Int)        \* TLC (IdGen_IndRef) uses NextC(Clocks): it cannot enumerate Int

-----------------------------------------------------------------------------
TypeOK ==
  /\ kind \in {"hard", "mono", "nano"}
  /\ now \in Int /\ time \in Int /\ mdt \in Int
  /\ step \in Int /\ 0 <= step /\ step < M
  /\ mds \in Int /\ 0 <= mds /\ mds < M
  /\ mdh \in BOOLEAN
  /\ pst \in [Threads -> {"idle", "called"}]
  /\ phas \in [Threads -> BOOLEAN]
  /\ pft \in [Threads -> Int] /\ pfs \in [Threads -> Int] /\ plo \in [Threads -> Int]
  /\ odone \in [Threads -> BOOLEAN]
  /\ ot \in [Threads -> Int] /\ os \in [Threads -> Int]

(* the node's fields are never below anything handed out or promised *)
TopIsTop ==
  /\ mdh => Leq(mdt, mds, time, step)
  /\ \A t \in Threads : odone[t] => Leq(ot[t], os[t], time, step)
  /\ \A t \in Threads : (pst[t] = "called" /\ phas[t] /\ ~odone[t]) => Leq(pft[t], pfs[t], time, step)
(* IdGen!MaxIsMax *)
MaxIsMax == \A x \in issued : mdh /\ Leq(x[1], x[2], mdt, mds)
OutShape == \A t \in Threads : odone[t] => pst[t] = "called" /\ 0 <= os[t] /\ os[t] < M
(* results computed under the mutex and not yet returned are pairwise distinct *)
OutDistinct == \A t, u \in Threads : (odone[t] /\ odone[u] /\ ot[t] = ot[u] /\ os[t] = os[u]) => t = u
(* the clock floor of a running call is not above the clock *)
LoBelowNow == \A t \in Threads : pst[t] = "called" => plo[t] <= now
MonoClock == kind = "mono" => time <= now
(* THE PROPERTY as a state invariant: whatever a call is about to return satisfies the  *)
(* contract (IdGen!Contract: Res(t) returns out[t].id and requires ResOK)               *)
ContractInv == \A t \in Threads : odone[t] => ResOK(t, ot[t], os[t])

IndInv ==
  /\ TypeOK /\ TopIsTop /\ MaxIsMax /\ OutShape /\ OutDistinct /\ LoBelowNow /\ MonoClock
  /\ ContractInv

(* issued: any set of at most 3 ids (unbounded integers).  IndInv and Next use issued     *)
(* only pointwise (\A x \in issued, membership, filter, union with one element), so a     *)
(* counterexample with a larger set restricts to one with a single witness element.      *)
IndInit ==
  /\ issued = Gen(3)
  /\ IndInv
=============================================================================
