SPECIFICATION GenSpec
CONSTANTS
  LB = 2
  NL = 4
  SB = 2
  Deviation = "none"
  Threads = {1, 2, 3}
  Clocks <- ClocksA
  Kinds = {"hard"}
  NodeBitsSet = {1, 2}
  LowSet = {TRUE, FALSE}
  SeedTimes = {0, 2}
  MaxCalls = 100
  Depth = 26
INVARIANTS Emit
CHECK_DEADLOCK FALSE
