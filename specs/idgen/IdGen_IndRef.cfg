SPECIFICATION Spec
CONSTANTS
  LB = 2
  NL = 4
  SB = 2
  Deviation = "none"
  Threads = {1}
  Clocks <- ClocksA
  Kinds = {"hard", "mono", "nano"}
  NodeBitsSet = {1, 2}
  LowSet = {TRUE, FALSE}
  SeedTimes = {0, 2}
  MaxCalls = 7
INVARIANTS IndInvRef
PROPERTIES StepRef InitRef
CONSTRAINT Bound
VIEW View
CHECK_DEADLOCK FALSE
