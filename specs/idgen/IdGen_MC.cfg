SPECIFICATION Spec
CONSTANTS
  LB = 2
  NL = 4
  SB = 2
  Deviation = "none"
  Threads = {1, 2}
  Clocks <- ClocksA
  Kinds = {"hard", "mono", "nano"}
  NodeBitsSet = {1, 2}
  SeedTimes = {0, 2}
  MaxCalls = 6
INVARIANTS TypeOK MaxIsMax NonNeg LimbsOK
PROPERTIES Contract
CONSTRAINT Bound
VIEW View
CHECK_DEADLOCK FALSE
