------------------------------- MODULE IdGen -------------------------------
(***************************************************************************)
(* neptune's id generators                                                 *)
(*   snowflake.HardNode  (kind "hard": wall clock, replaceable)            *)
(*   snowflake.MonoNode  (kind "mono": monotonic clock)                    *)
(*   nano.UnixNanoID     (kind "nano": max(ts, current+1))                 *)
(*                                                                         *)
(* Two layers.                                                             *)
(*  CONTRACT (variables cfg, clock, maxdone, issued, pend): what a caller  *)
(*  may rely on, stated on invocation / response events of overlapping     *)
(*  calls and on the clock readings in force while a call was running:     *)
(*    - an id is larger than every id returned before the call began,      *)
(*      and than the id the node was restarted with;                       *)
(*    - no id is returned twice;                                           *)
(*    - snowflake ids carry the configured node;                           *)
(*    - a wall-clock id's timestamp is not below the smallest clock        *)
(*      reading in force during the call.                                  *)
(*  How the step field evolves is deliberately left open.                  *)
(*  ALGORITHM (variables time, step, out, calls): the (time, step) machine *)
(*  of the code, one atomic action per mutex hold.  The exhaustive run     *)
(*  shows ALGORITHM => CONTRACT for every clock history; trace validation  *)
(*  uses the contract layer only.                                          *)
(*                                                                         *)
(* Ids are (LB*NL)-bit two's-complement numbers written as NL limbs of LB  *)
(* bits, most significant first: 4 x 16 in traces of the real code (TLC    *)
(* integers are 32 bit), 4 x 2 in the scaled-down exhaustive model.        *)
(***************************************************************************)
EXTENDS Integers, Sequences, FiniteSets, TLC

CONSTANTS
  LB,         \* bits per limb
  NL,         \* limbs per number
  SB,         \* width of the step field (12 in neptune)
  Deviation   \* "none", or a named way of getting the algorithm wrong (non-vacuity witness)

B == 2^LB
W == LB * NL

(* ------------------------- numbers as limbs --------------------------- *)
Zero == [i \in 1..NL |-> 0]
IsNum(a) == DOMAIN a = 1..NL /\ \A i \in 1..NL : a[i] \in 0..(B - 1)
Neg(a) == a[1] >= B \div 2

RECURSIVE LexLess(_, _, _)
LexLess(a, b, i) ==
  IF i > NL THEN FALSE
  ELSE IF a[i] # b[i] THEN a[i] < b[i] ELSE LexLess(a, b, i + 1)
Flip(a) == [a EXCEPT ![1] = (a[1] + B \div 2) % B]
Less(a, b) == LexLess(Flip(a), Flip(b), 1)        \* a < b as signed numbers

(* arithmetic shift right by s bits *)
Shr(a, s) ==
  LET q == s \div LB
      r == s % LB
      fill == IF Neg(a) THEN B - 1 ELSE 0
      at(k) == IF k < 1 THEN fill ELSE a[k]
  IN [i \in 1..NL |-> (at(i - q - 1) % 2^r) * 2^(LB - r) + at(i - q) \div 2^r]

(* the lowest w bits as an integer (w <= 30) *)
RECURSIVE LowFrom(_, _, _)
LowFrom(a, w, i) ==
  IF w <= 0 THEN 0
  ELSE IF w >= LB THEN a[i] + B * LowFrom(a, w - LB, i - 1)
  ELSE a[i] % 2^w
LowBits(a, w) == LowFrom(a, w, NL)

(* integer <-> limbs; only evaluated in the scaled model where 2^W fits *)
ToLimbs(n) ==
  LET m == IF n < 0 THEN n + 2^W ELSE n
  IN [i \in 1..NL |-> (m \div B^(NL - i)) % B]
FromLimbs(a) ==
  LET RECURSIVE V(_)
      V(i) == IF i = 0 THEN 0 ELSE V(i - 1) * B + a[i]
  IN IF Neg(a) THEN V(NL) - 2^W ELSE V(NL)

(* ------------------------------ layout -------------------------------- *)
(* cfg = [kind, nb (node bits), low (node at lowest), node]               *)
TShift(c) == c.nb + SB
NShift(c) == IF c.low THEN 0 ELSE SB
SShift(c) == IF c.low THEN c.nb ELSE 0
TsOf(c, id)   == Shr(id, TShift(c))
NodeOf(c, id) == (LowBits(id, TShift(c)) \div 2^NShift(c)) % 2^(c.nb)
StepOf(c, id) == (LowBits(id, TShift(c)) \div 2^SShift(c)) % 2^SB

VARIABLES
  cfg,      \* configuration of the generator under observation
  clock,    \* current clock reading, relative to the epoch, in ms (hard) - a number
  maxdone,  \* [has, id]: the largest id returned so far / the restart id
  issued,   \* ids returned by calls that overlapped (see Res)
  pend,     \* thread -> [st, has, floor, lo]
  time, step,  \* ALGORITHM: the node's fields (nano: time = current)
  out,      \* ALGORITHM: thread -> [done, id]  result computed inside the mutex, not yet returned
  calls,    \* ALGORITHM: number of linearized calls (bounds the exhaustive run)
  last      \* action record of the latest step (output only)

cvars   == <<cfg, clock, maxdone, issued, pend>>
avars   == <<time, step, out, calls>>
vars    == <<cvars, avars>>
allvars == <<vars, last>>

IdleP == [st |-> "idle", has |-> FALSE, floor |-> Zero, lo |-> Zero]
NoOut == [done |-> FALSE, id |-> Zero, rd |-> FALSE, tm |-> 0, sp |-> 0]
Quiet == \A t \in DOMAIN pend : pend[t].st = "idle"

(* ============================= CONTRACT =============================== *)
(* What id must satisfy for a call that began when the largest returned   *)
(* id was `floor` (if fhas) and during which the clock never read below   *)
(* lo.                                                                    *)
Meets(id, fhas, floor, lo) ==
  /\ fhas => Less(floor, id)
  /\ cfg.kind \in {"hard", "mono"} => NodeOf(cfg, id) = cfg.node
  /\ cfg.kind = "hard" => ~Less(TsOf(cfg, id), lo)

ResOK(t, id) ==
  /\ pend[t].st = "called"
  /\ Meets(id, pend[t].has, pend[t].floor, pend[t].lo)
  /\ id \notin issued

(* sequential call with clock reading `now`: every earlier id is <= maxdone *)
GenOK(now, id) == Quiet /\ Meets(id, maxdone.has, maxdone.id, now)

NewMax(id) == IF ~maxdone.has \/ Less(maxdone.id, id) THEN [has |-> TRUE, id |-> id] ELSE maxdone

CTick(c) ==
  /\ clock' = c
  /\ pend' = [t \in DOMAIN pend |->
                IF pend[t].st = "called" /\ Less(c, pend[t].lo)
                THEN [pend[t] EXCEPT !.lo = c] ELSE pend[t]]
  /\ UNCHANGED <<cfg, maxdone, issued>>

CInv(t) ==
  /\ pend[t].st = "idle"
  /\ pend' = [pend EXCEPT ![t] = [st |-> "called", has |-> maxdone.has,
                                  floor |-> maxdone.id, lo |-> clock]]
  /\ UNCHANGED <<cfg, clock, maxdone, issued>>

(* An id already returned can only be returned again by a call that is     *)
(* pending now and began below it: every later call begins above maxdone.  *)
(* Ids no pending call (other than t, which returns now) could still       *)
(* repeat may be dropped (keeping one that cannot recur is harmless),      *)
(* which keeps `issued` small in long histories.                           *)
StillPossible(t, x) ==
  \E u \in DOMAIN pend :
    u # t /\ pend[u].st = "called" /\ (~pend[u].has \/ Less(pend[u].floor, x))

(* Nothing new can be dropped unless the call that returns began lowest.    *)
SlowestCall(t) ==
  \A u \in DOMAIN pend :
    (u # t /\ pend[u].st = "called") =>
       (~pend[t].has \/ (pend[u].has /\ ~Less(pend[u].floor, pend[t].floor)))

(* bookkeeping of a response; ResOK(t, id) is the property about it *)
CRes(t, id) ==
  /\ pend[t].st = "called"
  /\ pend' = [pend EXCEPT ![t] = IdleP]
  /\ maxdone' = NewMax(id)
  /\ issued' = IF SlowestCall(t)
               THEN {x \in issued \cup {id} : StillPossible(t, x)}
               ELSE IF StillPossible(t, id) THEN issued \cup {id} ELSE issued
  /\ UNCHANGED <<cfg, clock>>

CGen(now, id) ==
  /\ Quiet
  /\ clock' = now
  /\ maxdone' = NewMax(id)
  /\ UNCHANGED <<cfg, issued, pend>>

(* a node restarted with the largest id issued so far *)
CRestart ==
  /\ Quiet /\ maxdone.has
  /\ issued' = {}
  /\ UNCHANGED <<cfg, clock, maxdone, pend>>

(* ============================= ALGORITHM ============================== *)
M == 2^SB
Now == FromLimbs(clock)
IdInt(c, t, s) == t * 2^TShift(c) + c.node * 2^NShift(c) + s * 2^SShift(c)

(* HardNode.Generate under the node mutex *)
HardF(now, tm, st) ==
  IF (IF Deviation = "ge" THEN now >= tm ELSE now > tm)
  THEN [time |-> now, step |-> 0]
  ELSE LET s2 == (st + 1) % M
       IN [time |-> IF s2 = 0 /\ Deviation # "nocarry" THEN tm + 1 ELSE tm, step |-> s2]

Lin(t) ==
  /\ pend[t].st = "called" /\ ~out[t].done
  /\ CASE cfg.kind = "hard" /\ Deviation = "nomutex" /\ ~out[t].rd ->
            (* without the mutex: the fields are read ... *)
            /\ out' = [out EXCEPT ![t] = [@ EXCEPT !.rd = TRUE, !.tm = time, !.sp = step]]
            /\ UNCHANGED <<time, step>>
       [] cfg.kind = "hard" /\ Deviation = "nomutex" /\ out[t].rd ->
            (* ... and written back in a second step *)
            LET n == HardF(Now, out[t].tm, out[t].sp)
            IN /\ time' = n.time /\ step' = n.step
               /\ out' = [out EXCEPT ![t] = [NoOut EXCEPT !.done = TRUE, !.id = ToLimbs(IdInt(cfg, n.time, n.step))]]
       [] cfg.kind = "hard" /\ Deviation # "nomutex" ->
            LET n == HardF(Now, time, step)
            IN /\ time' = n.time /\ step' = n.step
               /\ out' = [out EXCEPT ![t] = [NoOut EXCEPT !.done = TRUE, !.id = ToLimbs(IdInt(cfg, n.time, n.step))]]
       [] cfg.kind = "mono" ->
            (* same millisecond: next step; on wrap the code spins until the clock moves *)
            IF Now = time
            THEN /\ (step + 1) % M # 0
                 /\ step' = step + 1 /\ time' = time
                 /\ out' = [out EXCEPT ![t] = [NoOut EXCEPT !.done = TRUE, !.id = ToLimbs(IdInt(cfg, time, step + 1))]]
            ELSE /\ step' = 0 /\ time' = Now
                 /\ out' = [out EXCEPT ![t] = [NoOut EXCEPT !.done = TRUE, !.id = ToLimbs(IdInt(cfg, Now, 0))]]
       [] cfg.kind = "nano" ->
            LET v == IF (IF Deviation = "nanoge" THEN Now >= time ELSE Now > time) THEN Now ELSE time + 1
            IN /\ time' = v /\ step' = 0
               /\ out' = [out EXCEPT ![t] = [NoOut EXCEPT !.done = TRUE, !.id = ToLimbs(v)]]
       [] OTHER -> FALSE
  /\ calls' = IF out'[t].done THEN calls + 1 ELSE calls
  /\ UNCHANGED cvars

Tick(c) ==
  /\ cfg.kind = "mono" => c >= Now           \* a monotonic clock does not go back
  /\ ToLimbs(c) # clock
  /\ CTick(ToLimbs(c))
  /\ UNCHANGED avars

Inv(t) == CInv(t) /\ UNCHANGED avars

Res(t) ==
  /\ out[t].done
  /\ CRes(t, out[t].id)
  /\ out' = [out EXCEPT ![t] = NoOut]
  /\ UNCHANGED <<time, step, calls>>

(* NewNode(node, lastId): the fields are read back from the id *)
Restart ==
  /\ cfg.kind = "hard"
  /\ CRestart
  /\ LET v == FromLimbs(maxdone.id)
     IN /\ time' = v \div 2^TShift(cfg)
        /\ step' = IF Deviation = "seedtime" THEN 0 ELSE (v \div 2^SShift(cfg)) % M
  /\ UNCHANGED <<out, calls>>

(* action records (the plan alphabet) *)
Do(a) ==
  CASE a.op = "tick"    -> Tick(a.now)
    [] a.op = "inv"     -> Inv(a.t)
    [] a.op = "lin"     -> Lin(a.t)
    [] a.op = "res"     -> Res(a.t)
    [] a.op = "restart" -> Restart
    [] OTHER -> FALSE

Step(a) ==
  /\ Do(a)
  /\ last' = IF a.op = "res" THEN [op |-> "res", t |-> a.t, id |-> out[a.t].id] ELSE a

InitWith(kind, nb, low, node, seeded, t0, s0, c0, threads) ==
  /\ cfg = [kind |-> kind, nb |-> nb, low |-> low, node |-> node]
  /\ clock = ToLimbs(c0)
  /\ maxdone = [has |-> seeded, id |-> IF seeded THEN ToLimbs(IdInt(cfg, t0, s0)) ELSE Zero]
  /\ issued = {}
  /\ pend = [t \in threads |-> IdleP]
  /\ time = t0 /\ step = s0
  /\ out = [t \in threads |-> NoOut]
  /\ calls = 0
  /\ last = [op |-> "init", kind |-> kind, nb |-> nb, low |-> low, node |-> node,
             seeded |-> seeded, t0 |-> t0, s0 |-> s0, c0 |-> c0]

---------------------------------------------------------------------------
(* Bounded instance *)
CONSTANTS Threads, Clocks, Kinds, NodeBitsSet, LowSet, SeedTimes, MaxCalls

Acts ==
       [op : {"tick"}, now : Clocks]
  \cup [op : {"inv", "lin", "res"}, t : Threads]
  \cup [op : {"restart"}]

Init ==
  \E kind \in Kinds, nb \in NodeBitsSet, low \in LowSet, c0 \in Clocks :
    \E node \in (IF LowSet = BOOLEAN THEN {0, 2^nb - 1} ELSE {2^nb - 1}) :
      \/ /\ kind = "hard"
         /\ \E seeded \in BOOLEAN :
              IF seeded
              THEN \E t0 \in SeedTimes, s0 \in 0..(M - 1) :
                     InitWith(kind, nb, low, node, TRUE, t0, s0, c0, Threads)
              ELSE InitWith(kind, nb, low, node, FALSE, 0, 0, c0, Threads)   \* NewNode(node, 0)
      \/ /\ kind = "mono" /\ c0 >= 0
         /\ InitWith(kind, nb, low, node, FALSE, 0, 0, c0, Threads)
      \/ /\ kind = "nano" /\ nb = (CHOOSE x \in NodeBitsSet : TRUE) /\ low = (CHOOSE x \in LowSet : TRUE) /\ node = 2^nb - 1
         /\ \E t0 \in SeedTimes : InitWith(kind, nb, low, node, FALSE, t0, 0, c0, Threads)

Next == \E a \in Acts : Step(a)
Spec == Init /\ [][Next]_allvars
Bound == calls <= MaxCalls

(* ------------------------------ properties ---------------------------- *)
TypeOK ==
  /\ IsNum(clock) /\ IsNum(maxdone.id) /\ maxdone.has \in BOOLEAN
  /\ \A x \in issued : IsNum(x)
  /\ \A t \in DOMAIN pend : pend[t].st \in {"idle", "called"} /\ IsNum(pend[t].floor) /\ IsNum(pend[t].lo)
  /\ \A t \in DOMAIN out : IsNum(out[t].id) /\ (out[t].done => pend[t].st = "called")
  /\ step \in 0..(M - 1)

(* THE PROPERTY: every response satisfies the contract *)
Contract == [][LET a == last' IN a.op = "res" => ResOK(a.t, a.id)]_allvars

(* the contract's bookkeeping is itself consistent: everything returned is <= maxdone *)
MaxIsMax == \A x \in issued : maxdone.has /\ ~Less(maxdone.id, x)

(* ids of the scaled model never leave the non-negative range (no overflow into the sign) *)
NonNeg == \A t \in DOMAIN out : ~Neg(out[t].id)

(* the limb operators agree with integer arithmetic (checked on the ids the model produces) *)
LimbsOK ==
  \A t \in DOMAIN out : out[t].done /\ cfg.kind # "nano" =>
    LET v == FromLimbs(out[t].id)
    IN /\ ToLimbs(v) = out[t].id
       /\ FromLimbs(TsOf(cfg, out[t].id)) = v \div 2^TShift(cfg)
       /\ NodeOf(cfg, out[t].id) = (v \div 2^NShift(cfg)) % 2^(cfg.nb)
       /\ StepOf(cfg, out[t].id) = (v \div 2^SShift(cfg)) % M
       /\ (maxdone.has => (Less(maxdone.id, out[t].id) <=> FromLimbs(maxdone.id) < v))

View == vars

(* .cfg files cannot write negative numbers *)
ClocksA == (-1)..3
ClocksB == (-1)..4
ClocksC == 0..2
ClocksD == (-1)..2
=============================================================================
