--------------------------- MODULE IdGen_Trace ---------------------------
(* Validates ndjson traces recorded from the real generators against the   *)
(* CONTRACT layer of IdGen (the algorithm variables are not used).         *)
(*   reset {kind, nb, low, node, seeded, min, now, threads}                *)
(*         new generator (also: a node restarted with id `min`)            *)
(*   gen   {now, id}   one sequential call: clock reading given to the     *)
(*                     call (hard) / timestamp argument (nano), result     *)
(*   clk   {now}       the injected clock now reads `now` (free-running    *)
(*                     runs log min(old, new) when a change begins and new *)
(*                     when it is complete)                                *)
(*   inv   {t}         thread t is about to call (logged before the call)  *)
(*   res   {t, id}     thread t's call returned id (logged after return)   *)
(*   new   {err}       the constructor was called with the node number of  *)
(*                     the reset event and refused it (err) or not; logged *)
(*                     when it refused, and for node numbers chosen at and *)
(*                     beyond the node width                               *)
(* All 64-bit values are 4 limbs of 16 bits, most significant first.       *)
(* Anything else (hang, panic, crash) is inexplicable: a call that never    *)
(* returns, a panic, a dead process are observations the contract rejects. *)
EXTENDS IdGen, Json, IOUtils

TraceLog == ndJsonDeserialize(IOEnv.VERIF_TRACE)

VARIABLE l
tvars == <<allvars, l>>

TraceInit ==
  /\ l = 1
  /\ cfg = [kind |-> "nano", nb |-> 0, low |-> FALSE, node |-> 0]
  /\ clock = Zero /\ maxdone = [has |-> FALSE, id |-> Zero] /\ issued = {}
  /\ pend = <<IdleP>>
  /\ time = 0 /\ step = 0 /\ out = <<NoOut>> /\ calls = 0
  /\ last = [op |-> "init"]

TReset(e) ==
  /\ IsNum(e.min) /\ IsNum(e.now)
  /\ cfg' = [kind |-> e.kind, nb |-> e.nb, low |-> e.low, node |-> e.node]
  /\ clock' = e.now
  /\ maxdone' = [has |-> e.seeded, id |-> e.min]
  /\ issued' = {}
  /\ pend' = [t \in 1..e.threads |-> IdleP]

TGen(e) ==
  /\ IsNum(e.id) /\ IsNum(e.now)
  /\ GenOK(e.now, e.id)
  /\ CGen(e.now, e.id)

(* a node number is accepted exactly when it fits the node width *)
TNew(e) ==
  /\ cfg.kind \in {"hard", "mono"}
  /\ e.err = (cfg.node \notin 0..(2^(cfg.nb) - 1))
  /\ UNCHANGED cvars

TClk(e) == IsNum(e.now) /\ CTick(e.now)

TInv(e) == e.t \in DOMAIN pend /\ CInv(e.t)

TRes(e) ==
  /\ e.t \in DOMAIN pend /\ IsNum(e.id)
  /\ ResOK(e.t, e.id)
  /\ CRes(e.t, e.id)

TraceNext ==
  /\ l <= Len(TraceLog) /\ l' = l + 1
  /\ UNCHANGED avars /\ last' = [op |-> "ev"]
  /\ LET e == TraceLog[l] IN
       CASE e.ev = "reset" -> TReset(e)
         [] e.ev = "gen"   -> TGen(e)
         [] e.ev = "clk"   -> TClk(e)
         [] e.ev = "new"   -> TNew(e)
         [] e.ev = "inv"   -> TInv(e)
         [] e.ev = "res"   -> TRes(e)
         [] OTHER -> FALSE

TraceSpec == TraceInit /\ [][TraceNext]_tvars

(* high-water mark of l in TLC register 1 (needs -workers 1) *)
ASSUME TLCSet(1, 0)
Mark == TLCSet(1, IF l > TLCGet(1) THEN l ELSE TLCGet(1))
Accepted == PrintT(<<"MARK", TLCGet(1), Len(TraceLog)>>) /\ TLCGet(1) = Len(TraceLog) + 1

TView == <<cvars, l>>
=============================================================================
