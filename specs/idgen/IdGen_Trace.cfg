SPECIFICATION TraceSpec
CONSTANTS
  LB = 16
  NL = 4
  SB = 12
  Deviation = "none"
  Threads = {}
  Clocks = {}
  Kinds = {}
  NodeBitsSet = {}
  LowSet = {}
  SeedTimes = {}
  MaxCalls = 0
CONSTRAINT Mark
POSTCONDITION Accepted
VIEW TView
CHECK_DEADLOCK FALSE
