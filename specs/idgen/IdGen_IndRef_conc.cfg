SPECIFICATION Spec
CONSTANTS
  LB = 2
  NL = 4
  SB = 2
  Deviation = "none"
  Threads = {1, 2}
  Clocks <- ClocksC
  Kinds = {"hard", "mono", "nano"}
  NodeBitsSet = {2}
  LowSet = {TRUE}
  SeedTimes = {1}
  MaxCalls = 4
INVARIANTS IndInvRef
PROPERTIES StepRef InitRef
CONSTRAINT Bound
VIEW View
CHECK_DEADLOCK FALSE
