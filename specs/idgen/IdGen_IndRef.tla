---------------------------- MODULE IdGen_IndRef ----------------------------
(***************************************************************************)
(* Refinement mapping IdGen.tla (limbs) -> IdGen_Ind.tla (integer fields), *)
(* checked by TLC on the constants of IdGen_MC.cfg and IdGen_MC_conc.cfg:  *)
(*   InitRef    every initial state of IdGen is one of IdGen_Ind;          *)
(*   StepRef    every step of IdGen!Next is a step of IdGen_Ind!Next;      *)
(*   IndInvRef  IndInv holds in every reachable state of IdGen!Spec.       *)
(***************************************************************************)
EXTENDS IdGen

PT(id) == IF cfg.kind = "nano" THEN FromLimbs(id) ELSE FromLimbs(id) \div 2^TShift(cfg)
PS(id) == IF cfg.kind = "nano" THEN 0 ELSE (FromLimbs(id) \div 2^SShift(cfg)) % M

I == INSTANCE IdGen_Ind WITH
       M <- M,
       kind <- cfg.kind, now <- FromLimbs(clock),
       mdh <- maxdone.has, mdt <- PT(maxdone.id), mds <- PS(maxdone.id),
       issued <- {<<PT(x), PS(x)>> : x \in issued},
       pst <- [t \in Threads |-> pend[t].st], phas <- [t \in Threads |-> pend[t].has],
       pft <- [t \in Threads |-> PT(pend[t].floor)], pfs <- [t \in Threads |-> PS(pend[t].floor)],
       plo <- [t \in Threads |-> FromLimbs(pend[t].lo)],
       odone <- [t \in Threads |-> out[t].done],
       ot <- [t \in Threads |-> PT(out[t].id)], os <- [t \in Threads |-> PS(out[t].id)]

IndInvRef == I!IndInv
InitRef   == I!Init
StepRef   == [][I!NextC(Clocks)]_vars
=============================================================================
