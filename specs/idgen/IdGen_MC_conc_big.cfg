SPECIFICATION Spec
CONSTANTS
  LB = 2
  NL = 4
  SB = 2
  Deviation = "none"
  Threads = {1, 2}
  Clocks <- ClocksD
  Kinds = {"hard", "mono", "nano"}
  NodeBitsSet = {2}
  LowSet = {TRUE}
  SeedTimes = {0, 1}
  MaxCalls = 7
INVARIANTS TypeOK MaxIsMax NonNeg LimbsOK
PROPERTIES Contract
CONSTRAINT Bound
VIEW View
CHECK_DEADLOCK FALSE
