---------------------------- MODULE IdGen_Gen ----------------------------
(* Plan generation: `tlc -simulate` walks the wall-clock node of IdGen     *)
(* with overlapping callers and writes the action records of each          *)
(* behaviour as one ndjson plan.  External actions (clock moves, a caller  *)
(* entering Generate, the mutex holder taking its clock reading, restart)  *)
(* are only offered when no response is outstanding: the real call returns *)
(* by itself once it got its reading.                                      *)
EXTENDS IdGen, TLCExt, Json, IOUtils
CONSTANT Depth

Ext ==
       [op : {"tick"}, now : Clocks]
  \cup [op : {"inv", "lin"}, t : Threads]
  \cup [op : {"restart"}]

GenNext ==
  \/ \E t \in Threads : Step([op |-> "res", t |-> t])
  \/ /\ \A t \in Threads : ~out[t].done
     /\ \E a \in Ext : (a.op = "tick" => last.op # "tick") /\ Step(a)
GenSpec == Init /\ [][GenNext]_allvars

ASSUME TLCSet(2, 0)
Emit ==
  \/ TLCGet("level") < Depth
  \/ /\ TLCSet(2, TLCGet(2) + 1)
     /\ ndJsonSerialize(IOEnv.VERIF_PLANDIR \o "/p" \o ToString(TLCGet(2)) \o ".ndjson",
                        [i \in 1..Len(Trace) |-> Trace[i].last])
=============================================================================
