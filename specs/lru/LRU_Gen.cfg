SPECIFICATION Spec
CONSTANTS
  KeySet = {1, 2, 3, 4}
  ValSet = {1, 2, 3}
  SizeSet = {0, 1, 2, 3, 5}
  CapSet = {0, 1, 2, 4}
  Depth = 14
INVARIANTS Emit
CHECK_DEADLOCK FALSE
