----------------------------- MODULE LRU_IndRef -----------------------------
(***************************************************************************)
(* Refinement mapping LRU.tla -> LRU_Ind.tla, checked by TLC on the        *)
(* constants of LRU_MC.cfg (LRU_IndRef.cfg):                               *)
(*   InitRef    every initial state of LRU is one of LRU_Ind;              *)
(*   StepRef    every step of LRU!Next is the step of the same method of   *)
(*              LRU_Ind!Next;                                              *)
(*   IndInvRef  IndInv holds in every reachable state of LRU!Spec.         *)
(***************************************************************************)
EXTENDS LRU

RankOf == [k \in KeySet |-> IF Has(k) THEN PosIn(order, k) ELSE 0]

I == INSTANCE LRU_Ind WITH Keys <- KeySet,
       rank <- RankOf,
       val <- [k \in KeySet |-> IF k \in DOMAIN val THEN val[k] ELSE 0],
       sz  <- [k \in KeySet |-> IF k \in DOMAIN sz THEN sz[k] ELSE 0]

IndInvRef == I!IndInv
InitRef   == I!Init
(* action by action (the `last` variable names the method): cheaper for TLC than I!Next *)
StepRef   == [][LET a == last' IN
                  CASE a.op \in {"set", "setx"} -> I!Put(a.k, a.v, a.s)
                    [] a.op = "setnx"  -> I!SetNX(a.k, a.v, a.s)
                    [] a.op = "get"    -> I!Get(a.k)
                    [] a.op = "del"    -> I!Del(a.k)
                    [] a.op = "clear"  -> I!Clear
                    [] a.op = "setcap" -> I!SetCap(a.c)
                    [] a.op \in {"peek", "exist", "qlen", "qsize", "qcap", "qev", "qstats"} -> I!Same
                    [] OTHER -> FALSE]_vars
=============================================================================
