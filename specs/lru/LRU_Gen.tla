----------------------------- MODULE LRU_Gen -----------------------------
(* Plan generation: `tlc -simulate` walks the LRU spec and, at depth      *)
(* Depth, writes the sequence of action records of the behaviour as one   *)
(* ndjson plan file.  The Go harness replays plans against the real code. *)
EXTENDS LRU, TLCExt, Json, IOUtils
CONSTANT Depth
ASSUME TLCSet(2, 0)
Emit ==
  \/ TLCGet("level") < Depth
  \/ /\ TLCSet(2, TLCGet(2) + 1)
     /\ ndJsonSerialize(IOEnv.VERIF_PLANDIR \o "/p" \o ToString(TLCGet(2)) \o ".ndjson",
                        [i \in 1..Len(Trace) |-> Trace[i].last])
=============================================================================
