---------------------------- MODULE LRU_Trace ----------------------------
(* Validates ndjson traces recorded from the real caches against LRU.      *)
(* Events:                                                                 *)
(*   reset  {cap, sized, threads}   new cache (also separates traces)      *)
(*   call   {a, r, obs}             sequential call: action, reply, state  *)
(*   callr  {a, r}                  sequential call, reply only            *)
(*   inv    {t, a} / res {t, r}     overlapping calls: the effect is an    *)
(*                                  internal step between the two          *)
(*   final  {obs}                   quiescent observation after overlap    *)
(*   run    {a, n, dk, km, dv, ko}  n sequential calls of one method as one *)
(*                                  event: call i (from 0) has key          *)
(*                                  a.k + ((ko + dk*i) mod km)  (km = 0:    *)
(*                                  a.k + ko + dk*i), value a.v + dv*i;     *)
(*                                  applied RunChunk calls per step (rep    *)
(*                                  counts the calls done)                  *)
EXTENDS LRU, Json, IOUtils

TraceLog == ndJsonDeserialize(IOEnv.VERIF_TRACE)

VARIABLES l, pend, rep
tvars == <<allvars, l, pend, rep>>

Idle == [st |-> "idle"]

ObsOK(o, ord, vl, si, c, ev) ==
  /\ o.keys = ord
  /\ o.vals = [i \in 1..Len(ord) |-> vl[ord[i]]]
  /\ o.len = Len(ord) /\ o.size = si /\ o.cap = c /\ o.ev = ev

TraceInit ==
  /\ l = 1 /\ pend = <<>> /\ rep = 0
  /\ InitWith(0, TRUE)

TReset(e) ==
  /\ order' = <<>> /\ val' = <<>> /\ sz' = <<>> /\ size' = 0 /\ cap' = e.cap /\ evict' = 0
  /\ sized' = e.sized /\ last' = [op |-> "init"]
  /\ pend' = [t \in 1..e.threads |-> Idle]

TCall(e) ==
  /\ Step(e.a)
  /\ e.r = Reply(e.a)
  /\ ObsOK(e.obs, order', val', size', cap', evict')
  /\ UNCHANGED pend

TCallR(e) ==    \* reply only (wide variants expose no Keys/Items/Stats)
  /\ Step(e.a)
  /\ e.r = Reply(e.a)
  /\ UNCHANGED pend

TInv(e) ==
  /\ pend[e.t] = Idle
  /\ pend' = [pend EXCEPT ![e.t] = [st |-> "called", a |-> e.a]]
  /\ UNCHANGED allvars

TRes(e) ==
  /\ pend[e.t].st = "done" /\ pend[e.t].r = e.r
  /\ pend' = [pend EXCEPT ![e.t] = Idle]
  /\ UNCHANGED allvars

TFinal(e) ==
  /\ \A t \in DOMAIN pend : pend[t] = Idle
  /\ ObsOK(e.obs, order, val, size, cap, evict)
  /\ UNCHANGED <<allvars, pend>>

(* the i-th call of a run *)
RunAct(e, i) ==
  LET k == IF e.km > 0 THEN e.a.k + ((e.ko + e.dk * i) % e.km) ELSE e.a.k + e.ko + e.dk * i
  IN IF e.a.op \in {"set", "setx", "setnx"}
     THEN [op |-> e.a.op, k |-> k, v |-> e.a.v + e.dv * i, s |-> e.a.s]
     ELSE [op |-> e.a.op, k |-> k]

(* a run is applied RunChunk calls per step, through the methods as functions (LRU!FDo); the fold *)
(* is SequencesExt!FoldLeft, which TLC evaluates in Java (a recursive operator in TLA+ builds a    *)
(* chain of unevaluated arguments and is slower by orders of magnitude)                             *)
RunChunk == 4096
SX == INSTANCE SequencesExt
FRun(s, e, i, j) == SX!FoldLeft(LAMBDA acc, x : FDo(acc, RunAct(e, x)), s, [y \in 1..(j - i) |-> i + y - 1])

(* Two kinds of runs are applied in one piece instead of call by call:                            *)
(*  - the actions repeat with period per (keys cycle modulo km, one value): if one period leaves   *)
(*    the state as it was except for the eviction counter, so does every following period          *)
(*    (LRU!EvictFree: no method looks at that counter) - the whole periods left are applied at once *)
(*  - the rest of the run stores keys that are not there, one after the other, and there is room   *)
(*    for all of them: each goes to the front and nothing else changes (LRU!FillLemma)             *)
TRun ==
  /\ l <= Len(TraceLog)
  /\ LET e == TraceLog[l] IN
       /\ e.ev = "run" /\ rep < e.n
       /\ e.a.op \in {"set", "setnx", "get"}     \* methods whose reply carries nothing / is dropped
       /\ LET per  == IF e.km > 0 /\ e.dv = 0 THEN e.km ELSE 0
              left == e.n - rep
              s1   == IF per > 0 /\ left >= 2 * per THEN FRun(FSt, e, rep, rep + per) ELSE FSt
              skip == per > 0 /\ left >= 2 * per /\ [s1 EXCEPT !.evict = evict] = FSt
              m    == left \div per
              ch   == IF sized THEN e.a.s ELSE 1
              k1   == e.a.k + e.ko + rep              \* first and last key of the rest of the run
              k2   == e.a.k + e.ko + e.n - 1
              fill == /\ e.a.op \in {"set", "setnx"} /\ e.km = 0 /\ e.dk = 1 /\ left >= 2
                      /\ size + left * ch <= cap
                      /\ \A i \in 1..Len(order) : order[i] < k1 \/ order[i] > k2
              step == IF per > 0 THEN per ELSE RunChunk
              j    == IF skip THEN rep + m * per ELSE IF fill THEN e.n
                      ELSE IF rep + step < e.n THEN rep + step ELSE e.n
              new  == k1..k2
              \* the keys there may be exactly the integers right below the new ones: then the domain
              \* is written as an interval (the same set; TLC indexes such functions directly, while a
              \* look-up in a function over an enumerated set is a search)
              lowD == k1 - Len(order)
              dom  == IF Len(order) = 0 \/ DOMAIN val = lowD..(k1 - 1) THEN lowD..k2 ELSE DOMAIN val \cup new
              t    == IF skip THEN [FSt EXCEPT !.evict = evict + m * (s1.evict - evict)]
                      ELSE IF fill
                      THEN [FSt EXCEPT !.order = [i \in 1..left |-> k2 + 1 - i] \o order,
                                       !.val = [x \in dom |->
                                                  IF x >= k1 THEN e.a.v + e.dv * (x - e.a.k - e.ko) ELSE val[x]],
                                       !.sz = [x \in dom |-> IF x >= k1 THEN ch ELSE sz[x]],
                                       !.size = size + left * ch]
                      ELSE FRun(FSt, e, rep, j)
          IN /\ order' = t.order /\ val' = t.val /\ sz' = t.sz /\ size' = t.size /\ evict' = t.evict
             /\ UNCHANGED <<cap, sized>>
             /\ last' = RunAct(e, j - 1)
             /\ IF j = e.n THEN l' = l + 1 /\ rep' = 0 ELSE l' = l /\ rep' = j
  /\ UNCHANGED pend

Consume ==
  /\ l <= Len(TraceLog) /\ l' = l + 1 /\ rep = 0 /\ rep' = 0
  /\ LET e == TraceLog[l] IN
       CASE e.ev = "reset" -> TReset(e)
         [] e.ev = "call"  -> TCall(e)
         [] e.ev = "callr" -> TCallR(e)
         [] e.ev = "inv"   -> TInv(e)
         [] e.ev = "res"   -> TRes(e)
         [] e.ev = "final" -> TFinal(e)
         [] OTHER -> FALSE

Lin == \E t \in DOMAIN pend :
  /\ pend[t].st = "called"
  /\ Step(pend[t].a)
  /\ pend' = [pend EXCEPT ![t] = [st |-> "done", r |-> Reply(pend[t].a)]]
  /\ UNCHANGED <<l, rep>>

TraceNext == Consume \/ Lin \/ TRun
TraceSpec == TraceInit /\ [][TraceNext]_tvars

(* high-water mark of l in TLC register 1 (needs -workers 1) *)
ASSUME TLCSet(1, 0)
Mark == TLCSet(1, IF l > TLCGet(1) THEN l ELSE TLCGet(1))
Accepted == PrintT(<<"MARK", TLCGet(1), Len(TraceLog)>>) /\ TLCGet(1) = Len(TraceLog) + 1

TView == <<order, val, sz, size, cap, sized, evict, l, pend, rep>>
=============================================================================
