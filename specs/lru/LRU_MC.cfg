SPECIFICATION Spec
CONSTANTS
  KeySet = {1, 2, 3}
  ValSet = {1, 2}
  SizeSet = {0, 1, 2, 4}
  CapSet = {0, 1, 3}
INVARIANTS TypeOK SizeIsSum Bounded TinyCounts
PROPERTIES ReadOnly Reorders StrictLRU FLemmas
VIEW View
CHECK_DEADLOCK FALSE
