------------------------------ MODULE LRU_Ind ------------------------------
(***************************************************************************)
(* Inductive invariant of the design in LRU.tla, typed for Apalache, for   *)
(* ANY capacity, ANY charges (natural numbers) and ANY values.             *)
(*                                                                         *)
(* LRU.tla is not typable (recursive SumSz / NDrop, heterogeneous `last`   *)
(* and replies, CASE over action records, functions with shrinking         *)
(* domains) and keeps the recency list as a sequence.  The transition      *)
(* relation is RESTATED here on a sequence-free representation of the same *)
(* state over a fixed key universe Keys:                                   *)
(*    rank[k]   position of k in `order` (1 = most recent), 0 = absent     *)
(*    val[k], sz[k]   as in LRU.tla for present keys, 0 for absent ones    *)
(*    size, cap, evict, sized   as in LRU.tla                              *)
(* with the same operators (Front, Without, Trimmed, Charge; AfterPut case *)
(* by case) and one action per method, as Do(a): Put (set, setx), SetNX,   *)
(* Get, Del, Clear, SetCap, Same (peek, exist, the getters: UNCHANGED).    *)
(* Left out: `last`, Reply (return values), the action properties          *)
(* ReadOnly / Reorders / StrictLRU (TLC's business).  The eviction loop    *)
(* NDrop ("while size > cap drop the tail") is replaced by its closed      *)
(* form: charges are >= 0, so the loop stops at the longest prefix whose   *)
(* running total fits, and k survives iff the prefix ending at k fits.     *)
(* LRU_IndRef.tla is the refinement mapping; TLC checks on the constants   *)
(* of LRU_MC.cfg that every step of LRU!Next is a step of Next here and    *)
(* that IndInv holds in every reachable state of LRU!Spec; LRU_Ind_MC.cfg  *)
(* runs this module on its own (same number of distinct states).           *)
(***************************************************************************)
EXTENDS Integers, FiniteSets, Apalache

CONSTANTS
  \* @type: Set(Int);
  Keys

VARIABLES
  \* @type: Int -> Int;
  rank,
  \* @type: Int -> Int;
  val,
  \* @type: Int -> Int;
  sz,
  \* @type: Int;
  size,
  \* @type: Int;
  cap,
  \* @type: Int;
  evict,
  \* @type: Bool;
  sized

vars == <<rank, val, sz, size, cap, evict, sized>>

CInit == Keys = 1..3

(* @typeAlias: st = {rank: Int -> Int, val: Int -> Int, sz: Int -> Int, size: Int, n: Int}; *)
LRU_Ind_aliases == TRUE

(* the total charge of the entries of list rk with charges szf: a fold over the universe Keys *)
\* @type: (Int -> Int, Int -> Int) => Int;
Total(rk, szf) == LET \* @type: (Int, Int) => Int;
                      Add(acc, k) == IF rk[k] # 0 THEN acc + szf[k] ELSE acc
                  IN ApaFoldSet(Add, 0, Keys)

Has(k) == rank[k] # 0

(* <<k>> \o Without(order, k) *)
\* @type: (Int -> Int, Int) => (Int -> Int);
Front(rk, k) ==
  [j \in Keys |-> IF j = k THEN 1
                  ELSE IF rk[j] # 0 /\ (rk[k] = 0 \/ rk[j] < rk[k]) THEN rk[j] + 1
                  ELSE rk[j]]
\* @type: (Int -> Int, Int) => (Int -> Int);
Without(rk, k) ==
  [j \in Keys |-> IF j = k THEN 0
                  ELSE IF rk[k] # 0 /\ rk[j] > rk[k] THEN rk[j] - 1
                  ELSE rk[j]]
\* @type: (Int -> Int, Int, Int) => (Int -> Int);
Ext(f, k, v) == [f EXCEPT ![k] = v]
\* @type: (Int) => Int;
Charge(s) == IF sized THEN s ELSE 1

(* the eviction loop on list rk, charges szf, running total tot, capacity c *)
\* @type: (Int -> Int, Int -> Int, Int -> Int, Int, Int) => $st;
Trimmed(rk, valf, szf, tot, c) ==
  LET \* aft[j]: the running total once everything behind j is dropped
      aft == [j \in Keys |->
                LET \* @type: (Int, Int) => Int;
                    Behind(acc, x) == IF rk[x] > rk[j] THEN acc + szf[x] ELSE acc
                IN tot - ApaFoldSet(Behind, 0, Keys)]
      \* charges are >= 0, so the totals of longer prefixes are larger: the loop stops at the
      \* longest prefix that fits, and k survives iff the prefix ending at k fits
      keep == [k \in Keys |-> rk[k] # 0 /\ aft[k] <= c]
      \* @type: (Int, Int) => Int;
      GoneSz(acc, x) == IF rk[x] # 0 /\ ~keep[x] THEN acc + szf[x] ELSE acc
      \* @type: (Int, Int) => Int;
      GoneN(acc, x) == IF rk[x] # 0 /\ ~keep[x] THEN acc + 1 ELSE acc
  IN [rank |-> [k \in Keys |-> IF keep[k] THEN rk[k] ELSE 0],
      val  |-> [k \in Keys |-> IF keep[k] THEN valf[k] ELSE 0],
      sz   |-> [k \in Keys |-> IF keep[k] THEN szf[k] ELSE 0],
      size |-> tot - ApaFoldSet(GoneSz, 0, Keys),
      n    |-> ApaFoldSet(GoneN, 0, Keys)]

\* @type: $st => Bool;
Install(t) ==
  /\ rank' = t.rank /\ val' = t.val /\ sz' = t.sz /\ size' = t.size
  /\ evict' = evict + t.n

(* AfterPut of LRU.tla, case by case.  The cases are disjuncts of the actions rather than an   *)
(* IF between state records: Apalache then treats them as separate symbolic transitions and   *)
(* need not merge records of functions (3 times faster).                                      *)
\* @type: (Int, Int, Int) => $st;
PutNew(k, v, s) == Trimmed(Front(rank, k), Ext(val, k, v), Ext(sz, k, Charge(s)), size + Charge(s), cap)
\* @type: (Int, Int, Int) => $st;
PutOldSized(k, v, s) == Trimmed(Front(rank, k), Ext(val, k, v), Ext(sz, k, s), size + s - sz[k], cap)

Put(k, v, s) ==
  \/ ~Has(k) /\ Install(PutNew(k, v, s)) /\ UNCHANGED <<cap, sized>>
  \/ Has(k) /\ sized /\ Install(PutOldSized(k, v, s)) /\ UNCHANGED <<cap, sized>>
  \/ /\ Has(k) /\ ~sized      \* tiny: update in place, refresh recency, no capacity check
     /\ rank' = Front(rank, k) /\ val' = Ext(val, k, v)
     /\ UNCHANGED <<sz, size, evict, cap, sized>>
SetNX(k, v, s) ==
  \/ Has(k) /\ rank' = Front(rank, k) /\ UNCHANGED <<val, sz, size, cap, evict, sized>>
  \/ ~Has(k) /\ Install(PutNew(k, v, s)) /\ UNCHANGED <<cap, sized>>
Get(k) ==
  /\ rank' = IF Has(k) THEN Front(rank, k) ELSE rank
  /\ UNCHANGED <<val, sz, size, cap, evict, sized>>
Same == UNCHANGED vars
Del(k) ==
  IF Has(k)
  THEN /\ rank' = Without(rank, k) /\ val' = Ext(val, k, 0) /\ sz' = Ext(sz, k, 0)
       /\ size' = size - sz[k] /\ UNCHANGED <<cap, evict, sized>>
  ELSE UNCHANGED vars
Clear ==
  /\ rank' = [k \in Keys |-> 0] /\ val' = [k \in Keys |-> 0] /\ sz' = [k \in Keys |-> 0] /\ size' = 0
  /\ UNCHANGED <<cap, evict, sized>>
SetCap(c) ==
  /\ cap' = c
  /\ Install(Trimmed(rank, val, sz, size, c))
  /\ UNCHANGED sized

Init ==
  /\ rank = [k \in Keys |-> 0] /\ val = [k \in Keys |-> 0] /\ sz = [k \in Keys |-> 0]
  /\ size = 0 /\ cap \in Nat /\ evict = 0 /\ sized \in BOOLEAN

(* Vals, Sizes, Caps: Int, Nat, Nat for Apalache; the MC sets for TLC *)
\* @type: (Set(Int), Set(Int)) => Bool;
PutC(Vals, Sizes)   == \E k \in Keys : \E v \in Vals : \E s \in Sizes : Put(k, v, s)
\* @type: (Set(Int), Set(Int)) => Bool;
SetNXC(Vals, Sizes) == \E k \in Keys : \E v \in Vals : \E s \in Sizes : SetNX(k, v, s)
\* @type: Set(Int) => Bool;
SetCapC(Caps)       == \E c \in Caps : SetCap(c)
StepRest   == (\E k \in Keys : Get(k) \/ Del(k)) \/ Clear \/ Same
\* @type: (Set(Int), Set(Int), Set(Int)) => Bool;
NextC(Vals, Sizes, Caps) == PutC(Vals, Sizes) \/ SetNXC(Vals, Sizes) \/ SetCapC(Caps) \/ StepRest

(* Next, and its four parts: Apalache proves the step for each part in a run of its own     *)
(* (5 min in all; as one run 13 min, the solver context grows with every transition).       *)
StepPut    == PutC(Int, Nat)
StepSetNX  == SetNXC(Int, Nat)
StepSetCap == SetCapC(Nat)
Next == StepPut \/ StepSetNX \/ StepSetCap \/ StepRest

(* TLC only (LRU_Ind_MC.cfg): the constants of LRU_MC.cfg; evict is output only *)
MCInit == cap \in {0, 1, 3} /\ Init
MCNext == NextC({1, 2}, {0, 1, 2, 4}, {0, 1, 3})
MCView == <<rank, val, sz, size, cap, sized>>

-----------------------------------------------------------------------------
TypeOK ==
  /\ rank \in [Keys -> Nat] /\ val \in [Keys -> Int] /\ sz \in [Keys -> Nat]
  /\ size \in Int /\ cap \in Nat /\ evict \in Nat /\ sized \in BOOLEAN

(* rank is a bijection from the present keys onto 1..n: LRU!TypeOK (duplicate free list, *)
(* DOMAIN val = DOMAIN sz = Keys of the list)                                             *)
ListOK ==
  /\ \A k \in Keys : rank[k] > 1 => \E j \in Keys : rank[j] = rank[k] - 1
  /\ \A j, k \in Keys : (Has(j) /\ rank[j] = rank[k]) => j = k
  /\ \A k \in Keys : ~Has(k) => val[k] = 0 /\ sz[k] = 0
SizeIsSum  == size = Total(rank, sz)          \* the counter never drifts
Bounded    == Total(rank, sz) <= cap          \* after every operation
TinyCounts == ~sized => \A k \in Keys : Has(k) => sz[k] = 1

IndInv  == TypeOK /\ ListOK /\ SizeIsSum /\ Bounded /\ TinyCounts
IndInit == IndInv
=============================================================================
