INIT MCInit
NEXT MCNext
CONSTANTS
  Keys = {1, 2, 3}
INVARIANTS IndInv
VIEW MCView
CHECK_DEADLOCK FALSE
