SPECIFICATION TraceSpec
CONSTANTS
  KeySet = {}
  ValSet = {}
  SizeSet = {}
  CapSet = {}
CONSTRAINT Mark
POSTCONDITION Accepted
VIEW TView
CHECK_DEADLOCK FALSE
