SPECIFICATION TraceSpec
CONSTANTS
  KeySet = {}
  ValSet = {}
  SizeSet = {}
  CapSet = {}
INVARIANTS TinyCounts
CONSTRAINT Mark
POSTCONDITION Accepted
VIEW TView
CHECK_DEADLOCK FALSE
