------------------------------- MODULE LRU -------------------------------
(***************************************************************************)
(* Sequential specification of neptune's LRU caches                        *)
(*   cache.LRUCache       (Sized = TRUE : capacity bounds the sum of       *)
(*                          Value.Size())                                  *)
(*   cache/tiny.LRUCache  (Sized = FALSE: every entry counts 1)            *)
(* One action per public method (= one mutex hold in the code).  An action *)
(* is described by a record `a` (the same record the Go harness logs), the *)
(* transition by Do(a) and the value the method returns by Reply(a), a     *)
(* function of the state *before* the call.                                *)
(*                                                                         *)
(* The state is kept the way the code keeps it -- recency list, table,     *)
(* running `size` counter, eviction loop from the tail -- and the          *)
(* invariants relate it to the ideal cache (ground-truth sums, longest     *)
(* affordable prefix).                                                     *)
(***************************************************************************)
EXTENDS Integers, Sequences, FiniteSets, TLC

VARIABLES
  order,   \* sequence of keys, most recently used first
  val,     \* key -> value currently stored      (domain = keys present)
  sz,      \* key -> size charged for the entry  (domain = keys present)
  size,    \* running size counter, maintained incrementally as the code does
  cap,     \* capacity
  evict,   \* number of evictions so far (output only)
  sized,   \* configuration: TRUE = cache.LRUCache, FALSE = tiny.LRUCache
  last     \* the action record of the latest step (output only; hidden by VIEW)

vars == <<order, val, sz, size, cap, evict, sized>>
allvars == <<vars, last>>

Keys    == {order[i] : i \in 1..Len(order)}
Has(k)  == k \in Keys
SumSz(s) == LET RECURSIVE S(_) 
                S(i) == IF i = 0 THEN 0 ELSE sz[s[i]] + S(i - 1)
            IN S(Len(s))
Without(s, k) == SelectSeq(s, LAMBDA x : x # k)
Front(s, k)   == <<k>> \o Without(s, k)
Charge(a)     == IF sized THEN a.s ELSE 1

(* The eviction loop: while size > capacity drop the tail.  Returns the    *)
(* number of entries to drop from the tail of `ord` given charges `szf`    *)
(* and running total `tot`.                                                *)
RECURSIVE NDrop(_, _, _, _)
NDrop(ord, szf, tot, c) ==
  IF tot > c /\ ord # <<>>
  THEN 1 + NDrop(SubSeq(ord, 1, Len(ord) - 1), szf, tot - szf[ord[Len(ord)]], c)
  ELSE 0

(* state after inserting/refreshing k with value v, charge s, then trimming to capacity c *)
Trimmed(ord, valf, szf, tot, c) ==
  LET n    == NDrop(ord, szf, tot, c)
      keep == SubSeq(ord, 1, Len(ord) - n)
      gone == [i \in 1..n |-> ord[Len(ord) + 1 - i]]          \* eviction order: tail first
      ks   == {keep[i] : i \in 1..Len(keep)}
      RECURSIVE GS(_)
      GS(i) == IF i = 0 THEN 0 ELSE szf[gone[i]] + GS(i - 1)
  IN [order |-> keep, val |-> [k \in ks |-> valf[k]], sz |-> [k \in ks |-> szf[k]],
      size |-> tot - GS(n), n |-> n, removed |-> [i \in 1..n |-> valf[gone[i]]]]

Install(t) ==
  /\ order' = t.order /\ val' = t.val /\ sz' = t.sz /\ size' = t.size
  /\ evict' = evict + t.n

Ext(f, k, v) == [x \in DOMAIN f \cup {k} |-> IF x = k THEN v ELSE f[x]]
Rem(f, k)    == [x \in DOMAIN f \ {k} |-> f[x]]

(* result of Set-like insertion of a (k, v, s) *)
AfterPut(a) ==
  IF Has(a.k)
  THEN IF sized
       THEN Trimmed(Front(order, a.k), Ext(val, a.k, a.v), Ext(sz, a.k, a.s),
                    size + a.s - sz[a.k], cap)
       ELSE \* tiny: update in place, refresh recency, no capacity check
            [order |-> Front(order, a.k), val |-> Ext(val, a.k, a.v), sz |-> sz,
             size |-> size, n |-> 0, removed |-> <<>>]
  ELSE Trimmed(<<a.k>> \o order, Ext(val, a.k, a.v), Ext(sz, a.k, Charge(a)),
               size + Charge(a), cap)

Miss == [ok |-> FALSE, v |-> 0]
Hit(v) == [ok |-> TRUE, v |-> v]

Reply(a) ==
  CASE a.op = "set"    -> 0
    [] a.op = "setx"   -> IF Has(a.k) /\ ~sized THEN <<>> ELSE AfterPut(a).removed
    [] a.op = "setnx"  -> 0
    [] a.op = "get"    -> IF Has(a.k) THEN Hit(val[a.k]) ELSE Miss
    [] a.op = "peek"   -> IF Has(a.k) THEN Hit(val[a.k]) ELSE Miss
    [] a.op = "exist"  -> Has(a.k)
    [] a.op = "del"    -> Has(a.k)
    [] a.op = "clear"  -> 0
    [] a.op = "setcap" -> 0
    [] a.op = "mut"    -> 0
    \* the getters are methods of their own (each one mutex hold): what they return is what the ideal
    \* cache holds at the instant they take effect, also between other callers' operations
    [] a.op = "qlen"   -> Len(order)
    [] a.op = "qsize"  -> size
    [] a.op = "qcap"   -> cap
    [] a.op = "qev"    -> evict
    [] a.op = "qstats" -> [len |-> Len(order), size |-> size, cap |-> cap, ev |-> evict]
    \* the listings: one instant's recency order, each key with the value it has at that instant
    [] a.op = "qkeys"  -> [keys |-> order]
    [] a.op = "qitems" -> [keys |-> order, vals |-> [i \in 1..Len(order) |-> val[order[i]]]]
    [] OTHER           -> 0

Do(a) ==
  CASE a.op \in {"set", "setx"} ->
         Install(AfterPut(a)) /\ UNCHANGED <<cap, sized>>
    [] a.op = "setnx" ->
         IF Has(a.k)
         THEN order' = Front(order, a.k) /\ UNCHANGED <<val, sz, size, cap, evict, sized>>
         ELSE Install(AfterPut(a)) /\ UNCHANGED <<cap, sized>>
    [] a.op = "get" ->
         /\ order' = IF Has(a.k) THEN Front(order, a.k) ELSE order
         /\ UNCHANGED <<val, sz, size, cap, evict, sized>>
    [] a.op \in {"peek", "exist", "qlen", "qsize", "qcap", "qev", "qstats", "qkeys", "qitems"} -> UNCHANGED vars
    [] a.op = "del" ->
         IF Has(a.k)
         THEN /\ order' = Without(order, a.k) /\ val' = Rem(val, a.k) /\ sz' = Rem(sz, a.k)
              /\ size' = size - sz[a.k] /\ UNCHANGED <<cap, evict, sized>>
         ELSE UNCHANGED vars
    [] a.op = "clear" ->
         /\ order' = <<>> /\ val' = <<>> /\ sz' = <<>> /\ size' = 0
         /\ UNCHANGED <<cap, evict, sized>>
    [] a.op = "setcap" ->
         /\ cap' = a.c
         /\ Install(Trimmed(order, val, sz, size, a.c))
         /\ UNCHANGED sized
    [] a.op = "mut" ->   \* the stored value object now reports another Size(); the cache is not
         UNCHANGED vars   \* told: it keeps charging what the value said when it was stored
    [] OTHER -> FALSE

InitWith(c, s) ==
  /\ order = <<>> /\ val = <<>> /\ sz = <<>> /\ size = 0 /\ cap = c /\ evict = 0 /\ sized = s
  /\ last = [op |-> "init", cap |-> c, sized |-> s]

Step(a) == Do(a) /\ last' = a

---------------------------------------------------------------------------
(* Bounded instance for exhaustive checking *)
CONSTANTS KeySet, ValSet, SizeSet, CapSet

Acts ==
       [op : {"set", "setx", "setnx"}, k : KeySet, v : ValSet, s : SizeSet]
  \cup [op : {"get", "peek", "exist", "del"}, k : KeySet]
  \cup [op : {"clear", "qlen", "qsize", "qcap", "qev", "qstats"}]
  \cup [op : {"setcap"}, c : CapSet]

Init == \E c \in CapSet, s \in BOOLEAN : InitWith(c, s)
Next == \E a \in Acts : Step(a)
Spec == Init /\ [][Next]_allvars

(* ------------------------- properties -------------------------------- *)
TypeOK ==
  /\ DOMAIN val = Keys /\ DOMAIN sz = Keys
  /\ \A i, j \in 1..Len(order) : i # j => order[i] # order[j]       \* duplicate free
  /\ size \in Int /\ cap \in Int /\ evict \in Nat

SizeIsSum  == size = SumSz(order)                 \* the counter never drifts
Bounded    == SumSz(order) <= cap                 \* after every operation
TinyCounts == ~sized => \A k \in Keys : sz[k] = 1

(* read-only methods are read-only; Get/SetIfAbsent only reorder *)
ReadOnly == [][last'.op \in {"peek", "exist", "qlen", "qsize", "qcap", "qev", "qstats", "qkeys", "qitems"} => UNCHANGED vars]_allvars
Reorders == [][last'.op \in {"get"} => UNCHANGED <<val, sz, size, cap, evict>> /\ Keys' = Keys]_allvars

(* Evictions take strictly the least recently used entries: whatever     *)
(* survives a step keeps its relative order, except the touched key that *)
(* moves to the front, and every survivor was more recent than every     *)
(* victim.                                                               *)
PosIn(s, k) == CHOOSE i \in 1..Len(s) : s[i] = k
StrictLRU ==
  [][LET a == last' IN (a.op \in {"set", "setx", "setnx", "setcap"}) =>
        LET touched == IF a.op = "setcap" THEN {} ELSE {a.k}
            old     == Keys \ touched
            kept    == {k \in old : k \in {order'[i] : i \in 1..Len(order')}}
            victims == old \ kept
        IN /\ \A k \in kept, w \in victims : PosIn(order, k) < PosIn(order, w)
           /\ \A k1, k2 \in kept : PosIn(order, k1) < PosIn(order, k2)
                                      => PosIn(order', k1) < PosIn(order', k2)
           /\ evict' - evict >= Cardinality(victims)
  ]_allvars

(* ----------------- the methods as functions on a state record ------------------ *)
(* Used where one step of a trace stands for many calls (LRU_Trace, run events): FDo(s, a) is the  *)
(* state record after method a in state s.  FAgrees - checked exhaustively with the other         *)
(* properties - says that it is the same transition as Do(a), for every method in every state.   *)
FSt == [order |-> order, val |-> val, sz |-> sz, size |-> size, cap |-> cap, evict |-> evict, sized |-> sized]
FHas(s, k) == \E i \in 1..Len(s.order) : s.order[i] = k
FPut(s, a) ==
  IF FHas(s, a.k)
  THEN IF s.sized
       THEN Trimmed(Front(s.order, a.k), Ext(s.val, a.k, a.v), Ext(s.sz, a.k, a.s),
                    s.size + a.s - s.sz[a.k], s.cap)
       ELSE [order |-> Front(s.order, a.k), val |-> Ext(s.val, a.k, a.v), sz |-> s.sz,
             size |-> s.size, n |-> 0, removed |-> <<>>]
  ELSE LET ch == IF s.sized THEN a.s ELSE 1
       IN Trimmed(<<a.k>> \o s.order, Ext(s.val, a.k, a.v), Ext(s.sz, a.k, ch), s.size + ch, s.cap)
FInst(s, t) == [s EXCEPT !.order = t.order, !.val = t.val, !.sz = t.sz, !.size = t.size,
                         !.evict = s.evict + t.n]
FDo(s, a) ==
  CASE a.op \in {"set", "setx"} -> FInst(s, FPut(s, a))
    [] a.op = "setnx" -> IF FHas(s, a.k) THEN [s EXCEPT !.order = Front(s.order, a.k)]
                         ELSE FInst(s, FPut(s, a))
    [] a.op = "get"   -> IF FHas(s, a.k) THEN [s EXCEPT !.order = Front(s.order, a.k)] ELSE s
    [] a.op = "del"   -> IF FHas(s, a.k)
                         THEN [s EXCEPT !.order = Without(s.order, a.k), !.val = Rem(s.val, a.k),
                                        !.sz = Rem(s.sz, a.k), !.size = s.size - s.sz[a.k]]
                         ELSE s
    [] a.op = "clear" -> [s EXCEPT !.order = <<>>, !.val = <<>>, !.sz = <<>>, !.size = 0]
    [] a.op = "setcap" -> FInst([s EXCEPT !.cap = a.c], Trimmed(s.order, s.val, s.sz, s.size, a.c))
    [] OTHER -> s
FAgrees == [][FSt' = FDo(FSt, last')]_allvars
(* a key that is not there, stored where there is room for it, goes to the front and nothing else *)
(* changes (LRU_Trace applies a run of such insertions in one piece on the strength of this)       *)
FillLemma == [][LET a == last' IN
                  (a.op \in {"set", "setx", "setnx"} /\ ~Has(a.k) /\ size + Charge(a) <= cap) =>
                     /\ order' = <<a.k>> \o order /\ val' = Ext(val, a.k, a.v)
                     /\ sz' = Ext(sz, a.k, Charge(a)) /\ size' = size + Charge(a) /\ evict' = evict
               ]_allvars
(* no method looks at the eviction counter: started with another count, it does the same and adds *)
(* the same number (LRU_Trace skips whole periods of a periodic run on the strength of this)      *)
EvictFree == [][LET a == last' IN \A x \in {0, 5} :
                  LET t1 == FDo([FSt EXCEPT !.evict = x], a)
                      t0 == FDo(FSt, a)
                  IN [t1 EXCEPT !.evict = 0] = [t0 EXCEPT !.evict = 0] /\ t1.evict - x = t0.evict - evict
               ]_allvars

(* the three as one action property (one evaluation of FDo shared; EvictFree with one other count) *)
FLemmas == [][LET a  == last'
                  t0 == FDo(FSt, a)
                  t1 == FDo([FSt EXCEPT !.evict = evict + 5], a)
              IN /\ FSt' = t0
                 /\ [t1 EXCEPT !.evict = 0] = [t0 EXCEPT !.evict = 0] /\ t1.evict = t0.evict + 5
                 /\ (a.op \in {"set", "setx", "setnx"} /\ ~Has(a.k) /\ size + Charge(a) <= cap) =>
                       /\ order' = <<a.k>> \o order /\ val' = Ext(val, a.k, a.v)
                       /\ sz' = Ext(sz, a.k, Charge(a)) /\ size' = size + Charge(a) /\ evict' = evict
            ]_allvars

View == <<order, val, sz, size, cap, sized>>
=============================================================================
