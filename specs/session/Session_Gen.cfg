SPECIFICATION GenSpec
CONSTANTS
  Sess = {1, 2, 3, 4}
  MaxcSet = {1000}
  MaxBytes = 9
  Dev = "none"
  Depth = 60
  WtSet = {300, 700, 1000, 8000}
  RtSet = {20000, 60000}
INVARIANTS Emit
CHECK_DEADLOCK FALSE
