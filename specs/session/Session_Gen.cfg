SPECIFICATION GenSpec
CONSTANTS
  Sess = {1, 2, 3, 4}
  MaxcSet = {1000}
  MaxBytes = 9
  Dev = "none"
  Depth = 60
INVARIANTS Emit
CHECK_DEADLOCK FALSE
