SPECIFICATION Spec
CONSTANTS
  Sess = {1}
  MaxcSet = {1}
  MaxBytes = 2
  Dev = "closequit"
INVARIANTS TypeOK SingleExit CountBalanced CountBounded EndedExited OpenWhileAlive RefusedClosed InOrder Flush QuietEnded QuietCount 
PROPERTIES EndStable Monotone
VIEW View
CHECK_DEADLOCK FALSE
