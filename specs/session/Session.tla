------------------------------ MODULE Session ------------------------------
(***************************************************************************)
(* neptune stcp: TCP sessions of one SessionMgr behind one accept loop.    *)
(*                                                                         *)
(* A session is two goroutines: the send loop (PopAnyway from the send     *)
(* queue, SetWriteDeadline, conn.Write) and the receive loop               *)
(* (SetReadDeadline, handler.Read).  Whatever ends a loop, it runs quit(): *)
(* under exitOnce  OnExit; count.Dec; sendQ.Close; conn.Close.  Session.   *)
(* Close only closes the send queue; the send loop drains what is queued   *)
(* and then quits, which closes the connection and so ends the receive     *)
(* loop.                                                                   *)
(*                                                                         *)
(* External (environment / API) actions, driven by action records `a`:     *)
(*   start   accept-loop iteration for a new connection: refuse (close)    *)
(*           when ConnCount() >= maxConn, else Start (count+1, 2 loops)    *)
(*   send    Session.Send(b)    close   Session.Close()   (both also before *)
(*           Start: life-cycle orders NewSession-Close-Start etc.)         *)
(*   wok     the pending conn.Write completes (the peer reads)             *)
(*   wfault  the pending conn.Write fails after n bytes (error / timeout)  *)
(*   rok     the handler's Read returns nil (a frame arrived)              *)
(*   rfault  the handler's Read returns an error: peer closed (eof), read  *)
(*           error, read timeout, handler-level error; or SetReadDeadline  *)
(*           fails before the next Read (dl).  A failing SetWriteDeadline  *)
(*           is a wfault with n = 0.  What conn.Close() returns is not     *)
(*           modelled: it changes nothing that is required.                *)
(*   panic   the handler's Read panics                                     *)
(* Internal actions (one per step of a loop): SPop, SWClosed, RClosed,     *)
(* Quit, X1..X4 (the four effects of the exit body).                       *)
(*                                                                         *)
(* The send queue is a flat byte sequence: how the implementation cuts it  *)
(* into Write calls is left open (SPop takes any non-empty prefix).        *)
(*                                                                         *)
(* Dev names a deviation of the code from the design (non-vacuity):        *)
(*   "pop"     send loop uses Pop (gives up when the queue is closed)      *)
(*   "noonce"  quit without exitOnce                                       *)
(*   "closequit" Close before Start runs the exit body (count - 1, no + 1) *)
(***************************************************************************)
EXTENDS Integers, Sequences, FiniteSets, TLC

CONSTANTS Sess,      \* session (connection attempt) identities, 1..N
          MaxcSet,   \* configured maximum numbers of connections
          MaxBytes,  \* MC bound: bytes accepted per session
          Dev

VARIABLES
  maxc,    \* configuration: WithMaxConn
  count,   \* SessionMgr.count
  ss,      \* session -> record (below)
  last     \* latest action record (output only)

vars    == <<maxc, count, ss>>
allvars == <<vars, last>>

(* st     "new" | "run" | "refused"                                        *)
(* q      bytes queued in sendQ         qcl   sendQ closed                 *)
(* copen  connection not yet closed     peer  bytes delivered to the peer  *)
(* acc    bytes accepted by Send        wbuf  bytes of the Write in flight *)
(* lclose Session.Close was called      term  other terminating events     *)
(* exits  OnExit calls                  decs  count.Dec calls              *)
(* sp     send loop:    idle | pop | write | quit | x1..x4 | done          *)
(* rp     receive loop: idle | read        | quit | x1..x4 | done          *)
(* once   exitOnce: free | busy | done                                     *)
NewS == [st |-> "new", q |-> <<>>, qcl |-> FALSE, copen |-> TRUE, peer |-> <<>>, acc |-> <<>>,
         wbuf |-> <<>>, lclose |-> FALSE, term |-> {}, exits |-> 0, decs |-> 0,
         sp |-> "idle", rp |-> "idle", once |-> "free"]

Set(s, r) == ss' = [ss EXCEPT ![s] = r]
XSteps == {"x1", "x2", "x3", "x4"}
Loops  == {"sp", "rp"}

-----------------------------------------------------------------------------
(* external actions *)

DoStart(a) ==
  LET c == ss[a.s] IN
  /\ c.st = "new"
  /\ IF count >= maxc
     THEN /\ a.r = "refused"
          /\ Set(a.s, [c EXCEPT !.st = "refused", !.copen = FALSE])
          /\ UNCHANGED count
     ELSE /\ a.r = "admitted"
          /\ Set(a.s, [c EXCEPT !.st = "run", !.sp = "pop", !.rp = "read"])
          /\ count' = count + 1

(* send and close are also possible on a session object that is not started *)
(* yet (NewSession, no Start): the queue takes the bytes / is closed, nothing  *)
(* else happens until Start; a session that is closed and never started     *)
(* never exits, is never counted, and its connection stays as it is.        *)
DoSend(a) ==
  LET c == ss[a.s] IN
  /\ c.st \in {"new", "run"}
  /\ UNCHANGED count
  /\ IF a.b = <<>>                       \* nothing to deliver: accepted or refused, no effect
     THEN a.r \in {"ok", "err"} /\ UNCHANGED ss
     ELSE IF c.qcl
          THEN a.r = "err" /\ UNCHANGED ss
          ELSE a.r = "ok" /\ Set(a.s, [c EXCEPT !.q = @ \o a.b, !.acc = @ \o a.b])

DoClose(a) ==
  LET c == ss[a.s] IN
  /\ c.st \in {"new", "run"}
  /\ IF Dev = "closequit" /\ c.st = "new"
     THEN \* deviation: Close uses up the start and runs the exit body itself (no Inc ever)
          /\ Set(a.s, [c EXCEPT !.st = "run", !.qcl = TRUE, !.lclose = TRUE, !.exits = @ + 1,
                                !.decs = @ + 1, !.copen = FALSE, !.once = "done",
                                !.sp = "done", !.rp = "done"])
          /\ count' = count - 1
     ELSE /\ Set(a.s, [c EXCEPT !.qcl = TRUE, !.lclose = TRUE])
          /\ UNCHANGED count

DoWok(a) ==
  LET c == ss[a.s] IN
  /\ c.sp = "write" /\ c.copen
  /\ Set(a.s, [c EXCEPT !.peer = @ \o c.wbuf, !.wbuf = <<>>, !.sp = "pop"])
  /\ UNCHANGED count

DoWfault(a) ==
  LET c == ss[a.s] IN
  /\ c.sp = "write" /\ c.copen
  /\ a.n \in 0..(Len(c.wbuf) - 1)
  /\ Set(a.s, [c EXCEPT !.peer = @ \o SubSeq(c.wbuf, 1, a.n), !.wbuf = <<>>, !.sp = "quit",
                         !.term = @ \cup {"wfault"}])
  /\ UNCHANGED count

DoRok(a) ==
  /\ ss[a.s].rp = "read" /\ ss[a.s].copen
  /\ UNCHANGED <<ss, count>>

DoRend(a, why) ==
  LET c == ss[a.s] IN
  /\ c.rp = "read" /\ c.copen
  /\ Set(a.s, [c EXCEPT !.rp = "quit", !.term = @ \cup {why}])
  /\ UNCHANGED count

Do(a) ==
  /\ UNCHANGED maxc
  /\ CASE a.op = "start"  -> DoStart(a)
       [] a.op = "send"   -> DoSend(a)
       [] a.op = "close"  -> DoClose(a)
       [] a.op = "wok"    -> DoWok(a)
       [] a.op = "wfault" -> DoWfault(a)
       [] a.op = "rok"    -> DoRok(a)
       [] a.op = "rfault" -> DoRend(a, "rfault")    \* a.k names the error (any kind, plain or wrapped)
       [] a.op = "panic"  -> DoRend(a, "panic")
       [] OTHER -> FALSE

Step(a) == Do(a) /\ last' = a

-----------------------------------------------------------------------------
(* internal actions *)

CanPop(c) == c.q # <<>> /\ (Dev # "pop" \/ ~c.qcl)

(* whole: the next Write carries everything that is queued (used where the cut *)
(* is not observable)                                                        *)
SPop(s, whole) ==
  LET c == ss[s] IN
  /\ c.sp = "pop"
  /\ IF CanPop(c)
     THEN \E k \in (IF whole THEN {Len(c.q)} ELSE 1..Len(c.q)) :
            Set(s, [c EXCEPT !.wbuf = SubSeq(c.q, 1, k), !.q = SubSeq(c.q, k + 1, Len(c.q)),
                             !.sp = "write"])
     ELSE c.qcl /\ Set(s, [c EXCEPT !.sp = "quit"])
  /\ UNCHANGED count

SWClosed(s) ==   \* SetWriteDeadline / Write on a closed connection fail
  LET c == ss[s] IN
  /\ c.sp = "write" /\ ~c.copen
  /\ Set(s, [c EXCEPT !.sp = "quit", !.wbuf = <<>>])
  /\ UNCHANGED count

RClosed(s) ==    \* SetReadDeadline / Read on a closed connection fail
  LET c == ss[s] IN
  /\ c.rp = "read" /\ ~c.copen
  /\ Set(s, [c EXCEPT !.rp = "quit"])
  /\ UNCHANGED count

Quit(s, L) ==
  LET c == ss[s] IN
  /\ c[L] = "quit"
  /\ UNCHANGED count
  /\ IF Dev = "noonce" THEN Set(s, [c EXCEPT ![L] = "x1"])
     ELSE \/ c.once = "free" /\ Set(s, [c EXCEPT ![L] = "x1", !.once = "busy"])
          \/ c.once = "done" /\ Set(s, [c EXCEPT ![L] = "done"])

X1(s, L) == LET c == ss[s] IN
  c[L] = "x1" /\ Set(s, [c EXCEPT ![L] = "x2", !.exits = @ + 1]) /\ UNCHANGED count
X2(s, L) == LET c == ss[s] IN
  c[L] = "x2" /\ Set(s, [c EXCEPT ![L] = "x3", !.decs = @ + 1]) /\ count' = count - 1
X3(s, L) == LET c == ss[s] IN
  c[L] = "x3" /\ Set(s, [c EXCEPT ![L] = "x4", !.qcl = TRUE]) /\ UNCHANGED count
X4(s, L) == LET c == ss[s] IN
  /\ c[L] = "x4"
  /\ Set(s, [c EXCEPT ![L] = "done", !.copen = FALSE,
                      !.once = IF Dev = "noonce" THEN @ ELSE "done"])
  /\ UNCHANGED count

InternalW(s, whole) ==
  /\ UNCHANGED maxc
  /\ \/ SPop(s, whole) \/ SWClosed(s) \/ RClosed(s)
     \/ \E L \in Loops : Quit(s, L) \/ X1(s, L) \/ X2(s, L) \/ X3(s, L) \/ X4(s, L)

Internal(s) == InternalW(s, FALSE)

(* no internal action enabled (closed form; QuiescentOK compares it with ENABLED) *)
QuietS(c) ==
  /\ ~(c.sp = "pop" /\ (CanPop(c) \/ c.qcl))
  /\ ~(c.sp = "write" /\ ~c.copen)
  /\ ~(c.rp = "read" /\ ~c.copen)
  /\ c.sp \notin XSteps \cup {"quit"}
  /\ c.rp \notin XSteps \cup {"quit"}
Quiescent == \A s \in Sess : QuietS(ss[s])

-----------------------------------------------------------------------------
InitWith(m) ==
  /\ maxc = m /\ count = 0
  /\ ss = [s \in Sess |-> NewS]
  /\ last = [op |-> "init", maxc |-> m]

Init == \E m \in MaxcSet : InitWith(m)

(* MC alphabet: the i-th byte a session accepts is the number i, so order and *)
(* completeness of delivery are visible.                                     *)
Fresh(c, n) == [i \in 1..n |-> Len(c.acc) + i]
ActsOf(s) ==
  LET c == ss[s] IN
       [op : {"start"}, s : {s}, r : {"admitted", "refused"}]
  \cup {[op |-> "send", s |-> s, b |-> Fresh(c, n), r |-> r] :
          n \in {k \in 1..2 : Len(c.acc) + k <= MaxBytes}, r \in {"ok", "err"}}
  \cup [op : {"close", "wok", "rok", "panic"}, s : {s}]
  \cup [op : {"wfault"}, s : {s}, n : 0..1]
  \cup [op : {"rfault"}, s : {s}, k : {"eof", "err", "timeout", "herr", "dl", "temp"}]

Tau == [op |-> "tau"]
Next ==
  \/ \E s \in Sess : \E a \in ActsOf(s) : Step(a)
  \/ \E s \in Sess : Internal(s) /\ last' = Tau

Spec == Init /\ [][Next]_allvars

(* fairness: the loops run; a Write in flight is eventually resolved (by the  *)
(* peer reading or, in the code, by the write deadline)                      *)
FairSpec ==
  /\ Spec
  /\ \A s \in Sess : WF_allvars(Internal(s) /\ last' = Tau)
  /\ \A s \in Sess : WF_allvars(Step([op |-> "wok", s |-> s]))

-----------------------------------------------------------------------------
Ended(c)      == c.sp = "done" /\ c.rp = "done"
Terminated(c) == c.lclose \/ c.term # {}
IsPrefix(u, v) == Len(u) <= Len(v) /\ SubSeq(v, 1, Len(u)) = u
Running == {s \in Sess : ss[s].st = "run"}

RECURSIVE SumDecs(_)
SumDecs(T) == IF T = {} THEN 0 ELSE LET x == CHOOSE y \in T : TRUE IN ss[x].decs + SumDecs(T \ {x})

PcSend == {"idle", "pop", "write", "quit", "done"} \cup XSteps
PcRecv == {"idle", "read", "quit", "done"} \cup XSteps
TypeOK ==
  /\ maxc \in Nat /\ count \in Int
  /\ \A s \in Sess : LET c == ss[s] IN
       /\ c.st \in {"new", "run", "refused"}
       /\ c.sp \in PcSend /\ c.rp \in PcRecv /\ c.once \in {"free", "busy", "done"}
       /\ c.exits \in Nat /\ c.decs \in Nat
       /\ c.qcl \in BOOLEAN /\ c.copen \in BOOLEAN /\ c.lclose \in BOOLEAN

(* the exit callback runs at most once (exactly once: EndedExited + liveness) *)
SingleExit == \A s \in Sess : ss[s].exits <= 1

(* count = sessions started - sessions that gave their slot back; bounded *)
CountBalanced ==
  /\ count = Cardinality(Running) - SumDecs(Sess)
  /\ \A s \in Sess : ss[s].decs <= 1 /\ ss[s].decs <= ss[s].exits
  /\ count >= 0
CountBounded == count <= maxc

(* a session whose loops are both gone has called OnExit once, returned its *)
(* slot and closed its connection                                          *)
EndedExited == \A s \in Sess : LET c == ss[s] IN
  (Ended(c) \/ c.once = "done") => c.exits = 1 /\ c.decs = 1 /\ ~c.copen /\ c.qcl

(* the connection of a started session is closed by nothing but its exit *)
OpenWhileAlive == \A s \in Sess : LET c == ss[s] IN
  (c.st = "run" /\ c.exits = 0) => c.copen
RefusedClosed == \A s \in Sess : ss[s].st = "refused" => ~ss[s].copen /\ ss[s].exits = 0

(* bytes reach the peer in order *)
InOrder == \A s \in Sess : LET c == ss[s] IN
  /\ IsPrefix(c.peer, c.acc)
  /\ (c.sp \in {"pop", "write"} /\ c.copen) => c.acc = c.peer \o c.wbuf \o c.q

(* flush: when local Close is the only terminating event, everything accepted *)
(* has reached the (reading) peer when the connection closes                  *)
Flush == \A s \in Sess : LET c == ss[s] IN
  (c.st = "run" /\ ~c.copen /\ c.term = {}) => c.peer = c.acc

(* stable states: after a terminating event nothing is left but, at most, a  *)
(* Write in flight                                                           *)
QuietEnded == \A s \in Sess : LET c == ss[s] IN
  (QuietS(c) /\ c.st = "run" /\ Terminated(c) /\ c.sp # "write") => Ended(c)
QuietCount == Quiescent =>
  count = Cardinality({s \in Running : ~Ended(ss[s])})

QuiescentOK == Quiescent <=> \A s \in Sess : ~ENABLED Internal(s)

(* action properties *)
Proj(c) == <<c.exits, c.decs, c.peer, c.copen, c.qcl, c.sp, c.rp, c.once>>
EndStable == [][\A s \in Sess : Ended(ss[s]) => Proj(ss'[s]) = Proj(ss[s])]_allvars
Monotone  == [][\A s \in Sess : /\ ss'[s].exits >= ss[s].exits
                                /\ IsPrefix(ss[s].peer, ss'[s].peer)
                                /\ (~ss[s].copen => ~ss'[s].copen)]_allvars

(* liveness: every terminating event ends the session *)
Ends == \A s \in Sess : (ss[s].st = "run" /\ Terminated(ss[s])) ~> Ended(ss[s])

View == vars
=============================================================================
