SPECIFICATION Spec
CONSTANTS
  Sess = {1}
  MaxcSet = {1}
  MaxBytes = 3
  Dev = "pop"
INVARIANTS TypeOK SingleExit CountBalanced CountBounded EndedExited OpenWhileAlive RefusedClosed InOrder Flush QuietEnded QuietCount 
PROPERTIES EndStable Monotone
VIEW View
CHECK_DEADLOCK FALSE
