---------------------------- MODULE Session_Gen ----------------------------
(* Plan generation: `tlc -simulate` walks the Session spec.  External      *)
(* actions are taken in quiescent states (mirroring the executor) or       *)
(* directly behind an action marked hold (the executor fires that one      *)
(* without waiting for quiescence, so the two race on the real code).      *)
(* Internal steps appear as "tau" lines and are ignored by the executor.   *)
EXTENDS Session, TLCExt, Json, IOUtils
CONSTANTS Depth,
          WtSet, RtSet    \* manager options drawn with the plan: write / read timeout in ms
ASSUME TLCSet(2, 0)

GenActs(s) ==
  LET c == ss[s] IN
       [op : {"start"}, s : {s}, r : {"admitted", "refused"}]
  \cup {[op |-> "send", s |-> s, b |-> Fresh(c, n), r |-> r] :
          n \in {k \in 0..3 : Len(c.acc) + k <= MaxBytes /\ (Ended(c) => k = 1)},
          r \in {"ok", "err"}}
  \cup [op : {"close", "wok"}, s : {s}]
  \cup [op : {"panic"}, s : {s},      \* k: how the handler ends - kind of the panic value, or Goexit
        k : {"string", "error", "struct", "int", "typednil", "nil", "nilerr", "goexit"}]
  \cup [op : {"rok"}, s : {s}, f : {"x", "send", "close"}]   \* f: what the handler does with the frame
                                                            \* (its own Send / Close are recorded by it)
  \cup [op : {"wfault"}, s : {s}, n : 0..2]
  \cup [op : {"rfault"}, s : {s}, k : {"eof", "err", "timeout", "herr", "dl", "temp", "c:unexp", "c:w:deadline", "c:netclosed", "h:qclosed", "h:w:eof", "h:short"}]

Held == "hold" \in DOMAIN last /\ last.hold

Ext(ops, alive) ==
  /\ Quiescent \/ Held
  /\ \E s \in Sess : \E a \in {x \in GenActs(s) : x.op \in ops} : \E h \in BOOLEAN :
       /\ alive => ~Ended(ss[s])
       /\ Do(a) /\ last' = [hold |-> h] @@ a

(* TLC's simulator picks a top-level disjunct at random: the list is the weighting *)
GenNext ==
  \/ Ext({"start"}, TRUE)
  \/ Ext({"send"}, TRUE)
  \/ Ext({"send", "rok"}, TRUE)
  \/ Ext({"wok"}, TRUE)
  \/ Ext({"wok", "rok"}, TRUE)
  \/ Ext({"send", "wok"}, TRUE)
  \/ Ext({"close"}, TRUE)
  \/ Ext({"wfault", "rfault", "panic"}, TRUE)
  \/ Ext({"send", "close"}, FALSE)
  \/ /\ Quiescent /\ ~Held           \* executor-only: the next SetWriteDeadline of s fails
     /\ \E s \in Sess : ss[s].st = "run" /\ ~Ended(ss[s])
                         /\ UNCHANGED vars /\ last' = [op |-> "wdl", s |-> s, hold |-> FALSE]
  \/ /\ ~Quiescent /\ ~Held
     /\ \E s \in Sess : Internal(s) /\ last' = Tau
  \/ /\ TLCGet("level") >= Depth - 1     \* marks the behaviour that is written out
     /\ UNCHANGED vars /\ last' = [op |-> "end"]

GenInit ==
  \E m \in MaxcSet : \E wt \in WtSet : \E rt \in RtSet :
    /\ maxc = m /\ count = 0 /\ ss = [s \in Sess |-> NewS]
    /\ last = [op |-> "init", maxc |-> m, wt |-> wt, rt |-> rt]

GenSpec == GenInit /\ [][GenNext]_allvars

Emit ==
  \/ TLCGet("level") < Depth \/ last.op # "end"
  \/ /\ TLCSet(2, TLCGet(2) + 1)
     /\ ndJsonSerialize(IOEnv.VERIF_PLANDIR \o "/p" \o ToString(TLCGet(2)) \o ".ndjson",
                        [i \in 1..Len(Trace) |-> Trace[i].last])
=============================================================================
