SPECIFICATION Spec
CONSTANTS
  Sess = {1, 2}
  MaxcSet = {1, 2}
  MaxBytes = 0
  Dev = "none"
INVARIANTS TypeOK SingleExit CountBalanced CountBounded EndedExited OpenWhileAlive RefusedClosed InOrder Flush QuietEnded QuietCount 
PROPERTIES EndStable Monotone
VIEW View
CHECK_DEADLOCK FALSE
