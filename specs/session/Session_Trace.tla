--------------------------- MODULE Session_Trace ---------------------------
(* Validates executions of the real stcp sessions.                          *)
(*                                                                          *)
(*   reset {maxc, free}    new SessionMgr (and, free, a new Server)         *)
(*   fire  {a}             the harness performed external action a (an API  *)
(*                         call, a command to the scripted connection /     *)
(*                         handler, a client-side action)                   *)
(*   race                  compact per-session and per-batch observations   *)
(*                         of one race round (see RaceOK below)             *)
(*   sync  {obs}           the harness waited for global quiescence and     *)
(*                         observed: ConnCount, and per session OnExit      *)
(*                         calls, conn closed, the Write / Read in flight,  *)
(*                         bytes at the peer, session goroutines left       *)
(*                                                                          *)
(* Between two events the spec may take internal steps (the two loops, the  *)
(* exit body); a sync is matched only in a state where no internal step is  *)
(* enabled, so "should have ended but is still there" is a rejection.       *)
(* In free traces (real loopback sockets) the peer reads by itself: wok is  *)
(* a silent environment step that has happened by the time of a sync (the   *)
(* kernel took the bytes), how the queue is cut into Writes is invisible    *)
(* (SPop takes all of it), and what a client has read so far is only a      *)
(* prefix of what was written unless it has read up to a clean EOF (or, a   *)
(* pure reader, up to the end of the stream).  Elements of a stream are     *)
(* bytes, or whole blocks in bulk transfers (the client checks each block's *)
(* content and reports its number; tail = bytes of an incomplete block).    *)
EXTENDS Session, Json, IOUtils

TraceLog == ndJsonDeserialize(IOEnv.VERIF_TRACE)

VARIABLES l, pend, free,
          bound   \* what ConnCount can have been at most since the last reset / reconf
tvars == <<allvars, l, pend, free, bound>>

TraceInit == l = 1 /\ pend = 0 /\ free = FALSE /\ bound = 1 /\ InitWith(1)

TReset(e) ==
  /\ maxc' = e.maxc /\ count' = 0 /\ ss' = [s \in Sess |-> NewS]
  /\ last' = [op |-> "init", maxc |-> e.maxc]
  /\ free' = e.free
  /\ bound' = (IF e.maxc > 0 THEN e.maxc ELSE 0)

(* scripted connection: everything is visible *)
StepObsOK(o) ==
  /\ o.count = count
  /\ \A i \in 1..Len(o.ss) : LET c == ss[i]  x == o.ss[i] IN
       /\ x.st = c.st
       /\ x.exits = c.exits
       /\ x.closed = ~c.copen
       /\ x.w = c.wbuf
       /\ x.r = (c.rp = "read")
       /\ x.peer = c.peer
       /\ x.inmut                          \* Send never wrote to a slice it was handed
       /\ Ended(c) => x.g = 0              \* both session goroutines are gone

(* real sockets: the client's view *)
FreeObsOK(o) ==
  /\ o.count = count
  \* ConnCount as read by the handlers and by a free-running sampler while connections are
  \* accepted and sessions end: within 0 .. max at every instant (max <= 0 admits nothing)
  /\ o.maxseen <= bound
  /\ o.minseen >= 0
  /\ (\A i \in 1..Len(o.ss) : Ended(ss[i]) \/ ss[i].st # "run") => o.g = 0
  /\ \A i \in 1..Len(o.ss) : LET c == ss[i]  x == o.ss[i] IN
       /\ x.st = c.st
       /\ x.exits = c.exits
       \* The client has everything when it read up to a clean EOF - or up to the end of
       \* the stream however it ended if it is a pure reader (it never sent or closed, so
       \* nothing but the server's own close can have ended the stream, and nothing unread
       \* on the server side can have turned that close into a reset).
       /\ IF x.eof \/ (x.gone /\ x.pure)
          THEN x.got = c.peer /\ x.tail = 0 /\ ~c.copen
          ELSE IsPrefix(x.got, c.peer)
       /\ x.gone => ~c.copen                            \* the client saw the connection end

(* Race rounds: thousands of sessions whose two loops were released by ONE    *)
(* event (a pending Read and a pending Write fail together), no driver step   *)
(* in between, observed after quiescence.  Only the projection of the ended   *)
(* state is recorded (per session, in one event per batch); what Session.tla  *)
(* says about an ended session (invariants SingleExit, EndedExited) and about the  *)
(* count in a quiescent state (QuietCount, CountBalanced) is required of it:  *)
(* the exit callback ran exactly once and the connection is closed; after a   *)
(* batch the count is back at its previous value (and was previous + n while  *)
(* all n sessions were alive), no session goroutine is left.                  *)
RaceOK(e) ==
  /\ Len(e.exits) = e.n /\ Len(e.closed) = e.n
  /\ \A i \in 1..e.n : e.exits[i] = 1 /\ e.closed[i]
  /\ e.started = e.before + e.n /\ e.after = e.before /\ e.g = 0

(* Long runs (lengths around integer widths): one session takes n one-byte    *)
(* Sends and is then closed with a reading peer - n applications of send,     *)
(* close, n of wok: everything arrives, in order, one exit, count restored    *)
(* (kind "sends"); or n sessions are alive at once and are then all closed    *)
(* (kind "alive": the count is previous + n, then previous).  Run-length      *)
(* encoded in one event.                                                      *)
RunOK(e) ==
  /\ e.after = e.before /\ e.g = 0
  /\ IF e.kind = "sends"
     THEN e.accepted = e.n /\ e.delivered = e.n /\ e.inorder /\ e.exits = 1 /\ e.closed
          /\ e.during = e.before + 1
     ELSE e.kind = "alive" /\ e.during = e.before + e.n /\ e.exits = e.n /\ e.closed = e.n

TraceNext ==
  \/ /\ pend = 0 /\ l <= Len(TraceLog)
     /\ LET e == TraceLog[l] IN
          CASE e.ev = "reset" -> TReset(e) /\ l' = l + 1 /\ UNCHANGED pend
            [] e.ev = "fire"  -> Step(e.a) /\ l' = l + 1 /\ UNCHANGED <<pend, free, bound>>
            [] e.ev = "sync"  -> pend' = 1 /\ UNCHANGED <<allvars, l, free, bound>>
            [] e.ev = "race"  -> RaceOK(e) /\ l' = l + 1 /\ UNCHANGED <<allvars, pend, free, bound>>
            [] e.ev = "run"   -> RunOK(e) /\ l' = l + 1 /\ UNCHANGED <<allvars, pend, free, bound>>
            [] e.ev = "reconf" -> \* the same Server object restarted with another limit; sessions carry over
                 /\ Quiescent /\ maxc' = e.maxc /\ l' = l + 1
                 \* live sessions carry over: the count may stay above a lowered limit, it cannot grow there
                 /\ bound' = (IF e.maxc > count THEN e.maxc ELSE count)
                 /\ UNCHANGED <<count, ss, last, pend, free>>
            [] OTHER -> FALSE
  \/ /\ pend = 1 /\ Quiescent
     /\ IF free THEN (\A s \in Sess : ss[s].sp # "write") /\ FreeObsOK(TraceLog[l].obs)
                ELSE StepObsOK(TraceLog[l].obs)
     /\ l' = l + 1 /\ pend' = 0 /\ UNCHANGED <<allvars, free, bound>>
  \/ /\ \E s \in Sess : InternalW(s, free)
     /\ UNCHANGED <<last, l, pend, free, bound>>
  \/ /\ free                                             \* the peer reads
     /\ \E s \in Sess : Do([op |-> "wok", s |-> s])
     /\ UNCHANGED <<last, l, pend, free, bound>>

TraceSpec == TraceInit /\ [][TraceNext]_tvars

TView == <<vars, l, pend, free, bound>>

ASSUME TLCSet(1, 0)
Mark == TLCSet(1, IF l > TLCGet(1) THEN l ELSE TLCGet(1))
Accepted == PrintT(<<"MARK", TLCGet(1), Len(TraceLog)>>) /\ TLCGet(1) = Len(TraceLog) + 1
=============================================================================
