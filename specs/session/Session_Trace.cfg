SPECIFICATION TraceSpec
CONSTANTS
  Sess = {1, 2, 3, 4, 5, 6, 7, 8, 9, 10, 11, 12, 13, 14, 15, 16, 17, 18, 19, 20}
  MaxcSet = {1}
  MaxBytes = 0
  Dev = "none"

CONSTRAINT Mark
POSTCONDITION Accepted
VIEW TView
CHECK_DEADLOCK FALSE
