SPECIFICATION TraceSpec
CONSTANTS
  Sess = {1, 2, 3, 4, 5, 6}
  MaxcSet = {1}
  MaxBytes = 0
  Dev = "none"

CONSTRAINT Mark
POSTCONDITION Accepted
VIEW TView
CHECK_DEADLOCK FALSE
