SPECIFICATION Spec
CONSTANTS
  Sess = {1}
  MaxcSet = {1}
  MaxBytes = 4
  Dev = "none"
INVARIANTS TypeOK SingleExit CountBalanced CountBounded EndedExited OpenWhileAlive RefusedClosed InOrder Flush QuietEnded QuietCount QuiescentOK
PROPERTIES EndStable Monotone
VIEW View
CHECK_DEADLOCK FALSE
