SPECIFICATION FairSpec
CONSTANTS
  Sess = {1}
  MaxcSet = {1}
  MaxBytes = 3
  Dev = "none"
PROPERTIES Ends
CHECK_DEADLOCK FALSE
