#!/bin/sh
# Run once after a fresh restore, offline: pre-build the Go harness against /repo (warms the
# Go build cache) and parse every TLA+ module.
set -e
cd "$(dirname "$0")"
export GOFLAGS=-mod=mod GOPROXY=off GOSUMDB=off GOTOOLCHAIN=local
cp /repo/go.sum harness/go.sum
(cd harness && go build -tags verif -o /dev/null ./... 2>&1 || (cd /verif/harness && for d in cmd/*; do go build -tags verif -o /dev/null ./$d || echo "setup: $d does not build"; done))
mkdir -p build/setup-tmp
for f in specs/*/*.tla; do
  d=$(dirname "$f")
  (cd "$d" && java -Djava.io.tmpdir=/verif/build/setup-tmp -cp /opt/veriftools/tla/tla2tools.jar:/opt/veriftools/tla/CommunityModules-deps.jar -DTLA-Library=/verif/lib/tla tla2sany.SANY "$(basename "$f")" >/dev/null 2>&1) || echo "setup: SANY failed on $f"
done
rm -rf build/setup-tmp
echo setup done
