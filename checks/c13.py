"""C13 queues - no lost wake-ups; close releases every blocked consumer.  QueueWake.tla (list queues
with blocking consumers: park / notify / wake / re-check) and PriWake.tla (priq: two halves of Push and
Pop around the wait-channel signal) model-checked for every interleaving, with non-vacuity witnesses
and a liveness run; plans and seeded schedules are executed step by step on real goroutines with
global quiescence (internal/qx) and, for priq, the two gate hooks; the stable picture after every
step is validated by QueueWake_Trace / PriWake_Trace.  Thorough tier adds free-running stress."""


def _load(ctx, name):
    """A harness that recorded a `hang` (a call of the code under test that neither returns nor blocks)
    ends early: trace files of later phases do not exist then."""
    import os
    p = ctx.path(name)
    return ctx.load_traces(p) if os.path.exists(p) else []


def run(ctx):
    fam = "queue"
    ctx.tlc_mc(fam, "QueueWake", "QueueWake_MC.cfg", workers=4, coverage=ctx.thorough)
    ctx.tlc_mc(fam, "QueueWake", "QueueWake_MC_bug.cfg", workers=1, expect_violation="NoStranded")
    ctx.tlc_mc(fam, "QueueWake", "QueueWake_MC_bug_sigfirst.cfg", workers=1, expect_violation="NoStranded")
    ctx.tlc_mc(fam, "QueueWake", "QueueWake_MC_bug_prod.cfg", workers=1, expect_violation="NoStrandedProducer")
    ctx.tlc_mc(fam, "QueueWake", "QueueWake_MC_live.cfg", workers=4)
    ctx.tlc_mc(fam, "PriWake", "PriWake_MC.cfg", workers=4, coverage=ctx.thorough)
    ctx.tlc_mc(fam, "PriWake", "PriWake_MC_bug.cfg", workers=1, expect_violation="WakeInv")
    if ctx.thorough:
        ctx.tlc_mc(fam, "QueueWake", "QueueWake_MC_big.cfg", workers=16, timeout=3000, heap="16g")
        ctx.tlc_mc(fam, "QueueWake", "QueueWake_MC_live_big.cfg", workers=16, timeout=3000, heap="16g")
        ctx.tlc_mc(fam, "PriWake", "PriWake_MC_big.cfg", workers=16, timeout=3000)
    pdir, plans = ctx.tlc_plans(fam, "QueueWake_Gen", "QueueWake_Gen.cfg", num=ctx.q(120, 1800), depth=18)
    ppdir, pplans = ctx.tlc_plans(fam, "PriWake_Gen", "PriWake_Gen.cfg", num=ctx.q(60, 1200), depth=22,
                                  sub="pplans", seed_off=1)
    binary = ctx.go_build("c13")
    ctx.harness(binary, ["-plans", pdir, "-pplans", ppdir, "-out", ctx.path("wake.ndjson"),
                         "-pout", ctx.path("priwake.ndjson"), "-stress", ctx.path("stress.ndjson"),
                         "-pstress", ctx.path("pstress.ndjson"), "-seed", ctx.seed,
                         "-rand", ctx.q(60, 700), "-prand", ctx.q(35, 500), "-nstress", ctx.q(4, 100),
                         "-race", ctx.q(520, 1600), "-rounds", "enter,ctl,prod,enter,ctl,take,enter,ctl,prod,feed", "-prace", ctx.q(60, 1000), "-npstress", ctx.q(60, 600)],
                traces=[ctx.path("wake.ndjson"), ctx.path("priwake.ndjson"), ctx.path("stress.ndjson"),
                        ctx.path("pstress.ndjson")])
    wake = _load(ctx, "wake.ndjson")
    pwake = _load(ctx, "priwake.ndjson")
    stress = _load(ctx, "stress.ndjson")
    pstress = _load(ctx, "pstress.ndjson")
    rj = ctx.validate(fam, "QueueWake_Trace", "QueueWake_Trace.cfg", wake, label="steps", chunk=20000)
    rj += ctx.validate(fam, "PriWake_Trace", "PriWake_Trace.cfg", pwake, label="priq-steps", chunk=30000)
    rj += ctx.validate(fam, "QueueWake_Trace", "QueueWake_Trace.cfg", stress, label="stress", chunk=20000)
    rj += ctx.validate(fam, "PriWake_Trace", "PriWake_Trace.cfg", pstress, label="priq-stress", chunk=20000)
    ctx.judge(rj)
    ctx.extra["plans"] = len(plans) + len(pplans)
    ctx.extra["step_traces"] = len(wake)
    ctx.extra["priq_step_traces"] = len(pwake)
    ctx.extra["stress_runs"] = len(stress) + len(pstress)
    kinds = {}
    for t in wake + pwake:
        kinds[t[0]["kind"]] = kinds.get(t[0]["kind"], 0) + 1
    ctx.extra["configurations"] = kinds
    ctx.assumptions += [
        "global quiescence is read from runtime.Stack wait reasons (internal/qx); 'parked' = a consumer whose Pop has not returned at global quiescence (today: sync.Cond.Wait)",
        "which notified consumer runs first is left open: TLC searches the order of the Wake steps",
        "burst steps: one goroutine issues 2-5 calls (adds, close) back to back with consumers parked, "
        "quiescence only afterwards; the trace spec applies the calls one by one with Wake steps in "
        "between in any order; priq: pushn/popn (k calls back to back) and gateall (all gated calls "
        "released together)",
        "race steps: 2-5 calls (1-4 consumers entering Pop/PopAnyway plus close / adds / both; priq: a "
        "token-holding consumer's Pop with Len() pollers, pushers on a full queue, other poppers) run on "
        "different goroutines released together by a spin barrier with seeded skews, quiescence only "
        "afterwards; the trace spec applies the calls (priq: their halves) in ANY order with Wake steps in "
        "between; every reply of the race is compared with the order TLC chooses; rounds: consumers entering + "
        "{close | adds | both}, and {close | try-close | try-clear} x {1-3 adds / prior adds} with and without "
        "parked consumers on empty / one-item / closed queues; all worlds run in lock-step batches of 20 fresh "
        "queues per quiescence; the barrier releases only when it has just seen every participant spin",
        "every trace ends with a sequential observation: IsClosed / IsCleared / Len where the type has them, "
        "close, PopAnyway until 'closed', TryClear, the accessors again; 'parked' is logged only for a "
        "goroutine the runtime reports blocked at that moment (otherwise quiescence is awaited again)",
        "priq stress includes Len() pollers and pushers rejected by a full queue (never retried)",
        "readers (IsClosed / IsCleared / Len / Size, WaitClose / WaitClear with an ended context, TryPop) take "
        "part in a third of the race rounds as calls with replies; priq race rounds start cold in a third of the "
        "cases (the fresh queue is first touched by four goroutines at once)",
        "no progress-dependent exit 2: a non-blocking call that does not come back is reply 'blocked'; a stress "
        "producer / poller that does not come back is counted in 'stuck'; if quiescence is not reached and the "
        "same goroutine is seen running in the same neptune function at six probes two seconds apart, a `hang` "
        "event is recorded (rejected by every trace spec) and the harness ends normally",
        "capacities include -1 and MaxInt (logged clamped) for the list queues and 0, -1, MaxInt for priq; calls "
        "whose return depends on the exact length (AddAnyway, WaitClear with a live context) are only issued "
        "while the harness's count model is exact (before the first burst / race of a trace)",
        "blocked producers are first-class: AddAnyway runs on producer goroutines (op paddw), may stay inside "
        "the call on a full lane (asleep between two tries on the unchanged tree: counted as quiet, and while "
        "any producer is inside a call quiescence is re-awaited twice after several poll periods), must get on "
        "when there is room and be refused once closed (NoStrandedProducer, CloseSem); plans, random "
        "schedules and 'prod' race rounds (k sleepers x Pops / close / another producer) on capacities 1..2",
        "item values (nil, typed nil, zero values, uncomparable values, the same pointer twice) as in C12",
        "what is issued is decided by the harness's own count model of the property (qa.Model), never by "
        "the implementation's replies",
        "priq mid-call states are reached through verifGate (build tag verif) before tyrSignal in Push/Pop; "
        "item order is not part of this property (C12)",
        "stress runs are judged at their quiescent end only (nobody left parked, items conserved; "
        "priq: non-empty => token present)",
    ]
    return ctx.finish(
        rule="plans = TLC simulation of QueueWake.tla (external calls in stable states, 4 consumers, 5 queue "
             "types; every second plan with its runs of adds/close fused into bursts) and PriWake.tla (4 procs, "
             "gates, bursts); seeded random schedules and 'c parked consumers + burst of k adds' scenarios on all "
             "types; a trace is one queue lifetime ending with close + drain",
        explanation="after every call and global quiescence: who returned with which reply and who sleeps in "
                    "sync.Cond.Wait must be a stable state of QueueWake.tla; priq: len(WaitCh()), Len() and "
                    "gate positions must equal PriWake.tla's successor state, on which WakeInv is checked")
