"""X07 tokens (specification growth): the small validators and token generators.  Tokens.tla states the accepted
language of strvali.IsValidEmail structurally (cut at the "@", cut the domain at the dots) and as a one-pass
scanner; the exhaustive run shows both agree on every class string up to a length, three named regex slips break
the agreement.  The real IsValidEmail / IsValidPhoneNum / GenNonceStr / SecGenNonceStr / MD5UUID / SHA256UUID /
Rand*Secure are run on exhaustively enumerated short strings, grammar-built and damaged inputs, boundary bases and
lengths, every cut of a digit string, and distinctness runs with 1..8 concurrent callers; every recorded result is
validated by Tokens_Trace."""
import json
import os
import re

import vlib


def describe(rj):
    ev = rj["event"]

    def s(k):
        return bytes(ev.get(k, [])).decode("utf-8", "replace")[:120]
    if ev.get("ev") == "email":
        what = "IsValidEmail(%r) = %s" % (s("s"), ev.get("r"))
    elif ev.get("ev") == "phone":
        what = "IsValidPhoneNum(%r, %r) = %s" % (s("ac"), s("ph"), ev.get("r"))
    elif ev.get("ev") == "splits":
        what = "cuts of %r accepted: %s" % (s("d"), ev.get("acc"))
    else:
        what = json.dumps(ev)[:300]
    return "%s %s is not admitted by Tokens.tla (event #%d of its trace)" % (what, ev.get("p", ""), rj["line"])


def run(ctx):
    fam = "tokens"
    kf = os.path.join(vlib.ROOT, "extras", "known_findings_x07.json")
    ctx.findings = [f for f in json.load(open(kf))["findings"]
                    if f.get("property") == ctx.pid and f.get("status") == "open"]
    # 1. the two denotations of the e-mail language agree; named slips do not
    ctx.tlc_mc(fam, "Tokens", "Tokens_MC.cfg", workers=4, coverage=ctx.thorough,
               label="structural = scanner, 8 classes, length <= 6, tld 2..3")
    ctx.tlc_mc(fam, "Tokens", "Tokens_MC_bug.cfg", workers=1, expect_violation="Agree",
               label="witness: label may start with - or _")
    ctx.tlc_mc(fam, "Tokens", "Tokens_MC_bug_tld.cfg", workers=1, expect_violation="Agree",
               label="witness: one-letter tld")
    ctx.tlc_mc(fam, "Tokens", "Tokens_MC_nonempty.cfg", workers=1, expect_violation="NoneAccepted",
               label="witness: the language is not empty")
    if ctx.thorough:
        ctx.tlc_mc(fam, "Tokens", "Tokens_MC_bug_plus.cfg", workers=4, expect_violation="Agree",
                   label="witness: no + in the local part (length 7)")
        ctx.tlc_mc(fam, "Tokens", "Tokens_MC_big.cfg", workers=8, timeout=1500, label="length <= 8")
    # 2. the real code
    binary = ctx.go_build("x07")
    f = {k: ctx.path(k + ".ndjson") for k in ("out", "splits", "longarea", "uniq")}
    args = ["-seed", ctx.seed, "-l4", ctx.q(7, 9), "-l8", ctx.q(4, 5), "-ngram", ctx.q(12000, 120000),
            "-nphone", ctx.q(3000, 30000), "-nuniq", ctx.q(20000, 200000)]
    for k, p in f.items():
        args += ["-" + k, p]
    out = ctx.harness(binary, args, traces=list(f.values()), timeout=1500)
    # 3. validate
    t = {k: ctx.load_traces(p) for k, p in f.items()}
    rj = ctx.validate(fam, "Tokens_Trace", "Tokens_Trace.cfg", t["out"], label="calls", chunk=ctx.q(30000, 40000))
    rj += ctx.validate(fam, "Tokens_Trace", "Tokens_Trace.cfg", t["splits"], label="cuts", max_rejections=ctx.q(4, 8))
    rj += ctx.validate(fam, "Tokens_Trace", "Tokens_Trace.cfg", t["longarea"], label="long area",
                       max_rejections=ctx.q(4, 8))
    rj += ctx.validate(fam, "Tokens_Trace", "Tokens_Trace.cfg", t["uniq"], label="distinct", max_rejections=12)
    # keep one rejected trace per known finding as a replay (./check X07 --replay extras/replays/<id>.json)
    os.makedirs(os.path.join(vlib.ROOT, "extras", "replays"), exist_ok=True)
    for r in rj:
        hit = vlib.match_finding(ctx.findings, r["trace"][0], r["event"], r)
        rp = os.path.join(vlib.ROOT, "extras", "replays", "%s.json" % hit["id"]) if hit else None
        if rp and not os.path.exists(rp):
            with open(rp, "w") as fh:
                json.dump({"property": ctx.pid, "finding": hit["id"], "seed": ctx.seed, "rejected_line": r["line"],
                           "rejected_event": r["event"], "label": r.get("label", ""), "explanation": describe(r),
                           "validate_with": r.get("how", {}), "trace": r["trace"]}, fh, indent=1)
    ctx.judge(rj, describe)
    for m in re.finditer(r"(\w+)=(\d+)", out):
        ctx.extra[m.group(1)] = int(m.group(2))
    ctx.extra["traces_by_part"] = {k: len(v) for k, v in t.items()}
    ctx.assumptions += [
        "e-mail: a byte >= 128 is class O (Go's regexp reads UTF-8 and its \\w, \\d are ASCII-only; every "
        "non-ASCII rune and every invalid byte is outside all classes of the statement)",
        "phone: outside \"+86\" only necessary conditions are demanded of an accepted number (ITU E.164: calling "
        "code 1..3 digits not starting with 0; NANP NXX-NXX-XXXX, trunk prefix 1 tolerated, for calling code 1; "
        "calling codes prefix-free, so at most one cut of a digit string is a valid number); which numbers of a "
        "plan are valid is left to libphonenumber's metadata",
        "nonce: 'every byte of a base with <= 4 distinct bytes occurs in >= 800 draws' and 'tokens of >= 64 random "
        "bits do not repeat among <= 200000 draws' are probabilistic (false-alarm probability < 1e-9)",
        "distinctness is recorded as (calls, distinct results, sample of repeated values) by the harness",
    ]
    return ctx.finish(
        rule="email: every string over {a @ . -} up to length 7 (9), over 8 class representatives up to 4 (5), "
             "grammar-built addresses with out-of-bounds parts and seeded damage, 60 boundary strings; phone: "
             "area strings over {+ 8 6 1 x space} up to 4 x 21 phones, the +86 plan swept over the first two "
             "digits and lengths 9..12 with damage, 33 public numbers x 11 area spellings x 11 phone spellings, "
             "random digits; every cut of a digit string; nonce: 13 bases x 13 lengths x 2 generators + random; "
             "distinctness: 8 generators x {1,4,8} goroutines",
        explanation="every verdict / token recorded from the real code must be admitted by Tokens.tla: e-mail "
                    "verdict = structural denotation, phone verdict within the plan rules, nonce length and "
                    "alphabet, hex format, no repeated token")
