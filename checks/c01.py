"""C01 semap: Semap.tla model-checked (design right with the repaired release rule, wrong with
the pinned one), plans replayed step by step on real goroutines with global quiescence,
status vectors + container projection validated by Semap_Trace; free-running stress judged on
monitor events."""


def run(ctx):
    fam = "semap"
    ctx.tlc_mc(fam, "Semap", "Semap_MC.cfg", workers=4, coverage=ctx.thorough)
    ctx.tlc_mc(fam, "Semap", "Semap_MC_bug.cfg", workers=1, expect_violation="NoResidue")
    ctx.tlc_mc(fam, "Semap", "Semap_MC_live.cfg", workers=4)
    if ctx.thorough:
        ctx.tlc_mc(fam, "Semap", "Semap_MC_big.cfg", workers=16, timeout=3000, heap="16g")
    # unbounded design-level safety (extras/ind.md): Semap_Ind restates the design without sequences; TLC
    # checks the refinement Semap -> Semap_Ind (every step, IndInv) and that Semap_Ind reaches no more states;
    # Apalache proves IndInv inductive for any ratio (thorough tier only: base + step take ~3 min)
    r0 = ctx.mc[0]
    ctx.tlc_mc(fam, "Semap_IndRef", "Semap_IndRef.cfg", workers=4, label="refinement Semap -> Semap_Ind")
    r1 = ctx.tlc_mc(fam, "Semap_Ind", "Semap_Ind_MC.cfg", workers=4, label="Semap_Ind on its own, same constants")
    if r1["distinct"] != r0["distinct"]:
        from vlib import MachineryError
        raise MachineryError("Semap_Ind reaches %d states, Semap %d: the restated copy has drifted"
                                 % (r1["distinct"], r0["distinct"]))
    if ctx.thorough:
        ctx.tlc_mc(fam, "Semap_IndRef", "Semap_IndRef_big.cfg", workers=16, heap="16g",
                   label="refinement Semap -> Semap_Ind, 4 procs 2 keys")
        ctx.apalache_ind(fam, "Semap_Ind", next_="NextAtomic", cinit="CInit", timeout=1500,
                         label="Semap_Ind: IndInv inductive under the four critical sections (cancel, acqc "
                               "are compositions); ratio symbolic, 3 procs, 2 keys")
        ctx.apalache_ind(fam, "Semap_Ind", next_="NextAtomic", cinit="CInitDev", timeout=900, expect_violation=True,
                         label="Semap_Ind witness: not inductive under the pinned release rule")
    pdir, plans = ctx.tlc_plans(fam, "Semap_Gen", "Semap_Gen.cfg", num=ctx.q(150, 2500), depth=16)
    binary = ctx.go_build("c01")
    ctx.harness(binary, ["-plans", pdir, "-out", ctx.path("steps.ndjson"), "-stress", ctx.path("stress.ndjson"),
                         "-seed", ctx.seed, "-rand", ctx.q(100, 2000), "-nstress", ctx.q(6, 100), "-nbatch", ctx.q(0, 0),
                         "-nlong", ctx.q(6, 60), "-npingpong", ctx.q(300, 5000), "-nraces", ctx.q(60, 1500),
                         "-nsim", ctx.q(400, 20000), "-nretain", ctx.q(6, 30)],
                traces=[ctx.path("steps.ndjson"), ctx.path("stress.ndjson")])
    steps = ctx.load_traces(ctx.path("steps.ndjson"))
    stress = ctx.load_traces(ctx.path("stress.ndjson"))
    rj = ctx.validate(fam, "Semap_Trace", "Semap_Trace.cfg", steps, label="steps", chunk=20000)
    rj += ctx.validate(fam, "Semap_Trace", "Semap_Trace.cfg", stress, label="stress", chunk=20000)
    ctx.judge(rj)
    ctx.extra["branch_coverage"] = branch_coverage(steps)
    ctx.extra["plans"] = len(plans)
    ctx.extra["step_traces"] = len(steps)
    ctx.extra["stress_traces"] = len(stress)
    ctx.assumptions += [
        "global quiescence is read from runtime.Stack wait reasons (internal/qx)",
        "stress: monitor events logged inside the critical section; overlap in the log is real overlap",
    ]
    return ctx.finish(
        rule="plans = TLC simulation of Semap.tla (4 procs, 2 keys, ratio 1..3) + seeded random schedules "
             "(3..6 procs, 1..3 keys, ratio 1,2,3,10, 255..257, 65535..65537, MaxInt, MaxInt-1); variants "
             "single/wide/xhash, shards 1,2,7,73; keys as ints, strings, equal numbers of different integer "
             "types, and unusual dynamic kinds (nil, typed nil pointers, structs, pointers, arrays, bool, "
             "float, channel; for the sharded variants the kinds remap can place, incl. Bs / HitGroup types); "
             "contexts cancelled, with deadline, below a value, ended through the parent, of the caller's own "
             "type; long runs (acquire/release cycles as one event: 255..257, 65535..65537), a two-writer "
             "ping-pong of 300 hand-offs, race steps (releases, cancellations and arrivals let go by one "
             "barrier) and free-running rounds of simultaneous releases",
        explanation="every step: worker statuses (hold/parked/gate/idle) and (present,cur,waiters) per key "
                    "from the verif accessors must equal the successor state of Semap.tla; a batch / race "
                    "step must equal the result of some order of its critical sections; a run must leave "
                    "the state as one cycle leaves it (unchanged) with every cycle gone through")


def branch_coverage(traces):
    """How often the rare branches of the code were really taken in the recorded executions."""
    c = {"steps": 0, "acquire_parked": 0, "release_grants_waiters": 0, "cancel_resolved_as_granted": 0,
         "cancel_of_head_grants_others": 0, "acquire_with_ended_context": 0, "entry_deleted": 0}
    for tr in traces:
        prev = None
        for e in tr:
            if e.get("ev") != "step":
                continue
            a, st = e["a"], e["st"]
            c["steps"] += 1
            me = a["p"] - 1
            if a["op"] in ("acq", "acqc") and st[me] == "parked":
                c["acquire_parked"] += 1
            if a["op"] == "acqc":
                c["acquire_with_ended_context"] += 1
            if prev is not None:
                newhold = [i for i, (x, y) in enumerate(zip(prev["st"], st)) if y == "hold" and x != "hold" and i != me]
                if a["op"] == "rel" and newhold:
                    c["release_grants_waiters"] += 1
                if a["op"] in ("cancel", "cresolve") and newhold:
                    c["cancel_of_head_grants_others"] += 1
                if e["entries"] < prev["entries"]:
                    c["entry_deleted"] += 1
            if a["op"] == "cresolve" and st[me] == "hold":
                c["cancel_resolved_as_granted"] += 1
            prev = e
    return c
