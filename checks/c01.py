"""C01 semap: Semap.tla model-checked (design right with the repaired release rule, wrong with
the pinned one), plans replayed step by step on real goroutines with global quiescence,
status vectors + container projection validated by Semap_Trace; free-running stress judged on
monitor events."""


def run(ctx):
    fam = "semap"
    ctx.tlc_mc(fam, "Semap", "Semap_MC.cfg", workers=4, coverage=ctx.thorough)
    ctx.tlc_mc(fam, "Semap", "Semap_MC_bug.cfg", workers=1, expect_violation="NoResidue")
    ctx.tlc_mc(fam, "Semap", "Semap_MC_live.cfg", workers=4)
    if ctx.thorough:
        ctx.tlc_mc(fam, "Semap", "Semap_MC_big.cfg", workers=16, timeout=3000, heap="16g")
    pdir, plans = ctx.tlc_plans(fam, "Semap_Gen", "Semap_Gen.cfg", num=ctx.q(150, 2500), depth=16)
    binary = ctx.go_build("c01")
    ctx.harness(binary, ["-plans", pdir, "-out", ctx.path("steps.ndjson"), "-stress", ctx.path("stress.ndjson"),
                         "-seed", ctx.seed, "-rand", ctx.q(100, 2000), "-nstress", ctx.q(6, 100)],
                traces=[ctx.path("steps.ndjson"), ctx.path("stress.ndjson")])
    steps = ctx.load_traces(ctx.path("steps.ndjson"))
    stress = ctx.load_traces(ctx.path("stress.ndjson"))
    rj = ctx.validate(fam, "Semap_Trace", "Semap_Trace.cfg", steps, label="steps", chunk=20000)
    rj += ctx.validate(fam, "Semap_Trace", "Semap_Trace.cfg", stress, label="stress", chunk=20000)
    ctx.judge(rj)
    ctx.extra["plans"] = len(plans)
    ctx.extra["step_traces"] = len(steps)
    ctx.extra["stress_traces"] = len(stress)
    ctx.assumptions += [
        "global quiescence is read from runtime.Stack wait reasons (internal/qx)",
        "stress: monitor events logged inside the critical section; overlap in the log is real overlap",
    ]
    return ctx.finish(
        rule="plans = TLC simulation of Semap.tla (4 procs, 2 keys, ratio 1..3) + seeded random schedules "
             "(3..6 procs, 1..3 keys, ratio 1,2,3,10); variants single/wide/xhash, shards 1,2,7,73",
        explanation="every step: worker statuses (hold/parked/gate/idle) and (present,cur,waiters) per key "
                    "from the verif accessors must equal the successor state of Semap.tla")
