"""C07 snowflake codec: SnowCodec.tla (executable denotation) checked exhaustively over every id / pair of
ids / interval of a scaled layout (algorithm => contract, fields unique, range contract <=> the property's
quantified sentences, three named deviations violate it); the real IDFields / IDParse / IDParseEx /
CnStyle / FromChStyle / TimeIDRange / TimeBetweenID are run on boundary-biased ids and intervals under every
layout and epochs from 2000 to 9000 (installed through the public Setup or the hook), every result validated by
SnowCodec_Trace.  Date forms are kept as returned and decoded (twice) only after all the others were
rendered, for every second layout; the functions are also called by 4-8 goroutines at once; a call that
does not return and a panic are events of their own kind.  Switching histories push the same instants
(same date-form seconds, same ranges, same low bits) through changing layouts back to back - A, B, A ... by
hook and by Setup - so nothing remembered from an earlier call may survive a layout change."""


def run(ctx):
    fam = "snowcodec"
    ctx.tlc_mc(fam, "SnowCodec", "SnowCodec_MC.cfg", workers=4, label="all ids, pairs, intervals of 8-bit layouts")
    ctx.tlc_mc(fam, "SnowCodec", "SnowCodec_MC_equiv.cfg", workers=4,
               label="range contract <=> quantified sentences (6-bit layout)")
    devs = [("lowshift", "IdInv"), ("maxnolow", "RangeInv"), ("untrunc", "RangeInv")]
    for dev, inv in (devs if ctx.thorough else devs[:2]):
        ctx.tlc_mc(fam, "SnowCodec", "SnowCodec_MC_bug_%s.cfg" % dev, workers=1, expect_violation=inv,
                   label="witness: deviation %s" % dev)
    if ctx.thorough:
        ctx.tlc_mc(fam, "SnowCodec", "SnowCodec_MC_big.cfg", workers=16, timeout=3000, heap="16g",
                   label="all ids, pairs, intervals of 9-bit layouts")
        ctx.tlc_mc(fam, "SnowCodec", "SnowCodec_MC_equiv_big.cfg", workers=16, timeout=3000, heap="16g",
                   label="range contract <=> quantified sentences (7-bit layouts)")
    binary = ctx.go_build("c07")
    tf = ctx.path("codec.ndjson")
    out = ctx.harness(binary, ["-out", tf, "-seed", ctx.seed, "-nts", ctx.q(40, 300), "-raw", ctx.q(60, 400),
                               "-pairs", ctx.q(150, 1200), "-ranges", ctx.q(120, 900), "-epochs", ctx.q(3, 8), "-switch", ctx.q(400, 4000)],
                      traces=[tf])
    traces = ctx.load_traces(tf)
    rj = ctx.validate(fam, "SnowCodec_Trace", "SnowCodec_Trace.cfg", traces, label="codec", chunk=60000,
                      max_rejections=ctx.q(6, 20))
    ctx.judge(rj)
    n = {}
    for t in traces:
        for e in t[1:]:
            n[e["ev"]] = n.get(e["ev"], 0) + 1
    ctx.extra["layout_epoch_combinations"] = len(traces)
    ctx.extra["events_by_kind"] = n
    ctx.extra["harness"] = out.strip().split("\n")[-1]
    ctx.assumptions += [
        "64-bit values are logged as 4x16-bit limbs; shifts, additions, sec*1000-epoch are computed in TLA+ on "
        "limbs (operators checked against integer arithmetic in the scaled exhaustive run)",
        "second truncation of the interval endpoints is time.Time.Unix() of the arguments (Go standard library)",
        "the calendar rendering inside the 24-character form is not specified, only length, digits and the "
        "round trip (as in the property); epochs 2000..9000 (Setup/UseEpoch only for epochs before 2262, "
        "which is as far as it can express them - reported), ids non-negative, interval ends within the "
        "timestamp width",
    ]
    return ctx.finish(
        rule="a trace is one (node width, node placement, epoch) combination; ids = boundary timestamps (0, "
             "2^k, width limit, calendar boundaries in Asia/Shanghai, the 2262 int64-nanosecond boundary) x "
             "boundary low bits, raw random ids; pairs = sorted neighbours, one-field changes, bit flips; "
             "intervals = boundary/random begins with 0..400 days length, sub-second parts, time arguments in 7 fixed "
             "zones (incl. +05:45, -03:30, +00:00:01) and 8 daylight-saving locations (embedded tzdata) with "
             "endpoints in and around every transition found by bisection: both occurrences of the repeated "
             "wall-clock span, the skipped span, +-1 s, mixed zones for begin and end",
        explanation="IDFields/IDParse/IDParseEx triples must recombine to the id; ids order as (timestamp, "
                    "remaining bits); FromChStyle(CnStyle(id)) = id with 24 digits; TimeIDRange/TimeBetweenID "
                    "must contain every id of the truncated interval and none before its first / after its "
                    "last second")
