"""C03 B-tree: BTree.tla (sorted-set semantics of every call of the wrapper and of the inner tree,
scan denotation, clone isolation, well-formedness of a node dump) and BTreeMech.tla (the real
algorithm transcribed: split / steal / merge / iterate, proved against BTree within small
constants) are model-checked; plans from BTree_Gen and seeded histories are executed on
ds/tree.BTree and ds/tree/btree.BTree; every recorded reply, the contents of every live handle
after every write and the node dumps are validated by BTree_Trace.

Hardening (generic, see tools/prompts/audit.txt): wrapper scan results are kept as returned and
rendered when the history / round is over in half of the histories and in every concurrent round;
free-list size (default / 0 / 1 / 2 / one list shared by many trees), degrees up to 64 and keys /
pivots at +-2^30 are plan dimensions; cold prologues (every call on a tree without a root, Clone
and Clear of the empty tree, Clear twice) and cold race rounds; re-entrant use from inside a scan
callback (reads of the same tree, writes to a clone sharing nodes); callbacks that panic (pscan);
readers of one frozen clone in parallel with writers of its siblings; a call that panics, never
returns (watchdog -> `stuck`) or kills the process (self-supervision -> `crash`) is an event the
spec rejects, never exit 2.

Audit 2: nil pivots (= no bound; also in BTreeMech), the same pivot twice, the zero value of
btree.BTree; item KINDS (struct / pointer / uncomparable slice type); returned scan slices are
scribbled over after rendering and the call repeated; node sizes around the 16-entry clearing blocks
and the 32-entry free list (degrees 8..33, free lists 31/32/33), one free list handed through
degrees 2 -> 8 -> 2; run-length encoded fill / drain / refill events with runs of 255/256/257 and
65535/65536/65537 items; a scan held inside its callback while a writer moves a node across its
cursor (gate rounds); Clone in every shape class; saturation (replace after every insert); and an
exhaustive breadth-first exploration on the real tree of every structure reachable with 9 (thorough
10) keys at degree 2 - for each recorded state every single ReplaceOrInsert / Delete / DeleteMin /
DeleteMax on a clone of its own (quick: a sample stratified by shape class)."""
import hashlib
import json
import os


def dedupe_prefix(plans):
    """tlc -simulate emits one file per candidate successor at the last level: keep one plan per
    distinct prefix (all lines but the last)."""
    seen, keep = set(), []
    for p in plans:
        lines = open(p).read().splitlines()
        h = hashlib.sha1("\n".join(lines[:-1]).encode()).hexdigest()
        if h in seen:
            os.remove(p)
            continue
        seen.add(h)
        keep.append(p)
    return keep


def run(ctx):
    fam = "btree"
    # 1. the design: sorted-set spec (scan algebra, write effect, isolation) ...
    ctx.tlc_mc(fam, "BTree", "BTree_MC.cfg", workers=4, coverage=ctx.thorough)
    # ... and the mechanism refines it: every reachable shape, every scan from every pivot
    ctx.tlc_mc(fam, "BTreeMech", "BTreeMech_MC.cfg", workers=4, coverage=ctx.thorough)
    ctx.tlc_mc(fam, "BTreeMech", "BTreeMech_MC_wrap.cfg", workers=4)
    # non-vacuity witnesses: a wrong exclusive descend, a missing root collapse, 3-level trees reached
    ctx.tlc_mc(fam, "BTreeMech", "BTreeMech_MC_bug.cfg", workers=1, expect_violation="ScanRefines")
    ctx.tlc_mc(fam, "BTreeMech", "BTreeMech_MC_bug2.cfg", workers=1, expect_violation="MechRefines")
    ctx.tlc_mc(fam, "BTreeMech", "BTreeMech_MC_depth.cfg", workers=2, expect_violation="Shallow")
    if ctx.thorough:
        ctx.tlc_mc(fam, "BTree", "BTree_MC_big.cfg", workers=16, timeout=3000)
        ctx.tlc_mc(fam, "BTreeMech", "BTreeMech_MC_big.cfg", workers=16, timeout=3000, heap="16g")
        ctx.tlc_mc(fam, "BTreeMech", "BTreeMech_MC_deg3.cfg", workers=16, timeout=3000, heap="16g")
        ctx.tlc_mc(fam, "BTreeMech", "BTreeMech_MC_wrap_big.cfg", workers=16, timeout=3000, heap="16g")
    # 2. plans out of the spec
    pdir, plans = ctx.tlc_plans(fam, "BTree_Gen", "BTree_Gen.cfg", num=ctx.q(40, 300), depth=40)
    plans = dedupe_prefix(plans)
    # 3. execute against the real code
    binary = ctx.go_build("c03")
    ctx.harness(binary, ["-plans", pdir, "-out", ctx.path("seq.ndjson"), "-conc", ctx.path("conc.ndjson"),
                         "-seed", ctx.seed, "-hist", ctx.q(40, 200), "-maxops", ctx.q(160, 400),
                         "-npar", ctx.q(12, 150), "-nconc", ctx.q(60, 1200), "-nstress", ctx.q(6, 100),
                         "-nrace", ctx.q(30000, 300000), "-nracekeep", ctx.q(900, 8000), "-racesecs", ctx.q(25, 120), "-shapeevery", ctx.q(2, 1), "-ngate", ctx.q(150, 1500), "-longruns",
                         "-bfskeys", ctx.q(9, 10), "-bfsper", ctx.q(12, 0),
                         "-sweep", ctx.q(4, 10), "-stats", ctx.path("stats.json")],
                timeout=1800, traces=[ctx.path("seq.ndjson"), ctx.path("conc.ndjson")])
    # 4. validate what the real code did
    seq = ctx.load_traces(ctx.path("seq.ndjson"))
    conc = ctx.load_traces(ctx.path("conc.ndjson"))
    rj = ctx.validate(fam, "BTree_Trace", "BTree_Trace.cfg", seq, label="sequential", chunk=25000,
                      timeout=1800)
    rj += ctx.validate(fam, "BTree_Trace", "BTree_Trace.cfg", conc, label="concurrent", chunk=8000,
                       timeout=1800, max_rejections=int(os.environ.get("VERIF_MAXREJ", "6")))
    ctx.judge(rj)
    stats = json.load(open(ctx.path("stats.json")))
    ctx.extra["plans"] = len(plans)
    ctx.extra["sequential_traces"] = len(seq)
    ctx.extra["concurrent_traces"] = len(conc)
    ctx.extra["harness_stats"] = stats
    ctx.assumptions += [
        "node dumps and the wrapped tree come from the verif hooks VerifDump / VerifInner (read-only copies)",
        "contents of a handle = an unbounded Ascend of the inner tree; Len() = its length counter",
        "parallel clones: per-goroutine logs are written one after the other (trees of different goroutines "
        "share nothing in the model, so every merge order is equivalent)",
        "concurrent wrapper histories: inv/res logged outside the wrapper's lock; TLC searches for a linearization",
        "race rounds: inv/res ordered by a global atomic sequence number drawn before the call / after its return; "
        "only rounds whose calls really overlapped are kept",
        "the generator picks 'present' keys from its own bookkeeping of the calls it issued, never from the tree",
        "limits n >= 0 only (a negative limit makes iterWalk panic in make(); outside the statement)",
        "re-entrant use is exercised only where the unchanged code guarantees it: reads of the same tree from a "
        "scan callback in ONE goroutine (recursive RLock without a waiting writer), writes only to another handle",
        "a panicking scan callback must leave the tree unchanged and usable (the wrapper unlocks in a defer); "
        "panics inside Less during a write are not exercised",
        "a nil pivot is 'no bound on that side' (iterate treats a nil start / stop as absent; Ascend / Descend are "
        "written that way); nil items for Get / Delete / ReplaceOrInsert panic on the unchanged code and are not used",
        "shape exploration: the real tree (Clone + dump signature) decides WHICH call sequences are recorded; every "
        "recorded trace is replayed from scratch on a fresh tree and judged by TLC",
        "watchdog: a library call that makes no progress for 20-30 s is logged as `stuck`; a runtime fatal error of "
        "the child process inside neptune is logged as `crash` by the supervising parent",
    ]
    return ctx.finish(
        rule="plans = TLC simulation of BTree.tla (12 keys, 3 handles, degree 2/3, wrapper and inner api; distinct "
             "by prefix) + seeded grow/churn/shrink histories (6..60 keys, every 11th 0..200; degrees 2,3,4,5,8; "
             "up to 4 clones) + parallel-clone programs + concurrent wrapper histories; scan sweeps from every "
             "key, gap and separator key; a trace is one tree lifetime",
        explanation="BTree.tla / BTreeMech.tla model-checked exhaustively; every reply recorded from the real "
                    "trees, the ascending contents and Len of every live handle after every write and the "
                    "well-formedness of every node dump must be a step of the spec")
