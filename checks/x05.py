"""X05 envelope (specification growth): mpb message framing (4-byte little-endian type tag <-> registered
message type, reserved tags for error Status and Empty, total decoding of arbitrary bytes) and errorx error
chains (wrap/unwrap, Is/As/Cause transparency, one stack, status code carried through the envelope).
Envelope.tla is model-checked exhaustively in three bounded instances (framing, error values, both), two
named deviations are shown to break the round trip / the single-stack rule, plans from Envelope_Gen and
seeded histories are run against the real packages, and every recorded call is validated by Envelope_Trace."""
import json
import os

import vlib


def describe(rj):
    ev = rj["event"]
    a = ev.get("a", {})
    return ("trace of source %r (np=%s, fingerprints %s): event #%d, %s %s, is not a step the envelope "
            "contract admits (all events before it were accepted)" %
            (rj["trace"][0].get("src"), rj["trace"][0].get("np"), rj["trace"][0].get("fps"), rj["line"],
             ev.get("ev"), {k: v for k, v in a.items() if k not in ("pd", "sd")}))


def run(ctx):
    fam = "envelope"
    # findings of this growth check live beside it (extras/), not in the shared known_findings.json
    kf = os.path.join(vlib.ROOT, "extras", "known_findings_x05.json")
    ctx.findings = [f for f in json.load(open(kf))["findings"]
                    if f.get("property") == ctx.pid and f.get("status") == "open"]
    # 1. the design, exhaustively: framing alone, error values alone, both together (tiny)
    ctx.tlc_mc(fam, "Envelope", "Envelope_MC.cfg", workers=4, coverage=ctx.thorough, label="framing")
    ctx.tlc_mc(fam, "Envelope", "Envelope_MC_err.cfg", workers=4, coverage=ctx.thorough, label="error values")
    ctx.tlc_mc(fam, "Envelope", "Envelope_MC_all.cfg", workers=4, label="both")
    # non-vacuity: what neptune does today about reserved fingerprints breaks the round trip; without the
    # has-stack test a chain collects stacks
    ctx.tlc_mc(fam, "Envelope", "Envelope_MC_bug.cfg", workers=1, expect_violation="MsgRoundTrip")
    ctx.tlc_mc(fam, "Envelope", "Envelope_MC_bug2.cfg", workers=1, expect_violation="SingleStack")
    if ctx.thorough:
        ctx.tlc_mc(fam, "Envelope", "Envelope_MC_big.cfg", workers=16, timeout=3000, label="framing, big")
        ctx.tlc_mc(fam, "Envelope", "Envelope_MC_err_mid.cfg", workers=8, timeout=3000, label="error values, mid")
        ctx.tlc_mc(fam, "Envelope", "Envelope_MC_err_big.cfg", workers=16, timeout=3000, heap="12g",
                   label="error values, big")
    # 2. plans out of the spec
    pdir, plans = ctx.tlc_plans(fam, "Envelope_Gen", "Envelope_Gen.cfg", num=ctx.q(300, 3000), depth=24)
    # 3. execute against the real packages
    binary = ctx.go_build("x05")
    out = ctx.harness(binary, ["-plans", pdir, "-out", ctx.path("t.ndjson"), "-seed", ctx.seed,
                               "-rand", ctx.q(250, 4000), "-maxops", ctx.q(60, 120),
                               "-nglobal", ctx.q(250, 1500)],
                      traces=[ctx.path("t.ndjson")])
    # 4. validate what the real code did
    traces = ctx.load_traces(ctx.path("t.ndjson"))
    by = {}
    for t in traces:
        by.setdefault(t[0].get("src", "?"), []).append(t)
    main = by.get("global", []) + by.get("plan", []) + by.get("rand", [])
    rj = ctx.validate(fam, "Envelope_Trace", "Envelope_Trace.cfg", main, label="calls", chunk=30000)
    rj += ctx.validate(fam, "Envelope_Trace", "Envelope_Trace.cfg", by.get("reserved", []),
                       label="reserved fingerprints", max_rejections=12)
    rj += ctx.validate(fam, "Envelope_Trace", "Envelope_Trace.cfg", by.get("alias", []),
                       label="caller writes into a frame", max_rejections=12)
    ctx.judge(rj, describe)
    ops = {}
    for t in traces:
        for e in t:
            op = e.get("a", {}).get("op")
            if op:
                ops[op] = ops.get(op, 0) + 1
    ctx.extra["plans"] = len(plans)
    ctx.extra["traces_by_source"] = {k: len(v) for k, v in by.items()}
    ctx.extra["calls_by_operation"] = ops
    ctx.extra["harness"] = out.strip().split("\n")[-1]
    ctx.assumptions += [
        "protobuf-go is trusted: what a payload decodes to as each type of the universe (pd) and as a "
        "google.rpc.Status (sd) is computed with proto.Unmarshal directly and given to the specification as "
        "a fact; message content is compared as deterministic protobuf-go encoding",
        "grpc's status.FromError defines which code/message an error carries (first status error of the "
        "Unwrap chain; message = Error() of the whole chain unless the outermost error is the status error)",
        "message types are six generated well-known types with a Fingerprint() field bolted on by embedding; "
        "fingerprints are configuration of a trace (64 % from a pool of byte-order-sensitive values, else random)",
        "the package-level default packer cannot be reset: it gets one long trace per run (source `global`)",
        "stack content is observed only as: present or not, printed how often and behind which message, and "
        "the function named by its first frame (four call sites in the harness)",
        "sequential only: MsgPacker is not synchronised and is documented to be filled in init()",
    ]
    return ctx.finish(
        rule="plans = TLC simulation of Envelope.tla (2 packers, 3 types, 3 error slots, abstract payloads made "
             "concrete with protobuf-go; distinct by content); histories = seeded random over 1-3 packers, 6 "
             "message types, 2-5 error slots, random fingerprints/contents/messages, inputs = received frames "
             "as is / cut / re-tagged / extended or synthesized; a trace is one set of fresh packers",
        explanation="Envelope.tla model-checked exhaustively; every reply of Register/Marshal*/Unmarshal*/To* and "
                    "every observable of each error value (Error, Unwrap chain, Cause, Is row, As, stack site, "
                    "%+v lines, %s/%v) recorded from the real packages must be admitted by the specification")
