"""C17 shard routing: the ReMap boundary algorithm model-checked for every shard count and every
hash of a scaled-down space (ShardAlg.tla) against the routing contract of Shard.tla; the contract
itself model-checked to be exactly "some partition into n consecutive intervals explains all
answers"; a sharded map behind ANY in-range, stable router model-checked equal to a plain map.
Routing observations of the real remap package (all key types, boundary-biased hashes, many shard
counts) and call histories of cache.WideMap / WideXHashMap / wide LRU facades are validated by
Shard_Trace.  Hardening: constructor arguments as dimensions (default prime, 1, 2, huge; LRU capacity 0 ..
MaxInt64), capacity-pressure histories per shard judged by LRU_Trace, cold-start routing rounds, input
buffers reused and checked unchanged, panics / hangs as events."""


def run(ctx):
    fam = "shard"
    # 1. the design
    #    a) the boundary algorithm refines the contract: all n in 1..256, all 8-bit hashes
    ctx.tlc_mc(fam, "ShardAlg", "ShardAlg_MC.cfg", workers=4, coverage=ctx.thorough)
    #    b) non-vacuity: the named deviations of the algorithm are rejected by the contract
    ctx.tlc_mc(fam, "ShardAlg", "ShardAlg_MC_bug_last.cfg", workers=1, expect_violation="Accepted")
    ctx.tlc_mc(fam, "ShardAlg", "ShardAlg_MC_bug_gt.cfg", workers=1, expect_violation="Accepted")
    ctx.tlc_mc(fam, "ShardAlg", "ShardAlg_MC_bug_mod.cfg", workers=1, expect_violation="ModAccepted")
    #    c) the contract = existence of a partition (neither weaker nor stronger)
    ctx.tlc_mc(fam, "Shard", "Shard_MC_route.cfg", workers=4)
    #    d) sharded map behind any in-range stable router == plain map; unstable router is not
    ctx.tlc_mc(fam, "Shard", "Shard_MC.cfg", workers=4, coverage=ctx.thorough)
    ctx.tlc_mc(fam, "Shard", "Shard_MC_bug.cfg", workers=1, expect_violation="Equiv")
    if ctx.thorough:
        ctx.tlc_mc(fam, "ShardAlg", "ShardAlg_MC_big.cfg", workers=16, timeout=1500, heap="12g")
        ctx.tlc_mc(fam, "Shard", "Shard_MC_route_big.cfg", workers=16, timeout=1500)
        ctx.tlc_mc(fam, "Shard", "Shard_MC_big.cfg", workers=16, timeout=1500)
    # 2. plans for the containers out of the spec
    pdir, plans = ctx.tlc_plans(fam, "Shard_Gen", "Shard_Gen.cfg", num=ctx.q(120, 1500), depth=16)
    # 3. execute against the real code
    binary = ctx.go_build("c17")
    rt, mp, rc, pr = (ctx.path("route.ndjson"), ctx.path("maps.ndjson"), ctx.path("races.ndjson"),
                      ctx.path("pressure.ndjson"))
    out = ctx.harness(binary, ["-plans", pdir, "-out", rt, "-maps", mp, "-races", rc, "-seed", ctx.seed,
                               "-pressure", pr, "-npress", ctx.q(200, 4000),
                               "-nneigh", ctx.q(2, 8), "-nmix", ctx.q(10, 300),
                               "-nrace", ctx.q(5000, 80000), "-nracekeep", ctx.q(1300, 20000),
                               "-nroutecold", ctx.q(100, 3000), "-nrand", ctx.q(16, 120), "-nextra", ctx.q(2, 24),
                               "-hist", ctx.q(150, 4000), "-maxops", ctx.q(60, 200)],
                      traces=[rt, mp, rc, pr])
    # 4. validate what the real code did
    route = ctx.load_traces(rt)
    maps = ctx.load_traces(mp)
    races = ctx.load_traces(rc)
    rj = ctx.validate(fam, "Shard_Trace", "Shard_Trace.cfg", route, label="routing", chunk=12000)
    rj += ctx.validate(fam, "Shard_Trace", "Shard_Trace.cfg", maps, label="containers", chunk=30000,
                       max_rejections=14)
    rj += ctx.validate(fam, "Shard_Trace", "Shard_Trace.cfg", races, label="races", chunk=20000)
    # every shard of a wide LRU kept at its capacity limit must evict as the unsharded LRU does
    press = ctx.load_traces(pr)
    rj += ctx.validate("lru", "LRU_Trace", "LRU_Trace.cfg", press, label="sharded-lru-pressure", chunk=20000)
    ctx.extra["pressure_traces"] = len(press)
    # sharded key lockers and semaphore maps must answer lock requests as the unsharded ones: the
    # schedules of C02 / C01 are replayed on the sharded variants only and judged by their trace specs
    # (KeyLockObs / Semap_Trace are the unsharded structures' contracts)
    b02 = ctx.go_build("c02")
    ctx.harness(b02, ["-out", ctx.path("lk-steps.ndjson"), "-stress", ctx.path("lk-stress.ndjson"), "-seed", ctx.seed,
                      "-rand", ctx.q(60, 800), "-nstress", ctx.q(4, 40), "-nprobe", ctx.q(4, 20),
                      "-probepairs", ctx.q(40, 200), "-only", "g-,gx-"],
                traces=[ctx.path("lk-steps.ndjson"), ctx.path("lk-stress.ndjson")])
    lk = ctx.load_traces(ctx.path("lk-steps.ndjson")) + ctx.load_traces(ctx.path("lk-stress.ndjson"))
    rj += ctx.validate("keylock", "KeyLockObs", "KeyLockObs.cfg", lk, label="sharded-lockers", chunk=20000)
    b01 = ctx.go_build("c01")
    ctx.harness(b01, ["-out", ctx.path("sm-steps.ndjson"), "-stress", ctx.path("sm-stress.ndjson"), "-seed", ctx.seed,
                      "-rand", ctx.q(60, 800), "-nstress", 0, "-nbatch", ctx.q(60, 0), "-sharded"],
                traces=[ctx.path("sm-steps.ndjson"), ctx.path("sm-stress.ndjson")])
    sm = ctx.load_traces(ctx.path("sm-steps.ndjson"))
    rj += ctx.validate("semap", "Semap_Trace", "Semap_Trace.cfg", sm, label="sharded-semaphores", chunk=20000)
    # sharded LRUs under capacity pressure: C04's wide histories (events routed per shard by the public
    # remap index) must behave, shard by shard, as the unsharded LRU of capacity cap/shards+1
    b04 = ctx.go_build("c04")
    ctx.harness(b04, ["-out", ctx.path("wl-seq.ndjson"), "-conc", ctx.path("wl-conc.ndjson"), "-seed", ctx.seed,
                      "-hist", 0, "-nconc", 0, "-nwide", ctx.q(60, 1200), "-maxops", ctx.q(80, 200),
                      "-nrace", 0, "-nracekeep", 0, "-nwrace", ctx.q(4000, 60000), "-nwracekeep", ctx.q(600, 8000)],
                traces=[ctx.path("wl-seq.ndjson"), ctx.path("wl-conc.ndjson")])
    wl = ctx.load_traces(ctx.path("wl-seq.ndjson")) + ctx.load_traces(ctx.path("wl-conc.ndjson"))
    rj += ctx.validate("lru", "LRU_Trace", "LRU_Trace.cfg", wl, label="sharded-lru", chunk=20000)
    ctx.extra["sharded_lru_traces"] = len(wl)
    ctx.extra["sharded_locker_traces"] = len(lk)
    ctx.extra["sharded_semaphore_traces"] = len(sm)
    ctx.judge(rj)
    ctx.extra["plans"] = len(plans)
    ctx.extra["routing_traces"] = len(route)
    ctx.extra["routing_observations"] = sum(len(t) - 1 for t in route)
    ctx.extra["shard_counts"] = sorted({t[0]["shards"] for t in route})
    ctx.extra["container_traces"] = len(maps)
    ctx.extra["container_variants"] = sorted({t[0]["variant"] for t in maps})
    ctx.extra["race_rounds_with_overlap"] = len(races)
    ctx.extra["harness_summary"] = out.strip().split("\n")[-1][:200]
    ctx.assumptions += [
        "the contract is the property by the letter: keyed routes (SimpleIndex / XHashIndex) are judged on "
        "totality (no panic), range and stability (same key, same shard count -> same index, also across "
        "ReMap instances); which in-range shard a key gets, and where the partition boundaries lie, is open",
        "the hash partition (SearchIndex) is judged on order-compatibility of all (hash, index) observations "
        "of a trace, which Shard_MC_route shows to be exactly 'some partition into n consecutive intervals'",
        "equal []byte keys = equal contents; HitGroup-only keys are not sent through the xxhash route "
        "(remap.ToBytes does not support them); shard count 0 is outside the property",
        "race rounds: inv/res sequence numbers are drawn outside the containers (before the call, after its "
        "return), so the logged order is consistent with real time; TLC searches for a linearization",
        "wide LRU facades: map-equivalence histories use at most capacity/shards+1 distinct keys (the per-shard "
        "capacity their constructors document), so no shard can be full wherever keys are routed; under "
        "pressure the calls are split by the public remap index and each shard is held to LRU.tla; negative "
        "capacities are outside (the unsharded LRU panics on them too); "
        "sharded key lockers / semaphore maps: the C02 / C01 schedules are replayed on the sharded variants "
        "only and judged by KeyLockObs / Semap_Trace (the unsharded structures' contracts)",
    ]
    return ctx.finish(
        rule="routing: per shard count (fixed list 1,2,3,4,5,64,73,211,255,256,1000,4096,10007,65535,65536,100003 + default "
             "+ seeded random) boundary-biased hashes (0, Max, powers of two, ideal boundaries -1/0/+1, random) "
             "through SearchIndex, the same patterns cast to all ten integer types, HitGroup/Bs implementers, "
             "strings / byte slices (empty, block-size, binary) through SimpleIndex and XHashIndex, half asked "
             "twice, a quarter of all calls through a fresh ReMap; containers: plans = TLC simulation of Shard.tla (distinct by "
             "content) under 10 concrete key schemes x variants, + seeded random histories over mixed-type keys; "
             "race rounds: fresh sharded container (1..3 shards, 6 variants), 2..4 goroutines released by a spin "
             "barrier, 1..3 calls each on 2..4 distinct keys, kept only if calls overlapped, closed by a sequential "
             "Get+Exist probe of every key (a fifth of the rounds on a container emptied again by removals, a fifth "
             "on one holding one entry); degenerate keys (empty string / Bs, zeros, nil []byte), key lengths "
             "2^j and +-1 (4..4096) named compactly, shard counts next to powers of two; long runs (255..65537 "
             "calls, one run-length encoded event) of Set with changing values / Get / Exist and of one routing "
             "question; several configurations alive at once asked alternately (A, B, back to A); value kinds: int, string, struct, pointer, slice, map, func, nil, "
             "struct-with-slice, typed nil pointer (LRUs: six types with Size()), one kind per history, mixed by id, "
             "or moving on with every Set; configurations: no option (73), 1, 2, 3 .. 100003 shards, LRU capacity "
             "far / 0 / 1 / n-1 / n / MaxInt64-1 / MaxInt64; pressure: 4 wide LRUs x 1..3 shards x capacity 0..3n+2, "
             "(capacity/n+3) keys per shard; cold-start routing: fresh ReMap x 2..4 goroutines x 5..10 questions",
        explanation="ShardAlg.tla (NewReMap table, sort.Search bisection, clamp, modulo) model-checked for all "
                    "n<=256 and all 8-bit hashes against the contract of Shard.tla; every index returned by the real "
                    "remap must satisfy the same contract (range, stability per key, order-compatibility of all "
                    "(hash,index) observations of SearchIndex); every reply of the real sharded containers must equal the plain map's, "
                    "for overlapping callers under some linearization consistent with real time")
