"""Independent oracle for the text denotations of specs/scalars/Digits.tla, written with python
big integers / fractions / regular expressions.  selftest() lets TLC judge a file of
(type, text, value, expected verdict) lines with the TLA+ operators; any disagreement is a
machinery error (exit 2): the specification, not neptune, would be wrong."""
import json
import random
import re
import sys
from fractions import Fraction

import vlib

if hasattr(sys, "set_int_max_str_digits"):
    sys.set_int_max_str_digits(0)          # "1e9000" is a legitimate (out of range) text

NUM = re.compile(r"^([+-]?)(\d*)(?:\.(\d*))?(?:[eE]([+-]?)(\d+))?$", re.ASCII)
BL = " \t\n\r"          # JSON white space may be ignored around a number
UNITS = {"ns": 1, "us": 10 ** 3, "µs": 10 ** 3, "μs": 10 ** 3, "ms": 10 ** 6, "s": 10 ** 9,
         "m": 60 * 10 ** 9, "h": 3600 * 10 ** 9}
NONE, FREE, SAME = "none", "free", "same"


def num(t):
    m = NUM.match(t)
    if not m or "\n" in t:
        return NONE
    sg, ip, fp, esg, ed = m.groups()
    fp = fp or ""
    if len(ip) + len(fp) == 0:
        return NONE
    mant = int(ip + fp)
    if mant == 0:
        return 0
    e = int(ed) if ed else 0
    if len(str(e)) > 4:
        return NONE
    if esg == "-":
        e = -e
    v = Fraction(mant, 10 ** len(fp)) * (Fraction(10) ** e)
    if v.denominator != 1:
        return NONE
    return -int(v) if sg == "-" else int(v)


COMP = re.compile(r"(\d*)(?:\.(\d*))?([^\d.]*)", re.ASCII)


def dur(t):
    if t == "" or "\n" in t:
        return NONE
    neg = t[0] == "-"
    body = t[1:] if t[0] in "+-" else t
    if body == "":
        return NONE
    if body == "0":
        return 0
    pos, total, exact = 0, 0, True
    while pos < len(body):
        m = COMP.match(body, pos)
        ip, fp, un = m.group(1), m.group(2) or "", m.group(3)
        if len(ip) + len(fp) == 0 or un not in UNITS:
            return NONE
        v = Fraction(int(ip + fp), 10 ** len(fp)) * UNITS[un]
        if v.denominator != 1:
            exact = False
        total += int(v)
        pos = m.end()
        if m.end() == m.start():
            return NONE
    if not exact:
        return FREE
    return -total if neg else total


def rad(t, base):
    neg = t[:1] == "-"
    b = t[1:] if t[:1] in ("+", "-") else t
    if base == 16 and len(b) >= 2 and b[0] == "0" and b[1] in "xX":
        b = b[2:]
    if b == "" or not all(c.isascii() and c.isalnum() and int(c, 36) < base for c in b):
        return NONE
    v = int(b, base)
    return -v if neg else v


B64 = "ABCDEFGHIJKLMNOPQRSTUVWXYZabcdefghijklmnopqrstuvwxyz0123456789+/"


def b64(t):
    s = t.replace("\r", "").replace("\n", "")
    pad = 2 if s.endswith("==") else 1 if s.endswith("=") else 0
    b = s[:len(s) - pad]
    if any(c not in B64 for c in b) or len(b) % 4 == 1:
        return NONE
    if pad and (len(b) + pad) % 4:
        return NONE
    bits = "".join(format(B64.index(c), "06b") for c in b)
    return [int(bits[8 * i:8 * i + 8], 2) for i in range(len(bits) // 8)]


def lst(t):
    if t.strip(BL) == "":
        return []
    r = [num(p.strip(BL)) for p in t.split("/")]
    if any(x == NONE for x in r):
        return NONE
    return r


def plain(s):
    return all(ord(c) >= 32 and c not in '"\\' for c in s)


def json_denote(kind, tok):
    if tok in ("null", ""):
        return SAME
    if tok in ("true", "false"):
        return NONE
    if len(tok) >= 2 and tok[0] == '"' and tok[-1] == '"':
        s = tok[1:-1]
        if not plain(s):            # escapes stand for the characters they name
            try:
                s = json.loads(tok)
            except ValueError:
                return NONE
            if not isinstance(s, str):
                return NONE
            if re.search(r"\\u[dD][89a-fA-F]", tok):
                return FREE
        t = s.strip(BL)
        if kind == "list":
            return lst(s)
        if t == "":
            return 0
        return num(t) if kind == "dec" else dur(t)
    d = num(tok)
    if kind == "list":
        return NONE if d == NONE else [d]
    return d


def denote(ty, tok):
    if ty in ("i64", "u64", "stamp", "unix", "nano"):
        return json_denote("dec", tok)
    if ty == "dur":
        return json_denote("dur", tok)
    if ty == "bytes":
        return json_denote("list", tok)
    if ty in ("hex16i", "hex16u"):
        return rad(tok, 16)
    if ty in ("hex32i", "hex32u"):
        return rad(tok, 32)
    if ty == "b64":
        return b64(tok)
    if ty in ("scannano", "scanunix"):
        return num(tok)
    if ty == "bytestext":
        return lst(tok)
    if ty == "durtext":
        return NONE if tok == "" else dur(tok)
    return NONE


# ---------------------------------------------------------------- rendering
def val(n, base=10):
    d, m = [], abs(n)
    while m:
        d.append(m % base)
        m //= base
    return {"neg": n < 0, "d": d[::-1]}


def render(ty, v):
    """value as the harness would report it; None if the type cannot hold it in the trace format"""
    if isinstance(v, list):
        if ty in ("bytes", "bytestext"):
            if all(0 <= x < 2 ** 31 for x in v):
                return v
            return None
        return v
    return val(v, 2 if ty.startswith("hex") else 10)


# ---------------------------------------------------------------- texts
def mag(r):
    edges = ["0", "1", "9", "10", "255", "256", "9223372036854775807", "9223372036854775808",
             "18446744073709551615", "18446744073709551616", "99999999999999999999", "4294967296"]
    k = r.randrange(3)
    if k == 0:
        return str(abs(int(r.choice(edges)) + r.randrange(-2, 3)))
    if k == 1:
        return str(r.randrange(10 ** r.randrange(1, 26)))
    return str(r.randrange(1000))


def junked(r, s):
    p = r.randrange(len(s) + 1)
    return s[:p] + r.choice("abexEXz._,:;+-/ #") + s[p:]


def numtext(r):
    k = r.randrange(10)
    s = r.choice(["", "", "-", "+"]) + "0" * r.choice([0, 0, 0, 1, 3]) + mag(r)
    if k < 3:
        return s
    if k < 6:
        m = mag(r) + "0" * r.randrange(4)
        p = r.randrange(len(m) + 1)
        s = r.choice(["", "-"]) + m[:p] + r.choice([".", ".", ""]) + m[p:]
        if r.randrange(3):
            s += r.choice("eE") + r.choice(["", "+", "-"]) + str(r.choice([0, 1, 2, 3, len(m) - p, len(m) - p + 1,
                                                                            len(m) - p - 1, 18, 19, 25, 400, 99999]))
        return s
    if k < 8:
        return junked(r, s)
    if k == 8:
        return " " * r.randrange(3) + s + " " * r.randrange(3)
    return r.choice(["", " ", ".", "e", "1e", "e1", "-", "+", "1.", ".1", "0.0", "-0", "1e-1", "10e-1", "0e99999", "--1"])


def durtext(r):
    def comp():
        ip = r.choice(["0", "1", "59", "100", "2562047", "9223372036854775807", "", str(r.randrange(10 ** 6))])
        fp = r.choice(["", "", ".5", ".25", ".854775807", ".000000001", ".", ".0", "." + str(r.randrange(1000))])
        un = r.choice(list(UNITS) + ["d", "", "S"]) if r.randrange(8) == 0 else r.choice(list(UNITS))
        return ip + fp + un
    s = r.choice(["", "", "-", "+"]) + "".join(comp() for _ in range(r.choice([1, 1, 2, 3, 6])))
    k = r.randrange(12)
    if k == 0:
        return junked(r, s)
    if k == 1:
        return r.choice(["0", "-0", "+0", "", "1", "s", ".s", "1.s", "00", "0.0"])
    return s


def radtext(r, base):
    al = "0123456789abcdefghijklmnopqrstuvwxyz"
    b = "".join(r.choice(al[:base]) for _ in range(r.randrange(1, 19)))
    if r.randrange(3) == 0:
        b = b.upper()
    s = r.choice(["", "", "-", "+"]) + r.choice(["", "", "0", "000", "0x", "0X"]) + b
    k = r.randrange(10)
    if k == 0:
        return junked(r, s)
    if k == 1:
        p = r.randrange(len(s) + 1)
        return s[:p] + r.choice(al[base:] or "_") + s[p:]
    if k == 2:
        return r.choice(["", "-", "+", "0x", "0", "-0", "x"])
    return s


def b64text(r):
    s = "".join(r.choice(B64) for _ in range(r.randrange(0, 15)))
    k = r.randrange(10)
    if k == 0:
        return s + "="
    if k == 1:
        return s + "=="
    if k == 2 and s:
        p = r.randrange(len(s))
        return s[:p] + r.choice(["-", "_", " ", "\n", "=", "\r\n", "."]) + s[p:]
    return s


def listtext(r):
    el = ["0", "1", "255", "256", "-1", "007", "+5", "65536", "18446744073709551616", "", " 1", "1 ", "a", "1.0",
          "1e2", "2.5", "1e0"]
    parts = [r.choice(el) if r.randrange(3) == 0 else str(r.randrange(256)) for _ in range(r.randrange(0, 6))]
    return r.choice(["/", "/", "/", "/", ","]).join(parts) + r.choice(["", "", "", "", "/"])


def esc(r, s):
    """the same string content written with JSON escapes (plus, rarely, other content / malformed escapes)"""
    out = []
    for c in s:
        k = r.randrange(10)
        if k < 3 and ord(c) < 0x10000:
            h = "%04x" % ord(c)
            out.append("\\u" + (h.upper() if r.randrange(2) else h))
        elif c == "/" and k < 6:
            out.append("\\/")
        else:
            out.append(c)
    k = r.randrange(12)
    extra = {0: "\\n", 1: "\\t", 2: '\\"', 3: "\\\\", 4: "\\b", 5: "\\u00b5s", 6: "\\u0661", 7: "\\ud800", 8: "\\x", 9: "\\u12"}.get(k)
    if extra is not None:
        p = r.choice([0, len(out)]) if k < 2 else r.randrange(len(out) + 1)
        out.insert(p, extra)
    return "".join(out)


def texts(r, ty):
    """a text for wrapper type ty (JSON token for the JSON wrappers)"""
    def tok(inner, bare_ok):
        k = r.randrange(12)
        if k == 0:
            return r.choice(["null", "true", "false", '""', '" "'])
        if k >= 10:
            return '"' + esc(r, inner) + '"'
        if k <= 2 and bare_ok:
            s = numtext(r)
            return s if s and " " not in s else '"' + s + '"'
        return '"' + inner + '"'
    if ty in ("i64", "u64", "stamp", "unix", "nano"):
        s = numtext(r)
        return tok(s, True) if plain(s) else '"1"'
    if ty == "dur":
        return tok(durtext(r), True)
    if ty == "bytes":
        return tok(listtext(r), True)
    if ty in ("hex16i", "hex16u"):
        return radtext(r, 16)
    if ty in ("hex32i", "hex32u"):
        return radtext(r, 32)
    if ty == "b64":
        return b64text(r)
    if ty in ("scannano", "scanunix"):
        return numtext(r)
    if ty == "bytestext":
        return listtext(r)
    return durtext(r)


TYPES = ["i64", "u64", "dur", "bytes", "hex16i", "hex32u", "b64", "scannano", "bytestext", "durtext", "nano"]


def judgements(seed, n):
    r = random.Random(seed)
    out = []
    for i in range(n):
        ty = TYPES[i % len(TYPES)]
        t = texts(r, ty)
        d = denote(ty, t)
        islist = ty in ("bytes", "bytestext", "b64")
        cur = [7, 77] if islist else val(7777, 2 if ty.startswith("hex") else 10)
        codes = list(t.encode("utf-8"))

        def ev(v, expect):
            out.append({"ev": "self", "ty": ty, "tok": codes, "cur": cur, "v": v, "expect": expect})
        if d == SAME:
            ev(cur, True)
            ev([] if islist else val(0), True)
            ev([7] if islist else val(1), False)
        elif d == FREE:
            ev([] if islist else val(r.randrange(1000)), True)
        elif d == NONE:
            ev([] if islist else val(0), False)
            digs = re.findall(r"\d+", t)
            if digs and not islist:
                ev(val(int(digs[0]), 2 if ty.startswith("hex") else 10), False)
            if islist:
                ev([int(x) % 256 for x in digs][:8], False)
        else:
            v = render(ty, d)
            if v is not None:
                ev(v, True)
            if islist:
                wrong = [x % 256 for x in d]
                if wrong != d:
                    ev(wrong, False)
                ev([x % 256 for x in d] + [0], False)
                if d:
                    w2 = [x % 256 for x in d]
                    w2[r.randrange(len(w2))] = (w2[0] + 1) % 256
                    if w2 != d:
                        ev(w2, False)
            else:
                base = 2 if ty.startswith("hex") else 10
                ev(val(d + r.choice([-1, 1]), base), False)
                ev(val(-d if d else 5, base), False)
                if abs(d) >= 10:
                    ev(val(int(str(abs(d))[1:] or "0"), base), False)      # a dropped digit
                    ev(val(d % 2 ** 64 if d >= 2 ** 64 else d // 10, base), False)
    return out


def selftest(ctx, fam, n):
    evs = judgements(ctx.seed, n)
    fn = ctx.path("selftest.ndjson")
    with open(fn, "w") as f:
        for e in evs:
            f.write(json.dumps(e, separators=(",", ":")) + "\n")
    mark, total, gen, dist, inv = ctx.tlc_trace(fam, "Scalars_Self", "Scalars_Self.cfg", fn)
    if mark <= total:
        e = evs[mark - 1]
        raise vlib.MachineryError(
            "denotation self-test: TLA+ operators and the python oracle disagree on line %d: type %s text %r "
            "value %r expected %r" % (mark, e["ty"], bytes(e["tok"]).decode("utf-8", "replace"), e["v"], e["expect"]))
    pos = sum(1 for e in evs if e["expect"])
    vlib.log("[selftest] %d judgements (%d accept, %d reject) agree with the python oracle" %
             (len(evs), pos, len(evs) - pos))
    ctx.extra["oracle_selftest_judgements"] = len(evs)
