"""X04 store/etcd watch state machine (WatchDir / Watcher): specs/etcdwatch/EtcdWatch.tla model-checked
(client design + three named deviations as non-vacuity witnesses + today's design explained by the
tolerant model); plans from EtcdWatch_Gen and seeded histories are executed step by step (global
quiescence) against the real WatchDir / Watcher over a scripted fake of the clientv3 KV / Watcher
interfaces; every recorded trace is validated by EtcdWatch_Trace.

Known findings (extras/known_findings_x04.json) are handled per *input class*, computed from the
environment steps of a trace only (what the driver did to the store / the watch / the consumer):
  R  a write lands between a served read and the registration of the watch
  D  a watch response carries more than one event
  G  Watcher: a key is deleted and a session dies (re-read cannot convey the deletion)
  L  Watcher: Stop while responses are still on their way to the consumer
Traces in no class are validated strictly.  Traces in a class are validated with exactly the deviations
of their classes tolerated (reset.dev) - anything else they do wrong is still a VIOLATION - and a sample
of each class is validated strictly: those rejections are the KNOWN-FINDING lines."""
import copy
import json
import os
import re


def classes(trace):
    mode = trace[0]["mode"]
    cl = set()
    get_ok = False       # a read was served and the watch of that session is not registered yet
    killed = False
    dels = False
    backlog = False      # something was sent towards the consumer since it last saw "empty"
    for ev in trace[1:]:
        a = ev.get("a", {})
        op = a.get("op")
        if op == "serveget":
            get_ok = bool(a.get("ok"))
        elif op == "servewatch":
            get_ok = False
            backlog = True                      # the snapshot is on its way
        elif op == "write":
            if get_ok:
                cl.add("R")
            if a.get("t") == "del":
                dels = True
        elif op == "flush":
            backlog = True
            if a.get("n", 1) >= 2:
                cl.add("D")
        elif op == "kill":
            killed = True
        elif op == "recv" and a.get("r", {}).get("k") == "empty":
            backlog = False
        elif op == "stop" and backlog and mode == "watcher":
            cl.add("L")
    if mode == "watcher" and killed and dels:
        cl.add("G")
    return cl


def run(ctx):
    fam = "etcdwatch"
    here = os.path.dirname(os.path.abspath(__file__))
    kf = os.path.join(here, "..", "extras", "known_findings_x04.json")
    ctx.findings = [f for f in json.load(open(kf))["findings"] if f.get("status") == "open"]

    # 1. the design, its three named deviations, and the tolerant model of today's code
    ctx.tlc_mc(fam, "EtcdWatch", "EtcdWatch_MC.cfg", workers=8, coverage=ctx.thorough)
    ctx.tlc_mc(fam, "EtcdWatch", "EtcdWatch_MC_bug_rev.cfg", workers=1, expect_violation="NoLoss")
    ctx.tlc_mc(fam, "EtcdWatch", "EtcdWatch_MC_bug_dup.cfg", workers=1, expect_violation="NoDup")
    ctx.tlc_mc(fam, "EtcdWatch", "EtcdWatch_MC_bug_snap.cfg", workers=1, expect_violation="NoStale")
    ctx.tlc_mc(fam, "EtcdWatch", "EtcdWatch_MC_today.cfg", workers=4)
    if ctx.thorough:
        ctx.tlc_mc(fam, "EtcdWatch", "EtcdWatch_MC_big.cfg", workers=16, timeout=3000, heap="16g")
    # 2. plans
    pdir, plans = ctx.tlc_plans(fam, "EtcdWatch_Gen", "EtcdWatch_Gen.cfg", num=ctx.q(180, 1200), depth=26)
    # 3. execute
    binary = ctx.go_build("x04")
    outp = ctx.path("x04.ndjson")
    ctx.harness(binary, ["-plans", pdir, "-out", outp, "-seed", ctx.seed, "-hist", ctx.q(176, 1500)],
                traces=[outp], timeout=1500)
    traces = ctx.load_traces(outp)
    # 4. validate
    clean, classed = [], []
    per = {}
    for t in traces:
        cl = classes(t)
        if not cl:
            clean.append(t)
            continue
        t2 = copy.deepcopy(t)
        t2[0]["dev"] = sorted(cl)
        classed.append(t2)
        for c in cl:
            per.setdefault(c, []).append(t)
    rj = ctx.validate(fam, "EtcdWatch_Trace", "EtcdWatch_Trace.cfg", clean, label="strict", chunk=20000)
    rj += ctx.validate(fam, "EtcdWatch_Trace", "EtcdWatch_Trace.cfg", classed, label="tolerant", chunk=20000)
    # strict sample of every class: single-class traces first, spread over all lengths
    nsample = ctx.q(16, 80)
    for c in sorted(per):
        ts = sorted(per[c], key=lambda t: (len(classes(t)), -len(t)))
        ts = [t for t in ts if len(classes(t)) == 1][:nsample] or ts[:nsample]
        rj += ctx.validate(fam, "EtcdWatch_Trace", "EtcdWatch_Trace.cfg", ts, label="strict-" + c,
                           chunk=20000, max_rejections=2)
    # the rejected trace of each known finding is kept as a replay (written once, never overwritten):
    # ./check X04 --replay extras/replays/X04-<class>.json re-validates it with the strict spec
    rdir = os.path.join(here, "..", "extras", "replays")
    os.makedirs(rdir, exist_ok=True)
    for r in rj:
        m = re.match(r"strict-([RDGL])$", r.get("label", ""))
        rp = os.path.join(rdir, "X04-%s.json" % m.group(1)) if m else None
        if rp and not os.path.exists(rp):
            with open(rp, "w") as fh:
                json.dump({"property": ctx.pid, "seed": ctx.seed, "tier": ctx.tier, "rejected_line": r["line"],
                           "rejected_event": r["event"], "label": r["label"], "validate_with": r["how"],
                           "explanation": "known finding X04-%s: the strict specification cannot explain "
                                          "event #%d of this trace recorded from the unchanged code"
                                          % (m.group(1), r["line"]),
                           "trace": r["trace"]}, fh, indent=1)
    ctx.judge(rj)
    ctx.extra["plans"] = len(plans)
    ctx.extra["traces"] = {"strict": len(clean), "tolerant": len(classed),
                           "per_class": {c: len(v) for c, v in sorted(per.items())}}
    modes = {}
    for t in traces:
        k = "%s/ign=%s/%s" % (t[0]["mode"], t[0]["ign"], re.sub(r"\d", "", t[0].get("src", "")))
        modes[k] = modes.get(k, 0) + 1
    ctx.extra["configurations"] = modes
    ctx.assumptions += [
        "etcd is a scripted fake of clientv3.KV / clientv3.Watcher injected into etcd.Client.eCli with "
        "reflect+unsafe (the field is unexported and /repo is not modified); one revision = one event",
        "Get and Watch calls of the client park in the fake until the driver serves them; global quiescence "
        "(internal/qx) after every step; a receive is a non-blocking read of the channel at quiescence",
        "leaked goroutines = goroutines with a frame of neptune/store/etcd that did not exist at the reset",
        "traces of a known-finding input class are validated with that deviation tolerated (reset.dev), a "
        "sample of each class strictly",
    ]
    return ctx.finish(
        rule="plans = TLC simulation of EtcdWatch (today's design, tolerant) + seeded histories in three "
             "styles (calm / wild / back-log then Stop) over 1..6 keys, 1..9 values, both modes, both "
             "ignoreEmpty settings; a trace is one WatchDir call or one Watcher life time",
        explanation="every action record (environment step, call seen by the fake etcd, first result, "
                    "every receive on the channel, Stop, goroutines left) must be a step of EtcdWatch "
                    "with Judge = TRUE")
