"""C06 id generators: IdGen.tla model-checked on a scaled layout (algorithm => contract for every clock
history, sequential and with overlapping callers; five named deviations - >= for >, no carry, restart
seeding only the time, nano >=, no mutex - each violate the contract), plans replayed on real goroutines
against snowflake.HardNode with the clock hook as a rendez-vous, seeded clock walks / bursts / restarts /
free-running goroutines and cold-start rounds on HardNode, MonoNode and the nano generators, one caller using
two nodes in turns, constructors with node numbers at and beyond the node width, layouts installed through the
public Setup as well as through the hook, layouts changed while generators live (the package's epoch
replaced under a living node, restarts with ids taken under the previous epoch, two nodes of different
layouts used in turns with each node's layout installed before it is called), runs of exactly 4095..8193
calls in one millisecond (65537 in the thorough tier), zero values of the nano types; every returned id validated by IdGen_Trace (contract layer only).
Every history runs under a watchdog: a call that never returns, a refused constructor and a panic are
events of their own kind that the contract rejects (never exit 2)."""


def run(ctx):
    fam = "idgen"
    ctx.tlc_mc(fam, "IdGen", "IdGen_MC.cfg", workers=4, coverage=ctx.thorough, label="sequential, all layouts")
    ctx.tlc_mc(fam, "IdGen", "IdGen_MC_conc.cfg", workers=4, label="two overlapping callers")
    devs = ("nocarry", "nomutex", "ge", "seedtime", "nanoge")
    for dev in (devs if ctx.thorough else devs[:2]):
        ctx.tlc_mc(fam, "IdGen", "IdGen_MC_bug_%s.cfg" % dev, workers=1, expect_violation="Contract",
                   label="witness: deviation %s" % dev)
    if ctx.thorough:
        ctx.tlc_mc(fam, "IdGen", "IdGen_MC_big.cfg", workers=16, timeout=3000, heap="16g",
                   label="sequential, 10 calls")
        ctx.tlc_mc(fam, "IdGen", "IdGen_MC_conc_big.cfg", workers=16, timeout=3000, heap="16g",
                   label="two overlapping callers, 6 calls")
    # unbounded design-level safety (extras/ind.md): IdGen_Ind restates the machine on integer fields;
    # TLC checks the refinement IdGen -> IdGen_Ind on the MC constants, Apalache the inductive invariant
    # for any step width M, any clock history, any number of calls
    ctx.tlc_mc(fam, "IdGen_IndRef", "IdGen_IndRef.cfg", workers=4, label="refinement IdGen -> IdGen_Ind, sequential")
    if ctx.thorough:
        ctx.tlc_mc(fam, "IdGen_IndRef", "IdGen_IndRef_conc.cfg", workers=4, label="refinement IdGen -> IdGen_Ind, two callers")
    ctx.apalache_ind(fam, "IdGen_Ind", cinit="CInit", timeout=300,
                     label="IdGen_Ind: algorithm => contract, inductive; M symbolic, 3 threads")
    for dev in (("NoCarry", "Ge", "SeedTime", "NanoGe") if ctx.thorough else ()):
        ctx.apalache_ind(fam, "IdGen_Ind", cinit="CInit" + dev, timeout=300, expect_violation=True,
                         label="IdGen_Ind witness: not inductive under deviation %s" % dev)
    pdir, plans = ctx.tlc_plans(fam, "IdGen_Gen", "IdGen_Gen.cfg", num=ctx.q(12, 150), depth=26)
    binary = ctx.go_build("c06")
    seqf, concf = ctx.path("seq.ndjson"), ctx.path("conc.ndjson")
    out = ctx.harness(binary, ["-plans", pdir, "-out", seqf, "-conc", concf, "-seed", ctx.seed,
                         "-hist", ctx.q(300, 4000), "-burst", ctx.q(4, 40), "-batch", ctx.q(3, 30),
                         "-mono", ctx.q(3, 12), "-monocalls", ctx.q(9000, 20000),
                         "-nano", ctx.q(40, 600), "-nconc", ctx.q(16, 96), "-perg", ctx.q(120, 200),
                         "-pair", ctx.q(40, 500), "-bad", ctx.q(16, 64), "-cold", ctx.q(200, 2500),
                         "-coldms", ctx.q(2000, 20000), "-longrun", ctx.q(0, 65537)],
                traces=[seqf, concf])
    seq = ctx.load_traces(seqf)
    conc = ctx.load_traces(concf)
    rj = ctx.validate(fam, "IdGen_Trace", "IdGen_Trace.cfg", seq, label="sequential+plans", chunk=150000)
    rj += ctx.validate(fam, "IdGen_Trace", "IdGen_Trace.cfg", conc, label="free-running", chunk=40000)
    ctx.judge(rj)
    import re
    ctx.extra["free_running_overlap"] = {
        m.group(1): {"calls": int(m.group(2)), "overlapped_with_another_call": int(m.group(3)),
                     "max_simultaneously_pending": int(m.group(4))}
        for m in re.finditer(r"overlap kind=([\w-]+) calls=(\d+) overlapped=(\d+) maxpending=(\d+)", out)}
    ctx.extra["plans"] = len(plans)
    ctx.extra["sequential_and_plan_traces"] = len(seq)
    ctx.extra["free_running_traces"] = len(conc)
    kinds = {}
    for t in seq + conc:
        k = "%s/%s" % (t[0].get("kind"), t[0].get("src", "").split(":")[0])
        kinds[k] = kinds.get(k, 0) + 1
    ctx.extra["traces_by_generator_and_source"] = kinds
    ctx.assumptions += [
        "ids and clock readings are logged as 4x16-bit limbs; fields are decoded in TLA+ (Shr/LowBits), "
        "the limb operators are checked against integer arithmetic in the scaled exhaustive run (LimbsOK)",
        "clock readings are kept inside the timestamp width of the layout (offset from the epoch < 2^tsbits "
        "- 2^20); readings before the epoch are included",
        "plans: global quiescence from runtime.Stack wait reasons (internal/qx); the clock hook blocks the "
        "caller inside Generate, later callers park on the node mutex",
        "free-running: 4-16 goroutines released by a spin barrier; every call takes a global atomic sequence "
        "number right before it is invoked and right after it returned (outside the generator's lock), "
        "per-goroutine buffers are merged by sequence number; one mover goroutine changes HardNode's clock, "
        "logging min(old,new) when a change begins and new when it is complete; nano: GenID (real clock), "
        "GenIDByTS and mixed, generator starting at 0 / now / ahead of the clock; overlap statistics in "
        "coverage.free_running_overlap",
        "cold-start rounds: a fresh generator first touched by 2-4 goroutines released together, 3-7 calls each; "
        "rounds are run until enough of them really overlapped (or the time budget ends), only those are kept",
        "epochs stay within 1678..2262 (NewNode converts the epoch through int64 nanoseconds; harness flag "
        "-farepochs adds epochs outside, which the unchanged tree does not survive - reported, not enabled)",
        "MonoNode reads the runtime's monotonic clock and cannot be given a trajectory: driven with tight "
        "loops (>4096 calls per ms, spin path) and concurrent callers only",
    ]
    return ctx.finish(
        rule="plans = TLC simulation of IdGen.tla (3 callers, clock -1..3, seeded/unseeded, restart) mapped to "
             "real layouts (8/9/10 node bits, node low/high, 8 epochs) and clock bases (before epoch, 0, "
             "2262 boundary, width limit); histories = seeded clock walks with stalls, jumps, bursts >4096, "
             "restarts with last / fabricated ids; a trace is one generator incarnation",
        explanation="every id returned by the real generators must exceed every id returned before its call "
                    "began (and the restart id), be distinct from overlapping calls' ids, carry the configured "
                    "node, and (wall clock) a timestamp not below the lowest clock reading during the call")
