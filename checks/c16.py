"""C16 stcp session: Session.tla (send loop, receive loop, exit body under exitOnce, accept bound,
Send / Close before Start) model-checked for every order of terminating events and life-cycle calls; plans from the spec and seeded random
schedules are executed step by step on real sessions over a scripted net.Conn (global quiescence
after every step, racing pairs fired without waiting), real servers on loopback sockets cover the
accept bound, real EOF / deadline behaviour and bulk transfers (megabytes accepted, local Close while
the kernel still holds them, slower reader) under the manager options drawn by the plans; every
recorded trace is validated by Session_Trace."""

# Zero-length Send: the property says that what Send accepted before a local Close reaches the
# peer.  Send(empty) is accepted (nil) by the pinned code, but the send loop treats the queued empty
# slice as invalid and ends the session, dropping everything queued behind it.  With EMPTY_SENDS the
# harness includes zero-length sends (the spec: accepted or refused, no effect either way).
EMPTY_SENDS = True

# Exit callbacks that end by panic(any value) / runtime.Goexit instead of returning: the pinned code
# runs OnExit first inside exitOnce.Do, so such an ending skips count.Dec, sendQ.Close and conn.Close
# (count stays, connection open, receive goroutine parked for ever).  The property lists a panic in
# the READ handler, not in the exit callback, so this is off by default (harness flag -exitend).
EXIT_ENDINGS = False


def dirty_sources():
    """Files of the code under test (stcp and the send queue it is built on) that differ from
    /repo's HEAD at build time: other builders mutate the shared tree, and a rejection must be
    attributable to the tree that was actually compiled."""
    import os
    import subprocess
    try:
        out = subprocess.run(["git", "-C", os.environ.get("VERIF_REPO", "/repo"), "status", "--porcelain", "--", "stcp", "syncx/pipe/q"],
                             stdout=subprocess.PIPE, stderr=subprocess.DEVNULL, timeout=30).stdout.decode()
    except Exception:
        return []
    return [ln.strip() for ln in out.splitlines() if ln.strip()]


def run(ctx):
    fam = "session"
    ctx.tlc_mc(fam, "Session", "Session_MC.cfg", workers=4, coverage=ctx.thorough)
    ctx.tlc_mc(fam, "Session", "Session_MC2.cfg", workers=4)
    ctx.tlc_mc(fam, "Session", "Session_MC2b.cfg", workers=4)
    ctx.tlc_mc(fam, "Session", "Session_MC_bug_pop.cfg", workers=1, expect_violation="Flush")
    ctx.tlc_mc(fam, "Session", "Session_MC_bug_noonce.cfg", workers=1, expect_violation="SingleExit")
    ctx.tlc_mc(fam, "Session", "Session_MC_bug_closequit.cfg", workers=1, expect_violation="CountBalanced")
    ctx.tlc_mc(fam, "Session", "Session_MC_live.cfg", workers=4)
    if ctx.thorough:
        ctx.tlc_mc(fam, "Session", "Session_MC_big.cfg", workers=16, timeout=3000, heap="16g")
        ctx.tlc_mc(fam, "Session", "Session_MC3.cfg", workers=16, timeout=3000, heap="16g")
    pdir, plans = ctx.tlc_plans(fam, "Session_Gen", "Session_Gen.cfg", num=ctx.q(200, 2500), depth=60)
    dirty = dirty_sources()
    binary = ctx.go_build("c16")
    dirty = sorted(set(dirty + dirty_sources()))
    if dirty:
        print("[note] built from a tree whose stcp / syncx/pipe/q sources differ from HEAD: %s" % dirty,
              flush=True)
    ctx.extra["sources_differing_from_head_at_build"] = dirty
    steps_f, free_f, race_f = ctx.path("steps.ndjson"), ctx.path("free.ndjson"), ctx.path("race.ndjson")
    ctx.harness(binary, ["-plans", pdir, "-out", steps_f, "-free", free_f, "-seed", ctx.seed,
                         "-rand", ctx.q(60, 1500), "-nfree", ctx.q(40, 500), "-nbulk", ctx.q(6, 30),
                         "-race", race_f, "-nrace", ctx.q(12000, 100000),
                         "-empty=%s" % ("true" if EMPTY_SENDS else "false")] + (["-exitend"] if EXIT_ENDINGS else []),
                traces=[steps_f, race_f, free_f])
    steps = ctx.load_traces(steps_f)
    free = ctx.load_traces(free_f)
    race = ctx.load_traces(race_f)
    rj = ctx.validate(fam, "Session_Trace", "Session_Trace.cfg", steps, label="scripted", chunk=12000)
    rj += ctx.validate(fam, "Session_Trace", "Session_Trace.cfg", free, label="loopback", chunk=6000)
    rj += ctx.validate(fam, "Session_Trace", "Session_Trace.cfg", race, label="race rounds", chunk=20000)
    ctx.judge(rj)
    ctx.extra["race_round_sessions"] = sum(t[0].get("n", 0) for t in race)
    ctx.extra["plans"] = len(plans)
    ctx.extra["scripted_traces"] = len(steps)
    ctx.extra["loopback_traces"] = len(free)
    ends = {}
    for t in steps + free:
        for e in t:
            a = e.get("a")
            if a and a["op"] in ("close", "wfault", "rfault", "panic"):
                k = a["op"] + (":" + a["k"] if a["op"] == "rfault" else "")
                ends[k] = ends.get(k, 0) + 1
    ctx.extra["terminating_events_executed"] = ends
    ctx.extra["flushes_observed_at_clean_eof"] = sum(
        1 for t in free for x in t[-1].get("obs", {}).get("ss", []) if x.get("eof") and x.get("got"))
    ctx.assumptions += [
        "global quiescence is read from runtime.Stack wait reasons (internal/qx); on loopback sockets the "
        "driver first waits for positive signals (handler called, OnExit called, client stream ended)",
        "scripted net.Conn honours the net.Conn contract: Close unblocks Read and Write; a command is "
        "applied atomically with respect to Close",
        "goroutines are attributed to a session by the 'created by ... in goroutine N' line of the "
        "runtime's stack dump (checked not to be vacuous at every session start)",
        "write timeouts are injected on the scripted connection only (a real one needs megabytes in flight)",
    ]
    return ctx.finish(
        rule="plans = TLC simulation of Session.tla (4 sessions, weighted actions, hold marks racing pairs) "
             "+ seeded random schedules (1..3 sessions, payloads 1..80 bytes, partial writes) on scripted "
             "connections (a third of them report an error from Close although they close; SetReadDeadline / "
             "SetWriteDeadline fail on command); loopback worlds: max 1..3 connections, up to 6 dials (single and bursts), ends by "
             "Close / client close / poison frames / 30 ms read deadline; every fifth world fills the "
             "server and fires bursts of 8..12 and 3..6 simultaneous surplus dials (each must be closed; a "
             "connection neither admitted nor closed after 10 s with the process quiescent is recorded as "
             "start r=hung, which no spec step explains); bulk worlds: one per write timeout drawn by the plans' init lines "
             "(300 ms .. 8 s) - 6..8 MB in 128 KB blocks through Server -> Do, Close at once, client reads "
             "64 KB per ms to the end of the stream and reports the intact blocks in order, the end kind and "
             "the tail; life-cycle orders on NewSession objects: Send / Close before Start, Close without "
             "Start, Close racing Start from two goroutines; a trace is one SessionMgr lifetime.  Race rounds: 12,000 (thorough "
             "100,000) tiny sessions in batches of 128, each with its reader parked in Read and its writer parked "
             "in Write, ended by ONE event that fails both calls at once (reset / peer close / both deadlines; one "
             "channel both wait on, in half of them a spin barrier before they return), no driver step between the "
             "two exits; per session OnExit calls and closed, per batch count before / while alive / after and "
             "goroutines left, in one compact event.  Long runs in one run-length-encoded event each: 255 / 256 / 257 and 65535 / 65536 / 65537 "
             "one-byte Sends to one session (half queued before Start) then Close with a reading peer; 127..129 and "
             "255..257 (thorough also 32767..32769, 65536) sessions alive at once on one manager.  Audit 2: Send(nil), "
             "the same slice sent twice, slices overwritten by the caller once everything was delivered, zero-length "
             "Session.Read, no manager handler at all when sessions bring their own, Session.Set with eleven dynamic "
             "kinds (incl. a typed-nil IKeyZap that panics inside the log call) under a logger that renders every "
             "statement, every exported error of io / net / os / the send queue plain and wrapped out of Read, Write "
             "and the handler, bulk payloads of k*4096 / 65536 / 1024 +- 1 bytes, the same Server object restarted with "
             "another limit while sessions carry over (reconf event).  The read handler ends in every way a callback can: return nil, every error "
             "kind, panic with a string / error / struct / int / typed nil / nil / nil error value, runtime.Goexit "
             "(drawn by plans; also as poison frames on sockets).  Audit additions: handlers "
             "that call Send / Close from inside Read and from inside OnExit (recorded by the handler, call + "
             "record serialized with the driver's), temporary-but-not-timeout errors, all sessions of a fresh "
             "manager started at the same moment, option extremes (timeouts negative / 0 / 1 ms / 2^30 ms on "
             "scripted connections; read deadline 0 / negative / 1 ms, write deadline 0 / negative, connection "
             "limit -1 / 0 / default / 2^31-1 on sockets), an exit racing a burst of dials, all sessions closed at "
             "the same moment, server stopped before its sessions, ConnCount sampled by a free-running reader "
             "during every burst and exit (min / max in the sync), Send's argument checked unchanged (inmut); "
             "calls into the code run under watchdogs and a call or goroutine that does not come back, an "
             "unknown RemoteAddr or a dead accept loop are recorded as stuck / alien / noaccept events",
        explanation="after every step: ConnCount, OnExit calls, connection closed, Write / Read in flight, "
                    "bytes at the peer and goroutines left per session must be the quiescent successor "
                    "state of Session.tla; on sockets: admitted/refused per dial, bytes read up to a clean "
                    "EOF - or, for a client that never sent anything, up to the end of the stream however it ended - "
                    "equal everything accepted when Close was the only ending event")
