"""C18 gormx.Transact: Transact.tla model-checked over every step list / fault placement within
small constants (right with the completion flag, wrong with the pinned `recover() != nil` rule),
plans (= the environment's choices) from Transact_Gen plus the harness' own exhaustive
enumeration and long random lists executed on a real gorm.DB over a fault-injecting in-process
database/sql driver; every recorded call validated event by event by Transact_Trace."""

import os


def describe(rj):
    ev = rj["event"]
    cfg = rj["trace"][0].get("cfg", {})
    outs = [s["out"] + ("+%d" % s["ex"] if s["ex"] else "") +
            ("/ends tx by %s" % s["fin"] if s.get("fin", "none") != "none" else "")
            for s in cfg.get("steps", [])]
    return ("Transact with %d argument(s), steps %s, begin=%s commit=%s rollback=%s, context cancelled at "
            "%s: event #%d %s is not a step of Transact.tla (events before it were accepted)" %
            (cfg.get("n", -1), outs, cfg.get("begin"), cfg.get("commit"), cfg.get("rollback"),
             {-1: "never", 0: "before the call"}.get(cfg.get("cancel", -1), "step %s" % cfg.get("cancel")),
             rj["line"], {k: v for k, v in ev.items() if k != "what"}))


def run(ctx):
    fam = "transact"
    # 1. the design, exhaustively; the pinned rule as non-vacuity witness
    ctx.tlc_mc(fam, "Transact", "Transact_MC.cfg", workers=4, coverage=ctx.thorough)
    ctx.tlc_mc(fam, "Transact", "Transact_MC_bug.cfg", workers=1, expect_violation="CommitIffAllOk")
    # ... with steps that end the transaction themselves and a context cancelled at any point
    ctx.tlc_mc(fam, "Transact", "Transact_MC_kill.cfg", workers=4, coverage=ctx.thorough)
    ctx.tlc_mc(fam, "Transact", "Transact_MC_bug2.cfg", workers=1, expect_violation="RetRight")
    if ctx.thorough:
        ctx.tlc_mc(fam, "Transact", "Transact_MC_big.cfg", workers=16, timeout=3000, heap="16g")
        ctx.tlc_mc(fam, "Transact", "Transact_MC_kill_big.cfg", workers=16, timeout=3000, heap="16g")
    # 2. plans out of the spec (line 1 = the environment's choices, rest = expected events)
    pdir, plans = ctx.tlc_plans(fam, "Transact_Gen", "Transact_Gen.cfg", num=ctx.q(400, 6000), depth=40)
    # 3. execute on the real code
    binary = ctx.go_build("c18")
    args = ["-plans", pdir, "-out", ctx.path("calls.ndjson"), "-seed", ctx.seed,
            "-enum", ctx.q(3, 4), "-enumfull", ctx.q(2, 3), "-rand", ctx.q(400, 6000),
            "-maxlen", ctx.q(12, 24), "-long", ctx.q(14, 42), "-longlen", ctx.q(300, 1000),
            "-rounds", ctx.q(60, 1500), "-widths", "256,65536"]
    # handles that already carry an error: before fix b8f299d Transact began a transaction for them and
    # returned the old error without finishing it (known_findings.json, fixed); exercised always
    args.append("-dberr")
    out = ctx.harness(binary, args)
    # 4. validate what the real code did
    calls = ctx.load_traces(ctx.path("calls.ndjson"))
    rj = ctx.validate(fam, "Transact_Trace", "Transact_Trace.cfg", calls, label="calls", chunk=40000)
    ctx.judge(rj, describe)
    ctx.extra["plans"] = len(plans)
    ctx.extra["calls"] = len(calls)
    ctx.extra["harness"] = out.strip().split("\n")[-1]
    by_src, outcomes = {}, {}
    for t in calls:
        by_src[t[0]["src"]] = by_src.get(t[0]["src"], 0) + 1
        last = t[-1]
        k = last["ev"] if last["ev"] != "ret" else "ret:" + last["r"]["kind"]
        outcomes[k] = outcomes.get(k, 0) + 1
    ctx.extra["calls_by_source"] = by_src
    ctx.extra["calls_by_answer"] = outcomes
    ctx.assumptions += [
        "database = in-process database/sql driver under gorm's MySQL dialector (Conn + "
        "SkipInitializeWithVersion); begin/exec/commit/rollback are what reaches that driver, so a "
        "second Rollback/Commit that database/sql answers with ErrTxDone is invisible (and harmless)",
        "harness module declares go 1.19 like neptune itself, so panic(nil) has pre-1.21 semantics "
        "(recover() returns nil); step outcome `exit` is runtime.Goexit",
        "a transaction ended behind Transact's back (a step commits / rolls back the handle it was given, "
        "or database/sql rolls back after the handle's context was cancelled; the cancelling step waits "
        "until that rollback reached the driver) makes Transact's own commit impossible: the caller must "
        "get a non-nil error even if the step committed successfully (decision stated in Transact.tla)",
        "after every call the harness logs `inuse` (connections of the pool still checked out; must be 0) "
        "and `inmut` (the argument list is unchanged); a call that does not come back within 10 s is a "
        "`hang` event, a statement nobody planned is an `exec` of step 0 - both rejected by the spec",
        "half of the calls on sharable handle states reuse one pool / gorm.DB across calls",
        "handles that already carry an error are a handle state like the others (Transact must not begin "
        "for them: defect repaired by b8f299d)",
        "the returned error is attributed to step i when it is (or wraps) the very value closure i "
        "returned; otherwise it is classified by errors.As/Is against the step / driver sentinels; 'describes "
        "the panic' = the error text contains the panic value's text",
    ]
    return ctx.finish(
        rule="one trace = one Transact call; plans = TLC simulation of Transact.tla (0..4 steps, 5 "
             "outcomes, 0..2 statements, step ends the transaction itself by commit/rollback or not, 0..2 "
             "arguments, begin/commit/rollback faults, context cancelled never / before the call / inside "
             "step k; distinct by content) "
             "+ exhaustive enumeration of all step lists up to length 3 (thorough 4) over 14 step variants "
             "and up to length 2 (3) over all 34 variants, each with every fault placement that matters and "
             "(lists up to 2 steps: every; longer: sampled) cancellation points "
             "+ every state of the db handle (plain, context, session, new-db session, debug, chained clauses, "
             "prepared statements by config / by session, SkipDefaultTransaction, dry run, pool of one "
             "connection; already a transaction, closed pool) x no steps passed in three ways / every "
             "one-step list, every kind of refusal (8) for begin / commit / rollback, nil functions as steps, "
             "steps that call Transact again on the handle they got, 14 (42) lists of up to 300 (1000) steps, "
             "60 (1500) rounds of 2..6 calls released together on one fresh pool (each one trace) "
             "+ lists of 255/256/257 and 65535/65536/65537 steps (run-length encoded events, padded cfg), the "
             "same function value standing at consecutive positions, no handle at all (nil / never opened "
             "gorm.DB), 11 kinds of panic value and errors of odd dynamic type (typed nil, uncomparable), "
             "queries as statements, rounds on pools of 1-2 connections, a caller whose context ends while "
             "it is parked in the pool waiting to begin "
             "+ seeded random lists up to 12 (24) steps; a failing step returns one of ~130 kinds of error "
             "(own, driver statement error, wrapped, nested Transact's, MySQL 1062/1105 duplicate, gRPC status, and "
             "every error value database/sql, database/sql/driver, gorm, go-sql-driver/mysql, context, io, net / "
             "os / syscall know by name, each plain and %w-wrapped; each kind is enumerated alone, before and "
             "after succeeding steps); the same values answer refused begins / commits / rollbacks - the specification treats them all alike; "
             "arguments are raw steps or (nested / empty) Combine groups",
        explanation="Transact.tla model-checked exhaustively; every driver event (begin, exec+in-tx flag, "
                    "commit, rollback), every step entry/exit and the returned error class of every real "
                    "call must be a step of the same specification actions")
