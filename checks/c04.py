"""C04 LRU caches: exhaustive TLC on specs/lru/LRU.tla, plans from LRU_Gen replayed into
cache.LRUCache / tiny.LRUCache / wide variants, every recorded trace validated by LRU_Trace.
Histories also vary the dynamic kinds of keys and values, reconfigure the cache mid-way, take it through
shape classes, and run past counter widths (run events: n calls as one event, applied by the trace
specification through the methods as functions, whole periods of a periodic run at once)."""


def run(ctx):
    fam = "lru"
    # 1. the design: exhaustive within small constants (+ coverage in thorough)
    ctx.tlc_mc(fam, "LRU", "LRU_MC.cfg", workers=4, coverage=ctx.thorough)
    if ctx.thorough:
        ctx.tlc_mc(fam, "LRU", "LRU_MC_big.cfg", workers=16, timeout=3000)
    # 1b. unbounded design-level safety (extras/ind.md): LRU_Ind restates the design on ranks instead of a
    # sequence; TLC checks the refinement LRU -> LRU_Ind method by method, Apalache proves IndInv inductive for
    # any capacity, charges and values (3 keys; thorough tier only: the step takes minutes)
    r0 = ctx.mc[0]
    ctx.tlc_mc(fam, "LRU_IndRef", "LRU_IndRef.cfg", workers=4, label="refinement LRU -> LRU_Ind")
    if ctx.thorough:
        r1 = ctx.tlc_mc(fam, "LRU_Ind", "LRU_Ind_MC.cfg", workers=4, label="LRU_Ind on its own, same constants")
        if r1["distinct"] != r0["distinct"]:
            from vlib import MachineryError
            raise MachineryError("LRU_Ind reaches %d states, LRU %d: the restated copy has drifted"
                                 % (r1["distinct"], r0["distinct"]))
        # Next = StepPut \/ StepSetNX \/ StepSetCap \/ StepRest: one run per part (5 min; as one run 13 min)
        for part in ("StepPut", "StepSetNX", "StepSetCap", "StepRest"):
            ctx.apalache_ind(fam, "LRU_Ind", next_=part, cinit="CInit", timeout=1800,
                             label="LRU_Ind: IndInv inductive under %s; capacity, charges, values symbolic, 3 keys" % part)
    # 2. plans out of the spec
    pdir, plans = ctx.tlc_plans(fam, "LRU_Gen", "LRU_Gen.cfg", num=ctx.q(220, 3000), depth=14)
    # 3. execute against the real code
    binary = ctx.go_build("c04")
    out = ctx.harness(binary, ["-plans", pdir, "-out", ctx.path("seq.ndjson"), "-conc", ctx.path("conc.ndjson"),
                         "-seed", ctx.seed, "-hist", ctx.q(180, 4000), "-nconc", ctx.q(50, 1500),
                         "-nwide", ctx.q(40, 800), "-maxops", ctx.q(80, 200),
                         "-nrace", ctx.q(100000, 1500000), "-nracekeep", ctx.q(2900, 60000), "-nbulk", ctx.q(150, 3000),
                         "-long", ctx.path("long.ndjson"), "-longchurn", ctx.q(65540, 131080), "-longtouch", ctx.q(65540, 131080),
                         "-nshape", ctx.q(80, -1)],
                traces=[ctx.path("seq.ndjson"), ctx.path("conc.ndjson"), ctx.path("long.ndjson")])
    # 4. validate what the real code did
    seq = ctx.load_traces(ctx.path("seq.ndjson"))
    conc = ctx.load_traces(ctx.path("conc.ndjson"))
    rj = ctx.validate(fam, "LRU_Trace", "LRU_Trace.cfg", seq, label="sequential", chunk=20000)
    rj += ctx.validate(fam, "LRU_Trace", "LRU_Trace.cfg", conc, label="concurrent", chunk=6000)
    # long runs (run-length encoded events): without TypeOK, whose duplicate-freedom
    # clause is quadratic in the number of entries - it is a property of the specification's own states and
    # is checked on all other traces and exhaustively above
    long = ctx.load_traces(ctx.path("long.ndjson"))
    rj += ctx.validate(fam, "LRU_Trace", "LRU_Trace_long.cfg", long, label="long runs", chunk=20000)
    ctx.judge(rj)
    import re
    m = re.search(r"race_rounds=(\d+) race_rounds_with_overlap=(\d+)", out)
    if m:
        ctx.extra["race_rounds_run"], ctx.extra["race_rounds_with_real_overlap_validated"] = int(m.group(1)), int(m.group(2))
    ctx.extra["plans"] = len(plans)
    ctx.extra["sequential_traces"] = len(seq)
    ctx.extra["concurrent_traces"] = len(conc)
    ctx.extra["long_run_traces"] = len(long)
    ctx.extra["long_run_calls"] = sum(e.get("n", 1) for t in long for e in t if e.get("ev") in ("run", "callr"))
    ctx.assumptions += [
        "wide variants: events are routed to per-shard traces with the public remap index (checked in C17)",
        "concurrent histories: inv/res logged outside the cache lock; TLC searches for a linearization",
    ]
    return ctx.finish(
        rule="plans = TLC simulation of LRU.tla (distinct by content); histories = seeded random over "
             "2..13 keys, sizes 0..cap+3, capacities 0..12 and capacities around counter widths (255..257, "
             "65535..65537, 2^24, 2^30, MaxInt64 carried as 2^30) with charges in proportion; 6 key "
             "representations (one of them look-alike keys of 28 dynamic kinds incl. nil and typed nil), "
             "11 value kinds (uncomparable slice/map/func, nil, typed nil); reconfiguration histories "
             "(one block of calls through SetCapacity down/up/0/Clear and back), shape-class histories "
             "(13 shapes x 13 structural operations), long runs (run-length encoded, 2^16+ evicting "
             "insertions / touches per cache type, Length/Size past 256); a trace is one cache lifetime",
        explanation="LRU.tla model-checked exhaustively (incl. its functional form FDo = Do and the lemma that "
                    "no method reads the eviction counter); every call's reply and full Keys/Items/Stats "
                    "projection recorded from the real caches must be a step of the spec; returned lists are "
                    "kept as returned, rendered late for half of the histories and written over once rendered")
