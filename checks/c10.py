"""C10 bytex typed stream: TypedStream.tla model-checked (round trip, truncation, agreement of the
buffer reader and the stream readers under every chunking; the two ReaderX deviations as witnesses),
plans from TypedStream_Gen and seeded histories executed on bytex.BufferX / bytex.ReaderX, every
recorded call validated by TypedStream_Trace."""


def run(ctx):
    fam = "typedstream"
    # 1. the design: exhaustive within small constants; named deviations must break Agreement
    ctx.tlc_mc(fam, "TypedStream_MC", "TypedStream_MC.cfg", workers=4, coverage=ctx.thorough)
    ctx.tlc_mc(fam, "TypedStream_MC", "TypedStream_MC_bug.cfg", workers=1, expect_violation="Agreement",
               label="FullRead=FALSE (one source Read per request)")
    ctx.tlc_mc(fam, "TypedStream_MC", "TypedStream_MC_bug2.cfg", workers=1, expect_violation="Agreement",
               label="ZeroLenOK=FALSE (zero-length body refused)")
    if ctx.thorough:
        ctx.tlc_mc(fam, "TypedStream_MC", "TypedStream_MC_big.cfg", workers=16, timeout=3000)
    # 2. plans out of the spec
    pdir, plans = ctx.tlc_plans(fam, "TypedStream_Gen", "TypedStream_Gen.cfg", num=ctx.q(120, 1500), depth=26)
    # 3. execute against the real code
    binary = ctx.go_build("c10")
    out = ctx.path("c10.ndjson")
    ctx.harness(binary, ["-plans", pdir, "-out", out, "-seed", ctx.seed, "-hist", ctx.q(150, 2500),
                         "-arb", ctx.q(300, 6000), "-maxitems", ctx.q(10, 14)], traces=[out])
    # 4. validate what the real code did
    traces = ctx.load_traces(out)
    rj = ctx.validate(fam, "TypedStream_Trace", "TypedStream_Trace.cfg", traces, label="typedstream",
                      chunk=20000)
    ctx.judge(rj)
    ctx.extra["plans"] = len(plans)
    ctx.extra["traces"] = len(traces)
    ctx.extra["traces_by_source"] = {
        k: sum(1 for t in traces if str(t[0].get("src", "")).startswith(k)) for k in ("plan", "hist", "arb")}
    ctx.assumptions += [
        "values are compared as opaque tokens rendered by the harness (16-bit limbs of the bit pattern, "
        "bytes of a string); the wire format is not specified, item widths are observed Len() deltas",
        "error identity is not compared (io.EOF / ErrByteBufferEmpty / ErrSizeLimit are all 'no value')",
        "a whole string refused only for the caller's limit leaves all readers at the same place inside the "
        "item (where is not specified): reading goes on from there and the readers must go on agreeing (LStep)",
        "a string read where any reader sees an announced length above 1 MiB goes through behind a limit of "
        "65535 for three probes per run; after that the open is given up (bounds the cost of a decoder that "
        "allocates before it checks); the source bytes each stream reader pulled are logged (`pulled`, informational)",
        "after the first refusal of a reader, and on content the items do not determine (arbitrary bytes, "
        "a partially rewritten item), only 'no panic' and 'all readers agree' are required",
        "ReaderX has no varint readers: its sources skip the bytes the buffer reader consumed for them",
        "an unlimited ReadString whose announced length exceeds 1 MiB (arbitrary bytes only) is issued "
        "with a limit instead: ReaderX allocates the announced length before reading",
        "ReWrite is exercised with 0 <= pos <= Len() (beyond that the slice expression panics by design)",
        "returned strings / byte slices (ReadString, ReadLimitString, ReadN, Read(p); BufferX and ReaderX) are "
        "kept as returned and rendered when the history is over, for every other history (the others render "
        "at once so that crash evidence stays flush-per-event); ZReadN results are documented as aliasing "
        "and are copied at once",
        "a reset event of a reused buffer carries the Len() it really has after Reset() / draining (spec: 0)",
        "how a source ends (io.EOF, io.ErrUnexpectedEOF, a foreign error, alone or together with the last "
        "bytes) and (0, nil) reads are fragmentation: every kind means 'no more bytes'; transient source "
        "errors in the middle of the data are outside the property",
        "stream sources are also the standard library's readers (bytes.Reader, strings.Reader, bufio.Reader, "
        "iotest.OneByteReader / HalfReader, io.MultiReader, bytes.Buffer), handed to NewReaderX as they are; "
        "a source may end with any exported error of io / bytes / bytex, plain or wrapped, after or with its "
        "last bytes (all mean 'no more bytes')",
        "in histories rendered at once the caller overwrites and appends into every slice ReadN returned and "
        "goes on reading; zero-length arguments are nil every other time; a raw slice is passed to Write twice",
        "bytex keeps no operation counters: runs of 255/256/257 writes+reads and of 255/256/257 write/read/empty "
        "cycles are plain events; 2^16 is met on payload lengths and on stream offsets (items straddling 65536)",
        "string / raw payloads above 256 bytes are logged by reference (<<-1, length, FNV-1a digest, first and "
        "last 4 bytes>>, the same function of the bytes for written and returned values); TLC compares them "
        "by reference and takes the length from the reference",
        "all decoders of one lifetime decode from the same byte array (srcmut: it must stay as it was)",
        "every call runs under a 20 s watchdog: a call that does not return is logged as pan = 2 (rejected) "
        "and the harness stops calling; a panic inside a constructor / Len / Bytes / Reset is a `panic` event",
        "ReadN / ZReadN with n <= 0 are issued only after the first refusal, where 'no panic' is all that is "
        "required; limits logged as 2^31-1 stand for the real arguments 2^31-1, 2^31 and 2^32-1 in turn",
    ]
    return ctx.finish(
        rule="plans = TLC simulation of TypedStream.tla (13 scalar types x 4 boundary values, strings, raw, "
             "limits, rewrites, truncating opens, 4 chunk sets); histories = seeded: 1..N typed writes over "
             "all 16 writers with boundary / random values, rewrites (exact u32 / raw replacement, arbitrary "
             "windows, overhang), read back on the written buffer itself and on copies truncated at every "
             "byte (sampled above 36 bytes), stream readers over sources delivering 1,2,3,4,5,7,8,9,16 "
             "bytes, everything, or irregular pieces; one BufferX lives through 1..3 such write / read-back "
             "cycles (emptied by Reset() or by draining to io.EOF; small capacities force data moves; some lifetimes write nothing or are given "
             "up after the writes; while a buffer is read back more items are written behind the unread ones), "
             "one lifetime in four is replayed unchanged on the recycled buffer; buffers are filled exactly "
             "to the capacity they were built with; rewrites on an empty buffer; plans run three to a buffer and carry payloads of 1025, 4095 and 8192 bytes; every fifth history has "
             "payloads of k*2^j and k*2^j+-1 bytes (2^j in 256..65536, k <= 4) as strings, limited strings and raw "
             "bytes, read through BufferX and up to five source modes; every constructor; sources that end in 4 ways and return (0, nil); arbitrary / damaged bytes to every reader",
        explanation="every typed read must return the written token and the remaining length the items "
                    "imply, a truncated or refused item must give no value from any reader, rewrite images "
                    "must differ exactly on the addressed bytes, every ReaderX must answer as BufferX, a value a "
                    "read handed out must still be that value after the buffer was reused, and a []byte passed "
                    "to Write / ReWrite must come back unchanged (inmut)")
