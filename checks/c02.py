"""C02 keylock: KeyLock.tla (table + RWMutex protocol, per-shard registration, multi-key calls)
model-checked for exclusion, reclaim, key independence and deadlock-freedom of ordered lists;
schedules replayed on the ten locker variants with global quiescence; observations judged by the
policy-free contract KeyLockObs.tla (TLC infers what parked multi-key callers already hold)."""


def run(ctx):
    fam = "keylock"
    ctx.tlc_mc(fam, "KeyLock_MC", "KeyLock_MC_small.cfg", workers=4, coverage=ctx.thorough)
    ctx.tlc_mc(fam, "KeyLock_MC", "KeyLock_MC_rot.cfg", workers=1, expect_violation="Deadlock reached")
    ctx.tlc_mc(fam, "KeyLock_MC", "KeyLock_MC_bug.cfg", workers=4, expect_violation="Reclaim")
    if ctx.thorough:
        ctx.tlc_mc(fam, "KeyLock_MC", "KeyLock_MC.cfg", workers=16, timeout=3000, heap="16g")
        ctx.tlc_mc(fam, "KeyLock_MC", "KeyLock_MC_any.cfg", workers=16, timeout=3000, heap="16g")
    # unbounded design-level safety (extras/ind.md): KeyLock_Ind restates the design without sequences; TLC
    # checks the refinement KeyLock -> KeyLock_Ind action by action, Apalache proves IndInv inductive for any
    # number of calls per process (the MC configs have Budget = 1); thorough tier only: the step takes minutes
    ctx.tlc_mc(fam, "KeyLock_IndRef", "KeyLock_IndRef_small.cfg", workers=4, label="refinement KeyLock -> KeyLock_Ind")
    if ctx.thorough:
        ctx.tlc_mc(fam, "KeyLock_IndRef", "KeyLock_IndRef_any.cfg", workers=4,
                   label="refinement KeyLock -> KeyLock_Ind, policy Any")
        ctx.apalache_ind(fam, "KeyLock_Ind", cinit="CInit", timeout=3000,
                         # the step run assumes IndInv at state 0 (IndInit): re-proving it there is waste
                         extra=["--tuning-options=search.invariantFilter=1->.*"],
                         label="KeyLock_Ind: IndInv inductive; any number of calls, 3 procs, 2 keys, GoRW")
        ctx.apalache_ind(fam, "KeyLock_Ind", cinit="CInitDev", timeout=3000, expect_violation=True,
                         label="KeyLock_Ind witness: not inductive when freeing ignores writers")
    pdir, plans = ctx.tlc_plans(fam, "KeyLock_Gen", "KeyLock_Gen.cfg", num=ctx.q(120, 1500), depth=40)
    binary = ctx.go_build("c02")
    ctx.harness(binary, ["-plans", pdir, "-out", ctx.path("steps.ndjson"), "-stress", ctx.path("stress.ndjson"),
                         "-seed", ctx.seed, "-rand", ctx.q(108, 2500), "-nstress", ctx.q(10, 150),
                         "-nprobe", ctx.q(5, 40), "-probepairs", ctx.q(60, 300),
                         "-nlong", ctx.q(12, 150), "-nretain", ctx.q(12, 60), "-nsim", ctx.q(600, 15000)],
                traces=[ctx.path("steps.ndjson"), ctx.path("stress.ndjson")])
    steps = ctx.load_traces(ctx.path("steps.ndjson"))
    stress = ctx.load_traces(ctx.path("stress.ndjson"))
    rj = ctx.validate(fam, "KeyLockObs", "KeyLockObs.cfg", steps, label="steps", chunk=20000)
    rj += ctx.validate(fam, "KeyLockObs", "KeyLockObs.cfg", stress, label="stress", chunk=20000)
    ctx.judge(rj)
    ctx.extra["plans"] = len(plans)
    ctx.extra["step_traces"] = len(steps)
    ctx.extra["stress_traces"] = len(stress)
    ctx.assumptions += [
        "global quiescence is read from runtime.Stack wait reasons (internal/qx)",
        "multi-key lists are duplicate-free and ascending in one global key order, as the property requires",
        "a starvation-free RW lock justifies every parked caller as KeyLockObs.Just states (checked against sync.RWMutex)",
    ]
    return ctx.finish(
        rule="plans = TLC simulation of KeyLock.tla (4 procs, 3 keys, 2 shards, 3 calls each; only the external "
             "call/unlock steps are replayed) + seeded random schedules (3..5 procs, 2..4 keys); 23 locker "
             "variants (interface{} keys as ints, strings, equal numbers of different integer types, unusual "
             "dynamic kinds incl. nil / typed nil / pointers / structs and remap's Bs / HitGroup types; "
             "generic lockers over int, string, struct, array, pointer, uint8, Bs and HitGroup key types) x "
             "shard counts 1,2,3,73; key lists handed over are written over after the call, empty lists are "
             "nil or empty; long runs (lock/unlock cycles and nested read locks by one goroutine: 255..257, "
             "65535..65537 as one event); free-running rounds in which all holders of a key unlock at one "
             "instant while callers are parked behind them and newcomers arrive",
        explanation="after every step the status vector (held/parked/idle) must admit an assignment of "
                    "already-held keys that is compatible, monotone and justifies every parked caller; a run "
                    "is issued only where nothing would justify waiting and must go through completely; "
                    "nothing retained and nobody parked at the end")
